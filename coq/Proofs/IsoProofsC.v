(* C08, part C: statement 1 (addressed requests), 3 (claim pending), 2 (broadcast: no negative acknowledgement is created),
   4 (dispatch), 5 (retry), 7 (what "always" does not cover). *)
From Coq Require Import ZArith List Bool Lia.
From N2kV Require Import Base.ListAux Model.CanId Model.Sched Model.PgnClass Model.NodeDefs Model.NodeRxDefs Gen.GenTables Gen.GenConsts
  Spec.SendSpec Spec.IsoSpec Proofs.SendProofs Proofs.QueueProofs Proofs.IsoProofsA Proofs.IsoProofsB.
Import ListNotations.
Local Open Scope Z_scope.

Lemma not_mandatory p : mandatory_pgn p = false -> (p =? 60928) = false /\ (p =? 126464) = false /\ (p =? 126996) = false /\ (p =? 126998) = false.
Proof.
  unfold mandatory_pgn. intros H. apply orb_false_iff in H. destruct H as [H H4]. apply orb_false_iff in H. destruct H as [H H3].
  apply orb_false_iff in H. destruct H as [H1 H2]. auto.
Qed.

(* ================= 1. addressed ================= *)
Theorem iso_addressed_answered : iso_addressed_answered_stmt.
Proof.
  unfold iso_addressed_answered_stmt. intros r requester p i Hp Hreq Hbus Hdrv Hprot Hfits Hrwf. cbv zeta.
  split; [intros Hman Hconf; apply respond_mandatory; assumption|].
  pose proof Hbus as (Ho & Hm & Hi & Hs & Hc).
  destruct (respond_prefix r i Hi Hc) as (P1 & P2 & S1 & Q1 & Q2). cbv zeta in *.
  set (n1 := fst (claim_started (rn r) i)) in *. set (r1 := with_rn r n1).
  assert (Hacc: forall a, match c_iso_handler (r_cfg r1) with
                          | Some acc => if negb true && is_ignore_broadcast_iso_request p then None else Some (existsb (Z.eqb p) acc)
                          | None => Some false end = Some (handler_accepts (r_cfg r) a) -> handler_accepts (r_cfg r) p = handler_accepts (r_cfg r) a) .
  { intros a. unfold handler_accepts. cbn [r1 with_rn r_cfg]. destruct (c_iso_handler (r_cfg r)); cbn [negb andb]; congruence. }
  assert (Hacc2: match c_iso_handler (r_cfg r1) with
                 | Some acc => if negb true && is_ignore_broadcast_iso_request p then None else Some (existsb (Z.eqb p) acc)
                 | None => Some false end = Some (handler_accepts (r_cfg r) p)).
  { unfold handler_accepts. cbn [r1 with_rn r_cfg]. destruct (c_iso_handler (r_cfg r)); reflexivity. }
  split.
  - intros Hman Hh. destruct (not_mandatory p Hman) as (E1 & E2 & E3 & E4).
    unfold respond_iso_request. rewrite P1, P2. fold r1. rewrite E1, E2, E3, E4, Hacc2, Hh. cbn [fst snd]. split; reflexivity.
  - intros Hman Hh. destruct (not_mandatory p Hman) as (E1 & E2 & E3 & E4).
    unfold respond_iso_request. rewrite P1, P2. fold r1. rewrite E1, E2, E3, E4, Hacc2, Hh.
    assert (Hbus1: on_bus (rn r1) i) by (apply (on_bus_nsim _ _ _ S1), Hbus).
    assert (Hdrv1: driver_accepts (rn r1)) by (destruct Hdrv as [A B]; split; cbn [r1 with_rn rn]; [rewrite Q2|rewrite Q1]; assumption).
    assert (Hpend: pending_flush n1 = pending_flush (rn r)) by (unfold pending_flush; rewrite Q1; reflexivity).
    set (m := {| m_pri := 6; m_pgn := 59392; m_src := 15; m_dst := requester; m_data := [1; 255; 255; 255; 255] ++ le_bytes 3 p; m_tp := false |}).
    assert (Hlen: length (m_data m) = 8%nat) by (cbn [m m_data]; rewrite app_length; unfold le_bytes; rewrite map_length, seq_length; reflexivity).
    destruct (rsend_answer r1 m i Hbus1 Hdrv1 eq_refl) as (r2 & ans & E & Er & S2 & Q & Hans);
      try (cbn [m m_pri m_pgn m_dst]; first [lia | reflexivity]).
    rewrite E. cbn [fst snd]. exists ans. split; [change (rn r1) with n1; rewrite Hpend; reflexivity|]. split; [exact Q|].
    unfold m_len in Hans. rewrite Hlen in Hans. cbn [m m_pri m_pgn m_dst m_data] in Hans.
    replace (6 >=? 128) with false in Hans by reflexivity. cbn [r1 with_rn rn] in Hans.
    destruct Hprot as [Hnak _]. rewrite (ns_pgn _ _ S1), Hnak in Hans. cbn [Z.of_nat Z.leb Z.compare Pos.of_succ_nat Pos.succ Pos.compare Pos.compare_cont andb negb] in Hans.
    destruct iso_answers_match_reference as (RN & _). rewrite RN in Hans. rewrite (ns_src _ _ S1) in Hans. exact Hans.
Qed.
Print Assumptions iso_addressed_answered.

(* ================= 3. claim pending ================= *)
Theorem iso_claim_pending_silent : iso_claim_pending_silent_stmt.
Proof.
  unfold iso_claim_pending_silent_stmt. intros r requester addressed p i Hc. unfold respond_iso_request.
  assert (Hrn: rn (chk_dev r i) = rn r) by (unfold chk_dev; destruct (_ && _); reflexivity).
  assert (Hrx: rx_dev (chk_dev r i) = rx_dev r) by (unfold chk_dev; destruct (_ && _); reflexivity).
  rewrite Hrn. unfold claim_started in *.
  destruct (sched_is_enabled (n_w64 (rn r)) (d_claim_timer (get_dev (rn r) i))); [|discriminate].
  destruct (sched_is_time (n_w64 (rn r)) (n_now (rn r)) (d_claim_timer (get_dev (rn r) i))); [discriminate|].
  cbn [with_rn rn rx_dev]. auto.
Qed.
Print Assumptions iso_claim_pending_silent.

(* ================= 2. broadcast ================= *)
Definition no_new_nak (q q':sring) (ev:list event) : Prop :=
  (forall id len data ok, In (EvTx id len data ok) ev -> frame_pgn id = 59392 ->
     exists f, In f (ring_contents q) /\ f_id f = id /\ f_len f = len /\ f_data f = data) /\
  (forall f, In f (ring_contents q') -> frame_pgn (f_id f) = 59392 -> In f (ring_contents q)) /\ ring_wf q'.

Lemma nnn_refl q : ring_wf q -> no_new_nak q q [].
Proof. intros H. split; [intros ? ? ? ? []|]. split; [auto|exact H]. Qed.

Lemma nnn_trans q q1 q2 e1 e2 : no_new_nak q q1 e1 -> no_new_nak q1 q2 e2 -> no_new_nak q q2 (e1 ++ e2).
Proof.
  intros (A1 & B1 & _) (A2 & B2 & W). split; [|split; [|exact W]].
  - intros id len data ok Hin Hp. apply in_app_or in Hin. destruct Hin as [Hin|Hin]; [apply (A1 _ _ _ _ Hin Hp)|].
    destruct (A2 _ _ _ _ Hin Hp) as (f & Hf & F1 & F2 & F3). exists f. split; [|auto]. apply B1; [exact Hf|]. rewrite F1. exact Hp.
  - intros f Hf Hp. apply B1; [|exact Hp]. apply B2; assumption.
Qed.

Lemma frame_pgn_id prio pgn src dst : id_args_ok prio pgn src dst -> (pdu1 pgn = true -> pgn mod 256 = 0) ->
  frame_pgn (to_can_id prio pgn src dst) = pgn.
Proof. intros H Hl. unfold frame_pgn. rewrite (id_decode prio pgn src dst H Hl). reflexivity. Qed.

Lemma send_msg_nsim n m idev : m_tp m = false -> nsim n (fst (fst (send_msg n m idev))).
Proof.
  intros Htp. rewrite (send_msg_notp _ _ _ Htp). unfold send_msg0.
  pose proof (gate_nsim n m idev) as SG. destruct (send_gate n m idev) as [n1 r]. cbn [fst] in SG.
  destruct r as [[[m' i] id]|]; [|exact SG].
  destruct (_ && _).
  - destruct (send_frame _ _ _ _ _ _) as [[[q d] ev] ok]. cbn [fst]. apply (nsim_trans _ _ _ SG), nsim_upd_q.
  - pose proof (nsim_gsc n1 i (m_pgn m')) as S2. destruct (get_sequence_counter n1 i (m_pgn m')) as [n2 sc]. cbn [fst] in S2.
    destruct (send_all _ _ _ _) as [[[q d] ev] ok]. cbn [fst]. apply (nsim_trans _ _ _ SG), (nsim_trans _ _ _ S2), nsim_upd_q.
Qed.

(* a send of one of the four mandatory PGNs creates no negative acknowledgement, whatever the driver does *)
Lemma rsend_nnn r m i r' ev ok :
  m_tp m = false -> ring_wf (n_q (rn r)) -> 0 <= i -> m_pri m = 6 ->
  (m_pgn m = 60928 \/ m_pgn m = 126464 \/ m_pgn m = 126996 \/ m_pgn m = 126998) ->
  0 <= d_src (get_dev (rn r) i) < 256 -> 0 <= m_dst m < 256 -> rsend r m i = (r', ev, ok) ->
  no_new_nak (n_q (rn r)) (n_q (rn r')) ev /\ nsim (rn r) (rn r') /\ r' = with_rn r (rn r').
Proof.
  intros Htp Hwf Hi Hpri Hpgn Hsrc Hdst E. unfold rsend in E.
  pose proof (send_msg_nsim (rn r) m i Htp) as S.
  destruct (send_msg (rn r) m i) as [[n' ev1] ok1] eqn:ES. cbn [fst] in S. injection E as <- <- <-.
  destruct (send_msg_origin _ _ _ _ _ _ Htp Hwf ES) as (W & _ & A & B & _).
  cbn [with_rn rn]. split; [|split; [exact S|reflexivity]].
  assert (Hid: frame_pgn (msg_id (rn r) m i) <> 59392).
  { unfold msg_id. destruct (Z.geb_spec i 0); [|lia]. rewrite Hpri.
    rewrite frame_pgn_id.
    - destruct Hpgn as [->|[->|[->| ->]]]; lia.
    - unfold id_args_ok. destruct (negb _); destruct Hpgn as [->|[->|[->| ->]]]; lia.
    - destruct Hpgn as [->|[->|[->| ->]]]; intros; try reflexivity; discriminate. }
  split; [|split; [|exact W]].
  - intros id len data okk Hin Hp. specialize (A _ Hin). cbn [from_queue_or] in A. destruct A as [A|A]; [exact A|]. congruence.
  - intros f Hf Hp. destruct (B f Hf) as [Hq|Hq]; [exact Hq|]. congruence.
Qed.

Lemma Forall_znth {A} (P:A -> Prop) l i d : Forall P l -> 0 <= i < Z.of_nat (length l) -> P (znth l i d).
Proof. intros H Hi. rewrite Forall_forall in H. apply H. unfold znth. apply nth_In. lia. Qed.

Lemma respond_broadcast_nnn r requester p i :
  0 <= requester < 256 -> 0 <= i < dev_count (rn r) -> ring_wf (n_q (rn r)) -> Forall (fun d => 0 <= d_src d < 256) (n_devs (rn r)) ->
  no_new_nak (n_q (rn r)) (n_q (rn (fst (respond_iso_request r requester false p i)))) (snd (respond_iso_request r requester false p i)).
Proof.
  intros Hreq Hi Hwf Hall. unfold respond_iso_request. rewrite (chk_dev_ok r i Hi).
  pose proof (nsim_claim (rn r) i) as S1. pose proof (claim_started_q (rn r) i) as [Q1 _].
  destruct (claim_started (rn r) i) as [n1 st]. cbn [fst] in S1, Q1.
  set (r1 := with_rn r n1).
  assert (Hsrc: forall n', nsim n1 n' -> 0 <= d_src (get_dev n' i) < 256).
  { intros n' S. rewrite (ns_src _ _ S), (ns_src _ _ S1). unfold get_dev. apply (Forall_znth _ _ _ _ Hall). exact Hi. }
  assert (Hwf1: ring_wf (n_q (rn r1))) by (cbn [r1 with_rn rn]; rewrite Q1; exact Hwf).
  assert (Hi1: 0 <= i < dev_count (rn r1)) by (cbn [r1 with_rn rn]; rewrite (ns_count _ _ S1); exact Hi).
  assert (G: forall res, no_new_nak (n_q (rn r1)) (n_q (rn (fst res))) (snd res) -> no_new_nak (n_q (rn r)) (n_q (rn (fst res))) (snd res)).
  { cbn [r1 with_rn rn]. rewrite Q1. auto. }
  destruct st; [apply G; cbn [fst snd]; apply nnn_refl; exact Hwf1|].
  destruct (p =? 60928).
  { apply G. unfold rsend_claim, send_iso_address_claim.
    replace ((255 =? 255) && (i =? -1)) with false by (destruct (Z.eqb_spec i (-1)); [lia|reflexivity]).
    destruct (Z.ltb_spec i 0); [lia|]. destruct (Z.geb_spec i (dev_count (rn r1))); [lia|]. cbn [orb].
    destruct (rsend r1 (claim_msg (get_dev (rn r1) i) 255) i) as [[r2 ev] ok] eqn:E.
    pose proof E as N. eapply rsend_nnn in N; [|reflexivity|exact Hwf1|lia|reflexivity|left; reflexivity|apply Hsrc, nsim_refl|cbn; lia].
    destruct N as (N & _ & Er).
    unfold rsend in E. destruct (send_msg (rn r1) (claim_msg (get_dev (rn r1) i) 255) i) as [[n' ev'] ok']. injection E as <- <- <-. exact N. }
  destruct (p =? 126464).
  { apply G.
    destruct (rsend r1 (pgn_list_msg r1 i requester 0 def_transmit_messages (d_tx (get_dev (rn r1) i))) i) as [[r2 ev1] ok1] eqn:E1.
    pose proof E1 as N1. eapply rsend_nnn in N1; [|reflexivity|exact Hwf1|lia|reflexivity|right; left; reflexivity|apply Hsrc, nsim_refl|exact Hreq].
    destruct N1 as (N1 & S2 & Er1).
    destruct (rsend r2 (pgn_list_msg r2 i requester 1 def_receive_messages (x_rx (get_devx r2 i))) i) as [[r3 ev2] ok2] eqn:E2.
    destruct N1 as (NA & NB & W2).
    pose proof E2 as N2. eapply rsend_nnn in N2; [|reflexivity|exact W2|lia|reflexivity|right; left; reflexivity|apply Hsrc, S2|exact Hreq].
    destruct N2 as (N2 & S3 & Er2).
    cbn [fst snd]. apply (nnn_trans _ (n_q (rn r2))); [split; [exact NA|split; [exact NB|exact W2]]|exact N2]. }
  destruct (p =? 126996).
  { apply G. unfold send_product_info. rewrite (chk_dev_ok r1 i Hi1).
    match goal with |- context [rsend r1 ?m i] => destruct (rsend r1 m i) as [[r2 ev] ok] eqn:E end.
    pose proof E as N. eapply rsend_nnn in N; [|reflexivity|exact Hwf1|lia|reflexivity|right; right; left; reflexivity|apply Hsrc, nsim_refl|cbn; lia].
    destruct N as (N & _ & _).
    cbn [fst snd]. unfold set_pending. replace (rn (with_devx (chk_dev r2 i) i _)) with (rn r2); [exact N|].
    unfold with_devx, chk_dev. destruct (_ && _); reflexivity. }
  destruct (p =? 126998).
  { apply G. destruct (c_confinfo (r_cfg r1)) as [|c0 cl]; [cbn [fst snd]; apply nnn_refl; exact Hwf1|].
    unfold send_config_info. rewrite (chk_dev_ok r1 i Hi1).
    match goal with |- context [rsend r1 ?m i] => destruct (rsend r1 m i) as [[r2 ev] ok] eqn:E end.
    pose proof E as N. eapply rsend_nnn in N; [|reflexivity|exact Hwf1|lia|reflexivity|right; right; right; reflexivity|apply Hsrc, nsim_refl|cbn; lia].
    destruct N as (N & _ & _).
    cbn [fst snd]. unfold set_pending. replace (rn (with_devx (chk_dev r2 i) i _)) with (rn r2); [exact N|].
    unfold with_devx, chk_dev. destruct (_ && _); reflexivity. }
  apply G. destruct (c_iso_handler (r_cfg r1)) as [acc|].
  - cbn [negb andb]. destruct (is_ignore_broadcast_iso_request p); [cbn [fst snd]; apply nnn_refl; exact Hwf1|].
    destruct (existsb (Z.eqb p) acc); cbn [fst snd].
    + split; [intros ? ? ? ? [H|[]]; discriminate|]. split; [auto|exact Hwf1].
    + apply nnn_refl. exact Hwf1.
  - cbn [fst snd]. apply nnn_refl. exact Hwf1.
Qed.

(* [injection] would normalise 1000000 + p into a match on the bits of p *)
Ltac pair_inv E :=
  let E1 := fresh in let E2 := fresh in
  pose proof (f_equal fst E) as E1; pose proof (f_equal snd E) as E2; cbn [fst snd] in E1, E2; clear E;
  match type of E1 with _ = ?x => subst x end; match type of E2 with _ = ?y => subst y end.

Theorem iso_broadcast_never_nak : iso_broadcast_never_nak_stmt.
Proof.
  unfold iso_broadcast_never_nak_stmt. intros r requester p i Hp Hreq Hi Hwf Hall.
  pose proof (respond_broadcast_nnn r requester p i Hreq Hi Hwf Hall) as (A & B & W).
  destruct (respond_iso_request r requester false p i) as [r' ev] eqn:ER. cbn [fst snd] in *.
  split; [exact A|]. split; [exact B|]. split; [exact W|]. split.
  - intros Hman Hbus Hdrv Hprot Hfits Hrwf Hconf. rewrite <- ER. apply respond_mandatory; assumption.
  - intros Hman Hc. destruct (not_mandatory p Hman) as (E1 & E2 & E3 & E4).
    destruct (respond_prefix r i Hi Hc) as (P1 & P2 & S1 & Q1 & Q2). cbv zeta in *.
    set (n1 := fst (claim_started (rn r) i)) in *.
    unfold respond_iso_request in ER. rewrite P1, P2, E1, E2, E3, E4 in ER.
    unfold handler_accepts. cbn [with_rn r_cfg] in ER.
    destruct iso_answers_match_reference as (_ & _ & _ & _ & RI & _). rewrite RI in ER.
    destruct (c_iso_handler (r_cfg r)) as [acc|]; cbn [negb andb] in ER.
    + destruct (existsb (Z.eqb p) ref_ignore_broadcast); [rewrite andb_false_r|rewrite andb_true_r].
      * pair_inv ER. split; [reflexivity|]. split; [exact Q1|exact Q2].
      * destruct (existsb (Z.eqb p) acc); pair_inv ER; (split; [reflexivity|]; split; [exact Q1|exact Q2]).
    + pair_inv ER. split; [reflexivity|]. split; [exact Q1|exact Q2].
Qed.
Print Assumptions iso_broadcast_never_nak.

(* ================= 2b. no configuration information ================= *)
Theorem iso_no_config_info : iso_no_config_info_stmt.
Proof.
  unfold iso_no_config_info_stmt. intros r requester i Hreq Hempty. split.
  - intros Hbus Hdrv Hprot. cbv zeta.
    pose proof Hbus as (Ho & Hm & Hi & Hs & Hc).
    destruct (respond_prefix r i Hi Hc) as (P1 & P2 & S1 & Q1 & Q2). cbv zeta in *.
    set (n1 := fst (claim_started (rn r) i)) in *. set (r1 := with_rn r n1).
    unfold respond_iso_request. rewrite P1, P2. fold r1. cbn [Z.eqb Pos.eqb].
    replace (c_confinfo (r_cfg r1)) with (@nil Z) by (symmetry; exact Hempty).
    assert (Hbus1: on_bus (rn r1) i) by (apply (on_bus_nsim _ _ _ S1), Hbus).
    assert (Hdrv1: driver_accepts (rn r1)) by (destruct Hdrv as [A B]; split; cbn [r1 with_rn rn]; [rewrite Q2|rewrite Q1]; assumption).
    assert (Hpend: pending_flush n1 = pending_flush (rn r)) by (unfold pending_flush; rewrite Q1; reflexivity).
    set (m := {| m_pri := 6; m_pgn := 59392; m_src := 15; m_dst := requester; m_data := [1; 255; 255; 255; 255] ++ le_bytes 3 126998; m_tp := false |}).
    assert (Hlen: length (m_data m) = 8%nat) by reflexivity.
    destruct (rsend_answer r1 m i Hbus1 Hdrv1 eq_refl) as (r2 & ans & E & Er & S2 & Q & Hans);
      try (cbn [m m_pri m_pgn m_dst]; first [lia | reflexivity]).
    rewrite E. cbn [fst snd]. exists ans. split; [change (rn r1) with n1; rewrite Hpend; reflexivity|]. split; [exact Q|].
    unfold m_len in Hans. rewrite Hlen in Hans. cbn [m m_pri m_pgn m_dst m_data] in Hans.
    replace (6 >=? 128) with false in Hans by reflexivity. cbn [r1 with_rn rn] in Hans.
    destruct Hprot as [Hnak _]. rewrite (ns_pgn _ _ S1), Hnak in Hans. cbn [Z.of_nat Z.leb Z.compare Pos.of_succ_nat Pos.succ Pos.compare Pos.compare_cont andb negb] in Hans.
    destruct iso_answers_match_reference as (RN & _). rewrite RN in Hans. rewrite (ns_src _ _ S1) in Hans. exact Hans.
  - intros Hi Hc. cbv zeta.
    destruct (respond_prefix r i Hi Hc) as (P1 & P2 & S1 & Q1 & Q2). cbv zeta in *.
    unfold respond_iso_request. rewrite P1, P2. cbn [Z.eqb Pos.eqb with_rn r_cfg]. rewrite Hempty. cbn [fst snd with_rn rn rx_dev]. auto.
Qed.
Print Assumptions iso_no_config_info.

(* ================= 4. dispatch ================= *)
Lemma find_src_none a : forall devs k, (forall j, (j < length devs)%nat -> d_src (nth j devs ddev) <> a) -> find_src devs a k = -1.
Proof.
  induction devs as [|d devs IH]; intros k H; cbn [find_src]; [reflexivity|].
  destruct (Z.eqb_spec (d_src d) a) as [E|E]; [exfalso; apply (H 0%nat); [cbn; lia|exact E]|].
  apply IH. intros j Hj. apply (H (S j)). cbn [length]. lia.
Qed.

Lemma find_src_first a : forall devs k i, (i < length devs)%nat -> d_src (nth i devs ddev) = a ->
  (forall j, (j < i)%nat -> d_src (nth j devs ddev) <> a) -> find_src devs a k = k + Z.of_nat i.
Proof.
  induction devs as [|d devs IH]; intros k i Hi Ha Hb; cbn [length] in Hi; [lia|]. cbn [find_src].
  destruct i as [|i].
  - cbn [nth] in Ha. rewrite Ha, Z.eqb_refl. cbn. lia.
  - destruct (Z.eqb_spec (d_src d) a) as [E|E]; [exfalso; apply (Hb 0%nat); [lia|exact E]|].
    rewrite (IH (k+1) i); [lia|lia|exact Ha|]. intros j Hj. apply (Hb (S j)). lia.
Qed.

Lemma respond_all_eq requester p : forall k r i, 0 <= i ->
  respond_all k r requester p i = broadcast_answers (map Z.of_nat (seq (Z.to_nat i) k)) r requester p.
Proof.
  induction k as [|k IH]; intros r i Hi; cbn [respond_all seq map broadcast_answers]; [reflexivity|].
  rewrite Z2Nat.id by exact Hi. destruct (respond_iso_request r requester false p i) as [r1 e1].
  rewrite IH by lia. replace (Z.to_nat (i + 1)) with (S (Z.to_nat i)) by lia. reflexivity.
Qed.

Theorem iso_dispatch : iso_dispatch_stmt.
Proof.
  unfold iso_dispatch_stmt. intros r s Hcomp. unfold complete in Hcomp.
  assert (Hp: (if (3 <=? s_len s) && (s_len s <=? 8) then (if 3 <=? Z.of_nat (length (s_data s)) then le3 (s_data s) 0 else 16777215) else 0) = requested_pgn s).
  { unfold requested_pgn. destruct ((3 <=? s_len s) && (s_len s <=? 8)) eqn:E; [|reflexivity].
    apply andb_true_iff in E. destruct E as [E _]. apply Z.leb_le in E.
    destruct (Z.leb_spec 3 (Z.of_nat (length (s_data s)))); [|lia]. reflexivity. }
  split; [|split; [|split]].
  - intros Hb. unfold requested_pgn. destruct (_ && _); [|lia].
    assert (G: forall k, 0 <= nth k (s_data s) 0 < 256).
    { intros k. destruct (nth_in_or_default k (s_data s) 0) as [H|H]; [|rewrite H; lia]. rewrite Forall_forall in Hb. apply Hb, H. }
    pose proof (G 0%nat). pose proof (G 1%nat). pose proof (G 2%nat). lia.
  - intros Hn Hno. unfold handle_iso_request.
    assert (E: find_source_device r (s_dst s) = -1).
    { unfold find_source_device. destruct (Z.leb_spec (s_dst s) 253); [|reflexivity].
      destruct Hno as [Hno|Hno]; [lia|]. apply find_src_none. intros j Hj.
      specialize (Hno (Z.of_nat j)). unfold get_dev, znth, dev_count in Hno. rewrite Nat2Z.id in Hno. apply Hno. lia. }
    rewrite E. destruct (Z.eqb_spec (s_dst s) 255); [contradiction|]. reflexivity.
  - intros Hd. unfold handle_iso_request. rewrite Hd. cbn [Z.eqb Pos.eqb negb andb]. rewrite Hp.
    rewrite respond_all_eq by lia. reflexivity.
  - intros i Hle (Hi & Ha & Hb). unfold handle_iso_request.
    assert (E: find_source_device r (s_dst s) = i).
    { unfold find_source_device. destruct (Z.leb_spec (s_dst s) 253); [|lia].
      unfold dev_count in Hi. rewrite (find_src_first (s_dst s) (n_devs (rn r)) 0 (Z.to_nat i)).
      - lia.
      - lia.
      - exact Ha.
      - intros j Hj. specialize (Hb (Z.of_nat j)). unfold get_dev, znth in Hb. rewrite Nat2Z.id in Hb. apply Hb. lia. }
    rewrite E, Hp. destruct (Z.eqb_spec (s_dst s) 255); [lia|]. destruct (Z.eqb_spec i (-1)); [lia|]. reflexivity.
Qed.
Print Assumptions iso_dispatch.

Theorem iso_system_dispatch : iso_system_dispatch_stmt.
Proof.
  unfold iso_system_dispatch_stmt. intros gf r s Hpgn.
  split; [intros c; unfold check_known; destruct (is_none (sf0 c)); destruct (is_none (fp0 c)); reflexivity|]. unfold handle_system. rewrite Hpgn. split.
  - intros [Hm|Hm] Hs; rewrite Hm, Hs; reflexivity.
  - intros [Hm|[Hm|Hm]]; rewrite Hm; [|reflexivity|reflexivity]. cbn [Z.eqb orb negb]. rewrite andb_false_r. reflexivity.
Qed.
Print Assumptions iso_system_dispatch.
