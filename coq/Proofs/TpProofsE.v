(* C10 - ISO transport protocol: library to library over a loss-free FIFO link, for every payload (tp_lib_to_lib_stmt). *)
From Coq Require Import ZArith List Bool Lia.
From N2kV Require Import Base.ListAux Model.CanId Model.Sched Model.PgnClass Model.NodeDefs Model.NodeRxDefs Gen.GenTables Gen.GenConsts
  Spec.SendSpec Spec.TpSpec Proofs.SendProofs Proofs.TpProofsA Proofs.TpProofsB Proofs.TpProofsC Proofs.TpProofsD.
Import ListNotations.
Local Open Scope Z_scope.
Local Ltac dm := Z.div_mod_to_equations; lia.

(* one transport frame through ParseMessages' frame handling, given what TestHandleTPMessage does with it *)
Lemma rx_one_tp gf r pgn src dst buf r1 ev : pgn = 60416 \/ pgn = 60160 -> 0 <= src < 256 -> 0 <= dst < 256 ->
  handle_tp (with_rxq r []) pgn src dst 8 buf = (true, r1, ev, nslots r1) ->
  rx_one gf r {| r_id := to_can_id 6 pgn src dst; r_len := 8; r_buf := buf |} = (r1, ev).
Proof.
  intros Hp Hs Hd E. unfold rx_one. cbn [rx_loop with_rxq r_q].
  change (with_rxq (with_rxq r [{| r_id := to_can_id 6 pgn src dst; r_len := 8; r_buf := buf |}]) []) with (with_rxq r []).
  unfold rx_frame. cbn [r_id r_len r_buf].
  rewrite (id_decode 6 pgn src dst) by (unfold id_args_ok; change (2^17) with 131072; destruct Hp as [-> | ->]; try reflexivity; lia).
  replace (pdu1 pgn) with true by (destruct Hp as [-> | ->]; reflexivity). cbv iota.
  rewrite E. destruct (Z.ltb_spec (nslots r1) (nslots r1)); [lia|]. rewrite app_nil_r. reflexivity.
Qed.

Lemma reassemble_chunks p : firstn (length p) (concat (map (chunk7 p) (seq 1 (Z.to_nat (npackets (Z.of_nat (length p))))))) = p.
Proof.
  rewrite chunks_concat, firstn_map, firstn_seq'.
  assert (L: (length p <= 7 * Z.to_nat (npackets (Z.of_nat (length p))))%nat) by (unfold npackets; dm).
  rewrite Nat.min_l by exact L. apply map_nth_all.
Qed.
Lemma chunks_length p n : length (concat (map (chunk7 p) (seq 1 n))) = (7 * n)%nat.
Proof. rewrite chunks_concat, map_length, seq_length. reflexivity. Qed.

Section L2L.
Variable gf : rnode -> slot -> rnode * list event.
Variables (ia ib:Z) (pm:msg) (srcA dstB pgn size g:Z) (payload:list Z).
Hypothesis Hsrc : 0 <= srcA <= 251.
Hypothesis Hdst : 0 <= dstB < 256.
Hypothesis Hpgn : 0 <= pgn < 2^24.
Hypothesis Hsize : 9 <= size <= 223.
Hypothesis Hpay : Z.of_nat (length payload) = size.
Hypothesis Hg : 1 <= g <= 5.
Hypothesis Hgrant : grant_of (npackets size) = g.
Hypothesis Hpm : m_src pm = srcA /\ m_dst pm = dstB /\ m_pgn pm = pgn /\ m_data pm = payload /\ dstB <> 255.
Let npk := npackets size.
Let dtf (k:nat) : rxframe := {| r_id := tp_dt_id srcA dstB; r_len := 8; r_buf := dt_frame payload k |}.
Let datak (k:nat) : list Z := concat (map (chunk7 payload) (seq 1 k)).

Definition b_inv (b:rnode) (j:nat) : Prop :=
  rx_session b 0 srcA dstB pgn size (Z.of_nat j) (datak j) npk g /\ rx_answer b dstB g ib /\ only_session b 0 srcA dstB /\
  s_system (znth (r_slots b) 0 slot0) = false.
Definition a_inv (a:rnode) (j:nat) : Prop := tp_pending a ia pm (Z.of_nat j) /\ addressed a srcA ia.

Lemma mlen_pm : m_len pm = size.
Proof. destruct Hpm as (_ & _ & _ & E & _). unfold m_len. rewrite E. exact Hpay. Qed.

Lemma frames_of_dts a c : flat_map as_frame (dt_events srcA dstB payload a c) = map dtf (seq (S a) c).
Proof. unfold dt_events. induction (seq (S a) c) as [|k l IH]; [reflexivity|]. cbn [map flat_map]. rewrite IH. reflexivity. Qed.

(* B takes one packet that is neither the last nor the end of a window *)
Lemma b_quiet_one b j : b_inv b j -> Z.of_nat j + 1 < npk -> (Z.of_nat j + 1) mod g <> 0 ->
  exists b', rx_one gf b (dtf (S j)) = (b', []) /\ b_inv b' (S j).
Proof.
  intros (Ses & Ans & Only & Sys) Hlt Hmod.
  assert (Ses0: rx_session (with_rxq b []) 0 srcA dstB pgn size (Z.of_nat j) (datak j) npk g) by exact Ses.
  assert (Ans0: rx_answer (with_rxq b []) dstB g ib) by exact Ans.
  pose proof (tp_dt_step (with_rxq b []) 0 srcA dstB pgn size (Z.of_nat j) (datak j) npk g ib (chunk7 payload (S j)) Ses0 Ans0 ltac:(lia) Hpgn (chunk7_length _ _)) as D.
  cbv zeta in D. destruct D as [D1 _]. destruct (D1 Hlt) as [E Hd]. rewrite Hd in E.
  destruct (Z.leb_spec 1 g); [|lia]. destruct (Z.eqb_spec ((Z.of_nat j + 1) mod g) 0); [contradiction|]. cbn [andb] in E.
  destruct (session_next (with_rxq b []) 0 srcA dstB pgn size (Z.of_nat j) (datak j) npk g ib (chunk7 payload (S j)) Ses0 Ans0 (chunk7_length _ _) Hlt) as [S3 A3].
  match type of E with _ = (_, ?x, _, _) => set (b' := x) in * end.
  assert (N: nslots b' = nslots (with_rxq b [])) by (unfold b', nslots; cbn [with_slots r_slots with_rxq]; rewrite zset_length; reflexivity).
  exists b'. split.
  - unfold dtf. rewrite <- (tp_dt_id_ok srcA dstB) by lia.
    apply rx_one_tp; [right; reflexivity|lia|lia|]. unfold dt_frame. rewrite Nat2Z.inj_succ. replace (Z.succ (Z.of_nat j)) with (Z.of_nat j + 1) by lia.
    rewrite E, N. reflexivity.
  - unfold b_inv. replace (Z.of_nat (S j)) with (Z.of_nat j + 1) by lia.
    assert (DK: datak (S j) = datak j ++ chunk7 payload (S j)).
    { unfold datak. rewrite seq_S, map_app, concat_app. cbn [map concat]. rewrite app_nil_r. reflexivity. }
    rewrite DK. split; [exact S3|split; [exact A3|split]].
    + intros k Hk Hne. cbv zeta. unfold b' in *. unfold nslots in Hk. cbn [with_slots r_slots with_rxq] in *. rewrite zset_length in Hk.
      unfold znth, zset. rewrite nth_set_nth'. destruct (Nat.eqb_spec (Z.to_nat k) (Z.to_nat 0)); [lia|]. cbn [andb].
      apply (Only k); [unfold nslots; lia|exact Hne].
    + unfold b'. cbn [with_slots r_slots with_rxq]. rewrite znth_zset_eq by (destruct Ses as (H0 & _); unfold nslots in H0; lia). cbn [received_slot s_system]. exact Sys.
Qed.

(* B takes a packet that is not the last: a CTS leaves exactly at the end of a window *)
Lemma b_step b j : b_inv b j -> Z.of_nat j + 1 < npk ->
  exists b', rx_one gf b (dtf (S j)) = (b', if (Z.of_nat j + 1) mod g =? 0 then [cm_event dstB srcA (cm_cts g (Z.of_nat j + 2) pgn)] else []) /\ b_inv b' (S j).
Proof.
  intros Inv Hlt. destruct (Z.eqb_spec ((Z.of_nat j + 1) mod g) 0) as [Hm|Hm]; [|apply b_quiet_one; assumption].
  destruct Inv as (Ses & Ans & Only & Sys).
  assert (Ses0: rx_session (with_rxq b []) 0 srcA dstB pgn size (Z.of_nat j) (datak j) npk g) by exact Ses.
  assert (Ans0: rx_answer (with_rxq b []) dstB g ib) by exact Ans.
  pose proof (tp_dt_step (with_rxq b []) 0 srcA dstB pgn size (Z.of_nat j) (datak j) npk g ib (chunk7 payload (S j)) Ses0 Ans0 ltac:(lia) Hpgn (chunk7_length _ _)) as D.
  cbv zeta in D. destruct D as [D1 _]. destruct (D1 Hlt) as [E Hd]. rewrite Hd in E.
  destruct (Z.leb_spec 1 g); [|lia]. rewrite Hm in E. cbn [Z.eqb andb] in E. unfold npk in E. rewrite Hgrant in E.
  destruct (session_next (with_rxq b []) 0 srcA dstB pgn size (Z.of_nat j) (datak j) npk g ib (chunk7 payload (S j)) Ses0 Ans0 (chunk7_length _ _) Hlt) as [S3 A3].
  match type of E with _ = (_, ?x, _, _) => set (b' := x) in * end.
  assert (N: nslots b' = nslots (with_rxq b [])) by (unfold b', nslots; cbn [with_slots r_slots with_rxq]; rewrite zset_length; reflexivity).
  exists b'. split.
  - unfold dtf. rewrite <- (tp_dt_id_ok srcA dstB) by lia.
    apply rx_one_tp; [right; reflexivity|lia|lia|]. unfold dt_frame. rewrite Nat2Z.inj_succ. replace (Z.succ (Z.of_nat j)) with (Z.of_nat j + 1) by lia.
    rewrite E, N. reflexivity.
  - unfold b_inv. replace (Z.of_nat (S j)) with (Z.of_nat j + 1) by lia.
    assert (DK: datak (S j) = datak j ++ chunk7 payload (S j)).
    { unfold datak. rewrite seq_S, map_app, concat_app. cbn [map concat]. rewrite app_nil_r. reflexivity. }
    rewrite DK. split; [exact S3|split; [exact A3|split]].
    + intros k Hk Hne. cbv zeta. unfold b' in *. unfold nslots in Hk. cbn [with_slots r_slots with_rxq] in *. rewrite zset_length in Hk.
      unfold znth, zset. rewrite nth_set_nth'. destruct (Nat.eqb_spec (Z.to_nat k) (Z.to_nat 0)); [lia|]. cbn [andb].
      apply (Only k); [unfold nslots; lia|exact Hne].
    + unfold b'. cbn [with_slots r_slots with_rxq]. rewrite znth_zset_eq by (destruct Ses as (H0 & _); unfold nslots in H0; lia). cbn [received_slot s_system]. exact Sys.
Qed.

Definition the_msg : msg := {| m_pri := 7; m_pgn := pgn; m_src := srcA; m_dst := dstB; m_data := payload; m_tp := true |}.

(* B takes the last packet: acknowledgement and one delivery *)
Lemma b_final b j : b_inv b j -> Z.of_nat j + 1 = npk ->
  exists b', rx_one gf b (dtf (S j)) = (b', [cm_event dstB srcA (cm_ack size npk pgn); EvDeliver the_msg]).
Proof.
  intros (Ses & Ans & Only & Sys) Heq.
  set (f := dtf (S j)). set (r := with_rxq b [f]).
  pose proof (tp_delivery_once gf r 0 srcA dstB pgn size (Z.of_nat j) (datak j) npk g ib (chunk7 payload (S j)) 6 0%nat) as D.
  specialize (D Ses Ans Only ltac:(lia) Hdst Hpgn ltac:(lia) (chunk7_length _ _) Heq Sys).
  assert (Q: r_q r = [{| r_id := to_can_id 6 60160 srcA dstB; r_len := 8; r_buf := Z.of_nat j + 1 :: chunk7 payload (S j) |}]).
  { unfold r, f, dtf, dt_frame. cbn [with_rxq r_q]. rewrite tp_dt_id_ok by lia. rewrite Nat2Z.inj_succ. replace (Z.succ (Z.of_nat j)) with (Z.of_nat j + 1) by lia. reflexivity. }
  specialize (D Q). unfold rx_one. fold r. destruct (rx_loop gf 1 r) as [r' ev]. destruct D as (E & _).
  exists r'. rewrite E. destruct (Z.leb_spec 1 g); [|lia]. cbn [app].
  assert (M: firstn (Z.to_nat size) (datak j ++ chunk7 payload (S j)) = payload).
  { assert (DK: datak j ++ chunk7 payload (S j) = datak (S j)).
    { unfold datak. rewrite seq_S, map_app, concat_app. cbn [map concat]. rewrite app_nil_r. reflexivity. }
    rewrite DK. unfold datak. rewrite <- Hpay, Nat2Z.id.
    replace (S j) with (Z.to_nat (npackets (Z.of_nat (length payload)))) by (rewrite Hpay; fold npk; lia).
    apply reassemble_chunks. }
  rewrite M, Heq. reflexivity.
Qed.

(* a run of packets inside a window *)
Lemma b_quiet : forall c j b a to_a rest dl fuel, b_inv b j ->
  (forall i, (1 <= i <= c)%nat -> Z.of_nat (j + i) < npk /\ Z.of_nat (j + i) mod g <> 0) ->
  exists b', b_inv b' (j + c) /\
    link gf (c + fuel) a b to_a (map dtf (seq (S j) c) ++ rest) dl = link gf fuel a b' to_a rest dl.
Proof.
  induction c as [|c IH]; intros j b a to_a rest dl fuel Inv Hq.
  - exists b. rewrite Nat.add_0_r. split; [exact Inv|reflexivity].
  - destruct (Hq 1%nat ltac:(lia)) as [Q1 Q2].
    destruct (b_quiet_one b j Inv ltac:(lia) ltac:(replace (Z.of_nat j + 1) with (Z.of_nat (j + 1)) by lia; exact Q2)) as (b1 & E1 & I1).
    destruct (IH (S j) b1 a to_a rest dl fuel I1) as (b2 & I2 & E2).
    { intros i Hi. replace (S j + i)%nat with (j + S i)%nat by lia. apply Hq. lia. }
    exists b2. split; [replace (j + S c)%nat with (S j + c)%nat by lia; exact I2|].
    cbn [Nat.add link seq map app]. rewrite E1. cbn [flat_map deliveries]. rewrite !app_nil_r. exact E2.
Qed.

Definition cts_frame (nxt:Z) : rxframe := {| r_id := tp_cm_id dstB srcA; r_len := 8; r_buf := cm_cts g nxt pgn |}.
Definition ack_frame : rxframe := {| r_id := tp_cm_id dstB srcA; r_len := 8; r_buf := cm_ack size npk pgn |}.

Lemma npk_bounds : 2 <= npk <= 32.
Proof. unfold npk. pose proof (npackets_bounds size Hsize). lia. Qed.

(* A serves a CTS *)
Lemma a_cts a j : a_inv a j -> Z.of_nat j < npk ->
  let c := Z.to_nat (Z.min g (npk - Z.of_nat j)) in
  exists a', rx_one gf a (cts_frame (Z.of_nat j + 1)) = (a', dt_events srcA dstB payload j c) /\ a_inv a' (j + c).
Proof.
  intros (P & A) Hlt c. destruct Hpm as (E1 & E2 & E3 & E4 & E5). pose proof npk_bounds as NB.
  assert (P0: tp_pending (with_rxq a []) ia pm (Z.of_nat j)) by exact P.
  assert (A0: addressed (with_rxq a []) srcA ia) by exact A.
  destruct (tp_cts_serves (with_rxq a []) ia pm (Z.of_nat j) dstB srcA g (Z.of_nat j + 1) pgn P0 ltac:(rewrite E2; exact E5) A0 (eq_sym E2) ltac:(lia) ltac:(lia) Hpgn ltac:(rewrite E3; exact Hpgn)) as (S1 & _ & _).
  specialize (S1 ltac:(symmetry; exact E3) ltac:(lia) eq_refl). cbv zeta in S1. rewrite mlen_pm, E1, E2, E4 in S1. fold npk in S1.
  rewrite Nat2Z.id in S1. fold c in S1.
  match type of S1 with _ = (_, ?x, _, _) => set (a' := x) in * end.
  exists a'. split.
  - unfold cts_frame. rewrite <- (tp_cm_id_ok dstB srcA) by lia. apply rx_one_tp; [left; reflexivity|lia|lia|]. rewrite S1. reflexivity.
  - split.
    + replace (Z.of_nat (j + c)) with (Z.of_nat j + Z.min g (npk - Z.of_nat j)) by (unfold c; lia).
      apply (pending_state (with_rxq a []) ia pm (Z.of_nat j)); [exact P0|rewrite mlen_pm; fold npk; lia].
    + apply addressed_tp_state. exact A0.
Qed.

(* A gets the acknowledgement *)
Lemma a_ack a j : a_inv a j -> exists a', rx_one gf a ack_frame = (a', []) /\ d_tp_msg (get_dev (rn a') ia) = None.
Proof.
  intros (P & A). destruct Hpm as (E1 & E2 & E3 & E4 & E5).
  assert (P0: tp_pending (with_rxq a []) ia pm (Z.of_nat j)) by exact P.
  assert (A0: addressed (with_rxq a []) srcA ia) by exact A.
  destruct (tp_ack_abort_timeout (with_rxq a []) ia pm (Z.of_nat j) P0 ltac:(rewrite E2; exact E5)) as (K1 & _ & _ & K4 & K5).
  exists (ended (with_rxq a []) ia). split; [|exact K5].
  unfold ack_frame. rewrite <- (tp_cm_id_ok dstB srcA) by lia. apply rx_one_tp; [left; reflexivity|lia|lia|].
  unfold cm_ack. rewrite (K1 dstB srcA 19 _ _ _ _ pgn A0 (eq_sym E2) (or_introl eq_refl)). reflexivity.
Qed.

Lemma mod_window j i : Z.of_nat j mod g = 0 -> 0 < i < g -> (Z.of_nat j + i) mod g <> 0.
Proof. intros H Hi. rewrite Z.add_mod by lia. rewrite H, Z.add_0_l, Z.mod_mod by lia. rewrite Z.mod_small by lia. lia. Qed.
Lemma mod_window_end j : Z.of_nat j mod g = 0 -> (Z.of_nat j + g) mod g = 0.
Proof. intros H. rewrite Z.add_mod by lia. rewrite H, Z.mod_same by lia. reflexivity. Qed.

(* from the start of a window to the end of the transfer *)
Lemma windows : forall n j a b fuel, (Z.to_nat npk - j <= n)%nat -> a_inv a j -> b_inv b j -> Z.of_nat j mod g = 0 -> Z.of_nat j < npk ->
  (2 * (Z.to_nat npk - j) + 3 <= fuel)%nat ->
  exists a' b', link gf fuel a b [cts_frame (Z.of_nat j + 1)] [] [] = (a', b', [the_msg], true) /\ d_tp_msg (get_dev (rn a') ia) = None.
Proof.
  induction n as [|n IH]; intros j a b fuel Hn Ia Ib Hmod Hlt Hfuel; [lia|].
  pose proof npk_bounds as NB.
  destruct fuel as [|k]; [lia|]. cbn [link].
  destruct (a_cts a j Ia Hlt) as (a1 & E1 & Ia1). cbv zeta in E1, Ia1. rewrite E1. rewrite frames_of_dts.
  remember (Z.to_nat (Z.min g (npk - Z.of_nat j))) as c eqn:Ec.
  destruct c as [|c']; [lia|].
  rewrite seq_S, map_app. cbn [map].
  replace k with (c' + (k - c'))%nat by lia.
  destruct (b_quiet c' j b a1 [] [dtf (S j + c')] [] (k - c')%nat Ib) as (b1 & Ib1 & E2).
  { intros i Hi. split; [lia|]. rewrite Nat2Z.inj_add. apply mod_window; [exact Hmod|lia]. }
  rewrite E2. replace (S j + c')%nat with (S (j + c')) by lia.
  destruct (Z.lt_ge_cases (Z.of_nat (j + S c')) npk) as [Hmore|Hend].
  - (* a full window, more to come *)
    assert (Cg: Z.of_nat (S c') = g) by lia.
    destruct (b_step b1 (j + c') Ib1 ltac:(lia)) as (b2 & E3 & Ib2).
    replace (Z.of_nat (j + c') + 1) with (Z.of_nat j + g) in E3 by lia. rewrite (mod_window_end j Hmod), Z.eqb_refl in E3.
    destruct (k - c')%nat as [|k2] eqn:EK; [lia|]. cbn [link]. rewrite E3. cbn [flat_map as_frame cm_event app deliveries].
    replace (S (j + c')) with (j + S c')%nat in Ib2 by lia.
    destruct (IH (j + S c')%nat a1 b2 k2 ltac:(lia) Ia1 Ib2) as (a' & b' & E4 & N4).
    + rewrite Nat2Z.inj_add, Cg. apply mod_window_end. exact Hmod.
    + exact Hmore.
    + lia.
    + exists a', b'. split; [|exact N4]. unfold cts_frame in E4. replace (Z.of_nat (j + c') + 2) with (Z.of_nat (j + S c') + 1) by lia. exact E4.
  - (* the last window *)
    assert (Cn: Z.of_nat (j + S c') = npk) by lia.
    destruct (b_final b1 (j + c') Ib1 ltac:(lia)) as (b2 & E3).
    destruct (k - c')%nat as [|k2] eqn:EK; [lia|]. cbn [link]. rewrite E3. cbn [flat_map as_frame cm_event app deliveries].
    destruct k2 as [|k3]; [lia|]. cbn [link].
    destruct (a_ack a1 (j + S c') Ia1) as (a2 & E4 & N4). fold ack_frame. rewrite E4. cbn [flat_map].
    destruct k3 as [|k4]; [lia|]. cbn [link].
    exists a2, b2. split; [reflexivity|exact N4].
Qed.
End L2L.

Lemma link_step_b gf k a b to_a f rest dl :
  link gf (S k) a b to_a (f :: rest) dl = let '(b', ev) := rx_one gf b f in link gf k a b' (to_a ++ flat_map as_frame ev) rest (dl ++ deliveries ev).
Proof. reflexivity. Qed.

Theorem tp_lib_to_lib : tp_lib_to_lib_stmt.
Proof.
  unfold tp_lib_to_lib_stmt. intros gf a b ia ib m Ra Hnone Hm Hlow Hbytes Rb Ab Aa Hne Hfree Hns Hok Hsys.
  pose proof Hm as (Htp & Hlen & Hpgn & Hpri & Hdst). change (2^17) with 131072 in Hpgn.
  destruct (tp_rts_announce (rn a) m ia Ra Hnone Hm Hlow Hne) as (E & Ra' & _). cbv zeta in E. rewrite E. clear E.
  pose proof Ra as (_ & _ & Hia & _ & _ & HsrcA & _).
  set (srcA := d_src (get_dev (rn a) ia)) in *. set (dstB := m_dst m) in *. set (pgn := m_pgn m) in *. set (size := m_len m) in *.
  set (pm := stored (rn a) ia m dstB).
  set (g := grant_of (npackets size)).
  pose proof (npackets_bounds size Hlen) as NB.
  assert (Hg: 1 <= g <= 5) by (unfold g, grant_of; lia).
  assert (Hpgn24: 0 <= pgn < 2^24) by (change (2^24) with 16777216; lia).
  set (a1 := with_rn a (ntp_state (rn a) ia (Some pm) (sched_from_now (n_w64 (rn a)) (n_now (rn a)) 50) 0 true)).
  (* invariants at the start *)
  assert (Ia: a_inv ia pm srcA a1 0).
  { unfold a_inv. split.
    - unfold tp_pending, a1. cbn [with_rn rn]. rewrite ntp_get by exact Hia. cbn [set_tp d_tp_msg d_next_dt_seq d_src].
      split; [exact Ra'|]. repeat split; try reflexivity; try (unfold pm, stored, m_len; cbn [m_data m_dst]; fold (m_len m); fold size; lia).
    - apply (addressed_tp_state a srcA ia ia). exact Aa. }
  cbn [flat_map as_frame cm_event app]. change 200%nat with (S 199). rewrite link_step_b.
  (* B answers the RTS *)
  pose proof (tp_rts_answered (with_rxq b []) ib srcA dstB size (npackets size) 255 pgn Rb Ab ltac:(lia) ltac:(lia) ltac:(lia) ltac:(lia) Hpgn24) as T.
  cbv zeta in T. destruct (check_known (n_pgn (rn (with_rxq b []))) pgn) as [[known sys] fast] eqn:CK.
  assert (Sys: sys = false).
  { change (n_pgn (rn (with_rxq b []))) with (n_pgn (rn b)) in CK. rewrite CK in Hsys. exact Hsys. }
  destruct (r_slots b) as [|s0 rest] eqn:SL; [unfold nslots in Hns; rewrite SL in Hns; cbn in Hns; lia|].
  assert (F0: s_free s0 = true /\ s_ready s0 = false) by (apply Forall_cons_iff in Hfree; destruct Hfree as [F _]; exact F).
  destruct F0 as [F0 R0].
  assert (RS: r_slots (with_rxq b []) = s0 :: rest) by exact SL.
  assert (REL: release pgn srcA dstB (s0 :: rest) = s0 :: rest).
  { unfold release. rewrite <- (map_id (s0 :: rest)) at 2. apply map_ext_in. intros s Hs. rewrite Forall_forall in Hfree. destruct (Hfree s Hs) as [Fs _].
    unfold stale. rewrite Fs. reflexivity. }
  assert (SF0: slot_for pgn srcA dstB (s0 :: rest) = 0).
  { unfold slot_for. cbv zeta. rewrite (first_idx_none (holds pgn srcA dstB) (s0 :: rest)).
    - destruct (Z.ltb_spec (Z.of_nat (length (s0 :: rest))) (Z.of_nat (length (s0 :: rest)))); [lia|]. cbn [first_idx]. rewrite F0. reflexivity.
    - intros j Hj. rewrite Forall_forall in Hfree. destruct (Hfree (nth j (s0 :: rest) slot0) (nth_In _ _ Hj)) as [Fs _]. unfold holds. rewrite Fs. reflexivity. }
  rewrite RS, REL, SF0 in T.
  destruct T as [T _]. specialize (T ltac:(unfold nslots; rewrite RS; cbn [length]; lia)).
  change (c_only_known (r_cfg (with_rxq b []))) with (c_only_known (r_cfg b)) in T. rewrite Hok in T.
  destruct (Z.leb_spec size 223); [|lia]. rewrite orb_true_r in T. cbn [andb negb] in T.
  match type of T with _ = (_, ?x, _, _) => set (b1 := x) in * end.
  assert (N1: nslots b1 = nslots (with_rxq b [])) by (unfold b1, nslots; cbn [with_slots with_rxq r_slots]; rewrite zset_length, SL; reflexivity).
  assert (E1: rx_one gf b {| r_id := tp_cm_id srcA dstB; r_len := 8; r_buf := cm_rts size 255 pgn |} = (b1, [cm_event dstB srcA (cm_cts g 1 pgn)])).
  { rewrite <- (tp_cm_id_ok srcA dstB) by lia. apply rx_one_tp; [left; reflexivity|lia|lia|]. unfold cm_rts. rewrite T, N1. reflexivity. }
  rewrite E1. cbn [flat_map as_frame cm_event app deliveries].
  assert (Ib: b_inv ib srcA dstB pgn size g (m_data m) b1 0).
  { unfold b_inv, b1. cbn [seq map concat Z.of_nat]. unfold zset, znth. cbn [Z.to_nat set_nth nth with_slots r_slots].
    split; [|split; [|split]].
    - unfold rx_session, nslots. cbn [with_slots r_slots length first_idx session_slot s_free s_tp s_dst s_src s_ready s_pri s_pgn s_len s_data s_last s_tpmax s_tpreq nth Z.to_nat].
      rewrite !Z.eqb_refl. cbn [negb andb]. repeat split; try reflexivity; try lia. unfold znth. cbn [Z.to_nat nth session_slot s_ready]. exact R0.
    - left. split; [lia|split; [exact Rb|exact Ab]].
    - intros k Hk Hne0. cbv zeta. unfold nslots in Hk. cbn [with_slots r_slots length] in Hk.
      unfold znth. destruct (Z.to_nat k) as [|k'] eqn:EK; [lia|]. cbn [nth].
      apply Forall_cons_iff in Hfree. destruct Hfree as [_ Fr].
      assert (Fk: s_free (nth k' rest slot0) = true).
      { rewrite Forall_forall in Fr. apply (Fr (nth k' rest slot0)). apply nth_In. cbn [length] in Hk. lia. }
      cbn [with_slots r_slots nth]. rewrite Fk. reflexivity.
    - cbn [session_slot s_system]. exact Sys. }
  assert (Hpm: m_src pm = srcA /\ m_dst pm = dstB /\ m_pgn pm = pgn /\ m_data pm = m_data m /\ dstB <> 255) by (repeat split; exact Hne).
  destruct (windows gf ia ib pm srcA dstB pgn size g (m_data m) ltac:(lia) Hdst Hpgn24 Hlen eq_refl Hg eq_refl Hpm
              (Z.to_nat (npackets size)) 0%nat a1 b1 199%nat ltac:(lia) Ia Ib ltac:(apply Z.mod_0_l; lia) ltac:(lia) ltac:(lia)) as (a' & b' & EL & NL).
  unfold cts_frame in EL. change (Z.of_nat 0 + 1) with 1 in EL. rewrite EL.
  repeat split; try reflexivity. exact NL.
Qed.
Print Assumptions tp_lib_to_lib.
