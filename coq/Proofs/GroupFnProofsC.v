(* C09 proofs, part C: the decision of the handlers against the reference answer: statements (b), (a), (c) *)
From Coq Require Import ZArith List Bool Lia.
From N2kV Require Import Base.ListAux Model.Sched Model.NodeDefs Model.NodeRxDefs Model.GroupFnDefs Spec.GroupFnSpec Gen.GenTables Gen.GenConsts
  Proofs.GroupFnProofsA Proofs.GroupFnProofsB.
Import ListNotations.
Local Open Scope Z_scope.

Lemma is_tx_ref e pgn : is_tx e pgn = ref_is_tx e pgn.
Proof. reflexivity. Qed.
Lemma is_proprietary_ref p : is_proprietary p = ref_proprietary p.
Proof.
  (* whatever boolean shape the translator read from the source: both sides are range tests on p *)
  unfold is_proprietary, is_proprietary_fast_packet, ref_proprietary. lia.
Qed.
Lemma has_handler_not_proprietary p : has_handler p = true -> ref_proprietary p = false.
Proof.
  unfold has_handler. intros H. repeat (apply orb_true_iff in H as [H|H]); apply Z.eqb_eq in H; subst p; reflexivity.
Qed.
Lemma prio_code_ref prio : prio_code prio = if ref_prio_ok prio then 0 else 1.
Proof. unfold prio_code, ref_prio_ok. destruct (prio =? 8), (prio =? 15), (prio =? 9); reflexivity. Qed.
Lemma byte_code_ok_n n : byte_ok n -> 0 <= n < 256. Proof. intros H; exact H. Qed.

(* the header as the getters see it *)
Lemma header_facts d fc pgn n : Forall byte_ok d -> ref_header d = Some (fc, pgn, n) ->
  byte_at d 0 = Some fc /\ get_byte d 0 = (fc, 1) /\ get_u24 d 1 = (pgn, 4) /\ byte_ok fc /\ 0 <= pgn < 16777216 /\ byte_ok n /\
  byte_at d (count_pos fc pgn) = Some n.
Proof.
  intros F H. unfold ref_header, ref_fc, ref_pgn in H.
  destruct (byte_at d 0) as [fc0|] eqn:B0; [|discriminate]. destruct (bytes_at d 1 3) as [v|] eqn:B1; [|discriminate]. cbn [option_map] in H.
  destruct (byte_at d (count_pos fc0 (le_val v))) as [n0|] eqn:Bn; [|discriminate]. injection H as X1 X2 X3. subst fc pgn n.
  pose proof (bytes_at_val_bound _ _ _ _ F B1) as Bv. change (256 ^ 3) with 16777216 in Bv.
  repeat split; try (apply get_byte_at; exact B0); try (apply (get_u24_at _ _ _ B1)); try lia.
  - apply (byte_at_ok _ _ _ F B0).
  - apply (byte_at_ok _ _ _ F B0).
  - apply (byte_at_ok _ _ _ F Bn).
  - apply (byte_at_ok _ _ _ F Bn).
  - exact Bn.
Qed.

Lemma acks_built a src pgn pe te n cs ack :
  ack_of a = Some (src, ack) -> ack = ack_start pgn pe te n ++ pack cs ->
  0 <= pgn < 16777216 -> code_ok pe -> code_ok te -> Forall code_ok cs -> n = Z.of_nat (length cs) -> 0 <= n < 256 ->
  acks_with a src pgn n (fun r => ak_pgnec r = pe /\ ak_tpec r = te /\ ak_codes r = cs).
Proof.
  intros Ha -> Hp Hpe Hte F Hn Hn2. unfold acks_with. eexists. eexists. split; [exact Ha|].
  rewrite (parse_ack_built pgn pe te n cs Hp Hpe Hte F Hn). split; [reflexivity|]. cbn [ak_pgn ak_n ak_pgnec ak_tpec ak_codes].
  repeat split; try reflexivity. apply ack_fits. lia.
Qed.
Lemma acks_weaken a src pgn n (P Q:ref_ack -> Prop) : (forall r, P r -> Q r) -> acks_with a src pgn n P -> acks_with a src pgn n Q.
Proof. intros PQ (ack & r & H1 & H2 & H3 & H4 & H5 & H6). exists ack, r. repeat split; try assumption. apply PQ, H6. Qed.

Ltac code_lit := unfold code_ok, pgnec_ok, pgnec_not_supported, pgnec_not_available, pgnec_rw_not_supported, tpec_ok, tpec_not_supported,
                        pec_ok, pec_not_supported; lia.

(* ---------- Request ---------- *)
Lemma request_getters d n iv ov : byte_at d 10 = Some n -> bytes_at d 4 4 = Some iv -> bytes_at d 8 2 = Some ov ->
  get_u32 d 4 = (le_val iv, 8) /\ get_u16 d 8 = (le_val ov, 10) /\ get_byte d 10 = (n, 11).
Proof. intros B Hi Ho. split; [apply (get_u32_at _ _ _ Hi)|]. split; [apply (get_u16_at _ _ _ Ho)|apply (get_byte_at _ _ _ B)]. Qed.

Lemma decide_request_table e g pgn n iv ov cs :
  Forall byte_ok (g_d g) -> 0 <= pgn < 16777216 -> byte_ok n -> has_table pgn = true ->
  byte_at (g_d g) 10 = Some n -> bytes_at (g_d g) 4 4 = Some iv -> bytes_at (g_d g) 8 2 = Some ov ->
  ref_codes (req_table e pgn) (g_d g) 11 (Z.to_nat n) = Some cs ->
  let ok := ref_interval_ok None (le_val iv) (le_val ov) in
  agrees (decide_fc e g 0 pgn) g pgn n
         (if all_ok cs && ok then RPgn pgn else if g_dst g =? 255 then RNothing else RAck pgnec_ok (if ok then tpec_ok else tpec_not_supported) cs).
Proof.
  intros F Hp Hn HT B Hi Ho R ok. destruct (request_getters _ _ _ _ B Hi Ho) as (E1 & E2 & E3).
  unfold decide_fc. cbn [Z.eqb]. rewrite E1, E2, E3. cbv beta iota zeta.
  assert (Fin: forall fs deliver, fstep_ok fs (req_table e pgn) (g_d g) -> (forall sel, answers_requested pgn (deliver sel)) ->
            agrees (req_filtered g pgn (le_val iv) (le_val ov) n fs deliver) g pgn n
              (if all_ok cs && ok then RPgn pgn else if g_dst g =? 255 then RNothing else RAck pgnec_ok (if ok then tpec_ok else tpec_not_supported) cs)).
  { intros fs deliver OK AD. destruct (req_filtered_ref e g pgn (le_val iv) (le_val ov) n fs deliver cs OK ltac:(unfold byte_ok in Hn; lia) R)
      as (Fc & Lc & sel & E). fold ok in E. rewrite E. change (g_bcast g) with (g_dst g =? 255).
    destruct (all_ok cs && ok); [apply AD|]. destruct (g_dst g =? 255); [reflexivity|].
    cbn [agrees]. eapply acks_built; [reflexivity|reflexivity|exact Hp|code_lit| |exact Fc| |exact Hn].
    - unfold pgnec_ok, tpec_ok, tpec_not_supported. destruct ok; code_lit.
    - rewrite Lc. unfold byte_ok in Hn. lia. }
  unfold has_table in HT.
  destruct (pgn =? 60928) eqn:P1; [apply Z.eqb_eq in P1; subst pgn; apply Fin; [apply fstep_ok_60928|intros; reflexivity]|].
  destruct (pgn =? 126464) eqn:P2; [apply Z.eqb_eq in P2; subst pgn; apply Fin; [apply fstep_ok_126464|intros; reflexivity]|].
  destruct (pgn =? 126993) eqn:P3; [apply Z.eqb_eq in P3; subst pgn; discriminate|].
  destruct (pgn =? 126996) eqn:P4; [apply Z.eqb_eq in P4; subst pgn; apply Fin; [apply fstep_ok_126996|intros; reflexivity]|].
  destruct (pgn =? 126998) eqn:P5; [apply Z.eqb_eq in P5; subst pgn; apply Fin; [apply fstep_ok_126998|intros; reflexivity]|].
  discriminate.
Qed.

Lemma decide_request_default e g pgn n iv ov :
  0 <= pgn < 16777216 -> byte_ok n -> has_table pgn = false -> (pgn =? 126993) = false ->
  byte_at (g_d g) 10 = Some n -> bytes_at (g_d g) 4 4 = Some iv -> bytes_at (g_d g) 8 2 = Some ov ->
  let ok := ref_interval_ok None (le_val iv) (le_val ov) in
  agrees (decide_fc e g 0 pgn) g pgn n
    (if g_dst g =? 255 then RNothing else
     if negb (ref_is_tx e pgn) then RAck pgnec_not_supported tpec_ok (repeat pec_ok (Z.to_nat n))
     else if ok then RAck pgnec_not_available tpec_ok (repeat pec_ok (Z.to_nat n))
     else RAck pgnec_ok tpec_not_supported (repeat pec_ok (Z.to_nat n))).
Proof.
  intros Hp Hn HT H93 B Hi Ho ok. destruct (request_getters _ _ _ _ B Hi Ho) as (E1 & E2 & E3).
  unfold decide_fc. cbn [Z.eqb]. rewrite E1, E2, E3. cbv beta iota zeta. rewrite H93.
  unfold has_table in HT. apply orb_false_iff in HT as [HT H4]. apply orb_false_iff in HT as [HT H3]. apply orb_false_iff in HT as [H1 H2].
  rewrite H1, H2, H3, H4. unfold req_default. rewrite tp_code_ref, is_tx_ref. fold ok. change (g_bcast g) with (g_dst g =? 255).
  destruct (ref_is_tx e pgn); cbn [negb]; [destruct ok; cbn [Z.eqb Pos.eqb]|]; cbv beta iota zeta;
    (destruct (g_dst g =? 255); [reflexivity|]); cbn [agrees]; apply acks_uniform; try assumption; code_lit.
Qed.

Lemma decide_request_hb e g n iv ov :
  byte_ok n -> byte_at (g_d g) 10 = Some n -> bytes_at (g_d g) 4 4 = Some iv -> bytes_at (g_d g) 8 2 = Some ov ->
  let interval := le_val iv in let offset := le_val ov in
  let ok := ref_interval_ok heartbeat_limits interval offset && negb (interval =? 0) in
  let bc := g_dst g =? 255 in
  decide_fc e g 0 126993 = req_126993 e g interval offset n /\
  agrees (decide_fc e g 0 126993) g 126993 n
    (if negb (n =? 0) then (if bc then RNothing else RAck pgnec_ok (if ok then tpec_ok else tpec_not_supported) (repeat pec_not_supported (Z.to_nat n)))
     else if (interval =? 4294967295) && (offset =? 65535) then (if bc then RNothing else RAck pgnec_not_available tpec_ok [])
     else if ok then RPgn 126993
     else (if bc then RNothing else RAck pgnec_ok tpec_not_supported [])).
Proof.
  intros Hn B Hi Ho interval offset ok bc. destruct (request_getters _ _ _ _ B Hi Ho) as (E1 & E2 & E3).
  assert (ED: decide_fc e g 0 126993 = req_126993 e g interval offset n).
  { unfold decide_fc. cbn [Z.eqb]. rewrite E1, E2, E3. cbv beta iota zeta. reflexivity. }
  split; [exact ED|]. rewrite ED. unfold req_126993. rewrite tp_code_ref_hb. fold interval offset. change (g_bcast g) with bc.
  assert (Hpec: (if interval =? 0 then 1 else if ref_interval_ok heartbeat_limits interval offset then 0 else 1) = if ok then 0 else 1).
  { unfold ok. destruct (interval =? 0); [rewrite andb_false_r; reflexivity|rewrite andb_true_r; reflexivity]. }
  rewrite Hpec. destruct (n =? 0) eqn:N0; cbn [negb].
  - apply Z.eqb_eq in N0. subst n.
    destruct ((interval =? 4294967295) && (offset =? 65535)) eqn:NC.
    + unfold req_default. rewrite tp_code_ref. apply andb_true_iff in NC as [N1 N2]. apply Z.eqb_eq in N1, N2.
      change (is_tx e 126993) with true. cbv beta iota.
      unfold ref_interval_ok. rewrite N1, N2. cbn [Z.eqb Pos.eqb orb andb]. change (g_bcast g) with bc. destruct bc; [reflexivity|].
      cbn [agrees]. change (@nil Z) with (repeat 0 (Z.to_nat 0)). apply acks_uniform; code_lit.
    + destruct ok; cbn [Z.eqb].
      * reflexivity.
      * destruct bc; [reflexivity|]. cbn [agrees]. change (@nil Z) with (repeat 0 (Z.to_nat 0)). apply acks_uniform; code_lit.
  - destruct bc; [reflexivity|]. cbn [agrees]. apply acks_uniform; try code_lit; try exact Hn. destruct ok; code_lit.
Qed.

(* ---------- Command (PGNs without effect), Read / Write ---------- *)
Lemma decide_command_plain e g pgn n b :
  0 <= pgn < 16777216 -> byte_ok n -> g_dst g <> 255 -> (pgn =? 60928) = false -> (pgn =? 126998) = false ->
  byte_at (g_d g) 4 = Some b -> byte_at (g_d g) 5 = Some n ->
  agrees (decide_fc e g 1 pgn) g pgn n
    (if pgn =? 126993 then RAck pgnec_not_supported (if ref_prio_ok (b mod 16) then tpec_ok else tpec_not_supported) (repeat pec_ok (Z.to_nat n))
     else RAck (if ref_is_tx e pgn then pgnec_ok else pgnec_not_supported) (if ref_prio_ok (b mod 16) then tpec_ok else tpec_not_supported)
               (repeat pec_ok (Z.to_nat n))).
Proof.
  intros Hp Hn Hd H1 H2 B4 B5. unfold decide_fc. cbn [Z.eqb Pos.eqb]. unfold g_bcast. replace (g_dst g =? 255) with false by (symmetry; apply Z.eqb_neq; exact Hd).
  rewrite (get_byte_at _ _ _ B4). cbv beta iota zeta. change (4 + 1) with 5. rewrite (get_byte_at _ _ _ B5). cbv beta iota zeta. rewrite H1, H2.
  destruct (pgn =? 126993).
  - unfold cmd_126993. rewrite prio_code_ref. cbn [agrees]. apply acks_uniform; try assumption; try code_lit. destruct (ref_prio_ok (b mod 16)); code_lit.
  - unfold cmd_default. rewrite prio_code_ref, is_tx_ref. cbn [agrees]. apply acks_uniform; try assumption.
    + destruct (ref_is_tx e pgn); code_lit.
    + destruct (ref_prio_ok (b mod 16)); code_lit.
    + code_lit.
Qed.

Lemma decide_rw e g fc pgn n :
  Forall byte_ok (g_d g) -> 0 <= pgn < 16777216 -> byte_ok n -> g_dst g <> 255 -> (fc = 3 \/ fc = 5) ->
  byte_at (g_d g) (count_pos fc pgn) = Some n ->
  agrees (decide_fc e g fc pgn) g pgn n (RAck (if ref_is_tx e pgn then pgnec_rw_not_supported else pgnec_not_supported) tpec_ok (repeat pec_ok (Z.to_nat n))).
Proof.
  intros F Hp Hn Hd Hfc B. unfold decide_fc.
  assert (Efc: (fc =? 0) = false /\ (fc =? 1) = false /\ ((fc =? 3) || (fc =? 5)) = true) by (destruct Hfc; subst fc; repeat split; reflexivity).
  destruct Efc as (-> & -> & ->). unfold g_bcast. replace (g_dst g =? 255) with false by (symmetry; apply Z.eqb_neq; exact Hd).
  assert (Ecp: count_pos fc pgn = if ref_proprietary pgn then 8 else 6) by (destruct Hfc; subst fc; reflexivity). rewrite Ecp in B.
  assert (Epr: (if has_handler pgn then false else is_proprietary pgn) = ref_proprietary pgn).
  { destruct (has_handler pgn) eqn:HH; [symmetry; apply has_handler_not_proprietary, HH|apply is_proprietary_ref]. }
  rewrite Epr. apply byte_at_Some in B as [Bk Bv].
  assert (Fin: forall k, 0 <= k -> k + 2 < len (g_d g) -> n = znth (g_d g) (k + 2) 0 ->
            agrees (let '(_, i2) := get_byte (g_d g) k in let '(_, i3) := get_byte (g_d g) i2 in let '(np, _) := get_byte (g_d g) i3 in rw_default e g pgn np)
                   g pgn n (RAck (if ref_is_tx e pgn then pgnec_rw_not_supported else pgnec_not_supported) tpec_ok (repeat pec_ok (Z.to_nat n)))).
  { intros k Hk Hl En. rewrite (get_byte_in _ k) by lia. cbv beta iota zeta. rewrite (get_byte_in _ (k + 1)) by lia. cbv beta iota zeta.
    replace (k + 1 + 1) with (k + 2) by lia. rewrite (get_byte_in _ (k + 2)) by lia. cbv beta iota zeta. rewrite <- En.
    unfold rw_default. rewrite is_tx_ref. cbn [agrees]. apply acks_uniform; try assumption; try code_lit. destruct (ref_is_tx e pgn); code_lit. }
  destruct (ref_proprietary pgn).
  - rewrite (get_u16_at _ 4 (slice (g_d g) 4 2)) by (apply bytes_at_in; lia). cbn [snd]. apply Fin; [lia|lia|exact Bv].
  - apply Fin; [lia|lia|exact Bv].
Qed.

(* ---------- (b) ---------- *)
Theorem gf_ack_codes : gf_ack_codes_stmt.
Proof.
  unfold gf_ack_codes_stmt. intros e g rr [F _] Hs RA. unfold ref_answer in RA.
  destruct (ref_fc (g_d g)) as [fc|] eqn:FC.
  2:{ injection RA as <-. unfold ref_header. rewrite FC. split; [reflexivity|].
      unfold gf_decide. unfold ref_fc in FC. rewrite (get_byte_out (g_d g) 0) by (apply byte_at_None in FC; lia). reflexivity. }
  unfold ref_fc in FC. pose proof (byte_at_ok _ _ _ F FC) as Hfc. unfold byte_ok in Hfc.
  assert (ED: gf_decide e g = if fc >? 6 then GaNone else decide_fc e g fc (fst (get_u24 (g_d g) 1))).
  { unfold gf_decide. rewrite (get_byte_at _ _ _ FC). reflexivity. }
  assert (None_case: (fc =? 2) || (fc =? 4) || (fc =? 6) || (6 <? fc) = true \/ ((g_dst g =? 255) && negb (fc =? 0) = true) -> gf_decide e g = GaNone).
  { intros H. rewrite ED. destruct (fc >? 6) eqn:G6; [reflexivity|]. unfold decide_fc. change (g_bcast g) with (g_dst g =? 255).
    destruct H as [H|H].
    - assert (fc = 2 \/ fc = 4 \/ fc = 6) as Hc.
      { rewrite Z.gtb_ltb in G6. apply Z.ltb_ge in G6. replace (6 <? fc) with false in H by (symmetry; apply Z.ltb_ge; lia). rewrite orb_false_r in H.
        apply orb_true_iff in H as [H|H]; [apply orb_true_iff in H as [H|H]|]; apply Z.eqb_eq in H; lia. }
      destruct Hc as [->|[->| ->]]; reflexivity.
    - apply andb_true_iff in H as [H1 H2]. rewrite H1. apply negb_true_iff in H2. rewrite H2.
      destruct (fc =? 1); [reflexivity|]. destruct ((fc =? 3) || (fc =? 5)); reflexivity. }
  destruct ((fc =? 2) || (fc =? 4) || (fc =? 6) || (6 <? fc)) eqn:C1.
  { injection RA as <-. rewrite (None_case (or_introl eq_refl)). destruct (ref_header (g_d g)) as [[[? ?] ?]|]; [reflexivity|split; reflexivity]. }
  destruct ((g_dst g =? 255) && negb (fc =? 0)) eqn:C2.
  { injection RA as <-. rewrite (None_case (or_intror eq_refl)). destruct (ref_header (g_d g)) as [[[? ?] ?]|]; [reflexivity|split; reflexivity]. }
  destruct (ref_header (g_d g)) as [[[fc' pgn] n]|] eqn:RH; [|discriminate].
  destruct (header_facts _ _ _ _ F RH) as (B0 & G0 & G1 & _ & Hp & Hn & Bn). rewrite FC in B0. injection B0 as <-.
  rewrite ED, G1. cbn [fst].
  assert (Hfc6: fc = 0 \/ fc = 1 \/ fc = 3 \/ fc = 5).
  { apply orb_false_iff in C1 as [C1 C6]. apply orb_false_iff in C1 as [C1 C5]. apply orb_false_iff in C1 as [C3 C4].
    apply Z.eqb_neq in C3, C4, C5. apply Z.ltb_ge in C6. lia. }
  replace (fc >? 6) with false by (symmetry; rewrite Z.gtb_ltb; apply Z.ltb_ge; lia).
  destruct (fc =? 0) eqn:F0.
  - apply Z.eqb_eq in F0. subst fc. change (count_pos 0 pgn) with 10 in Bn.
    destruct (bytes_at (g_d g) 4 4) as [iv|] eqn:Hi; [|discriminate]. destruct (bytes_at (g_d g) 8 2) as [ov|] eqn:Ho; [|discriminate].
    destruct (pgn =? 126993) eqn:P93.
    + apply Z.eqb_eq in P93. subst pgn. destruct (decide_request_hb e g n iv ov Hn Bn Hi Ho) as [_ A].
      cbv zeta in A. revert A.
      destruct (negb (n =? 0)); [intros A; injection RA as <-; exact A|].
      destruct ((le_val iv =? 4294967295) && (le_val ov =? 65535)); [intros A; injection RA as <-; exact A|].
      destruct (ref_interval_ok heartbeat_limits (le_val iv) (le_val ov) && negb (le_val iv =? 0)); intros A; injection RA as <-; exact A.
    + destruct (has_table pgn) eqn:HT.
      * destruct (ref_codes (req_table e pgn) (g_d g) 11 (Z.to_nat n)) as [cs|] eqn:R; [|discriminate].
        pose proof (decide_request_table e g pgn n iv ov cs F Hp Hn HT Bn Hi Ho R) as A. cbv zeta in A.
        destruct (all_ok cs && ref_interval_ok None (le_val iv) (le_val ov)); injection RA as <-; exact A.
      * pose proof (decide_request_default e g pgn n iv ov Hp Hn HT P93 Bn Hi Ho) as A. cbv zeta in A. injection RA as <-.
        destruct (g_dst g =? 255); [exact A|]. destruct (negb (ref_is_tx e pgn)); [exact A|].
        destruct (ref_interval_ok None (le_val iv) (le_val ov)); exact A.
  - cbn [negb] in C2. rewrite andb_true_r in C2. apply Z.eqb_neq in C2.
    destruct (fc =? 1) eqn:F1.
    + apply Z.eqb_eq in F1. subst fc. change (count_pos 1 pgn) with 5 in Bn.
      destruct (byte_at (g_d g) 4) as [b|] eqn:B4; [|discriminate].
      destruct ((pgn =? 60928) || (pgn =? 126998)) eqn:PC; [discriminate|]. apply orb_false_iff in PC as [PC1 PC2].
      pose proof (decide_command_plain e g pgn n b Hp Hn C2 PC1 PC2 B4 Bn) as A.
      destruct (pgn =? 126993); injection RA as <-; exact A.
    + injection RA as <-. apply decide_rw; try assumption. apply Z.eqb_neq in F0, F1. lia.
Qed.

(* ---------- (c) ---------- *)
Theorem gf_match_all_fields : gf_match_all_fields_stmt.
Proof.
  unfold gf_match_all_fields_stmt. intros e g pgn n iv ov cs [F HL] Hs RH HT Hi Ho R.
  set (ok := ref_interval_ok None (le_val iv) (le_val ov)). set (a := gf_decide e g).
  destruct (header_facts _ _ _ _ F RH) as (B0 & G0 & G1 & _ & Hp & Hn & Bn). change (count_pos 0 pgn) with 10 in Bn.
  assert (Ea: a = decide_fc e g 0 pgn).
  { unfold a, gf_decide. rewrite G0, G1. reflexivity. }
  pose proof (decide_request_table e g pgn n iv ov cs F Hp Hn HT Bn Hi Ho R) as A. cbv zeta in A. fold ok in A. rewrite <- Ea in A.
  split; [|split].
  - destruct (all_ok cs && ok) eqn:AO.
    + apply andb_true_iff in AO. split; [intros _; exact AO|intros _; exact A].
    + split; [|intros [H1 H2]; rewrite H1, H2 in AO; discriminate].
      intros AR. exfalso. destruct (g_dst g =? 255).
      * cbn [agrees] in A. rewrite A in AR. exact AR.
      * cbn [agrees] in A. destruct A as (ack & r & Hack & _). destruct a; cbn [ack_of answers_requested] in *; try discriminate; exact AR.
  - intros AO Hd. rewrite AO in A. replace (g_dst g =? 255) with false in A by (symmetry; apply Z.eqb_neq; exact Hd).
    cbn [agrees] in A. unfold pgnec_ok, tpec_ok, tpec_not_supported in A. exact A.
  - intros AO Hd. rewrite AO in A. rewrite Hd in A. exact A.
Qed.

Theorem ref_codes_per_field : ref_codes_per_field_stmt.
Proof.
  unfold ref_codes_per_field_stmt. intros tab d pos n. revert pos. induction n as [|n IH]; intros pos cs R.
  - cbn [ref_codes] in R. injection R as <-. split; [reflexivity|]. intros [|k] c H; discriminate H.
  - cbn [ref_codes] in R. destruct (byte_at d pos) as [f|]; [|discriminate]. destruct (tab f) as [k|].
    + destruct (value_size k d (pos + 1)) as [sz|]; [|discriminate]. destruct (bytes_at d (pos + 1) sz) as [v|]; [|discriminate].
      destruct (ref_codes tab d (pos + 1 + sz) n) as [cs'|] eqn:R'; [|discriminate]. cbn [option_map] in R. injection R as <-.
      destruct (IH _ _ R') as [L P]. split; [cbn [length]; lia|]. intros [|j] c H.
      * cbn [nth_error] in H. injection H as <-. unfold pair_code. destruct (pair_match k v); [left; reflexivity|right; left; reflexivity].
      * apply (P j c H).
    + injection R as <-. split; [cbn [length]; rewrite repeat_length; reflexivity|]. intros [|j] c H.
      * cbn [nth_error] in H. injection H as <-. right. right. left. reflexivity.
      * cbn [nth_error] in H. apply nth_error_In, repeat_spec in H. right. right. right. exact H.
Qed.
