(* C11 at node level, part C: the functions that depend on the group function reaction (handle_system, pending information,
   heartbeat, Open(), ParseMessages, rstep), the library's group function handlers (Model/GroupFnDefs.v) and the public calls
   (Model/ApiDefs.v: api_step, xstep). *)
From Coq Require Import ZArith List Bool Lia.
From N2kV Require Import Base.ListAux Model.CanId Model.Sched Model.PgnClass Model.NodeDefs Model.NodeRxDefs Model.GroupFnDefs Model.ApiDefs
  Gen.GenTables Gen.GenConsts Spec.SendSpec Proofs.QueueProofs Spec.NodeQueueSpec Proofs.NodeQueueProofsA Proofs.NodeQueueProofsB.
Import ListNotations.
Local Open Scope Z_scope.

(* ================= pieces that do not need gf ================= *)
Lemma rp_send_pending_info_dev r i : RP r (send_pending_info_dev r i).
Proof. go send_pending_info_dev. Qed.
Global Hint Resolve rp_send_pending_info_dev : qt.
Lemma rp_send_pending_info : forall k r i, RP r (send_pending_info k r i).
Proof. induction k as [|k IH]; intros r i; cbn [send_pending_info]; [qfin|]. walk; qfin. Qed.
Global Hint Resolve rp_send_pending_info : qt.

Lemma rp_send_heartbeat_dev r i : RP r (send_heartbeat_dev r i).
Proof. go send_heartbeat_dev. Qed.
Global Hint Resolve rp_send_heartbeat_dev : qt.
Lemma rp_send_heartbeat : forall k r i, RP r (send_heartbeat k r i).
Proof. induction k as [|k IH]; intros r i; cbn [send_heartbeat]; [qfin|]. walk; qfin. Qed.
Global Hint Resolve rp_send_heartbeat : qt.

Lemma rp_start_claim_all : forall k r i, RP r (start_claim_all k r i).
Proof. induction k as [|k IH]; intros r i; cbn [start_claim_all]; [qfin|]. cbv zeta. walk; qfin. Qed.
Global Hint Resolve rp_start_claim_all : qt.

Lemma rp3_open_step r : RP3 r (open_step r).
Proof. go open_step. Qed.
Global Hint Resolve rp3_open_step : qt.

Lemma rp_rflush r : RP r (rflush r).
Proof.
  unfold rflush. destruct (flush (n_q (rn r)) (n_drv (rn r))) as [[[q d] ev] ok] eqn:E. apply qtr_flush in E.
  change (n_q (rn r), n_drv (rn r)) with (nqd (rn r)) in E. qfin.
Qed.
Global Hint Resolve rp_rflush : qt.

(* ================= the library's group function handlers ================= *)
Lemma rp_send_ack r i dst d : RP r (send_ack r i dst d).
Proof. go send_ack. Qed.
Lemma nqd_pend_claim r i : nqd (rn (pend_claim r i)) = nqd (rn r).
Proof. unfold pend_claim. destruct (_ || _); autorewrite with nq; reflexivity. Qed.
Global Hint Rewrite nqd_pend_claim : nq.
Lemma rp_send_tx_list r i dst tp : RP r (send_tx_list r i dst tp).
Proof. go send_tx_list. Qed.
Lemma rp_send_rx_list r i dst tp : RP r (send_rx_list r i dst tp).
Proof. go send_rx_list. Qed.
Lemma rp_send_product_info_to r i dst tp : RP r (send_product_info_to r i dst tp).
Proof. go send_product_info_to. Qed.
Lemma rp_send_config_info_to r i dst tp : RP r (send_config_info_to r i dst tp).
Proof. go send_config_info_to. Qed.
Lemma rp_send_heartbeat_forced r i : RP r (send_heartbeat_forced r i).
Proof. go send_heartbeat_forced. Qed.
Lemma nqd_set_instances r i lo up si : nqd (rn (set_instances r i lo up si)) = nqd (rn r).
Proof.
  unfold set_instances. cbv zeta.
  repeat match goal with |- context [if ?c then _ else _] =>
    lazymatch c with context [if _ then _ else _] => fail | _ => destruct c end end;
  autorewrite with nq; reflexivity.
Qed.
Lemma rn_set_conf_strings r s1 s2 : rn (set_conf_strings r s1 s2) = rn r.  Proof. reflexivity. Qed.
Global Hint Rewrite nqd_set_instances rn_set_conf_strings : nq.
Global Hint Resolve rp_send_ack rp_send_tx_list rp_send_rx_list rp_send_product_info_to rp_send_config_info_to rp_send_heartbeat_forced : qt.

Lemma rp_gf_exec r i a : RP r (gf_exec r i a).
Proof. destruct a; cbn [gf_exec]; walk; qfin. Qed.
Global Hint Resolve rp_gf_exec : qt.
Lemma rp_respond_gf r g i : RP r (respond_gf r g i).
Proof. unfold respond_gf. cbv zeta. qfin. Qed.
Global Hint Resolve rp_respond_gf : qt.
Lemma rp_respond_gf_all : forall k r g i, RP r (respond_gf_all k r g i).
Proof. induction k as [|k IH]; intros r g i; cbn [respond_gf_all]; [qfin|]. walk; qfin. Qed.
Global Hint Resolve rp_respond_gf_all : qt.
Lemma rp_gf_lib r s : RP r (gf_lib r s).
Proof. go gf_lib. Qed.
Lemma rp_gf_none r s : RP r (gf_none r s).
Proof. unfold gf_none. qfin. Qed.

(* ================= the public calls ================= *)
Lemma rp_open_first r : RP r (open_first r).
Proof. go open_first. Qed.
Global Hint Resolve rp_open_first : qt.
Lemma rp_osend r f : (forall r1, RP r1 (f r1)) -> RP r (osend r f).
Proof. intros Hf. unfold osend. walk; qfin. Qed.

Lemma rp_send_heartbeat_api_dev force r i : RP r (send_heartbeat_api_dev force r i).
Proof. go send_heartbeat_api_dev. Qed.
Global Hint Resolve rp_send_heartbeat_api_dev : qt.
Lemma rp_send_heartbeat_api force : forall k r i, RP r (send_heartbeat_api force k r i).
Proof. induction k as [|k IH]; intros r i; cbn [send_heartbeat_api]; [qfin|]. walk; qfin. Qed.
Global Hint Resolve rp_send_heartbeat_api : qt.

Lemma nqd_set_mode_srcs : forall k r src i, nqd (rn (set_mode_srcs k r src i)) = nqd (rn r).
Proof. induction k as [|k IH]; intros r src i; cbn [set_mode_srcs]; [reflexivity|]. rewrite IH. autorewrite with nq. reflexivity. Qed.
Lemma nqd_set_mode_api r mode src : nqd (rn (set_mode_api r mode src)) = nqd (rn r).
Proof. unfold set_mode_api. cbn [rn with_rn]. unfold nqd at 1. cbn [n_q n_drv]. fold (nqd (rn (set_mode_srcs (length (n_devs (rn r))) r src 0))). apply nqd_set_mode_srcs. Qed.
Lemma nqd_set_pgn_list r which l : nqd (rn (set_pgn_list r which l)) = nqd (rn r).  Proof. reflexivity. Qed.
Lemma nqd_set_tx_list r i l : nqd (rn (set_tx_list r i l)) = nqd (rn r).
Proof. unfold set_tx_list. destruct (negb _); reflexivity. Qed.
Lemma rn_set_rx_list r i l : rn (set_rx_list r i l) = rn r.
Proof. unfold set_rx_list. destruct (negb _); reflexivity. Qed.
Lemma rn_with_cfg r c : rn (with_cfg r c) = rn r.  Proof. reflexivity. Qed.
Lemma rn_set_only_known r b : rn (set_only_known r b) = rn r.  Proof. reflexivity. Qed.
Lemma nqd_set_device_information r i uniq func cls manuf ind : nqd (rn (set_device_information r i uniq func cls manuf ind)) = nqd (rn r).
Proof. unfold set_device_information. destruct (negb _); autorewrite with nq; reflexivity. Qed.
Global Hint Rewrite nqd_set_mode_srcs nqd_set_mode_api nqd_set_pgn_list nqd_set_tx_list rn_set_rx_list rn_with_cfg rn_set_only_known
  nqd_set_device_information : nq.

Lemma rp_api_step r a : RP r (api_step r a).
Proof.
  destruct a; cbn [api_step]; cbv zeta;
  repeat match goal with |- context [if ?c then _ else _] =>
    lazymatch c with context [if _ then _ else _] => fail | _ => destruct c end end;
  try (apply rp_osend; intros r1; walk; qfin); qfin.
Qed.
Global Hint Resolve rp_api_step : qt.

(* ================= everything that depends on gf ================= *)
Section WithGf.
Variable gf : rnode -> slot -> rnode * list event.
Hypothesis Hgf : gf_qtrace gf.

Lemma rp_gf r s : RP r (gf r s).
Proof. unfold RP, NQT, qtr, nqd. cbn [fst snd]. destruct (gf r s) as [r' ev] eqn:E. exact (Hgf _ _ _ _ E). Qed.
Local Hint Resolve rp_gf : qt.

Lemma rp_handle_system r s : RP r (handle_system gf r s).
Proof. go handle_system. Qed.
Local Hint Resolve rp_handle_system : qt.

Lemma rp_rx_loop : forall k r, RP r (rx_loop gf k r).
Proof. induction k as [|k IH]; intros r; cbn [rx_loop]; [qfin|]. cbv zeta. walk; qfin. Qed.
Local Hint Resolve rp_rx_loop : qt.

Lemma rp_poll r : RP r (poll gf r).
Proof. go poll. Qed.
Local Hint Resolve rp_poll : qt.

Definition rop_is_accept (o:rop) : bool := match o with RBase (OAccept _) => true | _ => false end.
Lemma rp_rstep r o : rop_is_accept o = false -> RP r (rstep gf r o).
Proof.
  intros Ho. destruct o as [o| |f|iv off idev].
  - assert (Hs: forall n, NP n (step n o)) by (intros n; apply np_step; destruct o; auto).
    destruct o; cbn [rstep]; walk; qfin.
  - apply rp_poll.
  - cbn [rstep]. qfin.
  - cbn [rstep]. walk; qfin.
Qed.

Lemma rp_xstep r o : is_accept o = false -> RP r (xstep gf r o).
Proof. intros Ho. destruct o as [o|a]; cbn [xstep]; [apply rp_rstep; destruct o as [[]| | |]; auto | apply rp_api_step]. Qed.

End WithGf.
