(* C11 at node level, part A: algebra of the trace relation (Spec/NodeQueueSpec.v), the proof vocabulary and tactics shared by the
   traversal, and the send path of Model/NodeDefs.v (send_msg0, start_send_tp, send_msg, the address-claim start, step).

   Vocabulary
     nqd n            the pair (send ring, driver answer stream) of a node
     qtr s s' tx      qtrace on such pairs
     NQT n n' ev      the node went from n to n' making, as far as the driver is concerned, a run of queue operations whose driver
                      calls are the EvTx events among ev
     NP / NP3 / NS    NQT for a function result (node * events), (node * events * bool); NS: queue and driver untouched
     RP / RP3 / RS    the same for functions on rnode
   Every function of the model gets one lemma "NP n (f n args)" / "RP r (f r args)" (hint database qt) or, when it returns a bare
   state, a rewrite rule "nqd (rn (f r args)) = nqd (rn r)" (rewrite database nq).  The tactic [walk] destructs the lets and tests of
   a definition innermost first, recording for every sub-call the fact its lemma gives; [qfin] normalises the states and chains the
   facts with qtr_trans. *)
From Coq Require Import ZArith List Bool Lia.
From N2kV Require Import Base.ListAux Model.CanId Model.Sched Model.PgnClass Model.NodeDefs Model.NodeRxDefs Gen.GenTables Gen.GenConsts
  Spec.SendSpec Proofs.QueueProofs Spec.NodeQueueSpec.
Import ListNotations.
Local Open Scope Z_scope.

(* ================= runs of queue operations compose ================= *)
Lemma q_run_app ops1 : forall q d ops2 q1 d1 o1 q2 d2 o2,
  q_run q d ops1 = (q1, d1, o1) -> q_run q1 d1 ops2 = (q2, d2, o2) -> q_run q d (ops1 ++ ops2) = (q2, d2, o1 ++ o2).
Proof.
  induction ops1 as [|o r IH]; intros q d ops2 q1 d1 o1 q2 d2 o2 E1 E2; cbn [q_run app] in *.
  - inversion E1; subst. exact E2.
  - destruct (q_step q d o) as [[[qa da] ev] ok].
    destruct (q_run qa da r) as [[qb db] outs] eqn:Er.
    inversion E1; subst. rewrite (IH _ _ _ _ _ _ _ _ _ Er E2). reflexivity.
Qed.

Lemma qtrace_refl q d : qtrace q d q d [].
Proof. exists [], []. repeat split. constructor. Qed.

Lemma qtrace_trans q d q1 d1 t1 q2 d2 t2 : qtrace q d q1 d1 t1 -> qtrace q1 d1 q2 d2 t2 -> qtrace q d q2 d2 (t1 ++ t2).
Proof.
  intros (o1 & u1 & E1 & T1 & L1) (o2 & u2 & E2 & T2 & L2).
  exists (o1 ++ o2), (u1 ++ u2). split; [eapply q_run_app; eassumption|]. split.
  - subst. rewrite map_app, concat_app. reflexivity.
  - apply Forall_app; auto.
Qed.

Lemma qtrace_flush q d q' d' ev ok : flush q d = (q', d', ev, ok) -> qtrace q d q' d' ev.
Proof.
  intros E. exists [QFlush], [(ev, ok)]. cbn [q_run q_step]. rewrite E. cbn. rewrite app_nil_r.
  repeat split. repeat constructor.
Qed.

Lemma qtrace_send_frame q d id len data wait q' d' ev ok : len <= 8 ->
  send_frame q d id len data wait = (q', d', ev, ok) -> qtrace q d q' d' ev.
Proof.
  intros Hl E. exists [QSend id len data wait], [(ev, ok)]. cbn [q_run q_step]. rewrite E. cbn. rewrite app_nil_r.
  repeat split. repeat constructor. exact Hl.
Qed.

(* the events of SendFrames / SendFrame are driver calls only *)
Lemma send_frames_tx : forall fuel q d q' d' ev ok, send_frames fuel q d = (q', d', ev, ok) -> tx_events ev = ev.
Proof.
  induction fuel as [|k IH]; intros q d q' d' ev ok E; cbn [send_frames] in E.
  - destruct (q_max q =? 0); inversion E; reflexivity.
  - destruct (q_max q =? 0); [inversion E; reflexivity|].
    destruct (q_rd q =? q_wr q); [inversion E; reflexivity|].
    destruct (can_send d) as [b d1]. destruct b.
    + destruct (send_frames k _ d1) as [[[q2 d2] evs] r] eqn:E2. apply IH in E2. inversion E; subst.
      unfold tx_events in *. cbn [filter is_txev]. rewrite E2. reflexivity.
    + inversion E; reflexivity.
Qed.
Lemma flush_tx q d q' d' ev ok : flush q d = (q', d', ev, ok) -> tx_events ev = ev.
Proof. apply send_frames_tx. Qed.
Lemma tx_events_app a b : tx_events (a ++ b) = tx_events a ++ tx_events b.
Proof. apply filter_app. Qed.
Lemma send_frame_tx q d id len data wait q' d' ev ok : send_frame q d id len data wait = (q', d', ev, ok) -> tx_events ev = ev.
Proof.
  unfold send_frame. destruct (flush q d) as [[[q1 d1] ev1] fl] eqn:EF. apply flush_tx in EF.
  assert (H: forall ev2, tx_events ev2 = ev2 -> tx_events (ev1 ++ ev2) = ev1 ++ ev2) by (intros; rewrite tx_events_app; congruence).
  destruct fl.
  - destruct (can_send d1) as [b d2].
    destruct b; [|destruct (q_max q1 =? 0); [|destruct (_ =? q_rd q1)]]; intros E; inversion E; subst; apply H; reflexivity.
  - cbn iota beta. destruct (q_max q1 =? 0); [|destruct (_ =? q_rd q1)]; intros E; inversion E; subst; apply H; reflexivity.
Qed.

(* ================= vocabulary ================= *)
Definition nqd (n:node) : sring * drv := (n_q n, n_drv n).
Definition qtr (s s':sring * drv) (tx:list event) : Prop := qtrace (fst s) (snd s) (fst s') (snd s') tx.
Definition NQT (n n':node) (ev:list event) : Prop := qtr (nqd n) (nqd n') (tx_events ev).
Definition NP (n:node) (x:node * list event) : Prop := NQT n (fst x) (snd x).
Definition NP3 {A} (n:node) (x:node * list event * A) : Prop := NQT n (fst (fst x)) (snd (fst x)).
Definition NS {A} (n:node) (x:node * A) : Prop := nqd (fst x) = nqd n.
Definition RP (r:rnode) (x:rnode * list event) : Prop := NQT (rn r) (rn (fst x)) (snd x).
Definition RP3 {A} (r:rnode) (x:rnode * list event * A) : Prop := NQT (rn r) (rn (fst (fst x))) (snd (fst x)).
Definition RP4 {A B} (r:rnode) (x:A * rnode * list event * B) : Prop := NQT (rn r) (rn (snd (fst (fst x)))) (snd (fst x)).
Definition RS {A} (r:rnode) (x:rnode * A) : Prop := nqd (rn (fst x)) = nqd (rn r).

Lemma qtr_refl s : qtr s s [].
Proof. apply qtrace_refl. Qed.
Lemma qtr_trans s s1 s2 t1 t2 : qtr s s1 t1 -> qtr s1 s2 t2 -> qtr s s2 (t1 ++ t2).
Proof. apply qtrace_trans. Qed.
Lemma qtr_flush q d q' d' ev ok : flush q d = (q', d', ev, ok) -> qtr (q, d) (q', d') (tx_events ev).
Proof. intros E. rewrite (flush_tx _ _ _ _ _ _ E). exact (qtrace_flush _ _ _ _ _ _ E). Qed.
Lemma qtr_send_frame q d id len data wait q' d' ev ok : len <= 8 ->
  send_frame q d id len data wait = (q', d', ev, ok) -> qtr (q, d) (q', d') (tx_events ev).
Proof. intros Hl E. rewrite (send_frame_tx _ _ _ _ _ _ _ _ _ _ E). exact (qtrace_send_frame _ _ _ _ _ _ _ _ _ _ Hl E). Qed.
Lemma qtr_send_all id : forall frames q d q' d' ev ok, send_all q d id frames = (q', d', ev, ok) -> qtr (q, d) (q', d') (tx_events ev).
Proof.
  induction frames as [|f rest IH]; intros q d q' d' ev ok E; cbn [send_all] in E.
  - inversion E; subst. apply qtr_refl.
  - destruct (send_frame q d id 8 f true) as [[[q1 d1] ev1] ok1] eqn:E1. apply qtr_send_frame in E1; [|lia].
    destruct ok1.
    + destruct (send_all q1 d1 id rest) as [[[q2 d2] ev2] r] eqn:E2. apply IH in E2. inversion E; subst.
      rewrite tx_events_app. eapply qtr_trans; eassumption.
    + inversion E; subst. exact E1.
Qed.

(* ================= rewrite rules: what leaves queue and driver alone ================= *)
Lemma nqd_upd_dev n i d : nqd (upd_dev n i d) = nqd n.  Proof. reflexivity. Qed.
Lemma nqd_upd_q n q d : nqd (upd_q n q d) = (q, d).  Proof. reflexivity. Qed.
Lemma nqd_set_now n t : nqd (set_now n t) = nqd n.  Proof. reflexivity. Qed.
Lemma nqd_end_send_tp n i : nqd (end_send_tp n i) = nqd n.  Proof. reflexivity. Qed.
Lemma nqd_set_claim_timer n i t : nqd (set_claim_timer n i t) = nqd n.  Proof. reflexivity. Qed.
Global Hint Rewrite nqd_upd_dev nqd_upd_q nqd_set_now nqd_end_send_tp nqd_set_claim_timer : nq.

Lemma ns_claim_started n i : NS n (claim_started n i).
Proof. unfold NS, claim_started. destruct (sched_is_enabled _ _); [destruct (sched_is_time _ _ _)|]; reflexivity. Qed.
Lemma ns_gsc n i p : NS n (get_sequence_counter n i p).
Proof. unfold NS, get_sequence_counter. destruct (match seq_scan _ p with Some r => r | None => _ end). reflexivity. Qed.
Global Hint Resolve ns_claim_started ns_gsc : qt.

(* ================= tactics ================= *)
(* record what the lemma of a sub-call says about it, then destruct it *)
Ltac note_as X P :=
  match X with
  | context [?s] =>
    let H := fresh "Q" in
    assert (H : P s X) by (solve [auto with qt]);
    revert H
  end.
Ltac note X :=
  let T := type of X in
  lazymatch T with
  | (node * list event)%type => note_as X NP
  | (node * list event * ?A)%type => note_as X (@NP3 A)
  | (rnode * list event)%type => note_as X RP
  | (rnode * list event * ?A)%type => note_as X (@RP3 A)
  | (?A * rnode * list event * ?B)%type => note_as X (@RP4 A B)
  | (node * ?A)%type => note_as X (@NS A)
  | (rnode * ?A)%type => note_as X (@RS A)
  end.
Ltac dstr X :=
  first [ is_var X; destruct X
        | lazymatch type of X with
          | (_ * _ * _ * _)%type => destruct X as [[[? ?] ?] ?] eqn:?
          | (_ * _ * _)%type => destruct X as [[? ?] ?] eqn:?
          | _ => destruct X eqn:?
          end ].
Ltac brk1 :=
  first
  [ match goal with
    | |- context [match ?X with _ => _ end] =>
        lazymatch X with
        | context [match _ with _ => _ end] => fail
        | _ => first [ note X; dstr X; intro | dstr X ]
        end
    end
  | match goal with
    | |- context [match ?X with _ => _ end] => first [ note X; dstr X; intro | dstr X ]
    end ].
Ltac walk := repeat (brk1; cbn [fst snd] in * ).

Ltac qnorm :=
  unfold RP, RP3, RP4, RS, NP, NP3, NS, NQT in *;
  repeat (progress (cbn [fst snd rn with_rn] in *; autorewrite with nq in * ));
  repeat match goal with H : nqd _ = nqd _ |- _ => first [ rewrite H in *; clear H | clear H ] end;
  unfold tx_events in *; rewrite ?filter_app in *; cbn [filter is_txev app] in *;
  rewrite <- ?app_assoc; rewrite ?app_nil_r in *.
Ltac qchain :=
  first [ assumption
        | reflexivity
        | apply qtr_refl
        | (eapply qtr_trans; [eassumption | qchain]) ].
(* a result that is itself a call *)
Ltac tail :=
  try match goal with
  | |- ?P _ ?X =>
    lazymatch P with NP => idtac | @NP3 _ => idtac | RP => idtac | @RP3 _ => idtac | @RP4 _ _ => idtac | @NS _ => idtac | @RS _ => idtac end;
    lazymatch X with (_, _) => fail | _ => note X; dstr X; intro end
  end.
Ltac qfin := tail; cbn [fst snd] in *; qnorm; qchain.

Lemma ns_send_gate n m idev : NS n (send_gate n m idev).
Proof. unfold send_gate. walk; qfin. Qed.
Global Hint Resolve ns_send_gate : qt.



(* ================= the send path of NodeDefs ================= *)
Lemma np3_send_msg0 n m idev : NP3 n (send_msg0 n m idev).
Proof.
  unfold send_msg0. pose proof (ns_send_gate n m idev) as G. unfold NS in G.
  destruct (send_gate n m idev) as [n1 [[[m' i] id]|]]; cbn [fst] in G.
  - destruct ((m_len m' <=? 8) && negb (is_fast_packet n1 m')) eqn:C.
    + apply andb_true_iff in C. destruct C as [C _]. apply Z.leb_le in C.
      destruct (send_frame (n_q n1) (n_drv n1) id (m_len m') (m_data m') false) as [[[q d] ev] ok] eqn:E.
      apply qtr_send_frame in E; [|exact C]. change (n_q n1, n_drv n1) with (nqd n1) in E. qfin.
    + pose proof (ns_gsc n1 i (m_pgn m')) as S. unfold NS in S.
      destruct (get_sequence_counter n1 i (m_pgn m')) as [n2 sc]. cbn [fst] in S.
      destruct (send_all (n_q n2) (n_drv n2) id _) as [[[q d] ev] ok] eqn:E.
      apply qtr_send_all in E. change (n_q n2, n_drv n2) with (nqd n2) in E. qfin.
  - qfin.
Qed.
Global Hint Resolve np3_send_msg0 : qt.

Lemma np3_start_send_tp n m i : NP3 n (start_send_tp n m i).
Proof. unfold start_send_tp. walk; qfin. Qed.
Global Hint Resolve np3_start_send_tp : qt.

Lemma np3_send_msg n m idev : NP3 n (send_msg n m idev).
Proof. unfold send_msg. walk; qfin. Qed.
Global Hint Resolve np3_send_msg : qt.

Lemma np_send_iso_address_claim n dst i : NP n (send_iso_address_claim n dst i).
Proof. unfold send_iso_address_claim. walk; qfin. Qed.
Global Hint Resolve np_send_iso_address_claim : qt.

Lemma np_start_address_claim n i : NP n (start_address_claim n i).
Proof. unfold start_address_claim. walk; qfin. Qed.
Global Hint Resolve np_start_address_claim : qt.

Definition op_is_accept (o:op) : bool := match o with OAccept _ => true | _ => false end.
Lemma np_step n o : op_is_accept o = false -> NP n (step n o).
Proof.
  intros Ho. destruct o as [dt|p|i m|  |i]; cbn [step]; try discriminate.
  - qfin.
  - walk; qfin.
  - destruct (flush (n_q n) (n_drv n)) as [[[q d] ev] ok] eqn:E. apply qtr_flush in E. change (n_q n, n_drv n) with (nqd n) in E. qfin.
  - walk; qfin.
Qed.
