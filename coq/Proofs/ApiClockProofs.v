(* C13 for the public application calls (Spec/ApiClockSpec.v): one lemma per function of Model/ApiDefs.v,
   f (shift c r) args = lift (f r args) /\ time_ok c (result), on top of Proofs/ClockProofsNode1..3.v and Proofs/GroupFnContractsC.v;
   then api_step by cases, xstep, xrun. *)
From Coq Require Import ZArith List Bool Lia.
From N2kV Require Import Base.ListAux Model.CanId Model.Sched Model.PgnClass Model.NodeDefs Model.NodeRxDefs Model.GroupFnDefs Model.SetModeDefs
  Model.ApiDefs Gen.GenTables Gen.GenConsts
  Spec.ClockSpec Spec.ApiClockSpec Proofs.SendProofs Proofs.HbProofsFrame Proofs.ClockProofs Proofs.ClockProofsNode1 Proofs.ClockProofsNode2
  Proofs.ClockProofsNode3 Proofs.GroupFnContractsC.
From N2kV Require Proofs.GroupFnContractsB.
Import ListNotations.
Local Open Scope Z_scope.
Set Warnings "-unused-intro-pattern".

(* ---------- small facts ---------- *)
Definition same_len (r r':rnode) : Prop := length (n_devs (rn r')) = length (n_devs (rn r)).
Lemma same_len_refl r : same_len r r.  Proof. reflexivity. Qed.
Lemma same_len_trans a b d : same_len a b -> same_len b d -> same_len a d.
Proof. unfold same_len. congruence. Qed.
Lemma rstatic_len r r' : rstatic r r' -> same_len r r'.
Proof. intros [(_ & _ & _ & _ & _ & L) _]. exact L. Qed.
Lemma same_len_vi r r' i : same_len r r' -> vi (rn r) i -> vi (rn r') i.
Proof. unfold same_len, vi. intros ->. auto. Qed.
Lemma same_len_count r r' : same_len r r' -> dev_count (rn r') = dev_count (rn r).
Proof. unfold same_len, dev_count. intros ->. reflexivity. Qed.

Lemma valid_dev_sh c r i : valid_dev (shift_rnode c r) i = valid_dev r i.
Proof. unfold valid_dev. rewrite shr_rn, shn_count. reflexivity. Qed.
Lemma valid_dev_vi r i : valid_dev r i = true -> vi (rn r) i.
Proof. apply range_vi. Qed.

(* FromNow with an arbitrary admissible delay *)
Lemma from_now_sh_gen c now add : 0 <= c -> 0 < now -> 0 <= add -> now + add + c < SB ->
  sched_from_now true (now + c) add = sh64 c (sched_from_now true now add) /\ tbc c (sched_from_now true now add).
Proof.
  intros Hc Hn Ha Hb. rewrite SB_val in Hb.
  rewrite !from_now_val by (unfold M64; change (2^64) with 18446744073709551616; lia).
  split.
  - unfold sh64. rewrite SENT64_val. destruct (Z.eqb_spec (now + add) 18446744073709551615); lia.
  - apply tbc_val; [lia|rewrite SB_val; lia].
Qed.

(* ---------- Open() reached through SendMsg ---------- *)
Lemma open_step_len r : same_len r (fst (fst (open_step r))).
Proof.
  unfold open_step, same_len. cbv zeta.
  destruct (n_open (rn r) =? 3); cbn [fst snd]; [reflexivity|].
  assert (L0: length (n_devs (rn (if n_open (rn r) =? 0 then with_open r 1 (r_open_sched r) else r))) = length (n_devs (rn r)))
    by (destruct (n_open (rn r) =? 0); reflexivity).
  set (r0 := if n_open (rn r) =? 0 then with_open r 1 (r_open_sched r) else r) in *.
  destruct (n_open (rn r0) =? 1).
  - destruct (negb _); cbn [fst snd]; exact L0.
  - destruct (sched_is_time _ _ _); cbn [fst snd]; [|exact L0].
    set (r1 := with_open r0 3 (r_open_sched r0)).
    pose proof (rstatic_len _ _ (start_claim_all_st (length (n_devs (rn r1))) r1 0)) as S1.
    destruct (start_claim_all (length (n_devs (rn r1))) r1 0) as [r2 ev]. cbn [fst snd] in *.
    pose proof (rstatic_len _ _ (millis64_st r2)) as S2.
    destruct (millis64 r2) as [r2c tsync]. cbn [fst snd] in *.
    set (r3 := with_sync r2c tsync).
    pose proof (rstatic_len _ _ (set_heartbeat_all_st (length (n_devs (rn r3))) r3 0 c_DefaultHeartbeatInterval 10000)) as S4.
    set (r4 := set_heartbeat_all (length (n_devs (rn r3))) r3 0 c_DefaultHeartbeatInterval 10000) in *.
    pose proof (rstatic_len _ _ (resync_heartbeats_st (length (n_devs (rn r4))) r4 0)) as S5.
    cbn [fst snd]. unfold same_len in *. rewrite S5, S4. unfold r3. cbn [with_sync rn]. rewrite S2, S1. unfold r1. cbn [with_open rn n_devs]. exact L0.
Qed.

Lemma open_first_sh c r : 0 <= c -> time_ok c r ->
  open_first (shift_rnode c r) = lift_res c (open_first r) /\ time_ok c (fst (open_first r)) /\ same_len r (fst (open_first r)).
Proof.
  intros Hc H. unfold open_first, lift_res. rewrite shr_rn, shn_open.
  destruct (n_open (rn r) =? 3); cbn [fst snd]; [split; [reflexivity|split; [exact H|apply same_len_refl]]|].
  destruct (open_step_sh c r Hc H) as [E K]. rewrite E. unfold lift_o.
  pose proof (open_step_len r) as L.
  destruct (open_step r) as [[r1 ev] b]. cbn [fst snd] in *. split; [reflexivity|split; assumption].
Qed.

Lemma osend_sh c r f : 0 <= c -> time_ok c r ->
  (forall r1, time_ok c r1 -> same_len r r1 -> f (shift_rnode c r1) = lift_res c (f r1) /\ time_ok c (fst (f r1))) ->
  osend (shift_rnode c r) f = lift_res c (osend r f) /\ time_ok c (fst (osend r f)).
Proof.
  intros Hc H F. unfold osend.
  destruct (open_first_sh c r Hc H) as (E & K & L). rewrite E. unfold lift_res at 1.
  destruct (open_first r) as [r1 ev0]. cbn [fst snd] in *.
  destruct (F r1 K L) as [E2 K2]. rewrite E2. unfold lift_res.
  destruct (f r1) as [r2 ev]. cbn [fst snd] in *. split; [reflexivity|exact K2].
Qed.

(* ---------- SendHeartbeat(force) ---------- *)
(* the part after the decision: store the new schedule, SendMsg (which opens the node first), count the sequence *)
Definition hb_tail (force:bool) (r:rnode) (i:Z) (hb':ssched) : rnode * list event :=
  let x := get_devx r i in
  let r1 := with_devx r i {| x_pend_claim := x_pend_claim x; x_pend_prod := x_pend_prod x; x_pend_conf := x_pend_conf x; x_hb := hb'; x_hb_seq := x_hb_seq x; x_rx := x_rx x |} in
  let '(r1o, ev0) := open_first r1 in
  let '(r2, ev, _) := rsend r1o (heartbeat_msg (dev_src r1o i) (ss_period hb') (if force then 255 else x_hb_seq x)) i in
  if force then (r2, ev0 ++ ev) else
  let x2 := get_devx r2 i in
  let sq := if x_hb_seq x2 + 1 >? 252 then 0 else x_hb_seq x2 + 1 in
  (with_devx r2 i {| x_pend_claim := x_pend_claim x2; x_pend_prod := x_pend_prod x2; x_pend_conf := x_pend_conf x2; x_hb := x_hb x2; x_hb_seq := sq; x_rx := x_rx x2 |}, ev0 ++ ev).

(* UpdateNextTime of a scheduler with period 0 does not read the clock *)
Lemma ss_update_force (b:bool) t sync s :
  (if b && (ss_period s =? 0) then ss_update_next 0 sync s else ss_update_next t sync s) = ss_update_next t sync s.
Proof.
  destruct b; cbn [andb]; [|reflexivity]. destruct (Z.eqb_spec (ss_period s) 0) as [E|E]; [|reflexivity].
  unfold ss_update_next. rewrite E. reflexivity.
Qed.

(* the 64-bit build reads the clock directly: the call in a flat form *)
Lemma send_heartbeat_api_dev_eq force r i : w64 r = true ->
  send_heartbeat_api_dev force r i =
  (let r0 := chk_dev r i in
   let '(n1, started) := claim_started (rn r0) i in
   let r1 := with_rn r0 n1 in
   if started then (r1, []) else
   if negb (force || ss_is_time (now r1) (x_hb (get_devx r1 i))) then (r1, []) else
   hb_tail force r1 i (ss_update_next (now r1) (r_sync r1) (x_hb (get_devx r1 i)))).
Proof.
  intros W. unfold send_heartbeat_api_dev. cbv zeta.
  assert (W0: w64 (chk_dev r i) = true) by (unfold w64; rewrite chk_dev_rn'; exact W).
  set (r0 := chk_dev r i) in *.
  pose proof (claim_started_st (rn r0) i) as S.
  destruct (claim_started (rn r0) i) as [n1 started]. cbn [fst] in S.
  destruct started; [reflexivity|].
  assert (W1: w64 (with_rn r0 n1) = true) by (unfold w64; cbn [with_rn rn]; destruct S as (A & _); rewrite A; exact W0).
  set (r1 := with_rn r0 n1) in *.
  destruct force; cbn [negb orb andb].
  - rewrite (millis64_w64 r1 W1).
    assert (P: (if ss_period (x_hb (get_devx r1 i)) =? 0 then (r1, ss_update_next 0 (r_sync r1) (x_hb (get_devx r1 i)))
                else (r1, ss_update_next (now r1) (r_sync r1) (x_hb (get_devx r1 i)))) = (r1, ss_update_next (now r1) (r_sync r1) (x_hb (get_devx r1 i)))).
    { pose proof (ss_update_force true (now r1) (r_sync r1) (x_hb (get_devx r1 i))) as U. cbn [andb] in U.
      destruct (ss_period (x_hb (get_devx r1 i)) =? 0); rewrite ?U; reflexivity. }
    rewrite P. reflexivity.
  - rewrite (millis64_w64 r1 W1).
    destruct (ss_is_time (now r1) (x_hb (get_devx r1 i))); cbn [negb]; [|reflexivity].
    rewrite (millis64_w64 r1 W1). reflexivity.
Qed.

Lemma hb_tail_sh c force r i h : 0 <= c -> time_ok c r -> vi (rn r) i ->
  tbc c (ss_next h) -> 0 <= ss_offset h < 2^32 -> 0 <= ss_period h < 2^32 ->
  hb_tail force (shift_rnode c r) i (shift_ss c h) = lift_res c (hb_tail force r i h) /\ time_ok c (fst (hb_tail force r i h)) /\
  same_len r (fst (hb_tail force r i h)).
Proof.
  intros Hc H V T1 T2 T3. unfold hb_tail. cbv zeta.
  pose proof (tok_get_devx c r i H V) as (X1 & X2 & X3 & X4 & X5 & X6).
  rewrite get_devx_sh by (apply (tok_vx c); assumption). set (x := get_devx r i) in *.
  cbn [shift_devx x_hb x_hb_seq x_pend_claim x_pend_prod x_pend_conf x_rx].
  rewrite devx_rec_sh, with_devx_sh.
  match goal with |- context [with_devx r i ?y] => set (xa := y) end.
  assert (H2: time_ok c (with_devx r i xa)).
  { apply tok_with_devx; [exact H|]. unfold devx_ok, xa. cbn [x_pend_claim x_pend_prod x_pend_conf x_hb]. repeat split; assumption || lia. }
  set (r2 := with_devx r i xa) in *.
  assert (V2: vi (rn r2) i) by exact V.
  assert (L2: same_len r r2) by reflexivity.
  destruct (open_first_sh c r2 Hc H2) as (Eo & Ko & Lo). rewrite Eo. unfold lift_res at 1.
  destruct (open_first r2) as [r2o ev0]. cbn [fst snd] in *.
  pose proof (same_len_vi _ _ i Lo V2) as Vo.
  rewrite shr_dev_src by exact Vo. cbn [shift_ss ss_period].
  match goal with |- context [rsend r2o ?m i] => set (m0 := m) end.
  destruct (rsend_sh c r2o m0 i Hc Ko) as [E3 K3]. rewrite E3. unfold lift_r3.
  pose proof (rsend_st r2o m0 i) as S3.
  destruct (rsend r2o m0 i) as [[r3 ev] ok]. cbn [fst snd] in *.
  pose proof (vr_static _ _ _ S3 Vo) as V3.
  pose proof (same_len_trans _ _ _ L2 (same_len_trans _ _ _ Lo (rstatic_len _ _ S3))) as L3.
  destruct force; unfold lift_res; cbn [fst snd]; [split; [reflexivity|split; assumption]|].
  pose proof (tok_get_devx c r3 i K3 V3) as (Z1 & Z2 & Z3 & Z4 & Z5 & Z6).
  rewrite get_devx_sh by (apply (tok_vx c); assumption). set (x2 := get_devx r3 i) in *.
  cbn [shift_devx x_hb x_hb_seq x_pend_claim x_pend_prod x_pend_conf x_rx].
  rewrite devx_rec_sh, with_devx_sh. split; [reflexivity|]. split; [|exact L3].
  apply tok_with_devx; [exact K3|]. unfold devx_ok. cbn [x_pend_claim x_pend_prod x_pend_conf x_hb]. repeat split; assumption || lia.
Qed.

Lemma send_heartbeat_api_dev_sh c force r i : 0 <= c -> time_ok c r -> vi (rn r) i ->
  send_heartbeat_api_dev force (shift_rnode c r) i = lift_res c (send_heartbeat_api_dev force r i) /\
  time_ok c (fst (send_heartbeat_api_dev force r i)) /\ same_len r (fst (send_heartbeat_api_dev force r i)).
Proof.
  intros Hc H V.
  rewrite (send_heartbeat_api_dev_eq force (shift_rnode c r) i) by (rewrite shr_w64; apply (tok_w64 c r H)).
  rewrite (send_heartbeat_api_dev_eq force r i (tok_w64 c r H)). cbv zeta.
  rewrite chk_dev_sh. pose proof (tok_chk_dev c r i H) as H0.
  pose proof (vi_chk_dev r i i V) as V0.
  assert (L0: same_len r (chk_dev r i)) by (unfold same_len; rewrite chk_dev_rn'; reflexivity).
  set (r0 := chk_dev r i) in *.
  rewrite shr_rn. destruct (claim_started_sh c (rn r0) i Hc (tok_nok c r0 H0) V0) as [E K]. rewrite E.
  pose proof (claim_started_st (rn r0) i) as S.
  destruct (claim_started (rn r0) i) as [n1 started]. cbn [fst snd] in *.
  rewrite with_rn_sh. pose proof (tok_with_rn_st c r0 n1 H0 K S) as H1.
  assert (L1: same_len r (with_rn r0 n1)).
  { unfold same_len in *. cbn [with_rn rn]. destruct S as (_ & _ & _ & _ & _ & L). rewrite L. exact L0. }
  set (r1 := with_rn r0 n1) in *.
  assert (V1: vi (rn r1) i) by (apply (vi_static _ _ _ S V0)).
  destruct started; [unfold lift_res; cbn [fst snd]; split; [reflexivity|split; assumption]|].
  pose proof (tok_get_devx c r1 i H1 V1) as (X1 & X2 & X3 & X4 & X5 & X6).
  rewrite get_devx_sh by (apply (tok_vx c); assumption). set (x := get_devx r1 i) in *.
  cbn [shift_devx x_hb].
  rewrite shr_now, shr_sync. destruct (tok_now _ _ H1) as [N1 N2]. destruct (to_sync _ _ H1) as [Y1 Y2].
  assert (B: 0 <= now r1 /\ now r1 + c < SB /\ 0 <= r_sync r1 /\ r_sync r1 + c < SB /\ 0 <= ss_offset (x_hb x) < SB /\ 0 <= ss_period (x_hb x) < SB).
  { rewrite NB_val, SB_val in *. change (2^32) with 4294967296 in *. lia. }
  destruct B as (B1 & B2 & B3 & B4 & B5 & B6).
  destruct (ss_shift (now r1) (r_sync r1) (x_hb x) c Hc B1 B2 B3 B4 B5 B6) as [U1 U2]. rewrite U1, U2.
  destruct (negb (force || ss_is_time (now r1) (x_hb x))); [unfold lift_res; cbn [fst snd]; split; [reflexivity|split; assumption]|].
  destruct (ss_update_tbc c (now r1) (r_sync r1) (x_hb x) Hc N1 N2 Y1 Y2 X5 X6) as (T1 & T2 & T3).
  destruct (hb_tail_sh c force r1 i (ss_update_next (now r1) (r_sync r1) (x_hb x)) Hc H1 V1 T1 ltac:(rewrite T2; exact X5) T3) as (E2 & K2 & L2).
  split; [exact E2|]. split; [exact K2|exact (same_len_trans _ _ _ L1 L2)].
Qed.

Lemma send_heartbeat_api_sh c force k : forall r i, 0 <= c -> time_ok c r -> 0 <= i -> i + Z.of_nat k <= dev_count (rn r) ->
  send_heartbeat_api force k (shift_rnode c r) i = lift_res c (send_heartbeat_api force k r i) /\ time_ok c (fst (send_heartbeat_api force k r i)).
Proof.
  induction k as [|k IH]; intros r i Hc H Hi Hk; cbn [send_heartbeat_api]; [split; [reflexivity|exact H]|].
  rewrite Nat2Z.inj_succ in Hk.
  assert (V: vi (rn r) i) by (apply vi_range; lia).
  destruct (send_heartbeat_api_dev_sh c force r i Hc H V) as (E & K & L). rewrite E. unfold lift_res at 1.
  destruct (send_heartbeat_api_dev force r i) as [r1 ev1]. cbn [fst snd] in *.
  pose proof (same_len_count _ _ L) as D1.
  destruct (IH r1 (i + 1) Hc K ltac:(lia) ltac:(rewrite D1; lia)) as [E2 K2]. rewrite E2. unfold lift_res.
  destruct (send_heartbeat_api force k r1 (i + 1)) as [r2 ev2]. cbn [fst snd] in *. split; [reflexivity|exact K2].
Qed.

(* ---------- SetMode ---------- *)
Lemma set_mode_src_byte src i : 0 <= src < 256 -> 0 <= i < 256 -> 0 <= set_mode_src src i < 256.
Proof.
  intros Hs Hi. unfold set_mode_src, c_N2kMaxCanBusAddress. cbv zeta.
  destruct (Z.leb_spec src 251); cbn [andb]; [destruct (Z.ltb_spec 251 (src + i)); [lia|]|]; apply Z.mod_pos_bound; lia.
Qed.

Lemma set_mode_srcs_sh c src k : forall r i, 0 <= c -> time_ok c r -> 0 <= src < 256 -> 0 <= i -> i + Z.of_nat k <= dev_count (rn r) -> dev_count (rn r) <= 256 ->
  set_mode_srcs k (shift_rnode c r) src i = shift_rnode c (set_mode_srcs k r src i) /\ time_ok c (set_mode_srcs k r src i) /\
  rstatic r (set_mode_srcs k r src i).
Proof.
  induction k as [|k IH]; intros r i Hc H Hs Hi Hk Hd; cbn [set_mode_srcs]; [split; [reflexivity|split; [exact H|apply rstatic_refl]]|].
  rewrite Nat2Z.inj_succ in Hk.
  assert (V: vi (rn r) i) by (apply vi_range; lia).
  destruct (set_src_sh c r i (set_mode_src src i) true Hc H V (set_mode_src_byte src i Hs ltac:(lia))) as [E K]. rewrite E.
  pose proof (set_src_st r i (set_mode_src src i) true) as S.
  pose proof (same_len_count _ _ (rstatic_len _ _ S)) as D1.
  destruct (IH (set_src r i (set_mode_src src i) true) (i + 1) Hc K Hs ltac:(lia) ltac:(rewrite D1; lia) ltac:(rewrite D1; lia)) as (E2 & K2 & S2).
  split; [exact E2|]. split; [exact K2|exact (rstatic_trans _ _ _ S S2)].
Qed.

Lemma set_mode_api_sh c r mode src : 0 <= c -> time_ok c r -> 0 <= src < 256 -> dev_count (rn r) <= 256 ->
  set_mode_api (shift_rnode c r) mode src = shift_rnode c (set_mode_api r mode src) /\ time_ok c (set_mode_api r mode src).
Proof.
  intros Hc H Hs Hd. unfold set_mode_api. cbv zeta. rewrite shr_rn, shn_devs, map_length.
  destruct (set_mode_srcs_sh c src (length (n_devs (rn r))) r 0 Hc H Hs ltac:(lia) ltac:(unfold dev_count; lia) Hd) as (E & K & _).
  rewrite E. set (r1 := set_mode_srcs (length (n_devs (rn r))) r src 0) in *. split; [reflexivity|].
  destruct K as [A B C D [E1 F] G I J L]. constructor; cbn [with_rn rn rx_dev r_open_sched r_sync r_slots r_q n_w64 n_now n_devs]; try assumption.
  split; assumption.
Qed.

(* ---------- Set / Extend SingleFrame / FastPacket Messages ---------- *)
Lemma set_pgn_list_sh c r which l : time_ok c r ->
  set_pgn_list (shift_rnode c r) which l = shift_rnode c (set_pgn_list r which l) /\ time_ok c (set_pgn_list r which l).
Proof.
  intros H. unfold set_pgn_list. cbv zeta. split; [reflexivity|].
  destruct H as [A B C D [E1 F] G I J L]. constructor; cbn [with_rn rn rx_dev r_open_sched r_sync r_slots r_q n_w64 n_now n_devs]; try assumption.
  split; assumption.
Qed.

(* ---------- ExtendTransmitMessages / ExtendReceiveMessages / SetHandleOnlyKnownMessages / SetProductInformation ---------- *)
Lemma set_tx_list_sh c r i l : 0 <= c -> time_ok c r ->
  set_tx_list (shift_rnode c r) i l = shift_rnode c (set_tx_list r i l) /\ time_ok c (set_tx_list r i l).
Proof.
  intros Hc H. unfold set_tx_list. cbv zeta. rewrite valid_dev_sh.
  destruct (valid_dev r i) eqn:Ev; cbn [negb]; [|split; [reflexivity|exact H]].
  pose proof (valid_dev_vi r i Ev) as V. pose proof (tok_get_dev c r i H V) as (T1 & T2 & T3).
  rewrite shr_rn, get_dev_sh by exact V. split.
  - rewrite <- with_rn_sh. f_equal. rewrite <- upd_dev_sh; repeat (f_equal; try reflexivity).
  - apply tok_with_rn; [exact H| |cbn [upd_dev n_devs]; apply zset_length].
    apply nok_upd_dev; [apply tok_nok; exact H|]. unfold dev_ok. cbn [d_claim_timer d_next_dt_time d_src]. repeat split; assumption || lia.
Qed.
Lemma set_rx_list_sh c r i l : 0 <= c -> time_ok c r ->
  set_rx_list (shift_rnode c r) i l = shift_rnode c (set_rx_list r i l) /\ time_ok c (set_rx_list r i l).
Proof.
  intros Hc H. unfold set_rx_list. cbv zeta. rewrite valid_dev_sh.
  destruct (valid_dev r i) eqn:Ev; cbn [negb]; [|split; [reflexivity|exact H]].
  pose proof (valid_dev_vi r i Ev) as V. pose proof (tok_get_devx c r i H V) as (X1 & X2 & X3 & X4 & X5 & X6).
  rewrite get_devx_sh by (apply (tok_vx c); assumption). split.
  - rewrite <- with_devx_sh. reflexivity.
  - apply tok_with_devx; [exact H|]. unfold devx_ok. cbn [x_pend_claim x_pend_prod x_pend_conf x_hb]. repeat split; assumption || lia.
Qed.
Lemma with_cfg_sh c r cf : time_ok c r ->
  with_cfg (shift_rnode c r) cf = shift_rnode c (with_cfg r cf) /\ time_ok c (with_cfg r cf).
Proof.
  intros H. split; [reflexivity|].
  destruct H as [A B C D [E1 F] G I J L]. constructor; cbn [with_cfg rn rx_dev r_open_sched r_sync r_slots r_q]; try assumption.
  split; assumption.
Qed.
Lemma set_only_known_sh c r b : time_ok c r ->
  set_only_known (shift_rnode c r) b = shift_rnode c (set_only_known r b) /\ time_ok c (set_only_known r b).
Proof. intros H. unfold set_only_known. cbv zeta. apply (with_cfg_sh c r _ H). Qed.

(* ---------- SetDeviceInformation ---------- *)
Lemma set_device_information_sh c r i uniq func cls manuf ind : 0 <= c -> time_ok c r ->
  set_device_information (shift_rnode c r) i uniq func cls manuf ind = shift_rnode c (set_device_information r i uniq func cls manuf ind) /\
  time_ok c (set_device_information r i uniq func cls manuf ind).
Proof.
  intros Hc H. unfold set_device_information. cbv zeta. rewrite valid_dev_sh.
  destruct (valid_dev r i) eqn:Ev; cbn [negb]; [|split; [reflexivity|exact H]].
  pose proof (valid_dev_vi r i Ev) as V.
  rewrite shr_rn, get_dev_sh by exact V. cbn [shift_dev d_name].
  apply set_name_sh; assumption.
Qed.

(* ---------- the calls ---------- *)
Lemma bcast_valid_vi r r1 dst idev : valid_dev r (bcast_dev dst idev) = true -> same_len r r1 -> vi (rn r1) (bcast_dev dst idev).
Proof. intros Ev L. apply (same_len_vi r r1); [exact L|apply valid_dev_vi; exact Ev]. Qed.

Lemma api_step_sh c r a : 0 <= c -> time_ok c r -> api_ok c r a ->
  api_step (shift_rnode c r) a = lift_res c (api_step r a) /\ time_ok c (fst (api_step r a)).
Proof.
  intros Hc H Ha.
  assert (Nop: (shift_rnode c r, @nil event) = lift_res c (r, []) /\ time_ok c (fst (r, @nil event))) by (split; [reflexivity|exact H]).
  destruct a as [dst idev delay|idev|idev|dst idev tp|dst idev tp|force|idev|idev lo up si|idev uniq func cls manuf ind| |mode src|which l|idev l|idev l|b|serial code model sw ver load version cert];
    cbn [api_step api_ok] in *; cbv zeta.
  - (* SendIsoAddressClaim *)
    rewrite valid_dev_sh. set (i := bcast_dev dst idev) in *.
    destruct (valid_dev r i) eqn:Ev; cbn [negb]; [|exact Nop].
    pose proof (valid_dev_vi r i Ev) as V.
    destruct (Z.ltb_spec 0 delay) as [Hd|Hd].
    + destruct Ha as [Ha1 Ha2].
      pose proof (tok_get_devx c r i H V) as (X1 & X2 & X3 & X4 & X5 & X6).
      rewrite get_devx_sh by (apply (tok_vx c); assumption). cbn [shift_devx x_pend_prod x_pend_conf].
      rewrite shr_w64, shr_now, (tok_w64 c r H). destruct (tok_now _ _ H) as [N1 N2].
      destruct (from_now_sh_gen c (now r) delay Hc N1 Ha1 Ha2) as [P1 P2]. rewrite P1.
      destruct (set_pending_sh c r i _ (x_pend_prod (get_devx r i)) (x_pend_conf (get_devx r i)) Hc H V P2 X2 X3) as [E K].
      rewrite E. unfold lift_res. cbn [fst snd]. split; [reflexivity|exact K].
    + apply osend_sh; [exact Hc|exact H|]. intros r1 H1 L1. apply rsend_claim_sh; assumption.
  - (* SendProductInformation *)
    rewrite valid_dev_sh. destruct (valid_dev r idev) eqn:Ev; [|exact Nop].
    apply osend_sh; [exact Hc|exact H|]. intros r1 H1 L1.
    apply send_product_info_sh; [exact Hc|exact H1|]. apply (same_len_vi r r1); [exact L1|apply valid_dev_vi; exact Ev].
  - (* SendConfigurationInformation *)
    rewrite valid_dev_sh. destruct (valid_dev r idev) eqn:Ev; [|exact Nop].
    apply osend_sh; [exact Hc|exact H|]. intros r1 H1 L1.
    apply send_config_info_to_sh; [exact Hc|exact H1|]. apply (same_len_vi r r1); [exact L1|apply valid_dev_vi; exact Ev].
  - (* SendTxPGNList *)
    rewrite valid_dev_sh. destruct (valid_dev r (bcast_dev dst idev)) eqn:Ev; [|exact Nop].
    apply osend_sh; [exact Hc|exact H|]. intros r1 H1 L1.
    apply send_tx_list_sh; [exact Hc|exact H1|]. apply (bcast_valid_vi r r1); assumption.
  - (* SendRxPGNList *)
    rewrite valid_dev_sh. destruct (valid_dev r (bcast_dev dst idev)) eqn:Ev; [|exact Nop].
    apply osend_sh; [exact Hc|exact H|]. intros r1 H1 L1.
    apply send_rx_list_sh; [exact Hc|exact H1|]. apply (bcast_valid_vi r r1); assumption.
  - (* SendHeartbeat(force) *)
    rewrite shr_rn, shn_active, shn_open, shn_devs, map_length.
    destruct (is_active_node (rn r)); cbn [negb orb]; [|exact Nop].
    destruct (n_open (rn r) =? 3); cbn [negb]; [|exact Nop].
    apply send_heartbeat_api_sh; [exact Hc|exact H|lia|unfold dev_count; lia].
  - (* SendHeartbeat(iDev) *)
    rewrite shr_rn, shn_active.
    destruct (is_active_node (rn r)); cbn [andb]; [|exact Nop].
    rewrite valid_dev_sh. destruct (valid_dev r idev) eqn:Ev; [|exact Nop].
    pose proof (valid_dev_vi r idev Ev) as V.
    rewrite get_devx_sh by (apply (tok_vx c); assumption). cbn [shift_devx x_hb shift_ss ss_period].
    apply osend_sh; [exact Hc|exact H|]. intros r1 H1 L1.
    pose proof (same_len_vi r r1 idev L1 V) as V1.
    rewrite chk_dev_sh. pose proof (tok_chk_dev c r1 idev H1) as H2. pose proof (vi_chk_dev r1 idev idev V1) as V2.
    set (r2 := chk_dev r1 idev) in *.
    rewrite shr_dev_src by exact V2. apply send_step_sh; assumption.
  - (* SetDeviceInformationInstances *)
    rewrite valid_dev_sh. destruct (valid_dev r idev) eqn:Ev; [|exact Nop].
    destruct (set_instances_sh c r idev lo up si Hc H (valid_dev_vi r idev Ev)) as [E K]. rewrite E.
    unfold lift_res. cbn [fst snd]. split; [reflexivity|exact K].
  - (* SetDeviceInformation *)
    destruct (set_device_information_sh c r idev uniq func cls manuf ind Hc H) as [E K]. rewrite E.
    unfold lift_res. cbn [fst snd]. split; [reflexivity|exact K].
  - (* Restart *)
    rewrite shr_rn, shn_devs, map_length.
    apply start_claim_all_sh; [exact Hc|exact H|lia|unfold dev_count; lia].
  - (* SetMode *)
    destruct Ha as [Ha1 Ha2].
    destruct (set_mode_api_sh c r mode src Hc H Ha1 Ha2) as [E K]. rewrite E.
    unfold lift_res. cbn [fst snd]. split; [reflexivity|exact K].
  - (* PGN lists *)
    destruct (set_pgn_list_sh c r which l H) as [E K]. rewrite E.
    unfold lift_res. cbn [fst snd]. split; [reflexivity|exact K].
  - (* ExtendTransmitMessages *)
    destruct (set_tx_list_sh c r idev l Hc H) as [E K]. rewrite E.
    unfold lift_res. cbn [fst snd]. split; [reflexivity|exact K].
  - (* ExtendReceiveMessages *)
    destruct (set_rx_list_sh c r idev l Hc H) as [E K]. rewrite E.
    unfold lift_res. cbn [fst snd]. split; [reflexivity|exact K].
  - (* SetHandleOnlyKnownMessages *)
    destruct (set_only_known_sh c r b H) as [E K]. rewrite E.
    unfold lift_res. cbn [fst snd]. split; [reflexivity|exact K].
  - (* SetProductInformation: the configuration is not shifted *)
    change (r_cfg (shift_rnode c r)) with (r_cfg r).
    destruct (with_cfg_sh c r (ProdInfoDefs.set_product_information (r_cfg r) serial code model sw ver load version cert) H) as [E K]. rewrite E.
    unfold lift_res. cbn [fst snd]. split; [reflexivity|exact K].
Qed.

(* ---------- the extended operations ---------- *)
Theorem api_node_shift : api_node_shift_stmt.
Proof.
  unfold api_node_shift_stmt. intros c gf r o Hc Hgf H Ho. destruct o as [o'|a]; cbn [xstep xop_ok] in *.
  - apply rstep_sh; assumption.
  - apply api_step_sh; assumption.
Qed.
Print Assumptions api_node_shift.

Theorem api_node_shift_run : api_node_shift_run_stmt.
Proof.
  unfold api_node_shift_run_stmt. intros c gf ops. induction ops as [|o rest IH]; intros r Hc Hgf H Ho; cbn [xrun]; [reflexivity|].
  cbn [xops_ok] in Ho. destruct Ho as [Ho1 Ho2].
  destruct (api_node_shift c gf r o Hc Hgf H Ho1) as [E K]. rewrite E. unfold lift_res.
  destruct (xstep gf r o) as [r1 ev]. cbn [fst snd] in *.
  rewrite (IH r1 Hc Hgf K Ho2). destruct (xrun gf r1 rest) as [r2 evs]. reflexivity.
Qed.
Print Assumptions api_node_shift_run.
