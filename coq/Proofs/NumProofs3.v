From Coq Require Import ZArith List Bool Lia.
From N2kV Require Import Model.SoftFloat Model.NumDefs Spec.NumSpec3.
Import ListNotations.
Local Open Scope Z_scope.

Lemma set_buf8_na : set_buf8_na_stmt.
Proof. intros p. unfold set_buf_double, na_bytes. cbn [Nat.eqb]. rewrite Z.eqb_refl. reflexivity. Qed.

Lemma add_undef : add_undef_stmt.
Proof. intros n s v p u H. unfold add_double_u. rewrite H. reflexivity. Qed.

Lemma na_not_nan : is_nan (decode b64 na_double_bits) = false.
Proof. vm_compute. reflexivity. Qed.
Lemma na_mod : na_double_bits mod 2^63 =? 0 = false.
Proof. vm_compute. reflexivity. Qed.

Lemma ieee_eq_na v : ieee_eq v na_double_bits = negb (is_nan (decode b64 v)) && (v =? na_double_bits).
Proof. unfold ieee_eq. rewrite na_not_nan, na_mod. cbn [negb]. rewrite andb_true_r, andb_false_r, orb_false_r. reflexivity. Qed.

Lemma add_default : add_default_stmt.
Proof.
  intros n s v p. unfold add_double_u, add_double. rewrite ieee_eq_na.
  destruct (negb (is_nan (decode b64 v)) && (v =? na_double_bits)) eqn:E; [reflexivity|].
  unfold set_buf_double. destruct (n =? 8)%nat eqn:N8; [|reflexivity].
  destruct (v =? na_double_bits) eqn:V; [|reflexivity].
  apply Z.eqb_eq in V. subst v. rewrite na_not_nan in E. cbn in E. discriminate.
Qed.

From N2kV Require Import Spec.NumSpec Proofs.NumProofs.

Lemma add_undef_roundtrip : add_undef_roundtrip_stmt.
Proof.
  intros n s v p u Hn H8 H. rewrite (add_undef n s v p u H). unfold na_bytes.
  assert (Hpos : (0 < n)%nat) by (destruct Hn as [->|[->|[->|[->| ->]]]]; lia).
  unfold get_double. rewrite fits_0.
  assert (G : get_code n s 0 (le_bytes n (nac n s mod 256 ^ Z.of_nat n)) = nac n s).
  { pose proof (get_code_bytes n s (nac n s) [] [] Hpos) as G. cbn [length app] in G. rewrite app_nil_r in G. apply G.
    destruct (pow256_half n Hpos) as [HP Hh]. unfold nac, orc. destruct s; lia. }
  rewrite G, Z.eqb_refl. reflexivity.
Qed.

Lemma le_bytes_inj n a b : le_bytes n a = le_bytes n b -> a mod 256 ^ Z.of_nat n = b mod 256 ^ Z.of_nat n.
Proof. intros H. rewrite <- !of_le_bytes. rewrite H. reflexivity. Qed.

Lemma reserved_stays_reserved : reserved_stays_reserved_stmt.
Proof.
  intros n s v p u Hn H. unfold add_double_u. rewrite H. unfold set_buf_double, na_bytes.
  assert (N8 : (n =? 8)%nat = false) by (destruct Hn as [->|[->|[->| ->]]]; reflexivity).
  assert (Hpos : (0 < n)%nat) by (destruct Hn as [->|[->|[->| ->]]]; lia).
  rewrite N8. intros E. apply le_bytes_inj in E. rewrite !Z.mod_mod in E by (pose proof (pow256_pos n); lia).
  set (r := own_round (fdiv b64 (decode b64 v) (decode b64 p))) in *.
  destruct (set_code_ok n s r Hpos) as (B1 & B2 & _). cbv zeta in *.
  destruct (pow256_half n Hpos) as [HP Hh].
  set (c := set_code n s r) in *.
  assert (Hn1 : nac n s = orc n s + 1) by reflexivity.
  assert (R1 : (if s then - (256 ^ Z.of_nat n / 2) <= c < 256 ^ Z.of_nat n / 2 else 0 <= c < 256 ^ Z.of_nat n))
    by (unfold lo, orc in *; destruct s; lia).
  assert (R2 : (if s then - (256 ^ Z.of_nat n / 2) <= nac n s < 256 ^ Z.of_nat n / 2 else 0 <= nac n s < 256 ^ Z.of_nat n))
    by (unfold nac, orc in *; destruct s; lia).
  pose proof (get_code_bytes n s c [] [] Hpos R1) as G1. pose proof (get_code_bytes n s (nac n s) [] [] Hpos R2) as G2.
  cbn [length app] in G1, G2. rewrite app_nil_r in G1, G2.
  apply B2. rewrite <- G1. rewrite E. exact G2.
Qed.
