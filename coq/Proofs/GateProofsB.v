From Coq Require Import ZArith List Bool Lia.
From N2kV Require Import Base.ListAux Model.CanId Model.Sched Model.PgnClass Model.NodeDefs Model.NodeRxDefs Gen.GenTables Gen.GenConsts
  Spec.SendSpec Spec.GateSpec Proofs.SendProofs Proofs.GateProofsA.
Import ListNotations.
Local Open Scope Z_scope.

(* C04, part B: every function of the receive side (Model/NodeRxDefs.v) is a run of the machine.
   [NR n ev n'] = from n (with a sane clock) there is a run without forwarding to n' with events ev.
   Each function f gets a lemma [f_nr : f Y args = (r2, ev) -> NR n [] (rn Y) -> NR n ev (rn r2)] ("after" form, so that the
   silent wrappers around the argument can be peeled off by [nr]). *)

Definition NR (n:node) (ev:list event) (n':node) : Prop := clock_ok n -> exists p, Run false n ev p n'.

Lemma Run_clock fwd n ev p n' : Run fwd n ev p n' -> n_w64 n' = n_w64 n /\ n_now n' = n_now n /\ n_mode n' = n_mode n.
Proof.
  induction 1; try (repeat split; reflexivity).
  - destruct H as (A & M & B & _). repeat split; assumption.
  - destruct IHRun1 as (? & ? & ?), IHRun2 as (? & ? & ?). repeat split; congruence.
Qed.
Lemma clock_ok_run fwd n ev p n' : Run fwd n ev p n' -> clock_ok n -> clock_ok n'.
Proof.
  intros R C. destruct (Run_clock _ _ _ _ _ R) as (A & B & M). unfold clock_ok, claims_addresses in *. rewrite A, B, M. exact C.
Qed.

Lemma NR_refl n : NR n [] n.
Proof. intros _. exists []. apply Run_refl. Qed.
Lemma NR_trans n ev1 n1 ev2 n2 : NR n ev1 n1 -> NR n1 ev2 n2 -> NR n (ev1 ++ ev2) n2.
Proof.
  intros A B C. destruct (A C) as (p1 & R1). destruct (B (clock_ok_run _ _ _ _ _ R1 C)) as (p2 & R2).
  exists (p1 ++ p2). eapply R_seq; eassumption.
Qed.
Lemma NR_after n n1 ev n2 : NR n [] n1 -> NR n1 ev n2 -> NR n ev n2.
Proof. intros A B. change ev with ([] ++ ev). eapply NR_trans; eassumption. Qed.
Lemma NR_then n n1 ev n2 : NR n ev n1 -> NR n1 [] n2 -> NR n ev n2.
Proof. intros A B. rewrite <- (app_nil_r ev). eapply NR_trans; eassumption. Qed.
Lemma NR_quiet n n' : quiet_change n n' -> NR n [] n'.
Proof. intros H _. exists []. apply R_quiet, H. Qed.
Lemma NR_quiet_r n ev n1 n2 : quiet_change n1 n2 -> NR n ev n1 -> NR n ev n2.
Proof. intros H A. eapply NR_then; [exact A|apply NR_quiet, H]. Qed.
Lemma NR_note n e : is_tx e = false -> NR n [e] n.
Proof. intros H _. exists []. apply R_note, H. Qed.

(* ---------- wrappers that do not touch the node ---------- *)
Lemma rn_chk_dev r i : rn (chk_dev r i) = rn r.
Proof. unfold chk_dev. destruct (_ && _)%bool; reflexivity. Qed.
Lemma rn_chk_slot r i : rn (chk_slot r i) = rn r.
Proof. unfold chk_slot. destruct (_ && _)%bool; reflexivity. Qed.
Lemma rn_set_slot r i s : rn (set_slot r i s) = rn r.
Proof. unfold set_slot. cbn [rn with_slots]. apply rn_chk_slot. Qed.
Lemma rn_mark_ready r i : rn (fst (mark_ready r i)) = rn r.
Proof. unfold mark_ready. cbn [fst]. rewrite rn_set_slot. apply rn_chk_slot. Qed.
Lemma rn_set_pending r i a b c : rn (set_pending r i a b c) = rn r.
Proof. unfold set_pending. cbn [rn with_devx]. apply rn_chk_dev. Qed.
Lemma rn_millis64 r : rn (fst (millis64 r)) = rn r.
Proof. unfold millis64. destruct (w64 r); reflexivity. Qed.
Lemma rn_set_heartbeat_all : forall k r i a b, rn (set_heartbeat_all k r i a b) = rn r.
Proof.
  induction k as [|k IH]; intros r i a b; cbn [set_heartbeat_all]; [reflexivity|].
  destruct (_ =? 0).
  - rewrite IH. reflexivity.
  - rewrite IH. destruct (_ || _)%bool; [|reflexivity].
    pose proof (rn_millis64 r) as M. destruct (millis64 r) as [rc t]. cbn [fst] in M.
    destruct (_ || _)%bool; cbn [rn with_devinfo_changed with_devx]; exact M.
Qed.
Lemma rn_resync_heartbeats : forall k r i, rn (resync_heartbeats k r i) = rn r.
Proof.
  induction k as [|k IH]; intros r i; cbn [resync_heartbeats]; [reflexivity|]. rewrite IH.
  destruct (_ =? ss_disabled); [reflexivity|]. destruct (_ =? 0); [reflexivity|].
  pose proof (rn_millis64 r) as M. destruct (millis64 r) as [rc t]. cbn [fst] in M. cbn [rn with_devx]. exact M.
Qed.

Ltac rnsimp := cbn [rn with_rn with_slots with_devx with_rxq with_sync with_devinfo_changed with_clk set_oob fst snd] in *;
               rewrite ?rn_chk_dev, ?rn_chk_slot, ?rn_set_slot, ?rn_set_pending, ?rn_mark_ready, ?rn_millis64, ?rn_resync_heartbeats, ?rn_set_heartbeat_all in *.

(* ---------- silent changes of the node ---------- *)
Lemma qc_set_dev_tp r i tp t s : quiet_change (rn r) (rn (set_dev_tp r i tp t s)).
Proof. unfold set_dev_tp. cbn [rn with_rn]. rewrite rn_chk_dev. apply quiet_upd_dev_same; reflexivity. Qed.
Lemma qc_end_send_tp_r r i : quiet_change (rn r) (rn (end_send_tp_r r i)).
Proof. unfold end_send_tp_r. cbn [rn with_rn]. rewrite rn_chk_dev. apply end_send_tp_quiet. Qed.
Lemma qc_set_name r i nm : quiet_change (rn r) (rn (set_name r i nm)).
Proof. unfold set_name. cbn [rn with_rn]. rewrite rn_chk_dev. apply quiet_upd_dev_same; reflexivity. Qed.
Lemma qc_set_addr_changed r : quiet_change (rn r) (rn (set_addr_changed r)).
Proof. unfold set_addr_changed, quiet_change. cbn [rn with_rn n_w64 n_mode n_now n_q n_drv n_open]. repeat split; auto. Qed.
Lemma qc_with_open r st sc : (n_open (rn r) = 3 -> st = 3) -> quiet_change (rn r) (rn (with_open r st sc)).
Proof. intros H. unfold with_open, quiet_change. cbn [rn n_w64 n_mode n_now n_q n_drv n_open]. repeat split; auto. Qed.

(* peel silent wrappers off the target of an NR goal *)
Ltac nr :=
  repeat first
    [ apply NR_refl
    | progress rnsimp
    | match goal with
      | |- NR _ _ (rn (set_dev_tp _ _ _ _ _)) => apply (NR_quiet_r _ _ _ _ (qc_set_dev_tp _ _ _ _ _))
      | |- NR _ _ (rn (end_send_tp_r _ _)) => apply (NR_quiet_r _ _ _ _ (qc_end_send_tp_r _ _))
      | |- NR _ _ (rn (set_name _ _ _)) => apply (NR_quiet_r _ _ _ _ (qc_set_name _ _ _))
      | |- NR _ _ (rn (set_addr_changed _)) => apply (NR_quiet_r _ _ _ _ (qc_set_addr_changed _))
      end
    | assumption ].

(* ---------- rsend and the TP control messages ---------- *)
Lemma rsend_nr n Y m idev r2 ev ok : rsend Y m idev = (r2, ev, ok) -> 0 <= idev -> NR n [] (rn Y) -> NR n ev (rn r2).
Proof.
  unfold rsend. intros H Hi A. destruct (send_msg (rn Y) m idev) as [[n' ev'] ok'] eqn:E. injection H as <- <- <-.
  eapply NR_after; [exact A|]. intros _. cbn [rn with_rn].
  destruct (send_msg_run _ _ _ _ _ _ E) as (p & R). replace (idev <? 0) with false in R by (symmetry; apply Z.ltb_ge; exact Hi).
  exists p. exact R.
Qed.

Lemma send_tpcm_cts_nr n Y pgn dst idev np nx r2 ev : send_tpcm_cts Y pgn dst idev np nx = (r2, ev) -> 0 <= idev -> NR n [] (rn Y) -> NR n ev (rn r2).
Proof.
  unfold send_tpcm_cts. intros H Hi A. destruct (negb (is_active_node (rn (chk_dev Y idev)))); [injection H as <- <-; nr|].
  destruct (rsend _ _ idev) as [[r' ev'] ok] eqn:E. injection H as <- <-. eapply rsend_nr; [exact E|exact Hi|nr].
Qed.
Lemma send_tpcm_endack_nr n Y pgn dst idev nb np r2 ev : send_tpcm_endack Y pgn dst idev nb np = (r2, ev) -> 0 <= idev -> NR n [] (rn Y) -> NR n ev (rn r2).
Proof.
  unfold send_tpcm_endack. intros H Hi A. destruct (negb (is_active_node (rn (chk_dev Y idev)))); [injection H as <- <-; nr|].
  destruct (rsend _ _ idev) as [[r' ev'] ok] eqn:E. injection H as <- <-. eapply rsend_nr; [exact E|exact Hi|nr].
Qed.
Lemma send_tpcm_abort_nr n Y pgn dst idev c r2 ev : send_tpcm_abort Y pgn dst idev c = (r2, ev) -> 0 <= idev -> NR n [] (rn Y) -> NR n ev (rn r2).
Proof.
  unfold send_tpcm_abort. intros H Hi A. destruct (negb (is_active_node (rn (chk_dev Y idev)))); [injection H as <- <-; nr|].
  destruct (rsend _ _ idev) as [[r' ev'] ok] eqn:E. injection H as <- <-. eapply rsend_nr; [exact E|exact Hi|nr].
Qed.

Lemma send_tpdt_nr n Y i r2 ev ok : send_tpdt Y i = (r2, ev, ok) -> 0 <= i -> NR n [] (rn Y) -> NR n ev (rn r2).
Proof. unfold send_tpdt. intros H Hi A. eapply rsend_nr; [exact H|exact Hi|nr]. Qed.

Lemma send_tpdt_burst_nr : forall k n Y i r2 ev ok, send_tpdt_burst k Y i = (r2, ev, ok) -> 0 <= i -> NR n [] (rn Y) -> NR n ev (rn r2).
Proof.
  induction k as [|k IH]; intros n Y i r2 ev ok H Hi A; cbn [send_tpdt_burst] in H.
  - injection H as <- <- <-. exact A.
  - destruct (has_all_dt_sent _); [injection H as <- <- <-; exact A|].
    destruct (send_tpdt Y i) as [[r1 ev1] ok1] eqn:E1.
    pose proof (send_tpdt_nr n _ _ _ _ _ E1 Hi A) as B.
    destruct ok1; [|injection H as <- <- <-; exact B].
    destruct (send_tpdt_burst k r1 i) as [[r2' ev2] ok2] eqn:E2. injection H as <- <- <-.
    eapply NR_trans; [exact B|]. eapply IH; [exact E2|exact Hi|apply NR_refl].
Qed.

Lemma send_pending_tp_nr n Y i r2 ev : send_pending_tp Y i = (r2, ev) -> 0 <= i -> NR n [] (rn Y) -> NR n ev (rn r2).
Proof.
  unfold send_pending_tp. intros H Hi A. cbv zeta in H.
  destruct (d_tp_msg (get_dev (rn (chk_dev Y i)) i)) as [m|]; [|injection H as <- <-; nr].
  destruct (sched_is_time _ _ _); [|injection H as <- <-; nr].
  destruct (m_dst m =? 255); [|injection H as <- <-; nr].
  destruct (send_tpdt (chk_dev Y i) i) as [[r1 ev1] ok1] eqn:E1.
  assert (B: NR n ev1 (rn r1)) by (eapply send_tpdt_nr; [exact E1|exact Hi|nr]).
  destruct (has_all_dt_sent _); injection H as <- <-; nr.
Qed.

(* ---------- symbolic execution of a function body given as hypothesis H : body = result ---------- *)
Ltac head_step H :=
  match type of H with
  | (if ?c then _ else _) = _ => destruct c eqn:?
  | (match ?e with _ => _ end) = _ => destruct e eqn:?
  end.
Ltac inj_pairs :=
  repeat match goal with
  | H : (_, _) = (_, _) |- _ => injection H; clear H; intros; subst
  end.
Ltac split_if_hyps :=
  repeat match goal with
  | E : (if ?c then _ else _) = (_, _) |- _ => destruct c eqn:?
  end.
Ltac idev_side :=
  repeat match goal with H : (_ && _)%bool = true |- _ => apply andb_true_iff in H; destruct H end;
  repeat match goal with
         | H : (_ >=? _) = true |- _ => apply Z.geb_le in H
         | H : (_ <=? _) = true |- _ => apply Z.leb_le in H
         | H : (_ <? _) = true |- _ => apply Z.ltb_lt in H
         | H : negb _ = false |- _ => apply negb_false_iff in H
         end;
  lia.

Lemma handle_tp_nr r pgn src dst len buf h r2 ev idx : handle_tp r pgn src dst len buf = (h, r2, ev, idx) -> NR (rn r) ev (rn r2).
Proof.
  intros H. unfold handle_tp in H. cbv zeta in H.
  repeat head_step H; inj_pairs; split_if_hyps; inj_pairs;
  repeat (nr; try match goal with |- NR _ _ (rn (if ?b then _ else _)) => destruct b end);
  try match goal with
  | E : send_tpcm_abort _ _ _ _ _ = (?r2, ?ev) |- NR _ ?ev (rn ?r2) => eapply send_tpcm_abort_nr; [exact E|idev_side|nr]
  | E : send_tpcm_cts _ _ _ _ _ _ = (?r2, ?ev) |- NR _ ?ev (rn ?r2) => eapply send_tpcm_cts_nr; [exact E|idev_side|nr]
  | E : send_tpcm_endack _ _ _ _ _ _ = (?r2, ?ev) |- NR _ ?ev (rn ?r2) => eapply send_tpcm_endack_nr; [exact E|idev_side|nr]
  | E : send_tpdt_burst _ _ _ = (?r2, ?ev, _) |- NR _ ?ev (rn ?r2) => eapply send_tpdt_burst_nr; [exact E|idev_side|nr]
  end.
Qed.

Ltac aux_facts :=
  repeat match goal with
  | E : mark_ready ?X ?i = (?r3, _) |- _ =>
      let F := fresh "F" in assert (F: rn r3 = rn X) by (rewrite <- (rn_mark_ready X i), E; reflexivity); clear E
  | E : millis64 ?X = (?r3, _) |- _ =>
      let F := fresh "F" in assert (F: rn r3 = rn X) by (rewrite <- (rn_millis64 X), E; reflexivity); clear E
  end.

Lemma rx_frame_nr r f r2 ev idx : rx_frame r f = (r2, ev, idx) -> NR (rn r) ev (rn r2).
Proof.
  intros H. unfold rx_frame in H. cbv zeta in H.
  repeat head_step H; inj_pairs; aux_facts;
  try match goal with E : handle_tp _ _ _ _ _ _ = (_, ?r1, ?ev, _) |- NR _ ?ev (rn ?r1) => exact (handle_tp_nr _ _ _ _ _ _ _ _ _ _ E) end;
  repeat match goal with F : rn ?a = _ |- NR _ _ (rn ?a) => rewrite F end; nr.
Qed.

(* ---------- address claim ---------- *)
Definition od (i:Z) (n n':node) : Prop := only_dev i n n' /\ n_q n' = n_q n /\ n_drv n' = n_drv n.
Lemma od_refl i n : od i n n.
Proof. split; [apply only_dev_refl|auto]. Qed.
Lemma od_trans i a b c : od i a b -> od i b c -> od i a c.
Proof. intros (A1 & A2 & A3) (B1 & B2 & B3). split; [eapply only_dev_trans; eassumption|split; congruence]. Qed.
Lemma od_upd_dev i n d : od i n (upd_dev n i d).
Proof. split; [apply only_dev_upd|split; reflexivity]. Qed.
Lemma od_set_src r i s ue : od i (rn r) (rn (set_src r i s ue)).
Proof. unfold set_src. cbn [rn with_rn]. rewrite rn_chk_dev. apply od_upd_dev. Qed.
Lemma od_set_addr_changed i r : od i (rn r) (rn (set_addr_changed r)).
Proof. unfold set_addr_changed, od, only_dev. cbn [rn with_rn n_w64 n_mode n_now n_q n_drv n_open]. repeat split; auto. Qed.
Lemma od_set_name r i nm : od i (rn r) (rn (set_name r i nm)).
Proof. unfold set_name. cbn [rn with_rn]. rewrite rn_chk_dev. apply od_upd_dev. Qed.
Lemma od_claim_started i n : od i n (fst (claim_started n i)).
Proof.
  split; [apply claim_started_src|]. pose proof (claim_started_spec n i) as (_ & (_ & _ & _ & A & B & _) & _). split; assumption.
Qed.

Lemma od_next_address : forall k r i b, od i (rn r) (rn (next_address k r i b)).
Proof.
  induction k as [|k IH]; intros r i b; cbn [next_address]; [apply od_refl|].
  destruct (_ =? c_N2kNullCanBusAddress).
  - destruct b; [|apply od_refl]. destruct (same_as_sibling _ _).
    + eapply od_trans; [apply od_set_src|apply IH].
    + eapply od_trans; [apply od_set_src|apply od_set_addr_changed].
  - destruct (negb _).
    + destruct (same_as_sibling _ _).
      * eapply od_trans; [apply od_set_src|apply IH].
      * eapply od_trans; [apply od_set_src|apply od_set_addr_changed].
    + eapply od_trans; [apply od_set_src|apply od_set_addr_changed].
Qed.

Lemma rstart_claim_nr n Y i r2 ev : rstart_claim Y i = (r2, ev) -> 0 <= i -> od i n (rn Y) -> NR n ev (rn r2).
Proof.
  unfold rstart_claim. intros H Hi (O & Q & D). destruct (start_address_claim (rn (chk_dev Y i)) i) as [n' ev'] eqn:E.
  injection H as <- <-. cbn [rn with_rn]. rewrite rn_chk_dev in E. intros C.
  eapply start_claim_after; eassumption.
Qed.

Lemma rsend_claim_nr n Y dst i r2 ev : rsend_claim Y dst i = (r2, ev) -> NR n [] (rn Y) -> NR n ev (rn r2).
Proof.
  unfold rsend_claim, send_iso_address_claim. intros H A.
  set (i' := if (dst =? 255) && (i =? -1) then 0 else i) in *.
  destruct ((i' <? 0) || (i' >=? dev_count (rn Y))) eqn:Er.
  - injection H as <- <-. cbn [rn with_rn]. exact A.
  - destruct (send_msg (rn Y) _ i') as [[n1 ev1] ok] eqn:E. injection H as <- <-. cbn [rn with_rn].
    eapply NR_after; [exact A|]. intros _. destruct (send_msg_run _ _ _ _ _ _ E) as (p & R).
    apply orb_false_iff in Er. destruct Er as [Er _]. rewrite Er in R. exists p. exact R.
Qed.

Lemma find_src_ge : forall devs src k, 0 <= k -> find_src devs src k = -1 \/ 0 <= find_src devs src k.
Proof.
  induction devs as [|d rest IH]; intros src k Hk; cbn [find_src]; [left; reflexivity|].
  destruct (d_src d =? src); [right; exact Hk|]. apply IH. lia.
Qed.
Lemma find_source_device_ge r src : find_source_device r src = -1 \/ 0 <= find_source_device r src.
Proof. unfold find_source_device. destruct (src <=? 253); [apply find_src_ge; lia|left; reflexivity]. Qed.

Lemma handle_claim_nr r src data r2 ev : handle_claim r src data = (r2, ev) -> NR (rn r) ev (rn r2).
Proof.
  unfold handle_claim. intros H. cbv zeta in H.
  destruct ((src =? c_N2kNullCanBusAddress) || (find_source_device r src =? -1)) eqn:E0; [injection H as <- <-; apply NR_refl|].
  apply orb_false_iff in E0. destruct E0 as [_ E0]. apply Z.eqb_neq in E0.
  assert (Hi: 0 <= find_source_device r src) by (destruct (find_source_device_ge r src); [contradiction|assumption]).
  set (i := find_source_device r src) in *.
  destruct (_ <? _).
  - eapply rsend_claim_nr; [exact H|nr].
  - pose proof (od_claim_started i (rn (chk_dev r i))) as OC.
    destruct (claim_started (rn (chk_dev r i)) i) as [n1 started]. cbn [fst] in OC. rewrite rn_chk_dev in OC.
    destruct ((_ =? _) && started) eqn:E1.
    + apply andb_true_iff in E1. destruct E1 as [E1 _]. rewrite E1 in H.
      eapply rstart_claim_nr; [exact H|exact Hi|]. cbn [rn with_devinfo_changed].
      eapply od_trans; [|apply od_set_name]. cbn [rn with_rn]. exact OC.
    + eapply rstart_claim_nr; [exact H|exact Hi|].
      eapply od_trans; [|apply od_next_address].
      destruct (_ =? _); [cbn [rn with_rn]; exact OC|rewrite rn_chk_dev; apply od_refl].
Qed.

Lemma commanded_one_nr r nm na i r2 ev : commanded_one r nm na i = (r2, ev) -> 0 <= i -> NR (rn r) ev (rn r2).
Proof.
  unfold commanded_one. intros H Hi. cbv zeta in H.
  destruct (na =? 255); [injection H as <- <-; nr|].
  destruct (_ && _)%bool; [|injection H as <- <-; nr].
  destruct (rstart_claim _ i) as [r1 ev1] eqn:E. injection H as <- <-.
  apply (NR_quiet_r _ _ _ _ (qc_set_addr_changed _)).
  eapply rstart_claim_nr; [exact E|exact Hi|]. rewrite <- (rn_chk_dev r i) at 1. apply od_set_src.
Qed.

Lemma commanded_all_nr : forall k r nm na i r2 ev, commanded_all k r nm na i = (r2, ev) -> 0 <= i -> NR (rn r) ev (rn r2).
Proof.
  induction k as [|k IH]; intros r nm na i r2 ev H Hi; cbn [commanded_all] in H.
  - injection H as <- <-. apply NR_refl.
  - destruct (commanded_one r nm na i) as [r1 ev1] eqn:E1. destruct (commanded_all k r1 nm na (i+1)) as [r2' ev2] eqn:E2.
    injection H as <- <-. eapply NR_trans; [eapply commanded_one_nr; eassumption|eapply IH; [exact E2|lia]].
Qed.

Lemma handle_commanded_nr r s r2 ev : handle_commanded r s = (r2, ev) -> NR (rn r) ev (rn r2).
Proof.
  unfold handle_commanded. intros H. cbv zeta in H.
  destruct (negb _); [injection H as <- <-; apply NR_refl|].
  destruct (negb (s_dst s =? 255) && _); [injection H as <- <-; apply NR_refl|].
  destruct (_ >=? 252); [injection H as <- <-; apply NR_refl|].
  destruct (find_source_device r (s_dst s) =? -1) eqn:E.
  - eapply commanded_all_nr; [exact H|lia].
  - apply Z.eqb_neq in E. eapply commanded_one_nr; [exact H|]. destruct (find_source_device_ge r (s_dst s)); [contradiction|assumption].
Qed.

(* ---------- ISO request ---------- *)
Lemma send_product_info_nr n Y i r2 ev : send_product_info Y i = (r2, ev) -> 0 <= i -> NR n [] (rn Y) -> NR n ev (rn r2).
Proof.
  unfold send_product_info. intros H Hi A. cbv zeta in H. destruct (rsend _ _ i) as [[r1 ev1] ok] eqn:E. injection H as <- <-.
  rewrite rn_set_pending. eapply rsend_nr; [exact E|exact Hi|nr].
Qed.
Lemma send_config_info_nr n Y i r2 ev : send_config_info Y i = (r2, ev) -> 0 <= i -> NR n [] (rn Y) -> NR n ev (rn r2).
Proof.
  unfold send_config_info. intros H Hi A. cbv zeta in H. destruct (rsend _ _ i) as [[r1 ev1] ok] eqn:E. injection H as <- <-.
  rewrite rn_set_pending. eapply rsend_nr; [exact E|exact Hi|nr].
Qed.

Lemma respond_iso_request_nr r rq ad rpgn i r2 ev : respond_iso_request r rq ad rpgn i = (r2, ev) -> 0 <= i -> NR (rn r) ev (rn r2).
Proof.
  unfold respond_iso_request. intros H Hi. cbv zeta in H.
  pose proof (claim_started_spec (rn (chk_dev r i)) i) as (_ & QC & _).
  destruct (claim_started (rn (chk_dev r i)) i) as [n1 started]. cbn [fst] in QC. rewrite rn_chk_dev in QC.
  set (r0 := with_rn (chk_dev r i) n1) in *.
  assert (A: NR (rn r) [] (rn r0)) by (apply NR_quiet; exact QC).
  destruct started; [injection H as <- <-; exact A|].
  destruct (rpgn =? 60928); [eapply rsend_claim_nr; eassumption|].
  destruct (rpgn =? 126464).
  { destruct (rsend r0 _ i) as [[r1 ev1] ok1] eqn:E1. destruct (rsend r1 _ i) as [[r2' ev2] ok2] eqn:E2. injection H as <- <-.
    eapply NR_trans; [eapply rsend_nr; [exact E1|exact Hi|exact A]|eapply rsend_nr; [exact E2|exact Hi|apply NR_refl]]. }
  destruct (rpgn =? 126996); [eapply send_product_info_nr; eassumption|].
  destruct (rpgn =? 126998).
  { destruct (c_confinfo (r_cfg r0)); [|eapply send_config_info_nr; eassumption].
    destruct ad; [|injection H as <- <-; exact A].
    destruct (rsend r0 _ i) as [[r1 ev1] ok1] eqn:E1. injection H as <- <-. eapply rsend_nr; [exact E1|exact Hi|exact A]. }
  destruct (match c_iso_handler (r_cfg r0) with Some acc => _ | None => _ end) as [[|]|].
  - apply pair_equal_spec in H. destruct H as [H1 H2]. rewrite <- H1, <- H2.
    apply (NR_after (rn r) (rn r0) _ (rn r0) A). apply (NR_note (rn r0) (EvNote (1000000 + rpgn)) eq_refl).
  - destruct ad; [|injection H as <- <-; exact A].
    destruct (rsend r0 _ i) as [[r1 ev1] ok1] eqn:E1. injection H as <- <-. eapply rsend_nr; [exact E1|exact Hi|exact A].
  - injection H as <- <-. exact A.
Qed.

Lemma respond_all_nr : forall k r rq rpgn i r2 ev, respond_all k r rq rpgn i = (r2, ev) -> 0 <= i -> NR (rn r) ev (rn r2).
Proof.
  induction k as [|k IH]; intros r rq rpgn i r2 ev H Hi; cbn [respond_all] in H.
  - injection H as <- <-. apply NR_refl.
  - destruct (respond_iso_request r rq false rpgn i) as [r1 ev1] eqn:E1. destruct (respond_all k r1 rq rpgn (i+1)) as [r2' ev2] eqn:E2.
    injection H as <- <-. eapply NR_trans; [eapply respond_iso_request_nr; eassumption|eapply IH; [exact E2|lia]].
Qed.

Lemma handle_iso_request_nr r s r2 ev : handle_iso_request r s = (r2, ev) -> NR (rn r) ev (rn r2).
Proof.
  unfold handle_iso_request. intros H. cbv zeta in H.
  destruct (negb (s_dst s =? 255) && (find_source_device r (s_dst s) =? -1)) eqn:E0; [injection H as <- <-; apply NR_refl|].
  destruct (s_dst s =? 255) eqn:E1.
  - eapply respond_all_nr; [exact H|lia].
  - cbn [negb andb] in E0. apply Z.eqb_neq in E0. eapply respond_iso_request_nr; [exact H|].
    destruct (find_source_device_ge r (s_dst s)); [contradiction|assumption].
Qed.

(* ---------- everything parametrised by the group function reaction ---------- *)
Section WithGF.
Variable gf : rnode -> slot -> rnode * list event.
Hypothesis Hgf : gf_ok gf.

Lemma handle_system_nr r s r2 ev : handle_system gf r s = (r2, ev) -> NR (rn r) ev (rn r2).
Proof.
  unfold handle_system. intros H. cbv zeta in H.
  destruct (_ || _)%bool; [injection H as <- <-; apply NR_refl|].
  destruct (_ && _)%bool; [|injection H as <- <-; apply NR_refl].
  destruct (s_pgn s =? 59904); [eapply handle_iso_request_nr; exact H|].
  destruct (s_pgn s =? 60928); [eapply handle_claim_nr; exact H|].
  destruct (s_pgn s =? 65240); [eapply handle_commanded_nr; exact H|].
  destruct (s_pgn s =? 126208); [|injection H as <- <-; apply NR_refl].
  intros C. exact (Hgf _ _ _ _ H C).
Qed.

Lemma send_pending_info_dev_nr r i r2 ev : send_pending_info_dev r i = (r2, ev) -> 0 <= i -> NR (rn r) ev (rn r2).
Proof.
  unfold send_pending_info_dev. intros H Hi. cbv zeta in H.
  destruct (send_pending_tp (chk_dev r i) i) as [r1 ev1] eqn:E1.
  assert (A1: NR (rn r) ev1 (rn r1)) by (eapply send_pending_tp_nr; [exact E1|exact Hi|nr]).
  match type of H with context [if sched_is_time ?a ?b (x_pend_claim ?c) then ?t else ?e] =>
    destruct (if sched_is_time a b (x_pend_claim c) then t else e) as [r2' ev2] eqn:E2 end.
  assert (A2: NR (rn r1) ev2 (rn r2')).
  { destruct (sched_is_time _ _ (x_pend_claim _)); [|injection E2 as <- <-; apply NR_refl].
    destruct (rsend_claim r1 255 i) as [r' ev'] eqn:E. injection E2 as <- <-. rewrite rn_set_pending.
    eapply rsend_claim_nr; [exact E|apply NR_refl]. }
  clear E2.
  destruct (if sched_is_time _ _ (x_pend_prod _) then _ else _) as [r3 ev3] eqn:E3 in H.
  assert (A3: NR (rn r2') ev3 (rn r3)).
  { destruct (sched_is_time _ _ (x_pend_prod _)); [|injection E3 as <- <-; apply NR_refl].
    eapply send_product_info_nr; [exact E3|exact Hi|apply NR_refl]. }
  clear E3.
  destruct (if sched_is_time _ _ (x_pend_conf _) then _ else _) as [r4 ev4] eqn:E4 in H.
  assert (A4: NR (rn r3) ev4 (rn r4)).
  { destruct (sched_is_time _ _ (x_pend_conf _)); [|injection E4 as <- <-; apply NR_refl].
    eapply send_config_info_nr; [exact E4|exact Hi|apply NR_refl]. }
  injection H as <- <-.
  eapply NR_trans; [exact A1|]. eapply NR_trans; [exact A2|]. eapply NR_trans; [exact A3|exact A4].
Qed.

Lemma send_pending_info_nr : forall k r i r2 ev, send_pending_info k r i = (r2, ev) -> 0 <= i -> NR (rn r) ev (rn r2).
Proof.
  induction k as [|k IH]; intros r i r2 ev H Hi; cbn [send_pending_info] in H.
  - injection H as <- <-. apply NR_refl.
  - destruct (if has_pending r i then _ else _) as [r1 ev1] eqn:E1. destruct (send_pending_info k r1 (i+1)) as [r2' ev2] eqn:E2.
    injection H as <- <-. eapply NR_trans; [|eapply IH; [exact E2|lia]].
    destruct (has_pending r i); [eapply send_pending_info_dev_nr; eassumption|injection E1 as <- <-; apply NR_refl].
Qed.

Lemma send_heartbeat_dev_nr r i r2 ev : send_heartbeat_dev r i = (r2, ev) -> 0 <= i -> NR (rn r) ev (rn r2).
Proof.
  unfold send_heartbeat_dev. intros H Hi. cbv zeta in H.
  pose proof (claim_started_spec (rn (chk_dev r i)) i) as (_ & QC & _).
  destruct (claim_started (rn (chk_dev r i)) i) as [n1 started]. cbn [fst] in QC. rewrite rn_chk_dev in QC.
  set (r0 := with_rn (chk_dev r i) n1) in *.
  assert (A: NR (rn r) [] (rn r0)) by (apply NR_quiet; exact QC).
  destruct started; [injection H as <- <-; exact A|].
  destruct (millis64 r0) as [ra t1] eqn:M1.
  destruct (ss_is_time t1 _); [|injection H as <- <-; aux_facts; rewrite F; exact A].
  destruct (millis64 ra) as [rb t2] eqn:M2.
  destruct (rsend _ _ i) as [[r3 ev3] ok] eqn:E. injection H as <- <-. aux_facts. cbn [rn with_devx].
  eapply rsend_nr; [exact E|exact Hi|]. cbn [rn with_devx]. rewrite F, F0. exact A.
Qed.

Lemma send_heartbeat_nr : forall k r i r2 ev, send_heartbeat k r i = (r2, ev) -> 0 <= i -> NR (rn r) ev (rn r2).
Proof.
  induction k as [|k IH]; intros r i r2 ev H Hi; cbn [send_heartbeat] in H.
  - injection H as <- <-. apply NR_refl.
  - destruct (send_heartbeat_dev r i) as [r1 ev1] eqn:E1. destruct (send_heartbeat k r1 (i+1)) as [r2' ev2] eqn:E2.
    injection H as <- <-. eapply NR_trans; [eapply send_heartbeat_dev_nr; eassumption|eapply IH; [exact E2|lia]].
Qed.

Lemma start_claim_all_nr : forall k r i r2 ev, start_claim_all k r i = (r2, ev) -> 0 <= i -> NR (rn r) ev (rn r2).
Proof.
  induction k as [|k IH]; intros r i r2 ev H Hi; cbn [start_claim_all] in H.
  - injection H as <- <-. apply NR_refl.
  - cbv zeta in H. destruct (rstart_claim _ i) as [r1 ev1] eqn:E1. destruct (start_claim_all k r1 (i+1)) as [r2' ev2] eqn:E2.
    injection H as <- <-. eapply NR_trans; [|eapply IH; [exact E2|lia]].
    eapply rstart_claim_nr; [exact E1|exact Hi|]. destruct (_ =? _); [apply od_next_address|apply od_refl].
Qed.

Lemma open_step_nr r r2 ev b : open_step r = (r2, ev, b) -> NR (rn r) ev (rn r2).
Proof.
  unfold open_step. intros H. cbv zeta in H.
  destruct (n_open (rn r) =? 3) eqn:E3; [injection H as <- <- <-; apply NR_refl|]. apply Z.eqb_neq in E3.
  set (r0 := if n_open (rn r) =? 0 then with_open r 1 (r_open_sched r) else r) in *.
  assert (A0: NR (rn r) [] (rn r0)).
  { subst r0. destruct (_ =? 0); [apply NR_quiet, qc_with_open; intros C; contradiction|apply NR_refl]. }
  assert (N0: n_open (rn r0) <> 3).
  { subst r0. destruct (n_open (rn r) =? 0); [cbn; lia|exact E3]. }
  destruct (n_open (rn r0) =? 1).
  - destruct (negb _); injection H as <- <- <-; [exact A0|].
    eapply NR_then; [exact A0|apply NR_quiet, qc_with_open; intros C; contradiction].
  - destruct (sched_is_time _ _ _).
    + destruct (start_claim_all _ _ 0) as [ra eva] eqn:ES. destruct (millis64 ra) as [rc ts] eqn:M. injection H as <- <- <-.
      aux_facts. rewrite rn_resync_heartbeats, rn_set_heartbeat_all. cbn [rn with_sync]. rewrite F.
      eapply NR_trans; [|apply NR_note; reflexivity].
      eapply NR_after; [exact A0|]. eapply NR_after; [apply NR_quiet, (qc_with_open r0 3 (r_open_sched r0)); reflexivity|].
      eapply start_claim_all_nr; [exact ES|lia].
    + injection H as <- <- <-. cbn [rn with_rxq]. exact A0.
Qed.

Lemma rflush_nr r r2 ev : rflush r = (r2, ev) -> NR (rn r) ev (rn r2).
Proof.
  unfold rflush. intros H. destruct (flush _ _) as [[[q d] ev1] ok] eqn:E. injection H as <- <-. cbn [rn with_rn].
  intros _. exists []. eapply R_flush. exact E.
Qed.

Lemma rx_loop_nr : forall k r r2 ev, rx_loop gf k r = (r2, ev) -> NR (rn r) ev (rn r2).
Proof.
  induction k as [|k IH]; intros r r2 ev H; cbn [rx_loop] in H.
  - injection H as <- <-. apply NR_refl.
  - destruct (r_q r) as [|f rest]; [injection H as <- <-; apply NR_refl|].
    destruct (rx_frame (with_rxq r rest) f) as [[r1 ev1] idx] eqn:E1.
    pose proof (rx_frame_nr _ _ _ _ _ E1) as A1. cbn [rn with_rxq] in A1.
    destruct (idx <? nslots r1).
    + destruct (handle_system gf (chk_slot r1 idx) _) as [r2' ev2] eqn:E2.
      pose proof (handle_system_nr _ _ _ _ E2) as A2. rewrite rn_chk_slot in A2.
      destruct (rx_loop gf k _) as [r4 ev4] eqn:E4. injection H as <- <-.
      pose proof (IH _ _ _ E4) as A4. rewrite rn_set_slot in A4.
      eapply NR_trans; [exact A1|]. eapply NR_trans; [exact A2|].
      apply (NR_trans (rn r2') [EvDeliver (slot_msg (get_slot (chk_slot r1 idx) idx))] (rn r2') ev4 (rn r4)); [apply NR_note; reflexivity|exact A4].
    + destruct (rx_loop gf k r1) as [r4 ev4] eqn:E4. injection H as <- <-.
      eapply NR_trans; [exact A1|eapply IH; exact E4].
Qed.

Lemma poll_nr r r2 ev : poll gf r = (r2, ev) -> NR (rn r) ev (rn r2).
Proof.
  unfold poll. intros H.
  destruct (if n_open (rn r) =? 3 then (r, [], true) else open_step r) as [[r1 ev0] opened] eqn:E0.
  assert (A0: NR (rn r) ev0 (rn r1)).
  { destruct (n_open (rn r) =? 3); [injection E0 as <- <- <-; apply NR_refl|eapply open_step_nr; exact E0]. }
  destruct (negb _); [injection H as <- <-; exact A0|].
  destruct (rflush r1) as [ra ev1] eqn:E1. destruct (send_pending_info _ ra 0) as [rb ev2] eqn:E2.
  destruct (rx_loop gf _ rb) as [rc ev3] eqn:E3.
  destruct (if is_active_node (rn rc) then _ else _) as [rd ev4] eqn:E4. injection H as <- <-.
  eapply NR_trans; [exact A0|]. eapply NR_trans; [eapply rflush_nr; exact E1|].
  eapply NR_trans; [eapply send_pending_info_nr; [exact E2|lia]|]. eapply NR_trans; [eapply rx_loop_nr; exact E3|].
  destruct (is_active_node (rn rc)); [eapply send_heartbeat_nr; [exact E4|lia]|injection E4 as <- <-; apply NR_refl].
Qed.

End WithGF.
