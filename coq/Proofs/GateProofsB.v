From Coq Require Import ZArith List Bool Lia.
From N2kV Require Import Base.ListAux Model.CanId Model.Sched Model.PgnClass Model.NodeDefs Model.NodeRxDefs Gen.GenTables Gen.GenConsts
  Spec.SendSpec Spec.GateSpec Proofs.SendProofs Proofs.GateProofsA.
Import ListNotations.
Local Open Scope Z_scope.

(* C04, part B: every function of the receive side (Model/NodeRxDefs.v) is a run of the machine.
   [NR n ev n'] = from n (with a sane clock) there is a run without forwarding to n' with events ev.
   Each function f gets a lemma [f_nr : f Y args = (r2, ev) -> NR n [] (rn Y) -> NR n ev (rn r2)] ("after" form, so that the
   silent wrappers around the argument can be peeled off by [nr]). *)

Definition NR (n:node) (ev:list event) (n':node) : Prop := clock_ok n -> exists p, Run false n ev p n'.

Lemma Run_clock fwd n ev p n' : Run fwd n ev p n' -> n_w64 n' = n_w64 n /\ n_now n' = n_now n.
Proof.
  induction 1; try (split; reflexivity).
  - destruct H as (A & _ & B & _). split; assumption.
  - destruct IHRun1, IHRun2. split; congruence.
Qed.
Lemma clock_ok_run fwd n ev p n' : Run fwd n ev p n' -> clock_ok n -> clock_ok n'.
Proof. intros R C. destruct (Run_clock _ _ _ _ _ R) as [A B]. unfold clock_ok in *. rewrite A, B. exact C. Qed.

Lemma NR_refl n : NR n [] n.
Proof. intros _. exists []. apply Run_refl. Qed.
Lemma NR_trans n ev1 n1 ev2 n2 : NR n ev1 n1 -> NR n1 ev2 n2 -> NR n (ev1 ++ ev2) n2.
Proof.
  intros A B C. destruct (A C) as (p1 & R1). destruct (B (clock_ok_run _ _ _ _ _ R1 C)) as (p2 & R2).
  exists (p1 ++ p2). eapply R_seq; eassumption.
Qed.
Lemma NR_after n n1 ev n2 : NR n [] n1 -> NR n1 ev n2 -> NR n ev n2.
Proof. intros A B. change ev with ([] ++ ev). eapply NR_trans; eassumption. Qed.
Lemma NR_then n n1 ev n2 : NR n ev n1 -> NR n1 [] n2 -> NR n ev n2.
Proof. intros A B. rewrite <- (app_nil_r ev). eapply NR_trans; eassumption. Qed.
Lemma NR_quiet n n' : quiet_change n n' -> NR n [] n'.
Proof. intros H _. exists []. apply R_quiet, H. Qed.
Lemma NR_quiet_r n ev n1 n2 : quiet_change n1 n2 -> NR n ev n1 -> NR n ev n2.
Proof. intros H A. eapply NR_then; [exact A|apply NR_quiet, H]. Qed.
Lemma NR_note n e : is_tx e = false -> NR n [e] n.
Proof. intros H _. exists []. apply R_note, H. Qed.

(* ---------- wrappers that do not touch the node ---------- *)
Lemma rn_chk_dev r i : rn (chk_dev r i) = rn r.
Proof. unfold chk_dev. destruct (_ && _)%bool; reflexivity. Qed.
Lemma rn_chk_slot r i : rn (chk_slot r i) = rn r.
Proof. unfold chk_slot. destruct (_ && _)%bool; reflexivity. Qed.
Lemma rn_set_slot r i s : rn (set_slot r i s) = rn r.
Proof. unfold set_slot. cbn [rn with_slots]. apply rn_chk_slot. Qed.
Lemma rn_mark_ready r i : rn (fst (mark_ready r i)) = rn r.
Proof. unfold mark_ready. cbn [fst]. rewrite rn_set_slot. apply rn_chk_slot. Qed.
Lemma rn_set_pending r i a b c : rn (set_pending r i a b c) = rn r.
Proof. unfold set_pending. cbn [rn with_devx]. apply rn_chk_dev. Qed.
Lemma rn_millis64 r : rn (fst (millis64 r)) = rn r.
Proof. unfold millis64. destruct (w64 r); reflexivity. Qed.
Lemma rn_set_heartbeat_all : forall k r i a b, rn (set_heartbeat_all k r i a b) = rn r.
Proof.
  induction k as [|k IH]; intros r i a b; cbn [set_heartbeat_all]; [reflexivity|].
  destruct (_ =? 0).
  - rewrite IH. reflexivity.
  - rewrite IH. destruct (_ || _)%bool; [|reflexivity].
    pose proof (rn_millis64 r) as M. destruct (millis64 r) as [rc t]. cbn [fst] in M. cbn [rn with_devinfo_changed with_devx]. exact M.
Qed.

Ltac rnsimp := cbn [rn with_rn with_slots with_devx with_rxq with_sync with_devinfo_changed with_clk set_oob fst snd] in *;
               rewrite ?rn_chk_dev, ?rn_chk_slot, ?rn_set_slot, ?rn_set_pending, ?rn_mark_ready, ?rn_millis64, ?rn_set_heartbeat_all in *.

(* ---------- silent changes of the node ---------- *)
Lemma qc_set_dev_tp r i tp t s : quiet_change (rn r) (rn (set_dev_tp r i tp t s)).
Proof. unfold set_dev_tp. cbn [rn with_rn]. rewrite rn_chk_dev. apply quiet_upd_dev_same; reflexivity. Qed.
Lemma qc_end_send_tp_r r i : quiet_change (rn r) (rn (end_send_tp_r r i)).
Proof. unfold end_send_tp_r. cbn [rn with_rn]. rewrite rn_chk_dev. apply end_send_tp_quiet. Qed.
Lemma qc_set_name r i nm : quiet_change (rn r) (rn (set_name r i nm)).
Proof. unfold set_name. cbn [rn with_rn]. rewrite rn_chk_dev. apply quiet_upd_dev_same; reflexivity. Qed.
Lemma qc_set_addr_changed r : quiet_change (rn r) (rn (set_addr_changed r)).
Proof. unfold set_addr_changed, quiet_change. cbn [rn with_rn n_w64 n_mode n_now n_q n_drv n_open]. repeat split; auto. Qed.
Lemma qc_with_open r st sc : (n_open (rn r) = 3 -> st = 3) -> quiet_change (rn r) (rn (with_open r st sc)).
Proof. intros H. unfold with_open, quiet_change. cbn [rn n_w64 n_mode n_now n_q n_drv n_open]. repeat split; auto. Qed.

(* peel silent wrappers off the target of an NR goal *)
Ltac nr :=
  repeat first
    [ apply NR_refl
    | progress rnsimp
    | match goal with
      | |- NR _ _ (rn (set_dev_tp _ _ _ _ _)) => apply (NR_quiet_r _ _ _ _ (qc_set_dev_tp _ _ _ _ _))
      | |- NR _ _ (rn (end_send_tp_r _ _)) => apply (NR_quiet_r _ _ _ _ (qc_end_send_tp_r _ _))
      | |- NR _ _ (rn (set_name _ _ _)) => apply (NR_quiet_r _ _ _ _ (qc_set_name _ _ _))
      | |- NR _ _ (rn (set_addr_changed _)) => apply (NR_quiet_r _ _ _ _ (qc_set_addr_changed _))
      end
    | assumption ].

(* ---------- rsend and the TP control messages ---------- *)
Lemma rsend_nr n Y m idev r2 ev ok : rsend Y m idev = (r2, ev, ok) -> 0 <= idev -> NR n [] (rn Y) -> NR n ev (rn r2).
Proof.
  unfold rsend. intros H Hi A. destruct (send_msg (rn Y) m idev) as [[n' ev'] ok'] eqn:E. injection H as <- <- <-.
  eapply NR_after; [exact A|]. intros _. cbn [rn with_rn].
  destruct (send_msg_run _ _ _ _ _ _ E) as (p & R). replace (idev <? 0) with false in R by (symmetry; apply Z.ltb_ge; exact Hi).
  exists p. exact R.
Qed.

Lemma send_tpcm_cts_nr n Y pgn dst idev np nx r2 ev : send_tpcm_cts Y pgn dst idev np nx = (r2, ev) -> 0 <= idev -> NR n [] (rn Y) -> NR n ev (rn r2).
Proof.
  unfold send_tpcm_cts. intros H Hi A. destruct (negb (is_active_node (rn (chk_dev Y idev)))); [injection H as <- <-; nr|].
  destruct (rsend _ _ idev) as [[r' ev'] ok] eqn:E. injection H as <- <-. eapply rsend_nr; [exact E|exact Hi|nr].
Qed.
Lemma send_tpcm_endack_nr n Y pgn dst idev nb np r2 ev : send_tpcm_endack Y pgn dst idev nb np = (r2, ev) -> 0 <= idev -> NR n [] (rn Y) -> NR n ev (rn r2).
Proof.
  unfold send_tpcm_endack. intros H Hi A. destruct (negb (is_active_node (rn (chk_dev Y idev)))); [injection H as <- <-; nr|].
  destruct (rsend _ _ idev) as [[r' ev'] ok] eqn:E. injection H as <- <-. eapply rsend_nr; [exact E|exact Hi|nr].
Qed.
Lemma send_tpcm_abort_nr n Y pgn dst idev c r2 ev : send_tpcm_abort Y pgn dst idev c = (r2, ev) -> 0 <= idev -> NR n [] (rn Y) -> NR n ev (rn r2).
Proof.
  unfold send_tpcm_abort. intros H Hi A. destruct (negb (is_active_node (rn (chk_dev Y idev)))); [injection H as <- <-; nr|].
  destruct (rsend _ _ idev) as [[r' ev'] ok] eqn:E. injection H as <- <-. eapply rsend_nr; [exact E|exact Hi|nr].
Qed.

Lemma send_tpdt_nr n Y i r2 ev ok : send_tpdt Y i = (r2, ev, ok) -> 0 <= i -> NR n [] (rn Y) -> NR n ev (rn r2).
Proof. unfold send_tpdt. intros H Hi A. eapply rsend_nr; [exact H|exact Hi|nr]. Qed.

Lemma send_tpdt_burst_nr : forall k n Y i r2 ev ok, send_tpdt_burst k Y i = (r2, ev, ok) -> 0 <= i -> NR n [] (rn Y) -> NR n ev (rn r2).
Proof.
  induction k as [|k IH]; intros n Y i r2 ev ok H Hi A; cbn [send_tpdt_burst] in H.
  - injection H as <- <- <-. exact A.
  - destruct (has_all_dt_sent _); [injection H as <- <- <-; exact A|].
    destruct (send_tpdt Y i) as [[r1 ev1] ok1] eqn:E1.
    pose proof (send_tpdt_nr n _ _ _ _ _ E1 Hi A) as B.
    destruct ok1; [|injection H as <- <- <-; exact B].
    destruct (send_tpdt_burst k r1 i) as [[r2' ev2] ok2] eqn:E2. injection H as <- <- <-.
    eapply NR_trans; [exact B|]. eapply IH; [exact E2|exact Hi|apply NR_refl].
Qed.

Lemma send_pending_tp_nr n Y i r2 ev : send_pending_tp Y i = (r2, ev) -> 0 <= i -> NR n [] (rn Y) -> NR n ev (rn r2).
Proof.
  unfold send_pending_tp. intros H Hi A. cbv zeta in H.
  destruct (d_tp_msg (get_dev (rn (chk_dev Y i)) i)) as [m|]; [|injection H as <- <-; nr].
  destruct (sched_is_time _ _ _); [|injection H as <- <-; nr].
  destruct (m_dst m =? 255); [|injection H as <- <-; nr].
  destruct (send_tpdt (chk_dev Y i) i) as [[r1 ev1] ok1] eqn:E1.
  assert (B: NR n ev1 (rn r1)) by (eapply send_tpdt_nr; [exact E1|exact Hi|nr]).
  destruct (has_all_dt_sent _); injection H as <- <-; nr.
Qed.

(* ---------- symbolic execution of a function body given as hypothesis H : body = result ---------- *)
Ltac head_step H :=
  match type of H with
  | (if ?c then _ else _) = _ => destruct c eqn:?
  | (match ?e with _ => _ end) = _ => destruct e eqn:?
  end.
Ltac inj_pairs :=
  repeat match goal with
  | H : (_, _) = (_, _) |- _ => injection H; clear H; intros; subst
  end.
Ltac split_if_hyps :=
  repeat match goal with
  | E : (if ?c then _ else _) = (_, _) |- _ => destruct c eqn:?
  end.
Ltac idev_side :=
  repeat match goal with H : (_ && _)%bool = true |- _ => apply andb_true_iff in H; destruct H end;
  repeat match goal with
         | H : (_ >=? _) = true |- _ => apply Z.geb_le in H
         | H : (_ <=? _) = true |- _ => apply Z.leb_le in H
         | H : (_ <? _) = true |- _ => apply Z.ltb_lt in H
         | H : negb _ = false |- _ => apply negb_false_iff in H
         end;
  lia.

Lemma handle_tp_nr r pgn src dst len buf h r2 ev idx : handle_tp r pgn src dst len buf = (h, r2, ev, idx) -> NR (rn r) ev (rn r2).
Proof.
  intros H. unfold handle_tp in H. cbv zeta in H.
  repeat head_step H; inj_pairs; split_if_hyps; inj_pairs;
  try match goal with |- NR _ _ (rn (if ?b then _ else _)) => destruct b end; nr;
  try match goal with
  | E : send_tpcm_abort _ _ _ _ _ = (?r2, ?ev) |- NR _ ?ev (rn ?r2) => eapply send_tpcm_abort_nr; [exact E|idev_side|nr]
  | E : send_tpcm_cts _ _ _ _ _ _ = (?r2, ?ev) |- NR _ ?ev (rn ?r2) => eapply send_tpcm_cts_nr; [exact E|idev_side|nr]
  | E : send_tpcm_endack _ _ _ _ _ _ = (?r2, ?ev) |- NR _ ?ev (rn ?r2) => eapply send_tpcm_endack_nr; [exact E|idev_side|nr]
  | E : send_tpdt_burst _ _ _ = (?r2, ?ev, _) |- NR _ ?ev (rn ?r2) => eapply send_tpdt_burst_nr; [exact E|idev_side|nr]
  end.
Qed.
