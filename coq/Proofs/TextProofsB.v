(* C16 proofs, part B: the get side on arbitrary payloads.
   Each reader is shown equal to "take the field bytes, map them, splice the result into the destination"; get_safe follows. *)
From Coq Require Import ZArith List Bool Lia.
From N2kV Require Import Base.Res Base.ListAux Model.TextDefs Spec.TextSpec Proofs.TextProofsA.
Import ListNotations ResNotations.
Local Open Scope Z_scope.

Local Ltac Zify.zify_post_hook ::= Z.div_mod_to_equations.

(* ---------- list facts ---------- *)
Lemma skipn_nth (d:list Z) : forall n, (n < length d)%nat -> skipn n d = nth n d 0 :: skipn (S n) d.
Proof.
  induction d as [|x d IH]; intros n Hn; cbn [length] in Hn; [lia|].
  destruct n as [|n]; [reflexivity|]. cbn [skipn nth]. apply IH. lia.
Qed.

Lemma zset_splice (d:list Z) (off:nat) (acc:list Z) v : (off + length acc < length d)%nat ->
  zset (splice d off acc) (Z.of_nat (off + length acc)) v = splice d off (acc ++ [v]).
Proof.
  intros H. pose proof (wr_splice d off acc v _ H eq_refl) as Hw.
  rewrite wr_ok in Hw by (rewrite splice_length by lia; lia). injection Hw as Hw. exact Hw.
Qed.

Lemma zset_splice_in (d:list Z) (off:nat) (f:list Z) j v : (off + length f <= length d)%nat -> (j < length f)%nat ->
  zset (splice d off f) (Z.of_nat (off + j)) v = splice d off (set_nth f j v).
Proof.
  intros H Hj. pose proof (wr_splice_in d off f j v _ H Hj eq_refl) as Hw.
  rewrite wr_ok in Hw by (rewrite splice_length by lia; lia). injection Hw as Hw. exact Hw.
Qed.

Lemma set_nth_comm {A} (l:list A) : forall i j v w, i <> j -> set_nth (set_nth l i v) j w = set_nth (set_nth l j w) i v.
Proof.
  induction l as [|x l IH]; intros i j v w Hij; [destruct i, j; reflexivity|].
  destruct i as [|i], j as [|j]; cbn [set_nth]; try reflexivity; [lia|]. rewrite IH by lia. reflexivity.
Qed.

Lemma splice_full (d:list Z) f : length f = length d -> splice d 0 f = f.
Proof. intros H. unfold splice. cbn [firstn app Nat.add]. rewrite H, skipn_all. apply app_nil_r. Qed.

Lemma in_repeat_S (v:Z) n : In v (repeat v (S n)).
Proof. left. reflexivity. Qed.

(* ---------- GetByte ---------- *)
Lemma get_byte_in m idx : payload m -> 0 <= idx < mlen m ->
  get_byte m idx = Ok (nth (Z.to_nat idx) (mdata m) 0, idx + 1).
Proof.
  intros [Hd Hl] Hi. unfold get_byte. destruct (Z.ltb_spec idx (mlen m)); [|lia].
  unfold rdb, inb. destruct (Z.leb_spec 0 idx); [|lia]. destruct (Z.ltb_spec idx (Z.of_nat (length (mdata m)))); [|lia].
  reflexivity.
Qed.

Lemma get_byte_out m idx : mlen m <= idx -> get_byte m idx = Ok (255, idx).
Proof. intros H. unfold get_byte. destruct (Z.ltb_spec idx (mlen m)); [lia|]. reflexivity. Qed.

Lemma get_byte_ok m idx : payload m -> 0 <= idx -> exists b i, get_byte m idx = Ok (b, i) /\ idx <= i <= idx + 1.
Proof.
  intros Hp Hi. destruct (Z.lt_ge_cases idx (mlen m)).
  - rewrite get_byte_in by (try assumption; lia). eexists _, _. split; [reflexivity|lia].
  - rewrite get_byte_out by lia. eexists _, _. split; [reflexivity|lia].
Qed.

(* the bytes of the payload from index idx on *)
Definition from (m:msg) (idx:Z) : list Z := skipn (Z.to_nat idx) (mdata m).

Lemma from_cons m idx : payload m -> 0 <= idx < mlen m ->
  from m idx = nth (Z.to_nat idx) (mdata m) 0 :: from m (idx + 1).
Proof.
  intros [Hd Hl] Hi. unfold from. rewrite skipn_nth by lia. f_equal. f_equal. lia.
Qed.

(* ---------- sized GetStr ---------- *)
(* what the copy loop stores: the byte, or NUL from the first NUL / nulChar on *)
Fixpoint gmap (nul:Z) (nr:bool) (l:list Z) : list Z :=
  match l with
  | [] => []
  | b :: r => let stop := nr || (b =? 0) || (b =? nul) in (if stop then 0 else b) :: gmap nul stop r
  end.

Lemma gmap_length nul : forall l nr, length (gmap nul nr l) = length l.
Proof. induction l as [|b l IH]; intros nr; cbn [gmap length]; [reflexivity|]. rewrite IH. reflexivity. Qed.

Lemma gss_loop_spec m d0 size len nul : payload m -> Z.of_nat (length d0) = size -> forall n i idx nr acc,
  i = Z.of_nat (length acc) -> 0 <= idx -> idx + (len - i) <= mlen m -> i <= len -> i <= size - 1 ->
  (Z.to_nat (len - i) < n)%nat ->
  let k := Z.to_nat (Z.min (len - i) (size - 1 - i)) in
  gss_loop m n i idx nr (splice d0 0 acc) size len nul =
  Ok (i + Z.of_nat k, idx + Z.of_nat k, splice d0 0 (acc ++ gmap nul nr (firstn k (from m idx)))).
Proof.
  intros Hp Hsz. induction n as [|n IH]; intros i idx nr acc Hi Hidx Hfit Hil His Hfuel k; subst k; [lia|].
  cbn [gss_loop].
  destruct (Z.ltb_spec i len) as [Hlt|Hge]; cbn [andb].
  2:{ replace (Z.to_nat (Z.min (len - i) (size - 1 - i))) with 0%nat by lia. cbn [firstn gmap].
      rewrite app_nil_r, !Z.add_0_r. reflexivity. }
  destruct (Z.ltb_spec i (size - 1)) as [Hlt2|Hge2].
  2:{ replace (Z.to_nat (Z.min (len - i) (size - 1 - i))) with 0%nat by lia. cbn [firstn gmap].
      rewrite app_nil_r, !Z.add_0_r. reflexivity. }
  rewrite get_byte_in by (try assumption; lia). cbn [bind].
  set (b := nth (Z.to_nat idx) (mdata m) 0).
  rewrite (wr_splice d0 0 acc _ i) by lia. cbn [bind].
  rewrite (IH (i + 1) (idx + 1) (nr || (b =? 0) || (b =? nul)) (acc ++ [if nr || (b =? 0) || (b =? nul) then 0 else b]))
    by (try rewrite app_length; cbn [length]; lia).
  replace (Z.to_nat (Z.min (len - i) (size - 1 - i))) with (S (Z.to_nat (Z.min (len - (i + 1)) (size - 1 - (i + 1))))) by lia.
  rewrite (from_cons m idx Hp) by lia. fold b. cbn [firstn gmap]. rewrite <- app_assoc. cbn [app].
  rewrite Nat2Z.inj_succ. f_equal. f_equal. f_equal; lia.
Qed.

Lemma skip_go_spec m : payload m -> forall n idx, 0 <= idx -> idx + Z.of_nat n <= mlen m -> skip_go m n idx = Ok (idx + Z.of_nat n).
Proof.
  intros Hp. induction n as [|n IH]; intros idx Hi Hf; cbn [skip_go]; [f_equal; lia|].
  rewrite get_byte_in by (try assumption; lia). cbn [bind snd]. rewrite IH by lia. f_equal. lia.
Qed.

(* fill_go with NUL starting on the NUL that ends the spliced part *)
Lemma fill_go_over d0 acc : forall n index, index = Z.of_nat (length acc) -> (length acc + S n <= length d0)%nat ->
  fill_go (S n) index (splice d0 0 (acc ++ [0])) 0 = Ok (index + Z.of_nat (S n), splice d0 0 (acc ++ repeat 0 (S n))).
Proof.
  intros n index Hi Hb. cbn [fill_go].
  rewrite (wr_splice_in d0 0 (acc ++ [0]) (length acc) 0 index) by (try rewrite app_length; cbn [length]; lia).
  cbn [bind]. rewrite set_nth_here.
  rewrite (fill_go_spec d0 0 0 n (acc ++ [0]) (index + 1)) by (rewrite app_length; cbn [length]; lia).
  rewrite <- app_assoc. cbn [app repeat]. f_equal. f_equal. lia.
Qed.

(* the text stored by the sized GetStr in a destination of [size] bytes *)
Definition gs_out (m:msg) (size len nul idx:Z) : list Z :=
  gmap nul false (firstn (Z.to_nat (Z.min len (size - 1))) (from m idx)).

Lemma from_length m idx : payload m -> 0 <= idx <= 223 -> Z.of_nat (length (from m idx)) = 223 - idx.
Proof. intros [Hd _] Hi. unfold from. rewrite skipn_length. lia. Qed.

Lemma gs_out_length m size len nul idx : payload m -> 0 <= idx -> 0 <= len -> idx + len <= mlen m -> 0 < size ->
  Z.of_nat (length (gs_out m size len nul idx)) = Z.min len (size - 1).
Proof.
  intros Hp Hi Hl Hf Hs. unfold gs_out. rewrite gmap_length, firstn_length.
  pose proof (from_length m idx Hp) as Hfl. destruct Hp as [Hd Hml]. lia.
Qed.

Lemma get_str_sized_fits m dest len nul idx : payload m -> 0 <= idx -> 0 <= len -> idx + len <= mlen m ->
  let size := Z.of_nat (length dest) in 0 < size ->
  let out := gs_out m size len nul idx in
  get_str_sized m size dest len nul idx = Ok (true, idx + len, out ++ repeat 0 (length dest - length out)).
Proof.
  intros Hp Hi Hl Hf size Hs out. pose proof (gs_out_length m size len nul idx Hp Hi Hl Hf Hs) as Hol. fold out in Hol.
  unfold get_str_sized. destruct (Z.eqb_spec size 0) as [?|_]; [lia|].
  rewrite wr_ok by lia. cbn [bind].
  unfold fits. destruct (Z.leb_spec 0 idx); [|lia]. destruct (Z.leb_spec (idx + len) (mlen m)); [|lia]. cbn [andb].
  (* StrBuf[0]=0 is overwritten or repeated later: take the destination after it as the base *)
  set (d0 := zset dest 0 0). assert (Hd0 : length d0 = length dest) by apply zset_length.
  rewrite <- (splice_nil d0 0) at 1.
  rewrite (gss_loop_spec m d0 size len nul Hp ltac:(lia) (S (Z.to_nat len)) 0 idx false []) by (cbn [length]; lia).
  cbn [app bind]. rewrite !Z.sub_0_r, Z.add_0_l. fold (gs_out m size len nul idx). fold out.
  set (k := Z.to_nat (Z.min len (size - 1))). assert (Hk : Z.of_nat k = Z.of_nat (length out)) by lia.
  rewrite Hk.
  rewrite (wr_splice d0 0 out 0 (Z.of_nat (length out))) by lia. cbn [bind].
  rewrite (skip_go_spec m Hp) by lia. cbn [bind].
  destruct (Z.le_gt_cases len (size - 1)) as [Hshort|Hlong].
  - (* stopped by the length: the rest of the buffer is filled with NUL *)
    assert (Hol' : Z.of_nat (length out) = len) by lia.
    replace (Z.to_nat (size - len)) with (S (length dest - length out - 1)) by lia.
    rewrite (fill_go_over d0 out _ len) by lia. cbn [bind snd].
    replace (S (length dest - length out - 1)) with (length dest - length out)%nat by lia.
    rewrite splice_full by (rewrite app_length, repeat_length; lia).
    f_equal. f_equal. f_equal. lia.
  - (* stopped by the buffer *)
    replace (Z.to_nat (size - len)) with 0%nat by lia. cbn [fill_go bind snd].
    replace (length dest - length out)%nat with 1%nat by lia. cbn [repeat].
    rewrite splice_full by (rewrite app_length; cbn [length]; lia).
    f_equal. f_equal. f_equal. lia.
Qed.

Lemma get_str_sized_safe m dest len nul idx : payload m -> 0 <= idx -> 0 <= len ->
  let size := Z.of_nat (length dest) in
  exists r i d, get_str_sized m size dest len nul idx = Ok (r, i, d) /\ length d = length dest /\ (0 < size -> In 0 d) /\
                (r = true -> i = idx + len) /\ 0 <= i.
Proof.
  intros Hp Hi Hl size.
  destruct (Z.eq_dec size 0) as [E0|Hpos].
  { unfold get_str_sized. rewrite E0. cbn [Z.eqb]. exists true, (idx + len), dest. repeat split; lia. }
  destruct (Z.le_gt_cases (idx + len) (mlen m)) as [Hf|Hnf].
  - pose proof (get_str_sized_fits m dest len nul idx Hp Hi Hl Hf ltac:(lia)) as E. cbn zeta in E. fold size in E.
    pose proof (gs_out_length m size len nul idx Hp Hi Hl Hf ltac:(lia)) as Hol.
    eexists _, _, _. split; [exact E|]. split; [rewrite app_length, repeat_length; lia|]. split; [|split; [reflexivity|lia]].
    intros _. apply in_or_app. right.
    replace (length dest - length (gs_out m size len nul idx))%nat with (S (length dest - length (gs_out m size len nul idx) - 1)) by lia.
    apply in_repeat_S.
  - unfold get_str_sized. destruct (Z.eqb_spec size 0) as [?|_]; [lia|].
    rewrite wr_ok by lia. cbn [bind]. unfold fits. destruct (Z.leb_spec 0 idx); [|lia].
    destruct (Z.leb_spec (idx + len) (mlen m)); [lia|]. cbn [andb].
    exists false, idx, (zset dest 0 0). split; [reflexivity|]. split; [apply zset_length|]. split; [|split; [discriminate|lia]].
    intros _. destruct dest as [|x dest]; [cbn [length] in *; lia|]. left. reflexivity.
Qed.

(* ---------- unsized GetStr ---------- *)
Lemma gsu_loop_spec m d0 : payload m -> forall n i idx nr acc,
  i = Z.of_nat (length acc) -> 0 <= idx -> idx + Z.of_nat n <= mlen m -> (length acc + n + 1 <= length d0)%nat ->
  gsu_loop m n i idx nr (splice d0 0 (acc ++ [0])) =
  Ok (idx + Z.of_nat n, splice d0 0 ((acc ++ gmap 64 nr (firstn n (from m idx))) ++ [0])).
Proof.
  intros Hp. induction n as [|n IH]; intros i idx nr acc Hi Hidx Hfit Hb; cbn [gsu_loop].
  - cbn [firstn gmap]. rewrite app_nil_r, Z.add_0_r. reflexivity.
  - rewrite get_byte_in by (try assumption; lia). cbn [bind].
    set (b := nth (Z.to_nat idx) (mdata m) 0).
    rewrite (wr_splice_in d0 0 (acc ++ [0]) (length acc) _ i) by (try rewrite app_length; cbn [length]; lia).
    cbn [bind]. rewrite set_nth_here.
    rewrite (wr_splice d0 0 (acc ++ [_]) 0 (i + 1)) by (rewrite app_length; cbn [length]; lia). cbn [bind].
    rewrite (IH (i + 1) (idx + 1) (nr || (b =? 0) || (b =? 64)) (acc ++ [if nr || (b =? 0) || (b =? 64) then 0 else b]))
      by (try rewrite app_length; cbn [length]; lia).
    rewrite (from_cons m idx Hp) by lia. fold b. cbn [firstn gmap]. rewrite <- !app_assoc. cbn [app].
    rewrite Nat2Z.inj_succ. f_equal. f_equal. lia.
Qed.

Lemma get_str_unsized_fits m dest len idx : payload m -> 0 <= idx -> 0 <= len -> idx + len <= mlen m ->
  len + 1 <= Z.of_nat (length dest) ->
  get_str_unsized m dest len idx =
  Ok (true, idx + len, splice dest 0 (gmap 64 false (firstn (Z.to_nat len) (from m idx)) ++ [0])).
Proof.
  intros Hp Hi Hl Hf Hs. unfold get_str_unsized.
  rewrite <- (splice_nil dest 0) at 1. rewrite (wr_splice dest 0 [] 0 0) by (cbn [length]; lia). cbn [bind app].
  unfold fits. destruct (Z.leb_spec 0 idx); [|lia]. destruct (Z.leb_spec (idx + len) (mlen m)); [|lia]. cbn [andb].
  change (splice dest 0 [0]) with (splice dest 0 ([] ++ [0])).
  rewrite (gsu_loop_spec m dest Hp (Z.to_nat len) 0 idx false []) by (cbn [length]; lia).
  cbn [bind fst snd app]. f_equal. f_equal. f_equal. lia.
Qed.

Lemma in_splice_last (d:list Z) acc v : (length acc + 1 <= length d)%nat -> In v (splice d 0 (acc ++ [v])).
Proof. intros _. unfold splice. cbn [firstn app]. apply in_or_app. left. apply in_or_app. right. left. reflexivity. Qed.

Lemma get_str_unsized_safe m dest len idx : payload m -> 0 <= idx -> 0 <= len -> len + 1 <= Z.of_nat (length dest) ->
  exists r i d, get_str_unsized m dest len idx = Ok (r, i, d) /\ length d = length dest /\ In 0 d.
Proof.
  intros Hp Hi Hl Hs. destruct (Z.le_gt_cases (idx + len) (mlen m)) as [Hf|Hnf].
  - rewrite (get_str_unsized_fits m dest len idx) by assumption.
    assert (Hgl : length (gmap 64 false (firstn (Z.to_nat len) (from m idx))) = Z.to_nat len).
    { rewrite gmap_length, firstn_length. pose proof (from_length m idx Hp) as Hfl. destruct Hp as [_ Hml]. lia. }
    eexists _, _, _. split; [reflexivity|]. split.
    + apply splice_length. rewrite app_length. cbn [length]. lia.
    + apply in_splice_last. lia.
  - unfold get_str_unsized. rewrite wr_ok by lia. cbn [bind]. unfold fits. destruct (Z.leb_spec 0 idx); [|lia].
    destruct (Z.leb_spec (idx + len) (mlen m)); [lia|]. cbn [andb].
    eexists _, _, _. split; [reflexivity|]. split; [apply zset_length|].
    destruct dest as [|x dest]; [cbn [length] in *; lia|]. left. reflexivity.
Qed.

(* ---------- N2kUCS2ToUTF8 ---------- *)
(* the UTF-8 bytes produced from the UCS-2 field bytes F when ulen bytes are already in a buffer with room for buflen *)
Fixpoint u2utf_pure (F:list Z) (ulen buflen nul:Z) : list Z :=
  match F with
  | lo :: hi :: r =>
    if ulen <? buflen then
      let u := lo + hi * 256 in
      if u <? 128 then (if u =? nul then u2utf_pure r ulen buflen nul else u :: u2utf_pure r (ulen + 1) buflen nul)
      else if u <? 2048 then
        (if ulen + 1 <? buflen then (192 + u / 64) :: (128 + u mod 64) :: u2utf_pure r (ulen + 2) buflen nul else [])
      else
        (if ulen + 2 <? buflen then (224 + u / 4096) :: (128 + (u / 64) mod 64) :: (128 + u mod 64) :: u2utf_pure r (ulen + 3) buflen nul
         else [])
    else []
  | _ => []
  end.

Lemma u2utf_pure_length nul buflen : forall n F ulen, (length F <= n)%nat -> 0 <= ulen ->
  ulen + Z.of_nat (length (u2utf_pure F ulen buflen nul)) <= Z.max ulen buflen.
Proof.
  induction n as [|n IH]; intros F ulen Hn Hu.
  - destruct F; [cbn; lia|cbn [length] in Hn; lia].
  - destruct F as [|lo [|hi r]]; try (cbn [u2utf_pure length]; lia).
    cbn [u2utf_pure]. cbn [length] in Hn.
    destruct (Z.ltb_spec ulen buflen); [|cbn [length]; lia].
    destruct (lo + hi * 256 <? 128).
    { destruct (lo + hi * 256 =? nul).
      - specialize (IH r ulen ltac:(lia) Hu). lia.
      - cbn [length]. specialize (IH r (ulen + 1) ltac:(lia) ltac:(lia)). lia. }
    destruct (lo + hi * 256 <? 2048).
    { destruct (Z.ltb_spec (ulen + 1) buflen); [|cbn [length]; lia].
      cbn [length]. specialize (IH r (ulen + 2) ltac:(lia) ltac:(lia)). lia. }
    destruct (Z.ltb_spec (ulen + 2) buflen); [|cbn [length]; lia].
    cbn [length]. specialize (IH r (ulen + 3) ltac:(lia) ltac:(lia)). lia.
Qed.

Lemma rdb_mid (pre:list Z) x post i : i = Z.of_nat (length pre) -> rdb (pre ++ x :: post) i = Ok x.
Proof.
  intros ->. unfold rdb, inb. rewrite app_length. cbn [length].
  destruct (Z.leb_spec 0 (Z.of_nat (length pre))); [|lia].
  destruct (Z.ltb_spec (Z.of_nat (length pre)) (Z.of_nat (length pre + S (length post)))); [|lia]. cbn [andb].
  unfold znth. rewrite Nat2Z.id, app_nth2, Nat.sub_diag by lia. reflexivity.
Qed.

(* the destination during the conversion: acc is stored, the byte at index |acc| may hold anything *)
Definition uinv (d0 dcur acc:list Z) : Prop :=
  length dcur = length d0 /\ forall v, zset dcur (Z.of_nat (length acc)) v = splice d0 0 (acc ++ [v]).

Lemma uinv_step d0 acc x : (length acc + 1 < length d0)%nat -> uinv d0 (splice d0 0 (acc ++ [x])) (acc ++ [x]).
Proof.
  intros H. split; [apply splice_length; rewrite app_length; cbn [length]; lia|].
  intros v. apply (zset_splice d0 0 (acc ++ [x]) v). rewrite app_length. cbn [length]. lia.
Qed.

Lemma u2utf_loop_spec pre post d0 buflen nul strlen off : Z.of_nat (length pre) = off -> Z.of_nat (length d0) = buflen + 1 ->
  forall n R F1 acc dcur i ulen,
  Z.of_nat (length (F1 ++ R)) = strlen -> i = Z.of_nat (length F1) -> ulen = Z.of_nat (length acc) -> ulen <= buflen ->
  uinv d0 dcur acc -> (length R < n)%nat ->
  exists dfin, u2utf_loop (pre ++ (F1 ++ R) ++ post) off strlen n i ulen dcur buflen nul =
               Ok (ulen + Z.of_nat (length (u2utf_pure R ulen buflen nul)), dfin) /\
               uinv d0 dfin (acc ++ u2utf_pure R ulen buflen nul).
Proof.
  intros Hpre Hd0. induction n as [|n IH]; intros R F1 acc dcur i ulen Hlen Hi Hu Hub Hinv Hfuel; [lia|].
  cbn [u2utf_loop]. rewrite app_length in Hlen.
  assert (Hnil : forall dfin', uinv d0 dfin' acc -> exists dfin, Ok (ulen, dfin') = Ok (ulen + Z.of_nat (length (@nil Z)), dfin) /\ uinv d0 dfin (acc ++ [])).
  { intros dfin' H. exists dfin'. cbn [length]. rewrite Z.add_0_r, app_nil_r. split; [reflexivity|exact H]. }
  destruct R as [|lo [|hi R]].
  - destruct (Z.ltb_spec (i + 1) strlen); [cbn [length] in Hlen; lia|]. cbn [andb u2utf_pure]. apply Hnil. exact Hinv.
  - destruct (Z.ltb_spec (i + 1) strlen); [cbn [length] in Hlen; lia|]. cbn [andb u2utf_pure]. apply Hnil. exact Hinv.
  - cbn [length] in Hlen, Hfuel. destruct (Z.ltb_spec (i + 1) strlen); [|lia]. cbn [andb u2utf_pure].
    destruct (Z.ltb_spec ulen buflen) as [Hroom|_]; [|apply Hnil; exact Hinv].
    (* the two reads *)
    assert (Hlo : rdb (pre ++ (F1 ++ lo :: hi :: R) ++ post) (off + i) = Ok lo).
    { rewrite <- app_assoc, app_assoc. cbn [app]. apply rdb_mid. rewrite app_length. lia. }
    assert (Hhi : rdb (pre ++ (F1 ++ lo :: hi :: R) ++ post) (off + i + 1) = Ok hi).
    { replace (pre ++ (F1 ++ lo :: hi :: R) ++ post) with ((pre ++ F1 ++ [lo]) ++ hi :: R ++ post)
        by (rewrite <- !app_assoc; cbn [app]; reflexivity).
      apply rdb_mid. rewrite !app_length. cbn [length]. lia. }
    rewrite Hlo, Hhi. cbn [bind].
    set (u := lo + hi * 256).
    destruct Hinv as [Hlc Hz].
    assert (Hrec : forall acc' d', uinv d0 d' acc' -> Z.of_nat (length acc') <= buflen ->
              exists dfin, u2utf_loop (pre ++ (F1 ++ lo :: hi :: R) ++ post) off strlen n (i + 2) (Z.of_nat (length acc')) d' buflen nul =
                           Ok (Z.of_nat (length acc') + Z.of_nat (length (u2utf_pure R (Z.of_nat (length acc')) buflen nul)), dfin) /\
                           uinv d0 dfin (acc' ++ u2utf_pure R (Z.of_nat (length acc')) buflen nul)).
    { intros acc' d' Hinv' Hb'.
      replace (F1 ++ lo :: hi :: R) with ((F1 ++ [lo; hi]) ++ R) by (rewrite <- app_assoc; reflexivity).
      apply (IH R (F1 ++ [lo; hi]) acc' d'); try assumption; try reflexivity.
      - rewrite !app_length. cbn [length]. lia.
      - rewrite app_length. cbn [length]. lia.
      - lia. }
    destruct (Z.ltb_spec u 128) as [H1|H1].
    { (* one byte *)
      rewrite wr_ok by lia. cbn [bind]. rewrite Hu, Hz.
      destruct (Z.eqb_spec u nul) as [_|_].
      - (* dropped: the byte stays at index |acc| and is overwritten later *)
        destruct (Hrec acc (splice d0 0 (acc ++ [u]))) as (dfin & E & Hf).
        + split; [apply splice_length; rewrite app_length; cbn [length]; lia|].
          intros v. rewrite <- Hz. unfold zset. rewrite set_nth_set_nth. apply Hz.
        + lia.
        + rewrite <- Hu in E |- *. exists dfin. rewrite <- Hu in Hf. split; [exact E|exact Hf].
      - destruct (Hrec (acc ++ [u]) (splice d0 0 (acc ++ [u]))) as (dfin & E & Hf).
        + apply uinv_step. lia.
        + rewrite app_length. cbn [length]. lia.
        + rewrite app_length in E, Hf. cbn [length] in E, Hf. rewrite Nat2Z.inj_add in E, Hf. cbn [Z.of_nat Pos.of_succ_nat] in E, Hf.
          rewrite <- Hu in E, Hf |- *. exists dfin. split.
          * rewrite E. cbn [length]. f_equal. f_equal. lia.
          * rewrite <- app_assoc in Hf. exact Hf. }
    destruct (Z.ltb_spec u 2048) as [H2|H2].
    { (* two bytes *)
      destruct (Z.ltb_spec (ulen + 1) buflen) as [Hr2|_]; [|apply Hnil; split; assumption].
      rewrite wr_ok by lia. cbn [bind]. rewrite wr_ok by (rewrite zset_length; lia). cbn [bind].
      assert (Ed : zset (zset dcur (ulen + 1) (128 + u mod 64)) ulen (192 + u / 64) = splice d0 0 ((acc ++ [192 + u / 64]) ++ [128 + u mod 64])).
      { unfold zset. rewrite set_nth_comm by lia. fold (zset dcur ulen (192 + u / 64)). rewrite Hu, Hz.
        replace (Z.to_nat (Z.of_nat (length acc) + 1)) with (Z.to_nat (Z.of_nat (0 + length (acc ++ [192 + u / 64]))))
          by (rewrite app_length; cbn [length]; lia).
        apply (zset_splice d0 0 (acc ++ [192 + u / 64])). rewrite app_length. cbn [length]. lia. }
      rewrite Ed.
      destruct (Hrec ((acc ++ [192 + u / 64]) ++ [128 + u mod 64]) (splice d0 0 ((acc ++ [192 + u / 64]) ++ [128 + u mod 64]))) as (dfin & E & Hf).
      + apply uinv_step. rewrite app_length. cbn [length]. lia.
      + rewrite !app_length. cbn [length]. lia.
      + rewrite !app_length in E, Hf. cbn [length] in E, Hf.
        replace (Z.of_nat (length acc + 1 + 1)) with (ulen + 2) in E, Hf by lia.
        exists dfin. split.
        * rewrite E. cbn [length]. f_equal. f_equal. lia.
        * rewrite <- !app_assoc in Hf. exact Hf. }
    (* three bytes *)
    destruct (Z.ltb_spec (ulen + 2) buflen) as [Hr3|_]; [|apply Hnil; split; assumption].
    rewrite wr_ok by lia. cbn [bind]. rewrite wr_ok by (rewrite zset_length; lia). cbn [bind].
    rewrite wr_ok by (rewrite !zset_length; lia). cbn [bind].
    set (b0 := 224 + u / 4096). set (b1 := 128 + (u / 64) mod 64). set (b2 := 128 + u mod 64).
    assert (Ed : zset (zset (zset dcur (ulen + 2) b2) (ulen + 1) b1) ulen b0 = splice d0 0 (((acc ++ [b0]) ++ [b1]) ++ [b2])).
    { unfold zset. rewrite (set_nth_comm _ (Z.to_nat (ulen + 1)) (Z.to_nat ulen)) by lia.
      rewrite (set_nth_comm _ (Z.to_nat (ulen + 2)) (Z.to_nat ulen)) by lia.
      fold (zset dcur ulen b0). rewrite Hu, Hz.
      rewrite (set_nth_comm _ (Z.to_nat (Z.of_nat (length acc) + 2)) (Z.to_nat (Z.of_nat (length acc) + 1))) by lia.
      replace (Z.to_nat (Z.of_nat (length acc) + 1)) with (Z.to_nat (Z.of_nat (0 + length (acc ++ [b0]))))
        by (rewrite app_length; cbn [length]; lia).
      fold (zset (splice d0 0 (acc ++ [b0])) (Z.of_nat (0 + length (acc ++ [b0]))) b1).
      rewrite (zset_splice d0 0 (acc ++ [b0])) by (rewrite app_length; cbn [length]; lia).
      replace (Z.to_nat (Z.of_nat (length acc) + 2)) with (Z.to_nat (Z.of_nat (0 + length ((acc ++ [b0]) ++ [b1]))))
        by (rewrite !app_length; cbn [length]; lia).
      apply (zset_splice d0 0 ((acc ++ [b0]) ++ [b1])). rewrite !app_length. cbn [length]. lia. }
    rewrite Ed.
    destruct (Hrec (((acc ++ [b0]) ++ [b1]) ++ [b2]) (splice d0 0 (((acc ++ [b0]) ++ [b1]) ++ [b2]))) as (dfin & E & Hf).
    + apply uinv_step. rewrite !app_length. cbn [length]. lia.
    + rewrite !app_length. cbn [length]. lia.
    + rewrite !app_length in E, Hf. cbn [length] in E, Hf.
      replace (Z.of_nat (length acc + 1 + 1 + 1)) with (ulen + 3) in E, Hf by lia.
      exists dfin. split.
      * rewrite E. cbn [length]. f_equal. f_equal. lia.
      * rewrite <- !app_assoc in Hf. exact Hf.
Qed.

(* the field bytes GetVarStr hands to the converter *)
Lemma skipn_add {A} : forall a b (d:list A), skipn b (skipn a d) = skipn (a + b) d.
Proof.
  induction a as [|a IH]; intros b d; [reflexivity|].
  destruct d as [|x d]; [rewrite !skipn_nil; reflexivity|]. cbn [skipn Nat.add]. apply IH.
Qed.

Lemma split_at (d:list Z) (off len:nat) : (off + len <= length d)%nat ->
  d = firstn off d ++ firstn len (skipn off d) ++ skipn (off + len) d.
Proof.
  intros H. rewrite <- (firstn_skipn off d) at 1. f_equal.
  rewrite <- (firstn_skipn len (skipn off d)) at 1. f_equal. apply skipn_add.
Qed.

Lemma ucs2_to_utf8_spec m dest off strlen nul : payload m -> 0 <= off -> 0 <= strlen -> off + strlen <= 223 ->
  let size := Z.of_nat (length dest) in 0 < size ->
  let out := u2utf_pure (firstn (Z.to_nat strlen) (from m off)) 0 (size - 1) nul in
  ucs2_to_utf8 (mdata m) off strlen dest size nul = Ok (Z.of_nat (length out), splice dest 0 (out ++ [0])) /\
  Z.of_nat (length out) <= size - 1.
Proof.
  intros [Hd Hl] Ho Hs Hfit size Hsz out.
  assert (Hlen : Z.of_nat (length out) <= size - 1).
  { pose proof (u2utf_pure_length nul (size - 1) _ (firstn (Z.to_nat strlen) (from m off)) 0 (le_n _) ltac:(lia)) as H. fold out in H. lia. }
  split; [|exact Hlen].
  unfold ucs2_to_utf8. destruct (Z.leb_spec size 0); [lia|].
  set (F := firstn (Z.to_nat strlen) (from m off)).
  assert (HF : length F = Z.to_nat strlen) by (subst F; unfold from; rewrite firstn_length, skipn_length; lia).
  rewrite (split_at (mdata m) (Z.to_nat off) (Z.to_nat strlen)) by lia. fold (from m off). fold F.
  destruct (u2utf_loop_spec (firstn (Z.to_nat off) (mdata m)) (skipn (Z.to_nat off + Z.to_nat strlen) (mdata m)) dest (size - 1) nul strlen off
              ltac:(rewrite firstn_length; lia) ltac:(lia) (S (Z.to_nat strlen)) F [] [] dest 0 0) as (dfin & E & [Hlc Hz]);
    try reflexivity; try lia.
  - cbn [app]. lia.
  - split; [reflexivity|]. intros v. pose proof (zset_splice dest 0 [] v ltac:(cbn [length]; lia)) as H0. rewrite splice_nil in H0. exact H0.
  - cbn [app] in E, Hz. change (u2utf_pure F 0 (size - 1) nul) with out in *. rewrite E. cbn [bind fst snd].
    rewrite wr_ok by lia. rewrite Z.add_0_l. rewrite Hz. reflexivity.
Qed.

(* ---------- GetVarStr on any payload ---------- *)
Lemma get_var_str_safe m dest nul idx : payload m -> 0 <= idx ->
  let size := Z.of_nat (length dest) in
  exists r sz i d, get_var_str m size dest nul idx = Ok (r, sz, i, d) /\ length d = length dest /\ (0 < size -> In 0 d) /\ 0 <= i.
Proof.
  intros Hp Hi size. pose proof Hp as [Hd Hl]. unfold get_var_str.
  destruct (get_byte_ok m idx Hp Hi) as (len & i1 & E1 & Hi1). rewrite E1. cbn [bind fst snd].
  destruct (get_byte_ok m i1 Hp ltac:(lia)) as (type & i2 & E2 & Hi2). rewrite E2. cbn [bind fst snd].
  destruct ((len <=? 2) || (len =? 255) || (type >? 1) || (i2 >=? mlen m)) eqn:Ebad.
  { (* no string *)
    destruct (Z.gtb_spec size 0) as [Hpos|Hz].
    - rewrite wr_ok by lia. cbn [bind].
      assert (Hin : In 0 (zset dest 0 0)) by (destruct dest as [|x dest]; [cbn [length] in *; lia|left; reflexivity]).
      destruct ((len =? 2) && (type <=? 1)); eexists _, _, _, _; (split; [reflexivity|]); (split; [apply zset_length|]);
        (split; [intros _; exact Hin|]); unfold MaxDataLen; lia.
    - cbn [bind]. destruct ((len =? 2) && (type <=? 1)); eexists _, _, _, _; (split; [reflexivity|]); (split; [reflexivity|]);
        (split; [lia|]); unfold MaxDataLen; lia. }
  apply orb_false_iff in Ebad. destruct Ebad as [Ebad E4]. apply orb_false_iff in Ebad. destruct Ebad as [Ebad E3].
  apply orb_false_iff in Ebad. destruct Ebad as [Ea Eb].
  apply Z.leb_gt in Ea. rewrite Z.geb_leb in E4. apply Z.leb_gt in E4.
  (* the length byte comes out of the payload, so it is a byte only if the payload holds bytes: clamp makes it irrelevant *)
  set (len1 := len - 2).
  set (len2 := if len1 + i2 >? mlen m then (mlen m - i2) mod 256 else len1).
  assert (Hlen2 : 0 <= len2 /\ i2 + len2 <= mlen m).
  { subst len2. destruct (Z.gtb_spec (len1 + i2) (mlen m)); [|lia]. rewrite Z.mod_small by lia. lia. }
  destruct (Z.gtb_spec size 0) as [Hpos|Hz].
  2:{ eexists _, _, _, _. split; [reflexivity|]. split; [reflexivity|]. split; lia. }
  destruct (Z.eqb_spec type 1) as [_|_].
  - destruct (get_str_sized_safe m dest len2 nul i2 Hp ltac:(lia) ltac:(lia)) as (r & i3 & d & E & Hlen & Hin & _ & Hi3).
    fold size in E. rewrite E. cbn [bind]. eexists _, _, _, _. split; [reflexivity|]. split; [exact Hlen|]. split; [exact Hin|exact Hi3].
  - destruct (ucs2_to_utf8_spec m dest i2 len2 nul Hp ltac:(lia) ltac:(lia) ltac:(lia) ltac:(lia)) as [E Hol].
    fold size in E. rewrite E. cbn [bind fst snd]. eexists _, _, _, _. split; [reflexivity|]. split; [|split; [|lia]].
    + apply splice_length. rewrite app_length. cbn [length]. fold size in Hol. lia.
    + intros _. apply in_splice_last. fold size in Hol. lia.
Qed.

Theorem get_safe : get_safe_stmt.
Proof.
  intros m dest nul idx Hp Hi size. split; [|split].
  - intros len Hl. destruct (get_str_sized_safe m dest len nul idx Hp Hi Hl) as (r & i & d & E & H1 & H2 & _).
    exists r, i, d. split; [exact E|]. split; assumption.
  - apply get_var_str_safe; assumption.
  - intros len Hl Hs. apply get_str_unsized_safe; assumption.
Qed.

Print Assumptions get_safe.
