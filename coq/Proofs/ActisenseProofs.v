From Coq Require Import ZArith List Bool Lia.
From N2kV Require Import Base.Res Model.ActisenseDefs Spec.ActisenseSpec.
Import ListNotations ResNotations.
Local Open Scope Z_scope.

(* Proofs of the C17 (Actisense) statements of Spec/ActisenseSpec.v.

   Plan
   - encoder: [add_all] appends the escaped bytes as long as the buffer has room; 2 + 2*(13+223) + 4 = 478 always suffices.
   - reader: the invariant [Inv] (array of 300 bytes; nothing buffered outside a frame; byteSum congruent to the sum of the
     buffered bytes except the one at index MsgBuf[1]+2) holds initially and is preserved by [step], which never fails
     ([step_inv]).  [addb_eq] and [check_eq] express AddByteToBuffer and CheckMessage through the buffered bytes alone
     ([check_pure]), which gives independence of the stale array contents ([step_sim]).
   - [check_pure_sound] / [check_pure_complete] relate [check_pure] to the format's [consistent];
     [run_esc] feeds escaped content into the buffer.  The statements are corollaries. *)

Local Ltac Zify.zify_post_hook ::= Z.div_mod_to_equations.

Lemma bind_ok {A B} (r:res A) (f:A -> res B) a : r = Ok a -> bind r f = f a.
Proof. intros ->. reflexivity. Qed.

(* ---------- lists ---------- *)
Lemma sum_cons x l : sum (x :: l) = x + sum l.
Proof. reflexivity. Qed.

Lemma sum_app a b : sum (a ++ b) = sum a + sum b.
Proof. induction a as [|x a IH]; cbn [app]; [reflexivity|]. rewrite !sum_cons, IH. lia. Qed.

Lemma esc_app a b : esc (a ++ b) = esc a ++ esc b.
Proof.
  induction a as [|x a IH]; cbn [app esc]; [reflexivity|].
  destruct (x =? ESC); rewrite IH; reflexivity.
Qed.

Lemma esc_length l : (length (esc l) <= 2 * length l)%nat.
Proof.
  induction l as [|x l IH]; cbn [esc length]; [lia|].
  destruct (x =? ESC); cbn [length]; lia.
Qed.

Lemma bytes_app a b : bytes (a ++ b) <-> bytes a /\ bytes b.
Proof. unfold bytes. apply Forall_app. Qed.

Lemma bytes_nth l i : bytes l -> 0 <= nth i l 0 < 256.
Proof.
  intros H. destruct (Nat.lt_ge_cases i (length l)) as [Hi|Hi].
  - unfold bytes in H. rewrite Forall_forall in H. apply H. apply nth_In. exact Hi.
  - rewrite nth_overflow by exact Hi. lia.
Qed.

(* ================= encoder ================= *)
Lemma put_ok buf b : Z.of_nat (length buf) < ENCBUF -> put buf b = Ok (buf ++ [b]).
Proof. intros H. unfold put. destruct (Z.ltb_spec (Z.of_nat (length buf)) ENCBUF); [reflexivity|lia]. Qed.

Lemma add_all_ok l : forall st, Z.of_nat (length (fst st)) + 2 * Z.of_nat (length l) <= ENCBUF ->
  add_all st l = Ok (fst st ++ esc l, snd st + sum l).
Proof.
  induction l as [|x l IH]; intros [bf sm] H; cbn [fst snd] in *.
  - cbn [add_all esc sum fold_right]. rewrite app_nil_r, Z.add_0_r. reflexivity.
  - cbn [add_all esc]. cbn [length] in H. unfold add_esc. cbn [fst snd].
    rewrite put_ok by lia. cbn [bind].
    destruct (x =? ESC) eqn:E.
    + rewrite put_ok by (rewrite app_length; cbn [length]; lia). cbn [bind].
      rewrite IH; cbn [fst snd].
      * rewrite sum_cons. f_equal. f_equal; [|lia].
        apply Z.eqb_eq in E. subst x. rewrite <- !app_assoc. reflexivity.
      * rewrite !app_length. cbn [length]. lia.
    + cbn [bind]. rewrite IH; cbn [fst snd].
      * rewrite sum_cons. f_equal. f_equal; [|lia]. rewrite <- app_assoc. reflexivity.
      * rewrite app_length. cbn [length]. lia.
Qed.

Lemma byte_of_0 v : byte_of v 0 = v mod 256.
Proof. unfold byte_of. change (2 ^ (8 * 0)) with 1. rewrite Z.div_1_r. reflexivity. Qed.
Lemma byte_of_1 v : byte_of v 1 = (v / 256) mod 256.
Proof. reflexivity. Qed.
Lemma byte_of_2 v : byte_of v 2 = (v / 256 / 256) mod 256.
Proof. unfold byte_of. change (2 ^ (8 * 2)) with (256 * 256). rewrite Z.div_div by lia. reflexivity. Qed.
Lemma byte_of_3 v : byte_of v 3 = (v / 256 / 256 / 256) mod 256.
Proof. unfold byte_of. change (2 ^ (8 * 3)) with (256 * 256 * 256). rewrite !Z.div_div by lia. reflexivity. Qed.

Lemma body_eq m : body m = data_body m.
Proof.
  unfold body, data_body. cbn [le app]. rewrite !byte_of_0, !byte_of_1, !byte_of_2, byte_of_3. reflexivity.
Qed.

Lemma data_body_length m : length (data_body m) = (13 + length (data m))%nat.
Proof. unfold data_body. cbn [le app length]. reflexivity. Qed.

Theorem encode_frame : encode_frame_stmt.
Proof.
  intros m Hp Hn.
  assert (Hlen : Z.of_nat (length (frame m)) <= ENCBUF).
  { unfold frame, framed. rewrite !app_length. cbn [length].
    pose proof (esc_length (data_body m ++ [cksum (data_body m)])) as He.
    rewrite app_length, data_body_length in He. cbn [length] in He. unfold ENCBUF. lia. }
  split; [|exact Hlen].
  unfold encode.
  destruct (Z.eqb_spec (pgn m) 0) as [E|_]; [contradiction|]. cbn [orb].
  destruct (Z.eqb_spec (Z.of_nat (length (data m))) 0) as [E|_]; [lia|].
  destruct (Z.ltb_spec MAXDATA (Z.of_nat (length (data m)))) as [E|_]; [unfold MAXDATA in E; lia|].
  rewrite put_ok by (cbn; unfold ENCBUF; lia). cbn [bind app].
  rewrite put_ok by (cbn; unfold ENCBUF; lia). cbn [bind app].
  rewrite body_eq.
  pose proof (data_body_length m) as Hbl.
  rewrite add_all_ok by (cbn [fst length]; rewrite Hbl; unfold ENCBUF; lia).
  cbn [bind fst snd].
  pose proof (esc_length (data_body m)) as Hel. rewrite Hbl in Hel.
  set (bd := data_body m) in *.
  replace (if (0 + sum bd) mod 256 =? 0 then 0 else 256 - (0 + sum bd) mod 256) with (cksum bd).
  2:{ unfold cksum. destruct (Z.eqb_spec ((0 + sum bd) mod 256) 0); lia. }
  set (ck := cksum bd).
  rewrite put_ok by (rewrite app_length; cbn [length]; unfold ENCBUF; lia). cbn [bind].
  unfold frame, framed. fold bd. fold ck. rewrite esc_app. cbn [esc].
  destruct (ck =? ESC) eqn:Eck.
  - apply Z.eqb_eq in Eck.
    rewrite put_ok by (rewrite !app_length; cbn [length]; unfold ENCBUF; lia). cbn [bind].
    rewrite put_ok by (rewrite !app_length; cbn [length]; unfold ENCBUF; lia). cbn [bind].
    rewrite put_ok by (rewrite !app_length; cbn [length]; unfold ENCBUF; lia). cbn [bind].
    f_equal. rewrite Eck. rewrite <- !app_assoc. reflexivity.
  - cbn [bind].
    rewrite put_ok by (rewrite !app_length; cbn [length]; unfold ENCBUF; lia). cbn [bind].
    rewrite put_ok by (rewrite !app_length; cbn [length]; unfold ENCBUF; lia). cbn [bind].
    f_equal. rewrite <- !app_assoc. reflexivity.
Qed.

(* ================= reader: array accesses ================= *)
Definition memv (s:rst) : list Z := buf s ++ stale s.

Lemma rd_val s i : mem_ok s -> 0 <= i < 300 ->
  exists v, rd s i = Ok v /\ byte v /\ v = nth (Z.to_nat i) (memv s) 0.
Proof.
  intros [Hl Hb] Hi. unfold rd.
  destruct (Z.ltb_spec i 0) as [Hn|_]; [lia|].
  rewrite (nth_error_nth' (buf s ++ stale s) 0) by lia.
  eexists. split; [reflexivity|]. split; [|reflexivity].
  apply bytes_nth. exact Hb.
Qed.

Lemma memv_buf s i : (i < length (buf s))%nat -> nth i (memv s) 0 = nth i (buf s) 0.
Proof. intros H. unfold memv. apply app_nth1. exact H. Qed.

Lemma pos_nonneg s : 0 <= pos s.
Proof. unfold pos. lia. Qed.

(* ---------- byteSum ---------- *)
(* sum of the elements of b, numbered from i, except the one numbered k *)
Fixpoint sumx (k:Z) (b:list Z) (i:Z) : Z :=
  match b with [] => 0 | x :: r => (if i =? k then 0 else x) + sumx k r (i+1) end.

Lemma sumx_app k a : forall b i, sumx k (a ++ b) i = sumx k a i + sumx k b (i + Z.of_nat (length a)).
Proof.
  induction a as [|x a IH]; intros b i.
  - cbn [app sumx length]. rewrite Z.add_0_r. reflexivity.
  - cbn [app sumx length]. rewrite IH. rewrite Nat2Z.inj_succ.
    replace (i + 1 + Z.of_nat (length a)) with (i + Z.succ (Z.of_nat (length a))) by lia. lia.
Qed.

Lemma sumx_none k b : forall i, k < i \/ i + Z.of_nat (length b) <= k -> sumx k b i = sum b.
Proof.
  induction b as [|x b IH]; intros i H; [reflexivity|].
  cbn [sumx]. rewrite sum_cons. cbn [length] in H. rewrite IH by lia.
  destruct (Z.eqb_spec i k); [lia|reflexivity].
Qed.

Definition bsum_ok (s:rst) : Prop := bsum s mod 256 = sumx (nth 1 (memv s) 0 + 2) (buf s) 0 mod 256.

Lemma schar_mod x : byte x -> schar x mod 256 = x mod 256.
Proof. unfold byte, schar. intros H. destruct (Z.ltb_spec x 128); lia. Qed.

(* ---------- AddByteToBuffer ---------- *)
Definition added (s:rst) (x:Z) : rst :=
  {| coming := coming s; sot := sot s; escd := escd s; buf := buf s ++ [x]; stale := tl (stale s);
     bsum := if nth 1 (buf s ++ [x]) 0 + 3 =? pos s + 1 then bsum s else bsum s + schar x; dsrc := dsrc s |}.

Lemma addb_none s x : MAXBUF <= pos s -> addb s x = Ok None.
Proof. intros H. unfold addb. destruct (Z.leb_spec MAXBUF (pos s)); [reflexivity|lia]. Qed.

Lemma addb_eq s x : mem_ok s -> byte x -> pos s < MAXBUF -> addb s x = Ok (Some (added s x)).
Proof.
  intros [Hl Hb] Hx Hp. unfold addb, added.
  destruct (Z.leb_spec MAXBUF (pos s)) as [H|_]; [lia|].
  destruct s as [c so e bf st sm d]. unfold pos, MAXBUF in *. cbn [coming sot escd buf stale bsum dsrc] in *.
  rewrite app_length in Hl.
  destruct st as [|y rest]; [cbn [length] in Hl; lia|]. cbn [tl].
  set (s1 := {| coming := c; sot := so; escd := e; buf := bf ++ [x]; stale := rest; bsum := sm; dsrc := d |}).
  assert (Hm1 : mem_ok s1).
  { unfold mem_ok, s1. cbn [buf stale]. split.
    - rewrite !app_length. cbn [length] in *. lia.
    - apply bytes_app in Hb. destruct Hb as [Hb1 Hb2]. apply bytes_app. split.
      + apply bytes_app. split; [exact Hb1|]. constructor; [exact Hx|constructor].
      + unfold bytes in *. apply Forall_inv_tail in Hb2. exact Hb2. }
  destruct (rd_val s1 1 Hm1 ltac:(lia)) as (v & Ev & Hv & Env). rewrite Ev. cbn [bind].
  unfold s1 at 1. cbn [buf]. rewrite app_length. cbn [length].
  replace (Z.of_nat (length bf + 1)) with (Z.of_nat (length bf) + 1) by lia.
  change (Z.to_nat 1) with 1%nat in Env. unfold memv, s1 in Env. cbn [buf stale] in Env.
  destruct bf as [|b0 bf'].
  - cbn [app length nth] in *. unfold byte in Hv.
    destruct (Z.eqb_spec (v + 3) (Z.of_nat 0 + 1)) as [E|_]; [lia|].
    destruct (Z.eqb_spec (0 + 3) (Z.of_nat 0 + 1)) as [E|_]; [lia|]. reflexivity.
  - assert (Env' : v = nth 1 ((b0 :: bf') ++ [x]) 0).
    { rewrite Env. apply app_nth1. rewrite app_length. cbn [length]. lia. }
    rewrite <- Env'.
    destruct (v + 3 =? Z.of_nat (length (b0 :: bf')) + 1); reflexivity.
Qed.

Lemma added_mem_ok s x : mem_ok s -> byte x -> pos s < MAXBUF -> mem_ok (added s x).
Proof.
  intros [Hl Hb] Hx Hp. unfold mem_ok, added. cbn [buf stale].
  unfold pos, MAXBUF in Hp. rewrite app_length in Hl.
  destruct (stale s) as [|y rest] eqn:Es; [cbn [length] in Hl; lia|]. cbn [tl]. split.
  - rewrite !app_length. cbn [length] in *. lia.
  - apply bytes_app in Hb. destruct Hb as [Hb1 Hb2]. apply bytes_app. split.
    + apply bytes_app. split; [exact Hb1|]. constructor; [exact Hx|constructor].
    + unfold bytes in *. apply Forall_inv_tail in Hb2. exact Hb2.
Qed.

Lemma added_bsum_ok s x : mem_ok s -> bsum_ok s -> byte x -> pos s < MAXBUF -> bsum_ok (added s x).
Proof.
  intros [Hl Hb] Hs Hx Hp. unfold bsum_ok, added, memv in *. cbn [buf stale bsum].
  unfold pos, MAXBUF in *. rewrite app_length in Hl.
  destruct s as [c so e bf st sm d]. cbn [coming sot escd buf stale bsum dsrc] in *.
  destruct st as [|y rest]; [cbn [length] in Hl; lia|]. cbn [tl].
  pose proof (schar_mod x Hx) as Hsc. unfold byte in Hx.
  destruct bf as [|b0 [|b1 r]].
  - cbn [app nth length sumx] in *.
    assert (Hr : 0 <= nth 0 rest 0 < 256).
    { apply bytes_nth. unfold bytes in *. apply Forall_inv_tail in Hb. exact Hb. }
    destruct (Z.eqb_spec (0 + 3) (Z.of_nat 0 + 1)) as [E|_]; [lia|].
    destruct (Z.eqb_spec 0 (nth 0 rest 0 + 2)) as [E|_]; [lia|]. lia.
  - cbn [app nth length sumx] in *.
    assert (Hr : 0 <= y < 256).
    { unfold bytes in Hb. apply Forall_inv_tail in Hb. apply Forall_inv in Hb. exact Hb. }
    destruct (Z.eqb_spec 0 (y + 2)) as [E|_]; [lia|].
    destruct (Z.eqb_spec (x + 3) (Z.of_nat 1 + 1)) as [E|_]; [lia|].
    destruct (Z.eqb_spec 0 (x + 2)) as [E|_]; [lia|].
    destruct (Z.eqb_spec (0 + 1) (x + 2)) as [E|_]; [lia|]. lia.
  - change (nth 1 (((b0 :: b1 :: r) ++ [x]) ++ rest) 0) with b1.
    change (nth 1 ((b0 :: b1 :: r) ++ [x]) 0) with b1.
    change (nth 1 ((b0 :: b1 :: r) ++ y :: rest) 0) with b1 in Hs.
    rewrite sumx_app. set (n := Z.of_nat (length (b0 :: b1 :: r))) in *.
    set (S0 := sumx (b1 + 2) (b0 :: b1 :: r) 0) in *. cbn [sumx].
    destruct (Z.eqb_spec (b1 + 3) (n + 1)) as [E|E]; destruct (Z.eqb_spec (0 + n) (b1 + 2)) as [E2|E2]; try lia.
Qed.

Lemma addb_inv s x : mem_ok s -> bsum_ok s -> byte x ->
  (MAXBUF <= pos s /\ addb s x = Ok None) \/
  (pos s < MAXBUF /\ addb s x = Ok (Some (added s x)) /\ mem_ok (added s x) /\ bsum_ok (added s x)).
Proof.
  intros Hm Hs Hx. destruct (Z.le_gt_cases MAXBUF (pos s)) as [H|H].
  - left. split; [exact H|apply addb_none; exact H].
  - right. split; [lia|]. split; [apply addb_eq; assumption || lia|].
    split; [apply added_mem_ok; assumption || lia|apply added_bsum_ok; assumption || lia].
Qed.

(* ---------- CheckMessage through the buffered bytes alone ---------- *)
Definition v3 (a b c:Z) : Z := a + 256 * b + 65536 * c.
Definition v4 (a b c e:Z) : Z := a + 256 * b + 65536 * c + 16777216 * e.

Definition fin_pure (b:list Z) (sr t dl i:Z) : option msg :=
  if (dl >? MAXDATA) || negb (i + dl =? Z.of_nat (length b) - 1) then None else
  Some {| pri := nth 2 b 0; pgn := v3 (nth 3 b 0) (nth 4 b 0) (nth 5 b 0); dst := nth 6 b 0; src := sr; tim := t;
          data := firstn (Z.to_nat dl) (skipn (Z.to_nat i) b) |}.

Definition check_pure (now d bs:Z) (b:list Z) : option msg :=
  if negb (Z.of_nat (length b) =? nth 1 b 0 + 3) then None else
  if negb ((if bs =? 0 then 0 else 256 - bs) mod 256 =? last b 0) then None else
  if nth 0 b 0 =? T_DATA then
    fin_pure b (nth 7 b 0) (v4 (nth 8 b 0) (nth 9 b 0) (nth 10 b 0) (nth 11 b 0)) (nth 12 b 0) 13
  else fin_pure b d (now mod 4294967296) (nth 7 b 0) 8.

Lemma skipn_nth_cons (l:list Z) : forall i, (i < length l)%nat -> skipn i l = nth i l 0 :: skipn (S i) l.
Proof.
  induction l as [|x l IH]; intros i Hi; [cbn in Hi; lia|].
  destruct i as [|i]; [reflexivity|]. cbn [length] in Hi.
  change (skipn (S i) (x :: l)) with (skipn i l). change (nth (S i) (x :: l) 0) with (nth i l 0).
  change (skipn (S (S i)) (x :: l)) with (skipn (S i) l). apply IH. lia.
Qed.

Lemma last_nth_len (l:list Z) : l <> [] -> last l 0 = nth (length l - 1) l 0.
Proof.
  induction l as [|x l IH]; intros H; [congruence|].
  destruct l as [|y l']; [reflexivity|].
  change (last (x :: y :: l') 0) with (last (y :: l') 0). rewrite IH by discriminate.
  cbn [length]. replace (S (S (length l')) - 1)%nat with (S (S (length l') - 1)) by lia. reflexivity.
Qed.

Lemma copy_eq s : mem_ok s -> forall n i j, 0 <= i -> i + Z.of_nat n <= pos s -> 0 <= j -> j + Z.of_nat n <= MAXDATA ->
  copy s i j n = Ok (firstn n (skipn (Z.to_nat i) (buf s))).
Proof.
  intros Hm. induction n as [|k IH]; intros i j Hi Hin Hj Hjn; [reflexivity|].
  cbn [copy]. pose proof Hm as [Hl _]. rewrite app_length in Hl. unfold pos in Hin.
  destruct (rd_val s i Hm ltac:(lia)) as (v & Ev & _ & Nv). rewrite Ev. cbn [bind].
  destruct (Z.ltb_spec j MAXDATA) as [_|H]; [|lia].
  rewrite (IH (i+1) (j+1)) by (unfold pos; lia). cbn [bind].
  rewrite memv_buf in Nv by lia.
  rewrite (skipn_nth_cons (buf s) (Z.to_nat i)) by lia. cbn [firstn].
  replace (Z.to_nat (i + 1)) with (S (Z.to_nat i)) by lia. rewrite Nv. reflexivity.
Qed.

Lemma finish_eq s p g0 g1 g2 d sr t dl i : mem_ok s -> 0 <= i -> 0 <= dl ->
  finish s p g0 g1 g2 d sr t dl i =
  Ok (if (dl >? MAXDATA) || negb (i + dl =? pos s - 1) then None else
      Some {| pri := p; pgn := g0 + 256 * g1 + 65536 * g2; dst := d; src := sr; tim := t;
              data := firstn (Z.to_nat dl) (skipn (Z.to_nat i) (buf s)) |}).
Proof.
  intros Hm Hi Hdl. unfold finish.
  destruct (Z.gtb_spec dl MAXDATA) as [H|H]; cbn [orb]; [reflexivity|].
  destruct (Z.eqb_spec (i + dl) (pos s - 1)) as [E|E]; cbn [negb]; [|reflexivity].
  replace (Z.to_nat (pos s - 1 - i)) with (Z.to_nat dl) by lia.
  rewrite (copy_eq s Hm) by lia. reflexivity.
Qed.

Lemma check_eq now s : mem_ok s -> check now s = Ok (check_pure now (dsrc s) (bsum s) (buf s)).
Proof.
  intros Hm. pose proof Hm as [Hl Hb]. rewrite app_length in Hl.
  assert (Hbb : bytes (buf s)) by (apply bytes_app in Hb; tauto).
  unfold check, check_pure. unfold pos.
  set (b := buf s) in *. set (n := Z.of_nat (length b)) in *.
  assert (Hn : 0 <= n <= 300) by (unfold n; lia).
  destruct (rd_val s 1 Hm ltac:(lia)) as (v1 & E1 & B1 & N1). rewrite E1. cbn [bind]. clear E1.
  change (Z.to_nat 1) with 1%nat in N1. unfold byte in B1.
  destruct (Z.eqb_spec n (v1 + 3)) as [En|En]; cbn [negb].
  2:{ destruct (Z.eqb_spec n (nth 1 b 0 + 3)) as [En2|_]; cbn [negb]; [|reflexivity].
      exfalso. destruct (Z.le_gt_cases 2 n) as [H2|H2].
      - rewrite memv_buf in N1 by (fold b; unfold n in H2; lia). fold b in N1. lia.
      - rewrite nth_overflow in En2 by (unfold n in H2; lia). lia. }
  rewrite memv_buf in N1 by (fold b; unfold n in En; lia). fold b in N1.
  rewrite <- N1. rewrite <- En. rewrite Z.eqb_refl. cbn [negb].
  destruct (rd_val s (n - 1) Hm ltac:(lia)) as (vc & Ec & Bc & Nc). rewrite Ec. cbn [bind]. clear Ec.
  rewrite memv_buf in Nc by (fold b; unfold n in En; lia). fold b in Nc.
  assert (Hlast : last b 0 = vc).
  { rewrite Nc. rewrite last_nth_len by (intros E0; unfold n in En; rewrite E0 in En; cbn in En; lia).
    f_equal. unfold n. lia. }
  rewrite Hlast.
  destruct ((if bsum s =? 0 then 0 else 256 - bsum s) mod 256 =? vc); cbn [negb]; [|reflexivity].
  destruct (rd_val s 2 Hm ltac:(lia)) as (v2 & E2 & B2 & N2). rewrite E2. cbn [bind]. clear E2.
  destruct (rd_val s 3 Hm ltac:(lia)) as (v3 & E3 & B3 & N3). rewrite E3. cbn [bind]. clear E3.
  destruct (rd_val s 4 Hm ltac:(lia)) as (v4 & E4 & B4 & N4). rewrite E4. cbn [bind]. clear E4.
  destruct (rd_val s 5 Hm ltac:(lia)) as (v5 & E5 & B5 & N5). rewrite E5. cbn [bind]. clear E5.
  destruct (rd_val s 6 Hm ltac:(lia)) as (v6 & E6 & B6 & N6). rewrite E6. cbn [bind]. clear E6.
  destruct (rd_val s 0 Hm ltac:(lia)) as (v0 & E0 & B0 & N0). rewrite E0. cbn [bind]. clear E0.
  change (Z.to_nat 0) with 0%nat in N0. change (Z.to_nat 2) with 2%nat in N2. change (Z.to_nat 3) with 3%nat in N3.
  change (Z.to_nat 4) with 4%nat in N4. change (Z.to_nat 5) with 5%nat in N5. change (Z.to_nat 6) with 6%nat in N6.
  rewrite memv_buf in N0 by (fold b; unfold n in En; lia). fold b in N0.
  rewrite memv_buf in N2 by (fold b; unfold n in En; lia). fold b in N2.
  rewrite <- N0.
  destruct (rd_val s 7 Hm ltac:(lia)) as (v7 & E7 & B7 & N7). change (Z.to_nat 7) with 7%nat in N7.
  assert (Hnn : forall k, 0 <= nth k b 0) by (intros k; apply (bytes_nth b k Hbb)).
  unfold byte in *.
  destruct (v0 =? T_DATA).
  - rewrite E7. cbn [bind]. clear E7.
    destruct (rd_val s 8 Hm ltac:(lia)) as (v8 & E8 & B8 & N8). rewrite E8. cbn [bind]. clear E8.
    destruct (rd_val s 9 Hm ltac:(lia)) as (v9 & E9 & B9 & N9). rewrite E9. cbn [bind]. clear E9.
    destruct (rd_val s 10 Hm ltac:(lia)) as (v10 & E10 & B10 & N10). rewrite E10. cbn [bind]. clear E10.
    destruct (rd_val s 11 Hm ltac:(lia)) as (v11 & E11 & B11 & N11). rewrite E11. cbn [bind]. clear E11.
    destruct (rd_val s 12 Hm ltac:(lia)) as (v12 & E12 & B12 & N12). rewrite E12. cbn [bind]. clear E12.
    change (Z.to_nat 8) with 8%nat in N8. change (Z.to_nat 9) with 9%nat in N9. change (Z.to_nat 10) with 10%nat in N10.
    change (Z.to_nat 11) with 11%nat in N11. change (Z.to_nat 12) with 12%nat in N12.
    unfold byte in *.
    rewrite finish_eq by (assumption || lia). unfold fin_pure, pos. fold b. fold n. f_equal.
    destruct (Z.le_gt_cases 14 n) as [H14|H14].
    + rewrite memv_buf in N3, N4, N5, N6, N7, N8, N9, N10, N11, N12 by (fold b; unfold n in H14; lia). fold b in N3, N4, N5, N6, N7, N8, N9, N10, N11, N12.
      subst v2 v3 v4 v5 v6 v7 v8 v9 v10 v11 v12. reflexivity.
    + pose proof (Hnn 12%nat) as H12.
      destruct (Z.eqb_spec (13 + v12) (n - 1)) as [E|_]; [lia|].
      destruct (Z.eqb_spec (13 + nth 12 b 0) (n - 1)) as [E|_]; [lia|].
      cbn [negb]. rewrite !orb_true_r. reflexivity.
  - rewrite E7. cbn [bind]. clear E7.
    rewrite finish_eq by (assumption || lia). unfold fin_pure, pos. fold b. fold n. f_equal.
    destruct (Z.le_gt_cases 9 n) as [H9|H9].
    + rewrite memv_buf in N3, N4, N5, N6, N7 by (fold b; unfold n in H9; lia). fold b in N3, N4, N5, N6, N7.
      subst v2 v3 v4 v5 v6 v7. reflexivity.
    + pose proof (Hnn 7%nat) as H7.
      destruct (Z.eqb_spec (8 + v7) (n - 1)) as [E|_]; [lia|].
      destruct (Z.eqb_spec (8 + nth 7 b 0) (n - 1)) as [E|_]; [lia|].
      cbn [negb]. rewrite !orb_true_r. reflexivity.
Qed.

(* ---------- one step, without the memory accesses ---------- *)
Lemma addb_total s x : mem_ok s -> byte x -> addb s x = Ok (if pos s <? MAXBUF then Some (added s x) else None).
Proof.
  intros Hm Hx. destruct (Z.ltb_spec (pos s) MAXBUF) as [H|H].
  - apply addb_eq; assumption.
  - apply addb_none; exact H.
Qed.

Definition step' (now:Z) (s:rst) (x:Z) : rst * option msg :=
  if coming s then
    if escd s then
      if x =? ESC then
        ((if pos s <? MAXBUF then added (with_flags s (coming s) (sot s) false) x else clear s), None)
      else if x =? ETX then
        (clear s, if (nth 0 (buf s) 0 =? T_DATA) || (nth 0 (buf s) 0 =? T_REQ)
                  then check_pure now (dsrc s) (bsum s) (buf s) else None)
      else if x =? STX then (with_flags (clear s) false true false, None)
      else (clear s, None)
    else
      if x =? ESC then (with_flags s (coming s) (sot s) true, None)
      else ((if pos s <? MAXBUF then added s x else clear s), None)
  else
    if x =? STX then
      if escd s then (with_flags (clear s) false true false, None)
      else (with_flags s (coming s) false (escd s), None)
    else
      if sot s then
        ((if pos s <? MAXBUF then added (with_flags s true false (x =? ESC)) x else with_flags s true false (x =? ESC)), None)
      else (with_flags s (coming s) false (x =? ESC), None).

Definition shape (s:rst) : Prop := (coming s = false -> buf s = []) /\ (coming s = true -> buf s <> []).

Lemma addb_branch s0 sc x : mem_ok s0 -> byte x ->
  (r <- addb s0 x ;; match r with Some s' => Ok (s', @None msg) | None => Ok (sc, None) end) =
  Ok ((if pos s0 <? MAXBUF then added s0 x else sc), None).
Proof.
  intros Hm Hx. rewrite (addb_total s0 x Hm Hx). cbn [bind].
  destruct (pos s0 <? MAXBUF); reflexivity.
Qed.

Lemma step_eq now s x : mem_ok s -> shape s -> byte x -> step now s x = Ok (step' now s x).
Proof.
  intros Hm [Hs0 Hs1] Hx. unfold step, step'.
  destruct (coming s) eqn:Hc.
  - destruct (escd s) eqn:He.
    + destruct (x =? ESC).
      * apply (addb_branch (with_flags s true (sot s) false) (clear s) x); [exact Hm|exact Hx].
      * destruct (x =? ETX).
        -- destruct (rd_val s 0 Hm ltac:(lia)) as (v & Ev & _ & Nv). rewrite Ev. cbn [bind].
           change (Z.to_nat 0) with 0%nat in Nv.
           rewrite memv_buf in Nv.
           2:{ specialize (Hs1 eq_refl). destruct (buf s); [congruence|cbn [length]; lia]. }
           rewrite <- Nv.
           destruct ((v =? T_DATA) || (v =? T_REQ)); [|reflexivity].
           rewrite (check_eq now s Hm). reflexivity.
        -- destruct (x =? STX); reflexivity.
    + destruct (x =? ESC); [reflexivity|].
      apply (addb_branch s (clear s) x); [exact Hm|exact Hx].
  - destruct (x =? STX).
    + destruct (escd s); reflexivity.
    + destruct (sot s); [|reflexivity].
      apply (addb_branch (with_flags s true false (x =? ESC)) (with_flags s true false (x =? ESC)) x); [exact Hm|exact Hx].
Qed.

(* ---------- the invariant ---------- *)
Definition Inv (s:rst) : Prop := mem_ok s /\ shape s /\ bsum_ok s.

Lemma Inv_clear s : mem_ok s -> Inv (clear s).
Proof.
  intros Hm. split; [|split].
  - unfold mem_ok, clear. cbn [buf stale app]. exact Hm.
  - split; [reflexivity|intros H; cbn in H; discriminate].
  - unfold bsum_ok, clear. cbn [buf bsum sumx]. reflexivity.
Qed.

Lemma Inv_sot s : mem_ok s -> Inv (with_flags (clear s) false true false).
Proof.
  intros Hm. destruct (Inv_clear s Hm) as (H1 & H2 & H3). split; [exact H1|]. split; [|exact H3].
  split; [reflexivity|intros H; cbn in H; discriminate].
Qed.

Lemma Inv_added s x : mem_ok s -> bsum_ok s -> byte x -> pos s < MAXBUF -> coming s = true -> Inv (added s x).
Proof.
  intros Hm Hb Hx Hp Hc. split; [|split].
  - apply added_mem_ok; assumption.
  - split.
    + intros H. unfold added in H. cbn [coming] in H. congruence.
    + intros _. unfold added. cbn [buf]. destruct (buf s); discriminate.
  - apply added_bsum_ok; assumption.
Qed.

Lemma step'_inv now s x : Inv s -> byte x -> Inv (fst (step' now s x)).
Proof.
  intros (Hm & [Hs0 Hs1] & Hb) Hx. unfold step'.
  destruct (coming s) eqn:Hc.
  - destruct (escd s) eqn:He.
    + destruct (x =? ESC).
      * cbn [fst]. destruct (Z.ltb_spec (pos s) MAXBUF) as [Hp|Hp]; [|apply Inv_clear; exact Hm].
        apply Inv_added; [exact Hm|exact Hb|exact Hx|exact Hp|reflexivity].
      * destruct (x =? ETX); [apply Inv_clear; exact Hm|].
        destruct (x =? STX); [apply Inv_sot; exact Hm|apply Inv_clear; exact Hm].
    + destruct (x =? ESC).
      * cbn [fst]. split; [exact Hm|]. split; [|exact Hb].
        split; [intros H; cbn in H; discriminate|intros _; apply Hs1; reflexivity].
      * cbn [fst]. destruct (Z.ltb_spec (pos s) MAXBUF) as [Hp|Hp]; [|apply Inv_clear; exact Hm].
        apply Inv_added; assumption.
  - pose proof (Hs0 eq_refl) as Hnil.
    destruct (x =? STX).
    + destruct (escd s); [apply Inv_sot; exact Hm|].
      cbn [fst]. split; [exact Hm|]. split; [|exact Hb].
      split; [intros _; exact Hnil|intros H; cbn in H; discriminate].
    + destruct (sot s).
      * cbn [fst]. destruct (Z.ltb_spec (pos s) MAXBUF) as [Hp|Hp].
        -- apply Inv_added; [exact Hm|exact Hb|exact Hx|exact Hp|reflexivity].
        -- exfalso. unfold pos, MAXBUF in Hp. rewrite Hnil in Hp. cbn in Hp. lia.
      * cbn [fst]. split; [exact Hm|]. split; [|exact Hb].
        split; [intros _; exact Hnil|intros H; cbn in H; discriminate].
Qed.

Lemma step'_dsrc now s x : dsrc (fst (step' now s x)) = dsrc s.
Proof.
  unfold step'.
  destruct (coming s); destruct (escd s); destruct (x =? ESC); destruct (x =? ETX); destruct (x =? STX); destruct (sot s);
    destruct (pos s <? MAXBUF); reflexivity.
Qed.

(* ---------- runs ---------- *)
Fixpoint run' (now:Z) (s:rst) (l:list Z) : rst * list msg :=
  match l with
  | [] => (s, [])
  | x :: r =>
    let a := step' now s x in
    let b := run' now (fst a) r in
    (fst b, match snd a with Some m => m :: snd b | None => snd b end)
  end.

Lemma run_eq now l : forall s, Inv s -> bytes l -> run now s l = Ok (run' now s l) /\ Inv (fst (run' now s l)).
Proof.
  induction l as [|x l IH]; intros s Hi Hl.
  - cbn [run run' fst]. split; [reflexivity|exact Hi].
  - pose proof (Forall_inv Hl) as Hx. pose proof (Forall_inv_tail Hl) as Hl'.
    cbn [run run']. destruct Hi as (Hm & Hs & Hb).
    rewrite (step_eq now s x Hm Hs Hx). cbn [bind].
    destruct (IH (fst (step' now s x)) (step'_inv now s x (conj Hm (conj Hs Hb)) Hx) Hl') as [E Hi'].
    rewrite E. cbn [bind fst snd]. split; [reflexivity|exact Hi'].
Qed.

Lemma run'_app now a : forall s b,
  run' now s (a ++ b) = (fst (run' now (fst (run' now s a)) b), snd (run' now s a) ++ snd (run' now (fst (run' now s a)) b)).
Proof.
  induction a as [|x a IH]; intros s b.
  - cbn [app run' fst snd]. destruct (run' now s b); reflexivity.
  - cbn [app run']. rewrite IH. cbn [fst snd]. destruct (snd (step' now s x)); reflexivity.
Qed.

Lemma Inv_init mem d : good_mem mem -> Inv (init mem d).
Proof.
  intros Hg. split; [|split].
  - exact Hg.
  - split; [reflexivity|intros H; cbn in H; discriminate].
  - unfold bsum_ok, init. cbn [buf bsum sumx]. reflexivity.
Qed.

Lemma reachable_Inv now s : reachable now s -> Inv s.
Proof.
  intros (mem & d & l & ms & Hg & Hl & Hr).
  destruct (run_eq now l (init mem d) (Inv_init mem d Hg) Hl) as [E Hi].
  rewrite E in Hr. injection Hr as Hr. rewrite Hr in Hi. exact Hi.
Qed.

Lemma reachable_run now s l : reachable now s -> bytes l ->
  run now s l = Ok (run' now s l) /\ reachable now (fst (run' now s l)).
Proof.
  intros Hr Hl. pose proof (reachable_Inv now s Hr) as Hi.
  destruct (run_eq now l s Hi Hl) as [E _]. split; [exact E|].
  destruct Hr as (mem & d & l0 & ms & Hg & Hl0 & Hr).
  exists mem, d, (l0 ++ l), (ms ++ snd (run' now s l)).
  split; [exact Hg|]. split; [apply bytes_app; split; assumption|].
  destruct (run_eq now (l0 ++ l) (init mem d) (Inv_init mem d Hg)) as [E2 _]; [apply bytes_app; split; assumption|].
  rewrite E2. rewrite run'_app.
  destruct (run_eq now l0 (init mem d) (Inv_init mem d Hg) Hl0) as [E0 _].
  rewrite E0 in Hr. injection Hr as Hr. rewrite Hr. reflexivity.
Qed.

(* ---------- 2. safety ---------- *)
Theorem reader_safe : reader_safe_stmt.
Proof.
  split.
  - intros now mem d l Hg Hl.
    destruct (run_eq now l (init mem d) (Inv_init mem d Hg) Hl) as [E _].
    exists (fst (run' now (init mem d) l)), (snd (run' now (init mem d) l)).
    rewrite E. destruct (run' now (init mem d) l); reflexivity.
  - intros now s l Hr Hl. destruct (reachable_run now s l Hr Hl) as [E Hr'].
    exists (fst (run' now s l)), (snd (run' now s l)). split; [|exact Hr'].
    rewrite E. destruct (run' now s l); reflexivity.
Qed.

(* ---------- the array contents beyond the write position are never observed ---------- *)
Lemma step'_sim now s t x : same_visible s t ->
  same_visible (fst (step' now s x)) (fst (step' now t x)) /\ snd (step' now s x) = snd (step' now t x).
Proof.
  destruct s as [c so e bf st sm d]. destruct t as [c2 so2 e2 bf2 st2 sm2 d2].
  unfold same_visible. cbn [coming sot escd buf stale bsum dsrc].
  intros (<- & <- & <- & <- & <- & <-).
  unfold step', added, clear, with_flags, pos. cbn [coming sot escd buf stale bsum dsrc].
  destruct c; destruct e; destruct (x =? ESC); destruct (x =? ETX); destruct (x =? STX); destruct so;
    destruct (Z.of_nat (length bf) <? MAXBUF); cbn [fst snd coming sot escd buf stale bsum dsrc];
    (split; [repeat split|reflexivity]).
Qed.

Lemma run'_sim now l : forall s t, same_visible s t ->
  same_visible (fst (run' now s l)) (fst (run' now t l)) /\ snd (run' now s l) = snd (run' now t l).
Proof.
  induction l as [|x l IH]; intros s t H.
  - cbn [run' fst snd]. split; [exact H|reflexivity].
  - cbn [run' fst snd]. destruct (step'_sim now s t x H) as [H1 H2].
    destruct (IH _ _ H1) as [H3 H4]. split; [exact H3|]. rewrite H2, H4. reflexivity.
Qed.

(* ---------- when is a message reported ---------- *)
Lemma step'_report now s x m : snd (step' now s x) = Some m ->
  x = ETX /\ coming s = true /\ escd s = true /\ fst (step' now s x) = clear s /\
  check_pure now (dsrc s) (bsum s) (buf s) = Some m /\ (nth 0 (buf s) 0 = T_DATA \/ nth 0 (buf s) 0 = T_REQ).
Proof.
  unfold step'.
  destruct (coming s).
  - destruct (escd s).
    + destruct (x =? ESC); [cbn [snd]; discriminate|].
      destruct (Z.eqb_spec x ETX) as [E2|E2]; cbn [fst snd].
      * destruct (Z.eqb_spec (nth 0 (buf s) 0) T_DATA) as [E3|E3]; cbn [orb].
        -- intros H. repeat split; try assumption. left. exact E3.
        -- destruct (Z.eqb_spec (nth 0 (buf s) 0) T_REQ) as [E4|E4]; [|discriminate].
           intros H. repeat split; try assumption. right. exact E4.
      * destruct (x =? STX); cbn [snd]; discriminate.
    + destruct (x =? ESC); cbn [snd]; discriminate.
  - destruct (x =? STX).
    + destruct (escd s); cbn [snd]; discriminate.
    + destruct (sot s); cbn [snd]; discriminate.
Qed.

(* ---------- check_pure against the format ---------- *)
Lemma split_last (l:list Z) : forall k, length l = S k -> l = firstn k l ++ [last l 0].
Proof.
  induction l as [|x l IH]; intros k H; [cbn in H; lia|].
  destruct l as [|y l'].
  - cbn [length] in H. assert (k = 0)%nat by lia. subst k. reflexivity.
  - destruct k as [|k']; [cbn [length] in H; lia|].
    change (last (x :: y :: l') 0) with (last (y :: l') 0). cbn [firstn app].
    f_equal. apply IH. cbn [length] in *. lia.
Qed.

Lemma sumx_last k a z : k = Z.of_nat (length a) -> sumx k (a ++ [z]) 0 = sum a.
Proof.
  intros ->. rewrite sumx_app. rewrite sumx_none by lia. cbn [sumx].
  rewrite Z.add_0_l. rewrite Z.eqb_refl. lia.
Qed.

Lemma cksum_ok bs sa ck : bs mod 256 = sa mod 256 ->
  ((if bs =? 0 then 0 else 256 - bs) mod 256 = ck <-> (0 <= ck < 256 /\ (sa + ck) mod 256 = 0)).
Proof. intros H. destruct (Z.eqb_spec bs 0); lia. Qed.

Lemma check_pure_sound now d bs c m : bytes c -> bs mod 256 = sumx (nth 1 c 0 + 2) c 0 mod 256 ->
  (nth 0 c 0 = T_DATA \/ nth 0 c 0 = T_REQ) -> check_pure now d bs c = Some m -> consistent now d c m.
Proof.
  intros Hb Hs Hty. unfold check_pure.
  destruct (Z.eqb_spec (Z.of_nat (length c)) (nth 1 c 0 + 3)) as [En|]; cbn [negb]; [|discriminate].
  destruct (Z.eqb_spec ((if bs =? 0 then 0 else 256 - bs) mod 256) (last c 0)) as [Eck|]; cbn [negb]; [|discriminate].
  pose proof (bytes_nth c 2 Hb) as B2. pose proof (bytes_nth c 3 Hb) as B3. pose proof (bytes_nth c 4 Hb) as B4.
  pose proof (bytes_nth c 5 Hb) as B5. pose proof (bytes_nth c 6 Hb) as B6. pose proof (bytes_nth c 7 Hb) as B7.
  pose proof (bytes_nth c 8 Hb) as B8. pose proof (bytes_nth c 9 Hb) as B9. pose proof (bytes_nth c 10 Hb) as B10.
  pose proof (bytes_nth c 11 Hb) as B11. pose proof (bytes_nth c 12 Hb) as B12.
  unfold T_DATA, T_REQ, MAXDATA in *.
  destruct (Z.eqb_spec (nth 0 c 0) 147) as [E0|E0].
  - unfold fin_pure, MAXDATA. destruct (Z.gtb_spec (nth 12 c 0) 223) as [|Hdl]; cbn [orb]; [discriminate|].
    destruct (Z.eqb_spec (13 + nth 12 c 0) (Z.of_nat (length c) - 1)) as [El|]; cbn [negb]; [|discriminate].
    intros [= <-].
    destruct c as [|x0 [|x1 [|x2 [|x3 [|x4 [|x5 [|x6 [|x7 [|x8 [|x9 [|x10 [|x11 [|x12 r]]]]]]]]]]]]];
      try (cbn [length nth] in *; lia).
    change (Z.to_nat 13) with 13%nat. cbn [nth skipn] in *.
    assert (Hlr : length r = S (Z.to_nat x12)) by (cbn [length] in El; lia).
    pose proof (split_last r _ Hlr) as Hr.
    assert (Hld : length (firstn (Z.to_nat x12) r) = Z.to_nat x12) by (rewrite firstn_length; lia).
    set (dat := firstn (Z.to_nat x12) r) in *. set (ck := last r 0) in *. clearbody dat ck. subst r.
    change (x0 :: x1 :: x2 :: x3 :: x4 :: x5 :: x6 :: x7 :: x8 :: x9 :: x10 :: x11 :: x12 :: dat ++ [ck])
      with ([x0; x1; x2; x3; x4; x5; x6; x7; x8; x9; x10; x11; x12] ++ dat ++ [ck]) in *.
    rewrite app_assoc in *. set (A := [x0; x1; x2; x3; x4; x5; x6; x7; x8; x9; x10; x11; x12] ++ dat) in *.
    assert (HlA : Z.of_nat (length A) = 13 + x12) by (unfold A; rewrite app_length; cbn [length]; lia).
    rewrite last_last in Eck. rewrite app_length in En. cbn [length] in En.
    rewrite sumx_last in Hs by lia.
    apply (cksum_ok bs (sum A) ck Hs) in Eck.
    unfold consistent. cbn [pri pgn dst src tim data]. change (2 ^ 24) with 16777216. change (2 ^ 32) with 4294967296. unfold v3, v4.
    split; [exact Hb|]. split; [rewrite sum_app; unfold sum at 2; cbn [fold_right]; lia|].
    split; [lia|]. split; [lia|]. split; [lia|].
    exists ck. left. unfold data_body. cbn [pri pgn dst src tim data le]. rewrite Hld. unfold v3, v4.
    unfold A. rewrite <- !app_assoc. cbn [app].
    repeat (f_equal; try lia).
  - destruct Hty as [Hty|Hty]; [congruence|].
    unfold fin_pure, MAXDATA. destruct (Z.gtb_spec (nth 7 c 0) 223) as [|Hdl]; cbn [orb]; [discriminate|].
    destruct (Z.eqb_spec (8 + nth 7 c 0) (Z.of_nat (length c) - 1)) as [El|]; cbn [negb]; [|discriminate].
    intros [= <-].
    destruct c as [|x0 [|x1 [|x2 [|x3 [|x4 [|x5 [|x6 [|x7 r]]]]]]]];
      try (cbn [length nth] in *; lia).
    change (Z.to_nat 8) with 8%nat. cbn [nth skipn] in *.
    assert (Hlr : length r = S (Z.to_nat x7)) by (cbn [length] in El; lia).
    pose proof (split_last r _ Hlr) as Hr.
    assert (Hld : length (firstn (Z.to_nat x7) r) = Z.to_nat x7) by (rewrite firstn_length; lia).
    clear B8 B9 B10 B11 B12.
    set (dat := firstn (Z.to_nat x7) r) in *. set (ck := last r 0) in *. clearbody dat ck. subst r.
    change (x0 :: x1 :: x2 :: x3 :: x4 :: x5 :: x6 :: x7 :: dat ++ [ck])
      with ([x0; x1; x2; x3; x4; x5; x6; x7] ++ dat ++ [ck]) in *.
    rewrite app_assoc in *. set (A := [x0; x1; x2; x3; x4; x5; x6; x7] ++ dat) in *.
    assert (HlA : Z.of_nat (length A) = 8 + x7) by (unfold A; rewrite app_length; cbn [length]; lia).
    rewrite last_last in Eck. rewrite app_length in En. cbn [length] in En.
    rewrite sumx_last in Hs by lia.
    apply (cksum_ok bs (sum A) ck Hs) in Eck.
    unfold consistent. cbn [pri pgn dst src tim data]. change (2 ^ 24) with 16777216. change (2 ^ 32) with 4294967296. unfold v3, v4.
    split; [exact Hb|]. split; [rewrite sum_app; unfold sum at 2; cbn [fold_right]; lia|].
    split; [lia|]. split; [lia|]. split; [lia|].
    exists ck. right. split; [|split; reflexivity]. unfold req_body. cbn [pri pgn dst src tim data le]. rewrite Hld. unfold v3, v4.
    unfold A. rewrite <- !app_assoc. cbn [app].
    repeat (f_equal; try lia).
Qed.

Lemma v3_le v : 0 <= v < 16777216 -> v3 (v mod 256) (v / 256 mod 256) (v / 256 / 256 mod 256) = v.
Proof. intros H. unfold v3. lia. Qed.
Lemma v4_le v : 0 <= v < 4294967296 ->
  v4 (v mod 256) (v / 256 mod 256) (v / 256 / 256 mod 256) (v / 256 / 256 / 256 mod 256) = v.
Proof. intros H. unfold v4. lia. Qed.

Lemma firstn_app_exact (a b:list Z) : firstn (length a) (a ++ b) = a.
Proof. rewrite firstn_app, firstn_all, Nat.sub_diag. cbn [firstn]. apply app_nil_r. Qed.

Lemma req_body_length m : length (req_body m) = (8 + length (data m))%nat.
Proof. unfold req_body. cbn [le app length]. reflexivity. Qed.

Lemma check_pure_complete now d bs c m : consistent now d c m -> bs mod 256 = sumx (nth 1 c 0 + 2) c 0 mod 256 ->
  check_pure now d bs c = Some m /\ (nth 0 c 0 = T_DATA \/ nth 0 c 0 = T_REQ).
Proof.
  intros (Hb & Hsum & Hlen & Hpgn & Htim & ck & Hc) Hs.
  change (2 ^ 24) with 16777216 in Hpgn. change (2 ^ 32) with 4294967296 in Htim.
  set (n := Z.of_nat (length (data m))) in *.
  destruct Hc as [Hc | (Hc & Hsrc & Htm)].
  - assert (N0 : nth 0 c 0 = 147) by (rewrite Hc; reflexivity).
    assert (N1 : nth 1 c 0 = n + 11) by (rewrite Hc; reflexivity).
    assert (N2 : nth 2 c 0 = pri m) by (rewrite Hc; reflexivity).
    assert (N3 : nth 3 c 0 = pgn m mod 256) by (rewrite Hc; reflexivity).
    assert (N4 : nth 4 c 0 = pgn m / 256 mod 256) by (rewrite Hc; reflexivity).
    assert (N5 : nth 5 c 0 = pgn m / 256 / 256 mod 256) by (rewrite Hc; reflexivity).
    assert (N6 : nth 6 c 0 = dst m) by (rewrite Hc; reflexivity).
    assert (N7 : nth 7 c 0 = src m) by (rewrite Hc; reflexivity).
    assert (N8 : nth 8 c 0 = tim m mod 256) by (rewrite Hc; reflexivity).
    assert (N9 : nth 9 c 0 = tim m / 256 mod 256) by (rewrite Hc; reflexivity).
    assert (N10 : nth 10 c 0 = tim m / 256 / 256 mod 256) by (rewrite Hc; reflexivity).
    assert (N11 : nth 11 c 0 = tim m / 256 / 256 / 256 mod 256) by (rewrite Hc; reflexivity).
    assert (N12 : nth 12 c 0 = n) by (rewrite Hc; reflexivity).
    assert (Hl : Z.of_nat (length c) = 14 + n).
    { rewrite Hc, app_length, data_body_length. cbn [length]. unfold n. lia. }
    assert (Hla : last c 0 = ck) by (rewrite Hc; apply last_last).
    assert (Hsx : sumx (nth 1 c 0 + 2) c 0 = sum (data_body m)).
    { rewrite N1, Hc. apply sumx_last. rewrite data_body_length. unfold n. lia. }
    assert (Hsk : skipn 13 c = data m ++ [ck]) by (rewrite Hc; reflexivity).
    assert (Hck : 0 <= ck < 256).
    { rewrite Hc in Hb. apply bytes_app in Hb. destruct Hb as [_ Hb]. apply Forall_inv in Hb. exact Hb. }
    assert (Hsc : sum c = sum (data_body m) + ck).
    { rewrite Hc, sum_app. unfold sum at 2. cbn [fold_right]. lia. }
    rewrite Hsx in Hs. split; [|left; rewrite N0; reflexivity].
    unfold check_pure. rewrite Hl, N1, Hla, N0.
    destruct (Z.eqb_spec (14 + n) (n + 11 + 3)) as [_|E]; [|lia]. cbn [negb].
    assert (Eck : (if bs =? 0 then 0 else 256 - bs) mod 256 = ck) by (apply (cksum_ok bs _ ck Hs); lia).
    rewrite Eck, Z.eqb_refl. cbn [negb].
    change (147 =? T_DATA) with true. cbn iota.
    unfold fin_pure. rewrite Hl, N12.
    destruct (Z.gtb_spec n MAXDATA) as [E|_]; [unfold MAXDATA, n in E; lia|]. cbn [orb].
    destruct (Z.eqb_spec (13 + n) (14 + n - 1)) as [_|E]; [|lia]. cbn [negb].
    rewrite N2, N3, N4, N5, N6, N7, N8, N9, N10, N11. rewrite v3_le by lia. rewrite v4_le by lia.
    change (Z.to_nat 13) with 13%nat. rewrite Hsk. unfold n. rewrite Nat2Z.id, firstn_app_exact.
    destruct m; reflexivity.
  - assert (N0 : nth 0 c 0 = 148) by (rewrite Hc; reflexivity).
    assert (N1 : nth 1 c 0 = n + 6) by (rewrite Hc; reflexivity).
    assert (N2 : nth 2 c 0 = pri m) by (rewrite Hc; reflexivity).
    assert (N3 : nth 3 c 0 = pgn m mod 256) by (rewrite Hc; reflexivity).
    assert (N4 : nth 4 c 0 = pgn m / 256 mod 256) by (rewrite Hc; reflexivity).
    assert (N5 : nth 5 c 0 = pgn m / 256 / 256 mod 256) by (rewrite Hc; reflexivity).
    assert (N6 : nth 6 c 0 = dst m) by (rewrite Hc; reflexivity).
    assert (N7 : nth 7 c 0 = n) by (rewrite Hc; reflexivity).
    assert (Hl : Z.of_nat (length c) = 9 + n).
    { rewrite Hc, app_length, req_body_length. cbn [length]. unfold n. lia. }
    assert (Hla : last c 0 = ck) by (rewrite Hc; apply last_last).
    assert (Hsx : sumx (nth 1 c 0 + 2) c 0 = sum (req_body m)).
    { rewrite N1, Hc. apply sumx_last. rewrite req_body_length. unfold n. lia. }
    assert (Hsk : skipn 8 c = data m ++ [ck]) by (rewrite Hc; reflexivity).
    assert (Hck : 0 <= ck < 256).
    { rewrite Hc in Hb. apply bytes_app in Hb. destruct Hb as [_ Hb]. apply Forall_inv in Hb. exact Hb. }
    assert (Hsc : sum c = sum (req_body m) + ck).
    { rewrite Hc, sum_app. unfold sum at 2. cbn [fold_right]. lia. }
    rewrite Hsx in Hs. split; [|right; rewrite N0; reflexivity].
    unfold check_pure. rewrite Hl, N1, Hla, N0.
    destruct (Z.eqb_spec (9 + n) (n + 6 + 3)) as [_|E]; [|lia]. cbn [negb].
    assert (Eck : (if bs =? 0 then 0 else 256 - bs) mod 256 = ck) by (apply (cksum_ok bs _ ck Hs); lia).
    rewrite Eck, Z.eqb_refl. cbn [negb].
    change (148 =? T_DATA) with false. cbn iota.
    unfold fin_pure. rewrite Hl, N7.
    destruct (Z.gtb_spec n MAXDATA) as [E|_]; [unfold MAXDATA, n in E; lia|]. cbn [orb].
    destruct (Z.eqb_spec (8 + n) (9 + n - 1)) as [_|E]; [|lia]. cbn [negb].
    rewrite N2, N3, N4, N5, N6. rewrite v3_le by lia.
    change (Z.to_nat 8) with 8%nat. rewrite Hsk. unfold n. rewrite Nat2Z.id, firstn_app_exact.
    change (2 ^ 32) with 4294967296 in Htm. rewrite <- Hsrc, <- Htm.
    destruct m; reflexivity.
Qed.

(* ---------- feeding a frame ---------- *)
Lemma run'_inv now l s : Inv s -> bytes l -> Inv (fst (run' now s l)).
Proof. intros Hi Hl. apply (run_eq now l s Hi Hl). Qed.

Lemma run'_cons now s x r :
  run' now s (x :: r) =
  (fst (run' now (fst (step' now s x)) r),
   match snd (step' now s x) with Some m => m :: snd (run' now (fst (step' now s x)) r) | None => snd (run' now (fst (step' now s x)) r) end).
Proof. reflexivity. Qed.

Lemma step'_esc1 now s : coming s = true -> escd s = false ->
  step' now s ESC = (with_flags s true (sot s) true, None).
Proof. intros Hc He. unfold step'. rewrite Hc, He. reflexivity. Qed.

Lemma step'_esc2 now s : coming s = true -> escd s = true -> pos s < MAXBUF ->
  step' now s ESC = (added (with_flags s true (sot s) false) ESC, None).
Proof.
  intros Hc He Hp. unfold step'. rewrite Hc, He. change (ESC =? ESC) with true. cbn iota.
  destruct (Z.ltb_spec (pos s) MAXBUF) as [_|H]; [reflexivity|lia].
Qed.

Lemma step'_plain now s x : coming s = true -> escd s = false -> x <> ESC -> pos s < MAXBUF ->
  step' now s x = (added s x, None).
Proof.
  intros Hc He Hx Hp. unfold step'. rewrite Hc, He.
  destruct (Z.eqb_spec x ESC) as [E|_]; [contradiction|].
  destruct (Z.ltb_spec (pos s) MAXBUF) as [_|H]; [reflexivity|lia].
Qed.

(* one content byte (escaped) inside a frame *)
Lemma feed1 now s x : coming s = true -> escd s = false -> pos s < MAXBUF ->
  let r := run' now s (esc [x]) in
  snd r = [] /\ coming (fst r) = true /\ escd (fst r) = false /\ buf (fst r) = buf s ++ [x] /\
  dsrc (fst r) = dsrc s /\ sot (fst r) = sot s.
Proof.
  intros Hc He Hp. cbn [esc]. cbv zeta.
  destruct (Z.eqb_spec x ESC) as [E|E].
  - subst x. rewrite run'_cons, (step'_esc1 now s Hc He). cbn [fst snd].
    rewrite run'_cons, (step'_esc2 now (with_flags s true (sot s) true) eq_refl eq_refl Hp).
    cbn [fst snd run' added with_flags coming sot escd buf dsrc]. repeat split.
  - rewrite run'_cons, (step'_plain now s x Hc He E Hp).
    cbn [fst snd run' added coming sot escd buf dsrc]. repeat split; assumption.
Qed.

Lemma esc_bytes l : bytes l -> bytes (esc l).
Proof.
  induction l as [|x l IH]; intros H; [constructor|].
  pose proof (Forall_inv H) as Hx. pose proof (Forall_inv_tail H) as Hl. cbn [esc].
  destruct (x =? ESC).
  - constructor; [unfold byte, ESC; lia|]. constructor; [unfold byte, ESC; lia|]. apply IH. exact Hl.
  - constructor; [exact Hx|]. apply IH. exact Hl.
Qed.

Lemma esc_cons x l : esc (x :: l) = esc [x] ++ esc l.
Proof. cbn [esc]. destruct (x =? ESC); reflexivity. Qed.

Lemma run'_esc now l : forall s, Inv s -> coming s = true -> escd s = false -> bytes l ->
  pos s + Z.of_nat (length l) <= MAXBUF ->
  let r := run' now s (esc l) in
  snd r = [] /\ coming (fst r) = true /\ escd (fst r) = false /\ buf (fst r) = buf s ++ l /\
  dsrc (fst r) = dsrc s /\ sot (fst r) = sot s /\ Inv (fst r).
Proof.
  induction l as [|x l IH]; intros s Hi Hc He Hl Hp.
  - cbn [esc run' fst snd]. rewrite app_nil_r. repeat (split; [first [reflexivity|assumption]|]). exact Hi.
  - pose proof (Forall_inv Hl) as Hx. pose proof (Forall_inv_tail Hl) as Hl'. cbn [length] in Hp.
    rewrite esc_cons. cbv zeta. rewrite run'_app. cbn [fst snd].
    destruct (feed1 now s x Hc He ltac:(lia)) as (F1 & F2 & F3 & F4 & F5 & F6).
    assert (Hi1 : Inv (fst (run' now s (esc [x])))).
    { apply run'_inv; [exact Hi|]. apply esc_bytes. constructor; [exact Hx|constructor]. }
    set (s1 := fst (run' now s (esc [x]))) in *.
    destruct (IH s1 Hi1 F2 F3 Hl') as (G1 & G2 & G3 & G4 & G5 & G6 & G7).
    { unfold pos in *. rewrite F4, app_length. cbn [length]. lia. }
    rewrite F1, G1, G4, F4, G5, F5, G6, F6. rewrite <- app_assoc. repeat (split; [first [reflexivity|assumption]|]). exact G7.
Qed.

(* a start sequence, from every state that is not waiting for the second half of an escape pair *)
Lemma start_seq now s : mid_escape s = false ->
  let r := run' now s [ESC; STX] in
  snd r = [] /\ coming (fst r) = false /\ sot (fst r) = true /\ escd (fst r) = false /\ buf (fst r) = [] /\
  bsum (fst r) = 0 /\ dsrc (fst r) = dsrc s.
Proof.
  destruct s as [c so e bf st sm d]. unfold mid_escape. cbn [coming escd].
  intros H. cbn [run']. unfold step'. cbn [coming sot escd].
  change (ESC =? ESC) with true. change (ESC =? STX) with false. change (STX =? ESC) with false.
  change (STX =? ETX) with false. change (STX =? STX) with true.
  destruct c; destruct e; try discriminate; destruct so; cbn [fst snd with_flags clear coming sot escd buf bsum dsrc];
    try (repeat split; reflexivity);
    destruct (pos {| coming := false; sot := true; escd := _; buf := bf; stale := st; bsum := sm; dsrc := d |} <? MAXBUF);
    cbn [fst snd with_flags clear added coming sot escd buf bsum dsrc]; repeat split; reflexivity.
Qed.

Lemma step'_first now s x : coming s = false -> sot s = true -> x <> STX -> x <> ESC -> buf s = [] ->
  step' now s x = (added (with_flags s true false false) x, None).
Proof.
  intros Hc Hs Hx1 Hx2 Hb. unfold step'. rewrite Hc, Hs.
  destruct (Z.eqb_spec x STX) as [E|_]; [contradiction|].
  destruct (Z.eqb_spec x ESC) as [E|_]; [contradiction|].
  unfold pos. rewrite Hb. reflexivity.
Qed.

Definition report (now:Z) (s:rst) : option msg :=
  if (nth 0 (buf s) 0 =? T_DATA) || (nth 0 (buf s) 0 =? T_REQ) then check_pure now (dsrc s) (bsum s) (buf s) else None.

Lemma step'_etx now s : coming s = true -> escd s = true -> step' now s ETX = (clear s, report now s).
Proof. intros Hc He. unfold step', report. rewrite Hc, He. reflexivity. Qed.

Lemma end_seq now s : coming s = true -> escd s = false ->
  run' now s [ESC; ETX] = (clear s, match report now s with Some m => [m] | None => [] end).
Proof.
  intros Hc He. rewrite run'_cons, (step'_esc1 now s Hc He). cbn [fst snd].
  rewrite run'_cons, (step'_etx now (with_flags s true (sot s) true) eq_refl eq_refl). cbn [fst snd run'].
  reflexivity.
Qed.

Lemma check_pure_len now d bs c m : bytes c -> check_pure now d bs c = Some m -> 3 <= Z.of_nat (length c).
Proof.
  intros Hb. unfold check_pure. pose proof (bytes_nth c 1 Hb) as H1.
  destruct (Z.eqb_spec (Z.of_nat (length c)) (nth 1 c 0 + 3)) as [E|]; cbn [negb]; [|discriminate]. lia.
Qed.

Lemma Inv_bsum s : Inv s -> (2 <= length (buf s))%nat ->
  bsum s mod 256 = sumx (nth 1 (buf s) 0 + 2) (buf s) 0 mod 256.
Proof. intros (_ & _ & Hb) H. unfold bsum_ok in Hb. rewrite memv_buf in Hb by lia. exact Hb. Qed.

(* what the reader reports at the end sequence is exactly what the format says about the buffered content *)
Lemma report_consistent now s m : Inv s -> report now s = Some m -> consistent now (dsrc s) (buf s) m.
Proof.
  intros Hi. unfold report.
  assert (Hb : bytes (buf s)) by (destruct Hi as ((_ & Hb) & _); apply bytes_app in Hb; tauto).
  destruct (Z.eqb_spec (nth 0 (buf s) 0) T_DATA) as [E|E]; cbn [orb].
  - intros H. pose proof (check_pure_len _ _ _ _ _ Hb H) as Hl.
    apply (check_pure_sound now (dsrc s) (bsum s)); [exact Hb|apply Inv_bsum; [exact Hi|lia]|left; exact E|exact H].
  - destruct (Z.eqb_spec (nth 0 (buf s) 0) T_REQ) as [E2|E2]; [|discriminate].
    intros H. pose proof (check_pure_len _ _ _ _ _ Hb H) as Hl.
    apply (check_pure_sound now (dsrc s) (bsum s)); [exact Hb|apply Inv_bsum; [exact Hi|lia]|right; exact E2|exact H].
Qed.

Lemma consistent_len now d c m : consistent now d c m -> (9 <= length c)%nat.
Proof.
  intros (_ & _ & _ & _ & _ & ck & [H|(H & _)]); rewrite H, app_length; [rewrite data_body_length|rewrite req_body_length];
    cbn [length]; lia.
Qed.

Lemma consistent_report now s m : Inv s -> consistent now (dsrc s) (buf s) m -> report now s = Some m.
Proof.
  intros Hi Hc. pose proof (consistent_len _ _ _ _ Hc) as Hl.
  destruct (check_pure_complete now (dsrc s) (bsum s) (buf s) m Hc (Inv_bsum s Hi ltac:(lia))) as [H1 H2].
  unfold report. destruct H2 as [H2|H2]; rewrite H2.
  - change (T_DATA =? T_DATA) with true. cbn [orb]. exact H1.
  - change (T_REQ =? T_DATA) with false. change (T_REQ =? T_REQ) with true. cbn [orb]. exact H1.
Qed.

(* start sequence + escaped content from a state that is not waiting for the second half of an escape pair *)
Lemma frame_run now s c : Inv s -> mid_escape s = false -> bytes c -> (1 <= length c <= 300)%nat ->
  hd 0 c <> ESC -> hd 0 c <> STX ->
  let r := run' now s ([ESC; STX] ++ esc c) in
  snd r = [] /\ buf (fst r) = c /\ coming (fst r) = true /\ escd (fst r) = false /\ dsrc (fst r) = dsrc s /\ Inv (fst r).
Proof.
  intros Hi Hm Hc Hl H1 H2. cbv zeta.
  destruct c as [|c0 c']; [cbn [length] in Hl; lia|]. cbn [hd] in H1, H2. cbn [length] in Hl.
  pose proof (Forall_inv Hc) as Hc0. pose proof (Forall_inv_tail Hc) as Hc'.
  rewrite run'_app.
  destruct (start_seq now s Hm) as (S1 & S2 & S3 & S4 & S5 & S6 & S7).
  assert (Hi1 : Inv (fst (run' now s [ESC; STX]))).
  { apply run'_inv; [exact Hi|]. repeat constructor; unfold ESC, STX; lia. }
  set (s1 := fst (run' now s [ESC; STX])) in *. rewrite S1. cbn [app fst snd].
  cbn [esc]. destruct (Z.eqb_spec c0 ESC) as [E|_]; [contradiction|].
  rewrite run'_cons. rewrite (step'_first now s1 c0 S2 S3 H2 H1 S5). cbn [fst snd].
  assert (Hi2 : Inv (added (with_flags s1 true false false) c0)).
  { pose proof (step'_inv now s1 c0 Hi1 Hc0) as H. rewrite (step'_first now s1 c0 S2 S3 H2 H1 S5) in H. exact H. }
  set (s2 := added (with_flags s1 true false false) c0) in *.
  assert (Hb2 : buf s2 = [c0]) by (unfold s2, added; cbn [buf with_flags]; rewrite S5; reflexivity).
  destruct (run'_esc now c' s2 Hi2 eq_refl eq_refl Hc') as (G1 & G2 & G3 & G4 & G5 & G6 & G7).
  { unfold pos, MAXBUF. rewrite Hb2. cbn [length]. lia. }
  rewrite G1, G4, Hb2, G5. cbn [app]. repeat (split; [first [reflexivity|assumption]|]). exact G7.
Qed.

Lemma framed_run now s c : Inv s -> mid_escape s = false -> bytes c -> (1 <= length c <= 300)%nat ->
  hd 0 c <> ESC -> hd 0 c <> STX ->
  exists s3, Inv s3 /\ buf s3 = c /\ dsrc s3 = dsrc s /\
    run' now s (framed c) = (clear s3, match report now s3 with Some m => [m] | None => [] end).
Proof.
  intros Hi Hm Hc Hl H1 H2.
  destruct (frame_run now s c Hi Hm Hc Hl H1 H2) as (F1 & F2 & F3 & F4 & F5 & F6).
  exists (fst (run' now s ([ESC; STX] ++ esc c))). split; [exact F6|]. split; [exact F2|]. split; [exact F5|].
  unfold framed. rewrite app_assoc, run'_app. rewrite F1. cbn [fst snd]. rewrite app_nil_l.
  rewrite (end_seq now _ F3 F4). reflexivity.
Qed.

(* ---------- 3. only consistent frames are reported ---------- *)
Theorem reports_only_consistent : reports_only_consistent_stmt.
Proof.
  intros now s x s' m Hr Hx Hs.
  pose proof (reachable_Inv now s Hr) as Hi. pose proof Hi as (Hm & Hsh & Hb).
  rewrite (step_eq now s x Hm Hsh Hx) in Hs. injection Hs as Hs.
  assert (H2 : snd (step' now s x) = Some m) by (rewrite Hs; reflexivity).
  destruct (step'_report now s x m H2) as (E1 & E2 & E3 & E4 & E5 & E6).
  split; [exact E1|]. split; [exact E2|]. split; [exact E3|].
  assert (Hs' : s' = clear s) by (rewrite <- E4, Hs; reflexivity).
  split; [rewrite Hs'; repeat split|].
  apply report_consistent; [exact Hi|]. unfold report.
  destruct E6 as [E6|E6]; rewrite E6.
  - change (T_DATA =? T_DATA) with true. cbn [orb]. exact E5.
  - change (T_REQ =? T_DATA) with false. change (T_REQ =? T_REQ) with true. cbn [orb]. exact E5.
Qed.

(* ---------- 3b. the buffer holds the unescaped content; consistent frames, and only those, are reported ---------- *)
Theorem frame_content : frame_content_stmt.
Proof.
  intros now s c Hr Hm Hc Hl H1 H2.
  pose proof (reachable_Inv now s Hr) as Hi.
  split.
  - destruct (frame_run now s c Hi Hm Hc Hl H1 H2) as (F1 & F2 & F3 & F4 & F5 & F6).
    exists (fst (run' now s ([ESC; STX] ++ esc c))).
    destruct (reachable_run now s ([ESC; STX] ++ esc c) Hr) as [E _].
    { apply bytes_app. split; [repeat constructor; unfold ESC, STX; lia|apply esc_bytes; exact Hc]. }
    rewrite E. split; [|repeat split; assumption].
    rewrite <- F1. destruct (run' now s ([ESC; STX] ++ esc c)); reflexivity.
  - destruct (framed_run now s c Hi Hm Hc Hl H1 H2) as (s3 & Hi3 & Hb3 & Hd3 & E3).
    destruct (reachable_run now s (framed c) Hr) as [E _].
    { unfold framed. apply bytes_app. split; [repeat constructor; unfold ESC, STX; lia|].
      apply bytes_app. split; [apply esc_bytes; exact Hc|repeat constructor; unfold ESC, ETX; lia]. }
    exists (clear s3), (match report now s3 with Some m => [m] | None => [] end).
    rewrite E, E3. split; [reflexivity|]. split; [repeat split|]. split.
    + intros m Hcm. rewrite <- Hd3, <- Hb3 in Hcm. rewrite (consistent_report now s3 m Hi3 Hcm). reflexivity.
    + intros Hno. destruct (report now s3) as [m|] eqn:Er; [|reflexivity].
      exfalso. apply (Hno m). rewrite <- Hd3, <- Hb3. apply report_consistent; assumption.
Qed.

(* ---------- 1. decode (encode m) = m ---------- *)
Lemma wf_consistent now d m : wf_msg m -> consistent now d (data_body m ++ [cksum (data_body m)]) m.
Proof.
  intros (Hp & Hpr & Hd & Hs & Ht & Hdat & Hl). unfold byte in *.
  change (2 ^ 24) with 16777216 in Hp. change (2 ^ 32) with 4294967296 in Ht.
  assert (Hb : bytes (data_body m)).
  { unfold data_body. cbn [le app]. repeat (apply Forall_cons; [unfold byte; lia|]). exact Hdat. }
  unfold consistent. change (2 ^ 24) with 16777216. change (2 ^ 32) with 4294967296.
  split. { apply bytes_app. split; [exact Hb|]. constructor; [unfold byte, cksum; lia|constructor]. }
  split. { rewrite sum_app. unfold sum at 2. cbn [fold_right]. unfold cksum. lia. }
  split; [lia|]. split; [lia|]. split; [lia|].
  exists (cksum (data_body m)). left. reflexivity.
Qed.

Theorem decode_encode : decode_encode_stmt.
Proof.
  intros now mem d p s ms m Hg Hp Hrun Hmid Hwf.
  pose proof Hwf as (Hpgn & _ & _ & _ & _ & _ & Hlen).
  destruct (encode_frame m ltac:(lia) Hlen) as [Henc _].
  pose proof (Inv_init mem d Hg) as Hi0.
  destruct (run_eq now p (init mem d) Hi0 Hp) as [E0 Hi].
  rewrite E0 in Hrun. injection Hrun as Hrun.
  assert (Hs : fst (run' now (init mem d) p) = s) by (rewrite Hrun; reflexivity).
  assert (Hms : snd (run' now (init mem d) p) = ms) by (rewrite Hrun; reflexivity).
  rewrite Hs in Hi.
  set (c := data_body m ++ [cksum (data_body m)]).
  assert (Hc : consistent now (dsrc s) c m) by (apply wf_consistent; exact Hwf).
  assert (Hbc : bytes c) by (destruct Hc as (H & _); exact H).
  assert (Hlc : (1 <= length c <= 300)%nat).
  { unfold c. rewrite app_length, data_body_length. cbn [length]. lia. }
  destruct (framed_run now s c Hi Hmid Hbc Hlc) as (s3 & Hi3 & Hb3 & Hd3 & E3).
  { unfold c, data_body. cbn [app hd]. unfold ESC. lia. }
  { unfold c, data_body. cbn [app hd]. unfold STX. lia. }
  rewrite <- Hd3, <- Hb3 in Hc. rewrite (consistent_report now s3 m Hi3 Hc) in E3.
  exists (frame m), (clear s3). split; [exact Henc|].
  assert (Hbf : bytes (frame m)).
  { unfold frame, framed. fold c. apply bytes_app. split; [repeat constructor; unfold ESC, STX; lia|].
    apply bytes_app. split; [apply esc_bytes; exact Hbc|repeat constructor; unfold ESC, ETX; lia]. }
  destruct (run_eq now (p ++ frame m) (init mem d) Hi0) as [E1 _]; [apply bytes_app; split; assumption|].
  rewrite E1, run'_app, Hs, Hms. unfold frame at 1 2. fold c. rewrite E3. cbn [fst snd].
  split; [reflexivity|repeat split].
Qed.

(* ---------- 4. resynchronisation ---------- *)
Theorem resync : resync_stmt.
Proof.
  split.
  - intros now s Hr Hm.
    destruct (reachable_run now s [ESC; STX] Hr) as [E _]; [repeat constructor; unfold ESC, STX; lia|].
    destruct (start_seq now s Hm) as (S1 & S2 & S3 & S4 & S5 & S6 & S7).
    exists (fst (run' now s [ESC; STX])). rewrite E. split; [|repeat split; assumption].
    rewrite <- S1. destruct (run' now s [ESC; STX]); reflexivity.
  - intros now s t l Hv Hrs Hrt Hl.
    destruct (reachable_run now s l Hrs Hl) as [Es _]. destruct (reachable_run now t l Hrt Hl) as [Et _].
    destruct (run'_sim now l s t Hv) as [H1 H2].
    exists (fst (run' now s l)), (fst (run' now t l)), (snd (run' now s l)).
    rewrite Es, Et. split; [destruct (run' now s l); reflexivity|]. split; [|exact H1].
    rewrite H2. destruct (run' now t l); reflexivity.
Qed.

(* ---------- 5. ReadOut=false ---------- *)
Theorem readout : readout_stmt.
Proof.
  intros now s l. revert s. induction l as [|x l IH]; intros s.
  - cbn [run_ro run]. repeat split. constructor.
  - cbn [run_ro run]. destruct (step now s x) as [[s1 o]| |]; cbn [bind]; try exact I.
    specialize (IH s1). cbn [fst snd].
    destruct (run_ro now s1 l) as [[[sa ma] ka]| |]; destruct (run now s1 l) as [[sb mb]| |]; cbn [bind fst snd];
      try exact I; try contradiction.
    destruct IH as (-> & -> & HF). split; [reflexivity|]. split; [reflexivity|].
    unfold unconsumed. destruct (negb (coming s)); cbn [andb]; [|exact HF].
    destruct (Z.eqb_spec x STX) as [E|E].
    + destruct (negb (escd s)); [|exact HF]. constructor; [rewrite E; unfold STX, ESC; lia|exact HF].
    + destruct (negb (sot s)); cbn [andb]; [|exact HF].
      destruct (Z.eqb_spec x ESC) as [E2|E2]; cbn [negb]; [exact HF|]. constructor; [exact E2|exact HF].
Qed.

Print Assumptions encode_frame.
Print Assumptions decode_encode.
Print Assumptions reader_safe.
Print Assumptions reports_only_consistent.
Print Assumptions frame_content.
Print Assumptions resync.
Print Assumptions readout.
