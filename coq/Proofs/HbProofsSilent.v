(* C12 - statement 6 of Spec/HbSpec.v: no heartbeat from nodes that are not active bus devices *)
From Coq Require Import ZArith List Bool Lia.
From N2kV Require Import Base.ListAux Model.CanId Model.Sched Model.PgnClass Model.NodeDefs Model.NodeRxDefs Gen.GenTables Gen.GenConsts
  Spec.HbSpec Proofs.SendProofs Proofs.HbProofsFrame Proofs.HbProofs.
Import ListNotations.
Local Open Scope Z_scope.

Lemma with_rn_self r : with_rn r (rn r) = r.
Proof. destruct r. reflexivity. Qed.

Lemma rstatic_mode r r' : rstatic r r' -> n_mode (rn r') = n_mode (rn r).
Proof. unfold rstatic, nstatic. intuition. Qed.
Lemma rstatic_open r r' : rstatic r r' -> n_open (rn r') = n_open (rn r).
Proof. unfold rstatic, nstatic. intuition. Qed.

Section Mode.
Variable gf : rnode -> slot -> rnode * list event.
Hypothesis Hgf : gf_keeps_mode gf.

Lemma handle_system_mode r s : n_mode (rn (fst (handle_system gf r s))) = n_mode (rn r).
Proof.
  unfold handle_system. cbv zeta. brk; cbn [fst snd]; try reflexivity;
    first [apply rstatic_mode, handle_iso_request_st | apply rstatic_mode, handle_claim_st | apply rstatic_mode, handle_commanded_st | apply Hgf].
Qed.
Lemma rx_loop_mode k : forall r, n_mode (rn (fst (rx_loop gf k r))) = n_mode (rn r).
Proof.
  induction k as [|k IH]; intros r; cbn [rx_loop]; [reflexivity|].
  brk; cbn [fst snd]; try reflexivity;
  match goal with H : rx_frame _ _ = _ |- _ => apply rx_frame_st', rstatic_mode in H end;
  try match goal with H : handle_system _ ?a ?b = _ |- _ => let K1 := fresh "K" in pose proof (handle_system_mode a b) as K1; rewrite H in K1; clear H end;
  match goal with H : rx_loop gf _ ?a = _ |- _ => let K := fresh "K" in pose proof (IH a) as K; rewrite H in K; clear H end;
  addf6; unfold rstatic, nstatic in *; prj; intuition congruence.
Qed.
End Mode.

(* Open(): the mode never changes; the open state becomes 3 exactly when the OnOpen note is produced *)
Lemma open_step_facts r : n_open (rn r) <> 3 ->
  n_mode (rn (fst (fst (open_step r)))) = n_mode (rn r) /\
  (snd (fst (open_step r)) = [] \/ n_open (rn (fst (fst (open_step r)))) = 3).
Proof.
  intros Hn. unfold open_step. cbv zeta.
  destruct (Z.eqb_spec (n_open (rn r)) 3) as [E|_]; [contradiction|].
  destruct (n_open (rn r) =? 0);
  brk; cbn [fst snd]; try (split; [reflexivity|left; reflexivity]);
  match goal with H : start_claim_all ?k ?a ?b = _ |- _ =>
         let K := fresh "K" in pose proof (start_claim_all_st k a b) as K; rewrite H in K; cbn [fst] in K; clear H end;
  match goal with H : millis64 _ = _ |- _ => apply millis64_st' in H end;
  match goal with |- context [set_heartbeat_all ?k ?a ?b ?c ?d] => pose proof (set_heartbeat_all_st k a b c d) end;
  match goal with |- context [resync_heartbeats ?k ?a ?b] => pose proof (resync_heartbeats_st k a b) end;
  (split; [|right]); unfold rstatic, nstatic in *; prj; intuition congruence.
Qed.

Theorem hb_inactive_silent : hb_inactive_silent_stmt.
Proof.
  unfold hb_inactive_silent_stmt. split; [|split; [|split]].
  - intros gf r Hgf Hm. unfold poll, poll_without_heartbeat.
    assert (H1: forall r1 ev0 opened, (if n_open (rn r) =? 3 then (r, [], true) else open_step r) = (r1, ev0, opened) -> n_mode (rn r1) = n_mode (rn r)).
    { intros r1 ev0 opened E. destruct (Z.eqb_spec (n_open (rn r)) 3) as [E3|E3].
      - injection E as <- _ _. reflexivity.
      - destruct (open_step_facts r E3) as [F _]. rewrite E in F. exact F. }
    destruct (if n_open (rn r) =? 3 then (r, [], true) else open_step r) as [[r1 ev0] opened] eqn:E0.
    specialize (H1 _ _ _ eq_refl).
    destruct (negb (opened && (n_open (rn r1) =? 3))); [reflexivity|].
    destruct (rflush r1) as [r2 ev1] eqn:E1. apply rflush_st', rstatic_mode in E1.
    pose proof (rstatic_mode _ _ (send_pending_info_st (length (n_devs (rn r2))) r2 0)) as E2.
    destruct (send_pending_info (length (n_devs (rn r2))) r2 0) as [r3 ev2]. cbn [fst] in E2.
    pose proof (rx_loop_mode gf Hgf (Z.to_nat c_MaxReadFramesOnParse) r3) as E3.
    destruct (rx_loop gf (Z.to_nat c_MaxReadFramesOnParse) r3) as [r4 ev3]. cbn [fst] in E3.
    assert (Ha: is_active_node (rn r4) = false).
    { unfold is_active_node. rewrite E3, E2, E1, H1. destruct Hm as [->|[->| ->]]; reflexivity. }
    rewrite Ha. rewrite app_nil_r. reflexivity.
  - intros r i Hc. rewrite send_heartbeat_dev_unfold, Hc. f_equal.
    assert (fst (claim_started (rn r) i) = rn r).
    { revert Hc. unfold claim_started. destruct (sched_is_enabled _ _); [destruct (sched_is_time _ _ _)|]; cbn [fst snd]; intros; try discriminate; reflexivity. }
    rewrite H. rewrite <- (chk_dev_rn r i). apply with_rn_self.
  - intros r m i Hn. unfold rsend, send_msg, send_gate.
    destruct (Z.eqb_spec (n_open (rn r)) 3) as [E|_]; [contradiction|]. cbn [negb]. rewrite with_rn_self. reflexivity.
  - intros gf r Hn. destruct (open_step_facts r Hn) as [_ F].
    unfold poll. destruct (Z.eqb_spec (n_open (rn r)) 3) as [E|_]; [contradiction|].
    destruct (open_step r) as [[r1 ev0] opened]. cbn [fst snd] in F. intros Hn1.
    destruct (Z.eqb_spec (n_open (rn r1)) 3) as [E|_]; [contradiction|].
    rewrite andb_false_r. cbn [negb]. split; [reflexivity|]. destruct F as [F|F]; [exact F|contradiction].
Qed.
Print Assumptions hb_inactive_silent.
