(* C12 - statement 6 of Spec/HbSpec.v: no heartbeat from nodes that are not active bus devices *)
From Coq Require Import ZArith List Bool Lia.
From N2kV Require Import Base.ListAux Model.CanId Model.Sched Model.PgnClass Model.NodeDefs Model.NodeRxDefs Gen.GenTables Gen.GenConsts
  Spec.HbSpec Proofs.SendProofs Proofs.HbProofsFrame Proofs.HbProofs.
Import ListNotations.
Local Open Scope Z_scope.

Lemma with_rn_self r : with_rn r (rn r) = r.
Proof. destruct r. reflexivity. Qed.

Lemma rstatic_mode r r' : rstatic r r' -> n_mode (rn r') = n_mode (rn r).
Proof. unfold rstatic, nstatic. intuition. Qed.
Lemma rstatic_open r r' : rstatic r r' -> n_open (rn r') = n_open (rn r).
Proof. unfold rstatic, nstatic. intuition. Qed.

Section Mode.
Variable gf : rnode -> slot -> rnode * list event.
Hypothesis Hgf : gf_keeps_mode gf.

Lemma handle_system_mode r s : n_mode (rn (fst (handle_system gf r s))) = n_mode (rn r).
Proof.
  unfold handle_system. cbv zeta. brk; cbn [fst snd]; try reflexivity;
    first [apply rstatic_mode, handle_iso_request_st | apply rstatic_mode, handle_claim_st | apply rstatic_mode, handle_commanded_st | apply Hgf].
Qed.
Lemma rx_loop_mode k : forall r, n_mode (rn (fst (rx_loop gf k r))) = n_mode (rn r).
Proof.
  induction k as [|k IH]; intros r; cbn [rx_loop]; [reflexivity|].
  brk; cbn [fst snd]; try reflexivity;
  match goal with H : rx_frame _ _ = _ |- _ => apply rx_frame_st', rstatic_mode in H end;
  try match goal with H : handle_system _ ?a ?b = _ |- _ => let K1 := fresh "K" in pose proof (handle_system_mode a b) as K1; rewrite H in K1; clear H end;
  match goal with H : rx_loop gf _ ?a = _ |- _ => let K := fresh "K" in pose proof (IH a) as K; rewrite H in K; clear H end;
  addf6; unfold rstatic, nstatic in *; prj; intuition congruence.
Qed.
End Mode.

(* Open(): the mode never changes; the open state becomes 3 exactly when the OnOpen note is produced *)
Lemma open_step_facts r : n_open (rn r) <> 3 ->
  n_mode (rn (fst (fst (open_step r)))) = n_mode (rn r) /\
  (snd (fst (open_step r)) = [] \/ n_open (rn (fst (fst (open_step r)))) = 3).
Proof.
  intros Hn. unfold open_step. cbv zeta.
  destruct (Z.eqb_spec (n_open (rn r)) 3) as [E|_]; [contradiction|].
  destruct (n_open (rn r) =? 0);
  brk; cbn [fst snd]; try (split; [reflexivity|left; reflexivity]);
  match goal with H : start_claim_all ?k ?a ?b = _ |- _ =>
         let K := fresh "K" in pose proof (start_claim_all_st k a b) as K; rewrite H in K; cbn [fst] in K; clear H end;
  match goal with H : millis64 _ = _ |- _ => apply millis64_st' in H end;
  match goal with |- context [set_heartbeat_all ?k ?a ?b ?c ?d] => pose proof (set_heartbeat_all_st k a b c d) end;
  match goal with |- context [resync_heartbeats ?k ?a ?b] => pose proof (resync_heartbeats_st k a b) end;
  (split; [|right]); unfold rstatic, nstatic in *; prj; intuition congruence.
Qed.

Theorem hb_inactive_silent : hb_inactive_silent_stmt.
Proof.
  unfold hb_inactive_silent_stmt. split; [|split; [|split]].
  - intros gf r Hgf Hm. unfold poll, poll_without_heartbeat.
    assert (H1: forall r1 ev0 opened, (if n_open (rn r) =? 3 then (r, [], true) else open_step r) = (r1, ev0, opened) -> n_mode (rn r1) = n_mode (rn r)).
    { intros r1 ev0 opened E. destruct (Z.eqb_spec (n_open (rn r)) 3) as [E3|E3].
      - injection E as <- _ _. reflexivity.
      - destruct (open_step_facts r E3) as [F _]. rewrite E in F. exact F. }
    destruct (if n_open (rn r) =? 3 then (r, [], true) else open_step r) as [[r1 ev0] opened] eqn:E0.
    specialize (H1 _ _ _ eq_refl).
    destruct (negb (opened && (n_open (rn r1) =? 3))); [reflexivity|].
    destruct (rflush r1) as [r2 ev1] eqn:E1. apply rflush_st', rstatic_mode in E1.
    pose proof (rstatic_mode _ _ (send_pending_info_st (length (n_devs (rn r2))) r2 0)) as E2.
    destruct (send_pending_info (length (n_devs (rn r2))) r2 0) as [r3 ev2]. cbn [fst] in E2.
    pose proof (rx_loop_mode gf Hgf (Z.to_nat c_MaxReadFramesOnParse) r3) as E3.
    destruct (rx_loop gf (Z.to_nat c_MaxReadFramesOnParse) r3) as [r4 ev3]. cbn [fst] in E3.
    assert (Ha: is_active_node (rn r4) = false).
    { unfold is_active_node. rewrite E3, E2, E1, H1. destruct Hm as [->|[->| ->]]; reflexivity. }
    rewrite Ha. rewrite app_nil_r. reflexivity.
  - intros r i Hc. rewrite send_heartbeat_dev_unfold, Hc. f_equal.
    assert (fst (claim_started (rn r) i) = rn r).
    { revert Hc. unfold claim_started. destruct (sched_is_enabled _ _); [destruct (sched_is_time _ _ _)|]; cbn [fst snd]; intros; try discriminate; reflexivity. }
    rewrite H. rewrite <- (chk_dev_rn r i). apply with_rn_self.
  - intros r m i Hn. unfold rsend, send_msg, send_gate.
    destruct (Z.eqb_spec (n_open (rn r)) 3) as [E|_]; [contradiction|]. cbn [negb]. rewrite with_rn_self. reflexivity.
  - intros gf r Hn. destruct (open_step_facts r Hn) as [_ F].
    unfold poll. destruct (Z.eqb_spec (n_open (rn r)) 3) as [E|_]; [contradiction|].
    destruct (open_step r) as [[r1 ev0] opened]. cbn [fst snd] in F. intros Hn1.
    destruct (Z.eqb_spec (n_open (rn r1)) 3) as [E|_]; [contradiction|].
    rewrite andb_false_r. cbn [negb]. split; [reflexivity|]. destruct F as [F|F]; [exact F|contradiction].
Qed.
Print Assumptions hb_inactive_silent.

(* ================= 7. Open() puts every heartbeat on the grid of the new SyncOffset ================= *)
Definition resync_one (r:rnode) (i:Z) : rnode :=
  let x := get_devx r i in
  if ss_next (x_hb x) =? ss_disabled then r
  else if ss_period (x_hb x) =? 0 then
    with_devx r i {| x_pend_claim := x_pend_claim x; x_pend_prod := x_pend_prod x; x_pend_conf := x_pend_conf x;
                     x_hb := ss_update_next 0 (r_sync r) (x_hb x); x_hb_seq := x_hb_seq x; x_rx := x_rx x |}
  else
    let '(rc, t) := millis64 r in
    with_devx rc i {| x_pend_claim := x_pend_claim x; x_pend_prod := x_pend_prod x; x_pend_conf := x_pend_conf x;
                      x_hb := ss_update_next t (r_sync rc) (x_hb x); x_hb_seq := x_hb_seq x; x_rx := x_rx x |}.
Lemma resync_S k r i : resync_heartbeats (S k) r i = resync_heartbeats k (resync_one r i) (i + 1).
Proof. cbn [resync_heartbeats]. unfold resync_one. cbv zeta. destruct (_ =? ss_disabled); [reflexivity|]. destruct (_ =? 0); [reflexivity|]. destruct (millis64 r). reflexivity. Qed.

Definition resync_hb (r:rnode) (x:devx) : ssched :=
  if ss_next (x_hb x) =? ss_disabled then x_hb x
  else if ss_period (x_hb x) =? 0 then ss_update_next 0 (r_sync r) (x_hb x) else ss_update_next (snd (millis64 r)) (r_sync r) (x_hb x).
Lemma devx_eta x : devx_with_hb x (x_hb x) (x_hb_seq x) = x.  Proof. destruct x. reflexivity. Qed.

Lemma resync_one_ok r i : 0 <= i ->
  rn (resync_one r i) = rn r /\ length (rx_dev (resync_one r i)) = length (rx_dev r) /\ r_sync (resync_one r i) = r_sync r /\
  snd (millis64 (resync_one r i)) = snd (millis64 r) /\
  (forall j, 0 <= j -> j <> i -> get_devx (resync_one r i) j = get_devx r j) /\
  (i < Z.of_nat (length (rx_dev r)) -> get_devx (resync_one r i) i = devx_with_hb (get_devx r i) (resync_hb r (get_devx r i)) (x_hb_seq (get_devx r i))).
Proof.
  intros Hi. unfold resync_one, resync_hb. cbv zeta. set (x := get_devx r i).
  destruct (ss_next (x_hb x) =? ss_disabled).
  { repeat (split; [reflexivity|]). intros; subst x; destruct (get_devx r i); reflexivity. }
  destruct (ss_period (x_hb x) =? 0).
  { split; [reflexivity|]. split; [apply with_devx_length|]. split; [reflexivity|]. split; [apply millis64_snd_ext; reflexivity|].
    split; [intros j Hj Hne; apply get_devx_with_devx_neq; lia|intros Hr; apply get_devx_with_devx; lia]. }
  pose proof (millis64_rn r) as M1. pose proof (millis64_rx_dev r) as M2. pose proof (millis64_sync r) as M3. pose proof (millis64_idem r) as M4.
  destruct (millis64 r) as [rc t]. cbn [fst snd] in *.
  split; [exact M1|]. split; [rewrite with_devx_length, M2; reflexivity|]. split; [exact M3|].
  split; [transitivity (snd (millis64 rc)); [apply millis64_snd_ext; reflexivity|rewrite M4; reflexivity]|].
  split.
  - intros j Hj Hne. rewrite get_devx_with_devx_neq by lia. unfold get_devx. rewrite M2. reflexivity.
  - intros Hr. rewrite get_devx_with_devx by (rewrite M2; lia). rewrite M3. reflexivity.
Qed.

Lemma resync_ok : forall k r i, 0 <= i ->
  let r' := resync_heartbeats k r i in
  rn r' = rn r /\ length (rx_dev r') = length (rx_dev r) /\ r_sync r' = r_sync r /\ snd (millis64 r') = snd (millis64 r) /\
  forall j, 0 <= j < Z.of_nat (length (rx_dev r)) ->
    (j < i \/ i + Z.of_nat k <= j -> get_devx r' j = get_devx r j) /\
    (i <= j < i + Z.of_nat k -> get_devx r' j = devx_with_hb (get_devx r j) (resync_hb r (get_devx r j)) (x_hb_seq (get_devx r j))).
Proof.
  induction k as [|k IH]; intros r i Hi; cbv zeta.
  - cbn [resync_heartbeats]. do 4 (split; [reflexivity|]). intros j Hj. split; [reflexivity|]. cbn. lia.
  - rewrite resync_S. destruct (resync_one_ok r i Hi) as (O1 & O2 & O3 & O4 & O5 & O6).
    set (r1 := resync_one r i) in *.
    specialize (IH r1 (i + 1) ltac:(lia)). cbv zeta in IH. destruct IH as (I1 & I2 & I3 & I4 & I5).
    split; [congruence|]. split; [congruence|]. split; [congruence|]. split; [congruence|].
    intros j Hj. specialize (I5 j ltac:(rewrite O2; exact Hj)). destruct I5 as [I5a I5b]. split.
    + intros Hout. rewrite I5a by lia. apply O5; lia.
    + intros Hin. destruct (Z.eq_dec j i) as [->|Hne].
      * rewrite I5a by lia. apply O6. lia.
      * rewrite I5b by lia. rewrite (O5 j ltac:(lia) Hne). unfold resync_hb. rewrite O3, O4. reflexivity.
Qed.

Lemma update_at_sync t nx : 0 <= t < TB ->
  ss_update_next t t {| ss_next := nx; ss_offset := 10000; ss_period := c_DefaultHeartbeatInterval |} =
  {| ss_next := t + 10000; ss_offset := 10000; ss_period := c_DefaultHeartbeatInterval |}.
Proof.
  intros Ht. rewrite TB_val in Ht. unfold ss_update_next. cbn [ss_period ss_offset]. unfold c_DefaultHeartbeatInterval. cbn [Z.eqb].
  rewrite (u64_small (10000 + t)) by (rewrite M64_val; lia).
  destruct (Z.gtb_spec (10000 + t) t); [|lia]. f_equal. lia.
Qed.

Theorem hb_open_resync : hb_open_resync_stmt.
Proof.
  unfold hb_open_resync_stmt. intros r r' ev Hn Hopen H3 Hlen Hsync.
  unfold open_step in Hopen. cbv zeta in Hopen.
  destruct (Z.eqb_spec (n_open (rn r)) 3) as [|_]; [contradiction|].
  set (r0 := if n_open (rn r) =? 0 then with_open r 1 (r_open_sched r) else r) in *.
  assert (L0: length (rx_dev r0) = length (n_devs (rn r0)) /\ n_open (rn r0) <> 3).
  { unfold r0. destruct (n_open (rn r) =? 0); cbn; [split; [exact Hlen|discriminate]|split; assumption]. }
  destruct L0 as [L0 N0].
  destruct (n_open (rn r0) =? 1).
  { destruct (negb _); [discriminate Hopen|]. inversion Hopen; subst r'. cbn in H3. discriminate. }
  destruct (sched_is_time _ _ _); [|inversion Hopen; subst r'; cbn in H3; contradiction].
  set (r1 := with_open r0 3 (r_open_sched r0)) in *.
  pose proof (start_claim_all_st (length (n_devs (rn r1))) r1 0) as S.
  destruct (start_claim_all (length (n_devs (rn r1))) r1 0) as [r2 ev2]. cbn [fst] in S.
  assert (L2: length (rx_dev r2) = length (n_devs (rn r2))).
  { destruct S as [(_ & _ & _ & _ & _ & A) (B & _)]. rewrite A, B. exact L0. }
  pose proof (millis64_rn r2) as M1. pose proof (millis64_rx_dev r2) as M2. pose proof (millis64_idem r2) as M4.
  destruct (millis64 r2) as [r2c t]. cbn [fst snd] in *.
  set (r3 := with_sync r2c t) in *.
  assert (T3: snd (millis64 r3) = t) by (transitivity (snd (millis64 r2c)); [apply millis64_snd_ext; reflexivity|rewrite M4; reflexivity]).
  assert (L3: length (rx_dev r3) = length (n_devs (rn r3))) by (cbn [r3 with_sync rx_dev rn]; rewrite M1, M2; exact L2).
  destruct (hb_clip (length (n_devs (rn r3))) r3 0 c_DefaultHeartbeatInterval 10000 ltac:(lia)) as (C1 & C2 & C3 & _ & _ & C6 & C7 & _).
  cbv zeta in C7. rewrite T3 in C6, C7.
  set (r4 := set_heartbeat_all (length (n_devs (rn r3))) r3 0 c_DefaultHeartbeatInterval 10000) in *.
  destruct (resync_ok (length (n_devs (rn r4))) r4 0 ltac:(lia)) as (R1 & R2 & R3 & R4 & R5). cbv zeta in R5.
  injection Hopen as <- _. change (r_sync r3) with t in C3.
  rewrite R3, C3 in *. rewrite R4, C6. split; [reflexivity|].
  intros j Hj. rewrite R2 in Hj.
  assert (Hj3: 0 <= j < Z.of_nat (length (rx_dev r3))) by (rewrite <- C2; exact Hj).
  destruct (C7 j Hj3) as [_ C8]. specialize (C8 ltac:(rewrite C1 in R5; rewrite <- L3; lia)).
  destruct C8 as (_ & _ & _ & _ & _ & C9).
  assert (ER: hb_resolve_period c_DefaultHeartbeatInterval (ss_period (x_hb (get_devx r3 j))) = Some c_DefaultHeartbeatInterval) by reflexivity.
  rewrite ER in C9. destruct C9 as [_ C9].
  assert (EO: hb_resolve_offset 10000 (ss_offset (x_hb (get_devx r3 j))) = 10000) by reflexivity. rewrite EO in C9.
  (* after the setter: default period and offset, enabled *)
  assert (A4: exists nx, x_hb (get_devx r4 j) = {| ss_next := nx; ss_offset := 10000; ss_period := c_DefaultHeartbeatInterval |} /\ nx <> ss_disabled).
  { destruct (hb_changed c_DefaultHeartbeatInterval 10000 (get_devx r3 j) || (ss_next (x_hb (get_devx r3 j)) =? ss_disabled)) eqn:Hr.
    - change (r_sync r3) with t in C9. rewrite C9, update_at_sync by exact Hsync. eexists. split; [reflexivity|].
      rewrite TB_val in Hsync. change ss_disabled with 18446744073709551615. lia.
    - apply orb_false_iff in Hr. destruct Hr as [Hr1 Hr2]. rewrite C9.
      unfold hb_changed in Hr1. rewrite ER in Hr1. change (hb_resolve_offset 10000 (ss_offset (x_hb (get_devx r3 j)))) with 10000 in Hr1.
      apply orb_false_iff in Hr1. destruct Hr1 as [P1 P2]. apply negb_false_iff in P1, P2. apply Z.eqb_eq in P1, P2.
      exists (ss_next (x_hb (get_devx r3 j))). split; [|apply Z.eqb_neq; exact Hr2].
      destruct (x_hb (get_devx r3 j)) as [a b c']. cbn [ss_period ss_offset ss_next] in *. rewrite P1, P2. reflexivity. }
  destruct A4 as (nx & A4 & Hnx).
  destruct (R5 j Hj) as [_ R6]. rewrite (R6 ltac:(rewrite C1 in *; rewrite C2, L3 in Hj; lia)).
  unfold devx_with_hb, resync_hb. cbn [x_hb]. rewrite A4. cbn [ss_next ss_period].
  destruct (Z.eqb_spec nx ss_disabled) as [|_]; [contradiction|].
  change (c_DefaultHeartbeatInterval =? 0) with false. cbv iota. rewrite ?C6, ?C3. apply update_at_sync. exact Hsync.
Qed.
Print Assumptions hb_open_resync.
