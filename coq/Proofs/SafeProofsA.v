(* C07, part A: list facts, the send ring, and part 1 of the node model (SendMsg and everything below it, address-claim start):
   every function keeps the device array's length, the devices' address range and the ring indices, and emits no EvDeliver. *)
From Coq Require Import ZArith List Bool Lia.
From N2kV Require Import Base.ListAux Model.CanId Model.Sched Model.PgnClass Model.NodeDefs Model.NodeRxDefs Gen.GenTables Gen.GenConsts
  Spec.SendSpec Spec.SafeSpec.
Import ListNotations.
Local Open Scope Z_scope.

(* ---------- lists ---------- *)
Lemma set_nth_len {A} (l:list A) : forall i v, length (set_nth l i v) = length l.
Proof. induction l; intros [|i] v; simpl; auto. Qed.
Lemma zset_len {A} (l:list A) i v : length (zset l i v) = length l.
Proof. apply set_nth_len. Qed.
Lemma set_nth_Forall {A} (P:A->Prop) (l:list A) : forall i v, Forall P l -> P v -> Forall P (set_nth l i v).
Proof. induction l; intros [|i] v Hl Hv; simpl; auto; inversion Hl; subst; constructor; auto. Qed.
Lemma zset_Forall {A} (P:A->Prop) (l:list A) i v : Forall P l -> P v -> Forall P (zset l i v).
Proof. apply set_nth_Forall. Qed.
Lemma nth_Forall {A} (P:A->Prop) (l:list A) d : Forall P l -> P d -> forall i, P (nth i l d).
Proof. intros Hl Hd. induction Hl; intros [|i]; simpl; auto. Qed.
Lemma znth_Forall {A} (P:A->Prop) (l:list A) d i : Forall P l -> P d -> P (znth l i d).
Proof. intros; unfold znth; apply nth_Forall; auto. Qed.
Lemma nth_set_nth_same {A} (l:list A) : forall i v d, (i < length l)%nat -> nth i (set_nth l i v) d = v.
Proof. induction l; intros [|i] v d H; simpl in *; try lia; auto. apply IHl; lia. Qed.
Lemma nth_set_nth_other {A} (l:list A) : forall i j v d, i <> j -> nth j (set_nth l i v) d = nth j l d.
Proof. induction l; intros [|i] [|j] v d H; simpl; auto; try congruence. Qed.
Lemma znth_zset_same {A} (l:list A) i v d : 0 <= i < Z.of_nat (length l) -> znth (zset l i v) i d = v.
Proof. intros; unfold znth, zset; apply nth_set_nth_same; lia. Qed.
Lemma znth_zset_other {A} (l:list A) i j v d : 0 <= i -> 0 <= j -> i <> j -> znth (zset l i v) j d = znth l j d.
Proof. intros; unfold znth, zset; apply nth_set_nth_other; lia. Qed.
Lemma Forall_firstn' {A} (P:A->Prop) : forall k (l:list A), Forall P l -> Forall P (firstn k l).
Proof. induction k; intros [|x l] H; simpl; auto. inversion H; subst; constructor; auto. Qed.
Lemma Forall_skipn' {A} (P:A->Prop) : forall k (l:list A), Forall P l -> Forall P (skipn k l).
Proof. induction k; intros [|x l] H; simpl; auto. inversion H; subst; auto. Qed.
Lemma Forall_app' {A} (P:A->Prop) (l1 l2:list A) : Forall P l1 -> Forall P l2 -> Forall P (l1 ++ l2).
Proof. intros; apply Forall_app; auto. Qed.

(* ---------- events ---------- *)
Definition evs_ok (ev:list event) : Prop := Forall ev_ok ev.
Lemma evs_nil : evs_ok []. Proof. constructor. Qed.
Lemma evs_app a b : evs_ok a -> evs_ok b -> evs_ok (a ++ b). Proof. apply Forall_app'. Qed.
Lemma evs_tx id len data ok : evs_ok [EvTx id len data ok]. Proof. repeat constructor. Qed.
Lemma evs_cons_tx id len data ok ev : evs_ok ev -> evs_ok (EvTx id len data ok :: ev). Proof. intros; constructor; simpl; auto. Qed.
Global Hint Resolve evs_nil evs_app evs_tx evs_cons_tx : safe.

(* ---------- the ring ---------- *)
Definition ring_p (mx:Z) (q:sring) : Prop := q_max q = mx /\ ring_ok q.

Lemma ring_ok_wf q : ring_ok q -> 2 <= q_max q -> ring_wf q.
Proof. intros (H0 & Hl & [Hz|[Hr Hw]]) H2; unfold ring_wf; repeat split; try lia. Qed.

Lemma sring_new_ok mx : 0 <= mx -> ring_p mx (sring_new mx).
Proof.
  intros H. unfold ring_p, ring_ok, sring_new; simpl. rewrite repeat_length. repeat split; auto.
  destruct (Z.eq_dec mx 0); [left; auto | right; lia].
Qed.

Lemma send_frames_ok mx : forall fuel q d q' d' ev ok, send_frames fuel q d = (q', d', ev, ok) -> ring_p mx q -> ring_p mx q' /\ evs_ok ev.
Proof.
  induction fuel; intros q d q' d' ev ok E Hq; simpl in E.
  - destruct (q_max q =? 0); inversion E; subst; auto with safe.
  - destruct (q_max q =? 0) eqn:E0; [inversion E; subst; auto with safe|].
    destruct (q_rd q =? q_wr q); [inversion E; subst; auto with safe|].
    destruct (can_send d) as [okc d1]. destruct okc.
    + destruct (send_frames fuel _ d1) as [[[q2 d2] evs] r] eqn:E2. inversion E; subst.
      apply IHfuel in E2.
      * destruct E2; split; auto with safe.
      * destruct Hq as (Hm & H0 & Hl & Hc). unfold ring_p, ring_ok; simpl. repeat split; auto.
        apply Z.eqb_neq in E0. destruct Hc as [Hz|[Hr Hw]]; [congruence|]. right. split; auto. apply Z.mod_pos_bound; lia.
    + inversion E; subst; auto with safe.
Qed.

Lemma flush_ok mx q d q' d' ev ok : flush q d = (q', d', ev, ok) -> ring_p mx q -> ring_p mx q' /\ evs_ok ev.
Proof. unfold flush; apply send_frames_ok. Qed.

Lemma send_frame_ok mx q d id len data wait q' d' ev ok :
  send_frame q d id len data wait = (q', d', ev, ok) -> ring_p mx q -> ring_p mx q' /\ evs_ok ev.
Proof.
  unfold send_frame. intros E Hq.
  destruct (flush q d) as [[[q1 d1] ev1] fl] eqn:E1. destruct (flush_ok _ _ _ _ _ _ _ E1 Hq) as [Hq1 He1].
  assert (He2 : forall (x:bool * drv * list event), x = (if fl then let '(ok0, d2) := can_send d1 in (ok0, d2, [EvTx id len (firstn (Z.to_nat len) data) ok0]) else (false, d1, [])) ->
                evs_ok (snd x)).
  { intros x ->. destruct fl; [destruct (can_send d1)|]; simpl; auto with safe. }
  destruct (if fl then _ else _) as [[sent d2] ev2] eqn:E2. specialize (He2 _ eq_refl). simpl in He2.
  destruct sent; [inversion E; subst; auto with safe|].
  destruct (q_max q1 =? 0) eqn:E0; [inversion E; subst; auto with safe|].
  destruct (_ =? q_rd q1); inversion E; subst; split; auto with safe.
  destruct Hq1 as (Hm & H0 & Hl & Hc). unfold ring_p, ring_ok; simpl. rewrite zset_len. repeat split; auto.
  apply Z.eqb_neq in E0. destruct Hc as [Hz|[Hr Hw]]; [congruence|]. right. split; auto. apply Z.mod_pos_bound; lia.
Qed.

Lemma send_all_ok mx id : forall frames q d q' d' ev ok, send_all q d id frames = (q', d', ev, ok) -> ring_p mx q -> ring_p mx q' /\ evs_ok ev.
Proof.
  induction frames; intros q d q' d' ev ok E Hq; simpl in E.
  - inversion E; subst; auto with safe.
  - destruct (send_frame q d id 8 a true) as [[[q1 d1] ev1] ok1] eqn:E1. destruct (send_frame_ok _ _ _ _ _ _ _ _ _ _ _ E1 Hq) as [Hq1 He1].
    destruct ok1.
    + destruct (send_all q1 d1 id frames) as [[[q2 d2] ev2] r] eqn:E2. inversion E; subst.
      destruct (IHframes _ _ _ _ _ _ E2 Hq1); auto with safe.
    + inversion E; subst; auto.
Qed.

(* ---------- node-level invariant ---------- *)
Definition NWF (nd:nat) (mx:Z) (n:node) : Prop :=
  length (n_devs n) = nd /\ Forall dev_ok (n_devs n) /\ ring_p mx (n_q n).

Lemma ddev_ok : dev_ok ddev. Proof. unfold dev_ok; simpl; lia. Qed.
Lemma get_dev_ok nd mx n i : NWF nd mx n -> dev_ok (get_dev n i).
Proof. intros (_ & H & _). unfold get_dev. apply znth_Forall; auto using ddev_ok. Qed.
Lemma upd_dev_ok nd mx n i d : NWF nd mx n -> dev_ok d -> NWF nd mx (upd_dev n i d).
Proof. intros (Hl & Hf & Hq) Hd. unfold NWF, upd_dev; simpl. rewrite zset_len. split; [|split]; auto using zset_Forall. Qed.
Lemma upd_q_ok nd mx n q d : NWF nd mx n -> ring_p mx q -> NWF nd mx (upd_q n q d).
Proof. intros (Hl & Hf & Hq) Hd. unfold NWF, upd_q; simpl. auto. Qed.
Lemma set_now_ok nd mx n t : NWF nd mx n -> NWF nd mx (set_now n t).
Proof. intros H; exact H. Qed.
Lemma NWF_count nd mx n : NWF nd mx n -> dev_count n = Z.of_nat nd.
Proof. intros (H & _). unfold dev_count; congruence. Qed.

(* a device record rebuilt with the same source address *)
Lemma dev_ok_src d d' : dev_ok d -> d_src d' = d_src d -> dev_ok d'.
Proof. unfold dev_ok; intros H E; rewrite E; auto. Qed.

Lemma claim_started_ok nd mx n i : NWF nd mx n -> NWF nd mx (fst (claim_started n i)).
Proof.
  intros H. unfold claim_started. destruct (sched_is_enabled _ _); [destruct (sched_is_time _ _ _)|]; simpl; auto.
  apply upd_dev_ok; auto. eapply dev_ok_src; [eapply get_dev_ok; eauto | reflexivity].
Qed.

Lemma gsc_ok nd mx n i p : NWF nd mx n -> NWF nd mx (fst (get_sequence_counter n i p)).
Proof.
  intros H. unfold get_sequence_counter.
  destruct (match seq_scan _ p with Some r => r | None => _ end) as [cells' sc]. simpl.
  apply upd_dev_ok; auto. eapply dev_ok_src; [eapply get_dev_ok; eauto | reflexivity].
Qed.

Lemma send_gate_ok nd mx n m idev : NWF nd mx n -> NWF nd mx (fst (send_gate n m idev)).
Proof.
  intros H. unfold send_gate.
  repeat match goal with |- context [if ?c then _ else _] => destruct c; simpl; auto end.
  all: destruct (claim_started n _) as [n1 cl] eqn:E; assert (H1 : NWF nd mx n1) by (change n1 with (fst (n1, cl)); rewrite <- E; apply claim_started_ok; auto).
  all: destruct (cl && _); simpl; auto.
Qed.

Lemma send_msg0_ok nd mx n m idev n' ev ok : send_msg0 n m idev = (n', ev, ok) -> NWF nd mx n -> NWF nd mx n' /\ evs_ok ev.
Proof.
  unfold send_msg0. intros E H.
  pose proof (send_gate_ok nd mx n m idev H) as Hg. destruct (send_gate n m idev) as [n1 [[[m' i] id]|]]; simpl in Hg.
  - destruct (_ && _).
    + destruct (send_frame _ _ _ _ _ _) as [[[q d] ev1] ok1] eqn:E1. inversion E; subst.
      destruct (send_frame_ok mx _ _ _ _ _ _ _ _ _ _ E1) as [Hq He]; [apply Hg|]. split; auto. apply upd_q_ok; auto.
    + pose proof (gsc_ok nd mx n1 i (m_pgn m') Hg) as H2. destruct (get_sequence_counter n1 i (m_pgn m')) as [n2 sc]; simpl in H2.
      destruct (send_all _ _ _ _) as [[[q d] ev1] ok1] eqn:E1. inversion E; subst.
      destruct (send_all_ok mx _ _ _ _ _ _ _ _ E1) as [Hq He]; [apply H2|]. split; auto. apply upd_q_ok; auto.
  - inversion E; subst; auto with safe.
Qed.

Lemma set_tp_ok d w tp t s p : dev_ok d -> dev_ok (set_tp d w tp t s p).
Proof. intros H; exact H. Qed.
Lemma end_send_tp_ok nd mx n i : NWF nd mx n -> NWF nd mx (end_send_tp n i).
Proof. intros H. unfold end_send_tp. apply upd_dev_ok; auto. apply set_tp_ok. eapply get_dev_ok; eauto. Qed.

Lemma start_send_tp_ok nd mx n m i n' ev ok : start_send_tp n m i = (n', ev, ok) -> NWF nd mx n -> NWF nd mx n' /\ evs_ok ev.
Proof.
  unfold start_send_tp. intros E H.
  destruct (negb _); [inversion E; subst; auto with safe|].
  destruct (d_tp_msg (get_dev n i)); [inversion E; subst; auto with safe|].
  assert (H1 : NWF nd mx (upd_dev n i (set_tp (get_dev n i) (n_w64 n) (Some m) (sched_from_now (n_w64 n) (n_now n) 50) 0 true))).
  { apply upd_dev_ok; auto. apply set_tp_ok. eapply get_dev_ok; eauto. }
  destruct (negb (is_active_node _)); [inversion E; subst; split; auto with safe; apply end_send_tp_ok; auto|].
  destruct (send_msg0 _ _ i) as [[n2 ev2] ok2] eqn:E2. destruct (send_msg0_ok _ _ _ _ _ _ _ _ E2 H1) as [H2 He].
  destruct ok2; inversion E; subst; split; auto. apply end_send_tp_ok; auto.
Qed.

Lemma send_msg_ok nd mx n m idev n' ev ok : send_msg n m idev = (n', ev, ok) -> NWF nd mx n -> NWF nd mx n' /\ evs_ok ev.
Proof.
  unfold send_msg. intros E H.
  pose proof (send_gate_ok nd mx n m idev H) as Hg. destruct (send_gate n m idev) as [n1 [[[m' i] id]|]]; simpl in Hg.
  - destruct (_ && m_tp m').
    + eapply start_send_tp_ok; eauto.
    + eapply send_msg0_ok; eauto.
  - inversion E; subst; auto with safe.
Qed.

Lemma send_iso_address_claim_ok nd mx n dst i : NWF nd mx n ->
  NWF nd mx (fst (send_iso_address_claim n dst i)) /\ evs_ok (snd (send_iso_address_claim n dst i)).
Proof.
  intros H. unfold send_iso_address_claim. destruct (_ || _); simpl; auto with safe.
  destruct (send_msg n _ _) as [[n1 ev] ok] eqn:E. simpl. eapply send_msg_ok; eauto.
Qed.

Lemma set_claim_timer_ok nd mx n i t : NWF nd mx n -> NWF nd mx (set_claim_timer n i t).
Proof. intros H. unfold set_claim_timer. apply upd_dev_ok; auto. eapply dev_ok_src; [eapply get_dev_ok; eauto | reflexivity]. Qed.

Lemma start_address_claim_ok nd mx n i : NWF nd mx n ->
  NWF nd mx (fst (start_address_claim n i)) /\ evs_ok (snd (start_address_claim n i)).
Proof.
  intros H. unfold start_address_claim. destruct (is_ready_to_send n); simpl; auto with safe.
  pose proof (send_iso_address_claim_ok nd mx (set_claim_timer n i (sched_disabled (n_w64 n))) 255 i (set_claim_timer_ok _ _ _ _ _ H)) as [H1 He].
  destruct (send_iso_address_claim _ 255 i) as [n2 ev]; simpl in *. split; auto. apply set_claim_timer_ok; auto.
Qed.

Lemma step_ok nd mx n o : NWF nd mx n -> NWF nd mx (fst (step n o)) /\ evs_ok (snd (step n o)).
Proof.
  intros H. destruct o; simpl.
  - split; auto with safe.
  - split; auto with safe.
  - destruct (send_msg n m idev) as [[n1 ev] r] eqn:E. destruct (send_msg_ok _ _ _ _ _ _ _ _ E H). simpl. split; auto.
    apply evs_app; auto. repeat constructor.
  - destruct (flush _ _) as [[[q d] ev] ok] eqn:E. simpl. destruct (flush_ok mx _ _ _ _ _ _ E) as [Hq He]; [apply H|]. split; auto. apply upd_q_ok; auto.
  - destruct (_ && _); [apply start_address_claim_ok; auto | simpl; auto with safe].
Qed.
