(* C03, convergence for networks of library and reference nodes: the remaining-moves measure of the library (distance to
   AddressClaimEndSource, with the one-off recomputation when an expired claim timer is noticed), the extra hypotheses of the generic
   convergence theorem for HandleISOAddressClaim and the reference node, and the closing theorems. *)
From Coq Require Import ZArith List Lia Bool Arith.
From N2kV Require Import Base.ListAux Model.CanId Model.Sched Model.PgnClass Model.NodeDefs Model.NodeRxDefs Model.NetDefs Gen.GenTables Gen.GenConsts
  Spec.SendSpec Spec.ClaimSpec Proofs.QueueProofs Proofs.SendProofs Proofs.HbProofsFrame
  Proofs.ClaimProofsA Proofs.ClaimProofsB Proofs.ClaimProofsC Proofs.ClaimProofsD Proofs.ClaimProofsE Proofs.ClaimProofsF.
Import ListNotations.
Local Open Scope Z_scope.

(* ---------- StartAddressClaim(i), exactly ---------- *)
Lemma enabled_disabled w : sched_is_enabled w (sched_disabled w) = false.
Proof. unfold sched_is_enabled. now rewrite Z.eqb_refl. Qed.
Lemma start_claim_x n i : send_ready n -> 0 <= i < dev_count n -> 0 <= d_src (get_dev n i) < 256 ->
  exists n', start_address_claim n i = (n', [claim_event (d_src (get_dev n i)) (d_name (get_dev n i))]) /\
    n_w64 n' = n_w64 n /\ n_now n' = n_now n /\ (forall j, 0 <= j -> j <> i -> get_dev n' j = get_dev n j) /\
    d_src (get_dev n' i) = d_src (get_dev n i) /\ d_claim_end (get_dev n' i) = d_claim_end (get_dev n i) /\
    d_claim_timer (get_dev n' i) = sched_from_now (n_w64 n) (n_now n) c_N2kAddressClaimTimeout.
Proof.
  intros Hr Hi Hs. unfold start_address_claim. rewrite (ready_to_send n Hr).
  set (n1 := set_claim_timer n i (sched_disabled (n_w64 n))).
  pose proof (tweak_set_claim_timer n i (sched_disabled (n_w64 n)) Hi) as T1. fold n1 in T1.
  destruct (set_claim_timer_q n i (sched_disabled (n_w64 n))) as [Q1 D1]. fold n1 in Q1, D1.
  assert (R1: send_ready n1) by (apply (send_ready_tweak n n1 Hr T1 Q1); rewrite D1; apply Hr).
  pose proof T1 as (W1&_&_&Nw1&_&_&C1&P1). destruct (P1 i ltac:(lia)) as (S1&N1&_).
  rewrite (send_claim_spec n1 i R1 ltac:(lia) ltac:(lia)). rewrite S1, N1, Q1.
  assert (G1: get_dev n1 i = {| d_src := d_src (get_dev n i); d_name := d_name (get_dev n i); d_claim_end := d_claim_end (get_dev n i);
                                 d_claim_timer := sched_disabled (n_w64 n); d_tx := d_tx (get_dev n i); d_cells := d_cells (get_dev n i);
                                 d_tp_msg := d_tp_msg (get_dev n i); d_next_dt_time := d_next_dt_time (get_dev n i);
                                 d_next_dt_seq := d_next_dt_seq (get_dev n i); d_has_pending := d_has_pending (get_dev n i) |})
    by (unfold n1, set_claim_timer; apply get_upd_same; exact Hi).
  assert (Cs: claim_started n1 i = (n1, false)).
  { unfold claim_started. rewrite G1. cbn [d_claim_timer]. rewrite W1, enabled_disabled. reflexivity. }
  rewrite Cs. cbn [fst]. set (n2 := upd_q n1 (n_q n) []).
  eexists. split; [reflexivity|].
  assert (Hi2: 0 <= i < dev_count n2) by (unfold n2, upd_q, dev_count in *; cbn [n_devs]; lia).
  assert (G2: forall j, get_dev n2 j = get_dev n1 j) by reflexivity.
  split; [unfold set_claim_timer, upd_dev; cbn; exact W1|]. split; [unfold set_claim_timer, upd_dev; cbn; exact Nw1|].
  split; [|split; [|split]].
  - intros j Hj Nj. unfold set_claim_timer. rewrite get_upd_other by lia. rewrite G2. unfold n1, set_claim_timer. apply get_upd_other; lia.
  - unfold set_claim_timer. rewrite get_upd_same by exact Hi2. cbn [d_src]. rewrite G2, G1. reflexivity.
  - unfold set_claim_timer. rewrite get_upd_same by exact Hi2. cbn [d_claim_end]. rewrite G2, G1. reflexivity.
  - unfold set_claim_timer. rewrite get_upd_same by exact Hi2. cbn [d_claim_timer]. unfold n2, upd_q. cbn [n_w64 n_now]. rewrite W1, Nw1. reflexivity.
Qed.

(* ---------- HandleISOAddressClaim, exactly (addresses, search ends, timers of all devices) ---------- *)
Definition claim_x (r:rnode) (x n:Z) : Prop :=
  let r' := fst (on_claim r x n) in
  n_w64 (rn r') = n_w64 (rn r) /\ n_now (rn r') = n_now (rn r) /\
  (r' = r \/
   exists k, (k < lib_ndev r)%nat /\ lib_src r k = x /\ operational x /\
     (rn r' = upd_q (fst (claim_started (rn r) (Z.of_nat k))) (n_q (rn r)) [] \/
      exists a', (forall l, l <> k -> lib_dev r' l = lib_dev r l) /\ lib_src r' k = a' /\
                 d_claim_end (lib_dev r' k) = d_claim_end (lib_dev r k) /\
                 d_claim_timer (lib_dev r' k) = sched_from_now (n_w64 (rn r)) (n_now (rn r)) c_N2kAddressClaimTimeout /\
                 (a' = 254 \/ (0 <= a' <= 251 /\ dist_to_end a' (d_claim_end (lib_dev r k)) < dist_to_end x (d_claim_end (lib_dev r k)))))).
Lemma on_claim_x r x n : lib_good r -> lib_open r -> 0 <= n < 2^64 -> (forall k, (k < lib_ndev r)%nat -> lib_src r k = x -> lib_name r k <> n) ->
  claim_x r x n.
Proof.
  intros G O Hn Hfor. unfold claim_x, on_claim, handle_claim. cbv zeta. change c_N2kNullCanBusAddress with 254.
  unfold find_source_device. destruct (Z.leb_spec x 253) as [Hx|Hx].
  2:{ rewrite orb_true_r. cbn [fst]. split; [reflexivity|split; [reflexivity|left; reflexivity]]. }
  destruct (find_src_spec (n_devs (rn r)) x 0) as [[F N]|(l & F & Hl & El & N)].
  - rewrite F. rewrite orb_true_r. cbn [fst]. split; [reflexivity|split; [reflexivity|left; reflexivity]].
  - change (l < lib_ndev r)%nat in Hl. rewrite F. cbn [Z.add].
    assert (Esrc: lib_src r l = x) by (unfold lib_src, lib_dev, get_dev, znth; rewrite Nat2Z.id; exact El).
    pose proof (lib_valid r l Hl) as Hi.
    assert (Hop: operational x).
    { destruct (good_dev_ok r l G Hl) as [[[P _]|P] _]; unfold lib_src in Esrc; [unfold operational; lia|lia]. }
    assert (E254: x =? 254 = false) by (apply Z.eqb_neq; unfold operational in Hop; lia).
    assert (Em1: Z.of_nat l =? -1 = false) by (apply Z.eqb_neq; lia).
    rewrite E254, Em1. cbn [orb]. rewrite chk_dev_valid by exact Hi.
    rewrite name_bytes_length. cbn [Z.of_nat Pos.of_succ_nat Pos.succ Z.leb Z.compare Pos.compare Pos.compare_cont].
    rewrite of_le8_name by exact Hn. fold (lib_dev r l). fold (lib_name r l).
    pose proof (good_send_ready r G O) as Hr. pose proof (good_src_range r l G Hl) as Hrange.
    destruct (Z.ltb_spec (lib_name r l) n) as [Lt|Ge].
    + unfold rsend_claim. rewrite (send_claim_spec (rn r) (Z.of_nat l) Hr Hi Hrange). cbn [fst rn with_rn].
      destruct (tweak_claim_started (rn r) (Z.of_nat l) Hi) as (W&_&_&Nw&_).
      split; [unfold upd_q; cbn; exact W|split; [unfold upd_q; cbn; exact Nw|]].
      right. exists l. split; [exact Hl|split; [exact Esrc|split; [exact Hop|left; reflexivity]]].
    + assert (Gt: n < lib_name r l) by (specialize (Hfor l Hl Esrc); lia).
      destruct (claim_started (rn r) (Z.of_nat l)) as [n1 started].
      assert (Eq: lib_name r l =? n = false) by (apply Z.eqb_neq; lia). rewrite Eq. cbn [andb].
      assert (Ha: 0 <= dev_src r (Z.of_nat l) <= 251) by (unfold dev_src; fold (lib_dev r l); fold (lib_src r l); rewrite Esrc; exact Hop).
      assert (He: 0 <= d_claim_end (get_dev (rn r) (Z.of_nat l)) <= 251).
      { destruct (good_dev_ok r l G Hl) as [[[_ Q]|P] _]; [exact Q|unfold dev_src in Ha; unfold lib_dev in P; lia]. }
      assert (Hd: dist_to_end (dev_src r (Z.of_nat l)) (d_claim_end (get_dev (rn r) (Z.of_nat l))) < Z.of_nat 300)
        by (pose proof (dist_range (dev_src r (Z.of_nat l)) (d_claim_end (get_dev (rn r) (Z.of_nat l)))); lia).
      rewrite (next_address_search 300 r (Z.of_nat l) Hi Ha Hd He).
      pose proof (search_spec 300 (taken r (Z.of_nat l)) _ _ Ha He Hd) as [Nne C].
      remember (search 300 (taken r (Z.of_nat l)) (dev_src r (Z.of_nat l)) (d_claim_end (get_dev (rn r) (Z.of_nat l)))) as a' eqn:Ea. clear Ea.
      fold (moved r (Z.of_nat l) a').
      assert (Hav: a' = 254 \/ (0 <= a' <= 251 /\ ~ sibling_holds r l a')).
      { destruct C as [[Z1 _]|(j & J1 & J2 & J3 & _)]; [left; exact Z1|right]. split.
        - rewrite J2. pose proof (Z.mod_pos_bound (dev_src r (Z.of_nat l) + j) 252). lia.
        - intros Hs. apply taken_spec in Hs. congruence. }
      assert (Hdist: a' = 254 \/ (0 <= a' <= 251 /\ dist_to_end a' (d_claim_end (lib_dev r l)) < dist_to_end x (d_claim_end (lib_dev r l)))).
      { destruct C as [[Z1 _]|(j & J1 & J2 & _ & _ & J5)]; [left; exact Z1|right]. split.
        - rewrite J2. pose proof (Z.mod_pos_bound (dev_src r (Z.of_nat l) + j) 252). lia.
        - unfold lib_dev. unfold dev_src in J5. fold (lib_dev r l) in J5. fold (lib_src r l) in J5. rewrite Esrc in J5. unfold lib_dev in J5. lia. }
      assert (Hsl: 0 <= lib_src r l <= 251) by (rewrite Esrc; exact Hop).
      destruct (good_moved r l a' G Hl Hav Hsl) as (G' & Hn' & Hk' & _ & Hm' & O' & _).
      pose proof (good_send_ready _ G' (O' O)) as Hr'.
      assert (Hi': 0 <= Z.of_nat l < dev_count (rn (moved r (Z.of_nat l) a'))) by (apply lib_valid; rewrite Hn'; exact Hl).
      unfold rstart_claim. rewrite chk_dev_valid by exact Hi'.
      destruct (start_claim_x (rn (moved r (Z.of_nat l) a')) (Z.of_nat l) Hr' Hi') as (n' & Es & W & Nw & Oth & Sk & Ek & Tk).
      { fold (lib_dev (moved r (Z.of_nat l) a') l). fold (lib_src (moved r (Z.of_nat l) a') l). rewrite Hk'. destruct Hav as [->|[? _]]; lia. }
      rewrite Es. cbn [fst rn with_rn].
      destruct (moved_rn r (Z.of_nat l) a' Hi) as (_ & _ & Mw & _ & _ & Mn & _).
      split; [congruence|split; [congruence|]].
      right. exists l. split; [exact Hl|split; [exact Esrc|split; [exact Hop|right]]]. exists a'.
      split; [|split; [|split; [|split; [|exact Hdist]]]].
      * intros k Hk. unfold lib_dev. cbn [rn with_rn]. rewrite Oth by lia. apply moved_get_other; [exact Hi|lia|lia].
      * unfold lib_src, lib_dev. cbn [rn with_rn]. rewrite Sk. rewrite moved_get by exact Hi. reflexivity.
      * unfold lib_dev. cbn [rn with_rn]. rewrite Ek. rewrite moved_get by exact Hi. reflexivity.
      * unfold lib_dev. cbn [rn with_rn]. rewrite Tk, Mw, Mn. reflexivity.
Qed.

(* ---------- the remaining-moves measure ---------- *)
Lemma fresh_timer_not_expired w now : 0 <= now < 2^63 ->
  sched_is_enabled w (sched_from_now w now c_N2kAddressClaimTimeout) && sched_is_time w now (sched_from_now w now c_N2kAddressClaimTimeout) = false.
Proof.
  intros Hn. change c_N2kAddressClaimTimeout with 250. destruct w; unfold sched_from_now, sched_is_time.
  - apply andb_false_iff. right. apply Z.ltb_ge. unfold u64, M64. rewrite Z.mod_small; [lia|]. change (2^64) with 18446744073709551616. change (2^63) with 9223372036854775808 in Hn. lia.
  - apply andb_false_iff. right. apply andb_false_iff. right. apply Z.ltb_ge. unfold u32, M32, IMAX, sched_disabled, M32.
    change (2^32) with 4294967296. change (2^31) with 2147483648.
    destruct (Z.eqb_spec ((now mod 4294967296 + 250) mod 4294967296) (4294967296 - 1)) as [E|E].
    + rewrite Z.sub_0_r. Z.div_mod_to_equations. lia.
    + Z.div_mod_to_equations. lia.
Qed.
Lemma lib_left_ext r r' l : lib_dev r' l = lib_dev r l -> n_w64 (rn r') = n_w64 (rn r) -> n_now (rn r') = n_now (rn r) -> lib_left r' l = lib_left r l.
Proof. intros E W N. unfold lib_left, lib_expirable, lib_src. rewrite E, W, N. reflexivity. Qed.
Lemma lib_left_le r l : lib_src r l <> 254 -> lib_expirable r l = false -> (lib_left r l <= 252)%nat.
Proof.
  intros S E. unfold lib_left. apply Z.eqb_neq in S. rewrite S, E. pose proof (dist_range (lib_src r l) (d_claim_end (lib_dev r l))). lia.
Qed.
Lemma lib_left_pos r l : lib_src r l <> 254 -> (1 <= lib_left r l)%nat.
Proof. intros S. unfold lib_left. apply Z.eqb_neq in S. rewrite S. destruct (lib_expirable r l); lia. Qed.

Lemma lib_left_step r x n : lib_good r -> lib_open r -> 0 <= n_now (rn r) < 2^63 -> 0 <= n < 2^64 ->
  (forall k, (k < lib_ndev r)%nat -> lib_src r k = x -> lib_name r k <> n) ->
  forall l, (l < lib_ndev r)%nat ->
    (lib_src (fst (on_claim r x n)) l = lib_src r l /\ lib_left (fst (on_claim r x n)) l = lib_left r l) \/
    (lib_left (fst (on_claim r x n)) l < lib_left r l)%nat.
Proof.
  intros G O Hclk Hn Hfor l Hl. destruct (on_claim_x r x n G O Hn Hfor) as (W & Nw & C). cbv zeta in *.
  set (r' := fst (on_claim r x n)) in *.
  destruct C as [->|(k & Hk & Ek & Hop & [D|(a' & Oth & Sk & Ee & Et & Hd)])]; [left; split; reflexivity| |].
  - (* defence: the claim send notices an expired timer, or changes nothing *)
    pose proof (lib_valid r k Hk) as Hi.
    assert (Sne: lib_src r k <> 254) by (unfold operational in Hop; lia).
    unfold claim_started in D. fold (lib_dev r k) in D.
    destruct (sched_is_enabled (n_w64 (rn r)) (d_claim_timer (lib_dev r k))) eqn:En;
      [destruct (sched_is_time (n_w64 (rn r)) (n_now (rn r)) (d_claim_timer (lib_dev r k))) eqn:Ti|]; cbn [fst] in D.
    + (* expired: AddressClaimEndSource is recomputed, the timer switched off *)
      destruct (Nat.eq_dec l k) as [->|Nl].
      * right. assert (Ex: lib_expirable r k = true) by (unfold lib_expirable; rewrite En, Ti; reflexivity).
        assert (Lk: lib_left r k = 600%nat) by (unfold lib_left; apply Z.eqb_neq in Sne; rewrite Sne, Ex; reflexivity).
        rewrite Lk.
        assert (Dk: lib_dev r' k = {| d_src := d_src (lib_dev r k); d_name := d_name (lib_dev r k); d_claim_end := claim_end_of (d_src (lib_dev r k));
                  d_claim_timer := sched_disabled (n_w64 (rn r)); d_tx := d_tx (lib_dev r k); d_cells := d_cells (lib_dev r k); d_tp_msg := d_tp_msg (lib_dev r k);
                  d_next_dt_time := d_next_dt_time (lib_dev r k); d_next_dt_seq := d_next_dt_seq (lib_dev r k); d_has_pending := d_has_pending (lib_dev r k) |}).
        { unfold lib_dev at 1. rewrite D. unfold upd_q, get_dev. cbn [n_devs]. apply (get_upd_same (rn r)). exact Hi. }
        assert (S': lib_src r' k <> 254) by (unfold lib_src; rewrite Dk; exact Sne).
        assert (E': lib_expirable r' k = false) by (unfold lib_expirable; rewrite Dk, W; cbn [d_claim_timer]; rewrite enabled_disabled; reflexivity).
        pose proof (lib_left_le r' k S' E'). lia.
      * left. assert (Dl: lib_dev r' l = lib_dev r l).
        { unfold lib_dev at 1. rewrite D. unfold upd_q, get_dev. cbn [n_devs]. apply (get_upd_other (rn r)); lia. }
        split; [unfold lib_src; rewrite Dl; reflexivity|apply lib_left_ext; assumption].
    + left. assert (Dl: lib_dev r' l = lib_dev r l) by (unfold lib_dev at 1; rewrite D; reflexivity).
      split; [unfold lib_src; rewrite Dl; reflexivity|apply lib_left_ext; assumption].
    + left. assert (Dl: lib_dev r' l = lib_dev r l) by (unfold lib_dev at 1; rewrite D; reflexivity).
      split; [unfold lib_src; rewrite Dl; reflexivity|apply lib_left_ext; assumption].
  - (* move *)
    destruct (Nat.eq_dec l k) as [->|Nl]; [right|left; split; [unfold lib_src; rewrite Oth by exact Nl; reflexivity|apply lib_left_ext; [apply Oth; exact Nl|exact W|exact Nw]]].
    assert (Sne: lib_src r k <> 254) by (unfold operational in Hop; lia).
    pose proof (lib_left_pos r k Sne) as Lp.
    destruct Hd as [Z1|[Ra Dd]].
    + unfold lib_left at 1. rewrite Sk, Z1. cbn [Z.eqb Pos.eqb]. lia.
    + assert (S': lib_src r' k <> 254) by (rewrite Sk; lia).
      assert (E': lib_expirable r' k = false) by (unfold lib_expirable; rewrite Et, W, Nw; apply fresh_timer_not_expired; exact Hclk).
      unfold lib_left at 1. apply Z.eqb_neq in S'. rewrite S', E', Sk, Ee.
      unfold lib_left. apply Z.eqb_neq in Sne. rewrite Sne. rewrite Ek.
      pose proof (dist_range a' (d_claim_end (lib_dev r k))). pose proof (dist_range x (d_claim_end (lib_dev r k))).
      destruct (lib_expirable r k); lia.
Qed.

(* ---------- strengthening the well-formedness predicate of the generic hypotheses ---------- *)
Lemma node_hyps_strengthen nstate nodes ndev addr name good react spont allowed (P:nat -> nstate -> Prop) :
  node_hyps nstate nodes ndev addr name good react spont allowed ->
  (forall i s c, pre nstate nodes ndev addr name good i s c -> P i s -> P i (fst (react i s c))) ->
  (forall i s a, (i < nodes)%nat -> good i s -> P i s -> allowed i s a -> P i (fst (spont i s a))) ->
  node_hyps nstate nodes ndev addr name (fun i s => good i s /\ P i s) react spont allowed.
Proof.
  intros (Hn & H1 & H2 & H3 & H4 & H5 & Ho & S2' & S5' & So) Pr Ps.
  assert (W: forall i s c, pre nstate nodes ndev addr name (fun i s => good i s /\ P i s) i s c -> pre nstate nodes ndev addr name good i s c /\ P i s).
  { intros i s c (A & (B & B') & C & D). split; [split; [exact A|split; [exact B|split; [exact C|exact D]]]|exact B']. }
  unfold node_hyps. split; [exact Hn|]. split; [|split; [|split; [|split; [|split; [|split; [|split; [|split]]]]]]].
  - intros i s c k Hp. apply H1. apply W; exact Hp.
  - intros i s c k Hp. apply H2. apply W; exact Hp.
  - intros i s c k Hp. apply H3. apply W; exact Hp.
  - intros i s c k Hp. apply H4. apply W; exact Hp.
  - intros i s c Hp. destruct (W i s c Hp) as [Hp' Pp]. destruct (H5 i s c Hp') as [A B]. split; [split; [exact A|apply Pr; assumption]|exact B].
  - intros i s c f Hp. apply Ho. apply W; exact Hp.
  - intros i s a k Hi [G _]. apply S2'; assumption.
  - intros i s a Hi [G Pp] Sd Al. destruct (S5' i s a Hi G Sd Al) as [A B]. split; [split; [exact A|apply Ps; assumption]|exact B].
  - intros i s a f Hi [G _]. apply So; assumption.
Qed.

(* ---------- the clock of a library node is never written by the claim machinery ---------- *)
Lemma rstatic_now r r' : rstatic r r' -> n_now (rn r') = n_now (rn r).
Proof. intros ((_ & _ & _ & N & _) & _). exact N. Qed.
Lemma claim_started_all_now : forall cnt r i, n_now (rn (claim_started_all cnt r i)) = n_now (rn r).
Proof.
  induction cnt as [|cnt IH]; intros r i; cbn [claim_started_all]; [reflexivity|]. rewrite IH. cbn [rn with_rn].
  destruct (claim_started_st (rn r) i) as (_ & _ & _ & N & _). exact N.
Qed.
Lemma react_clock i s c : clock_ok s -> clock_ok (fst (c_react i s c)).
Proof.
  destruct s as [r|f]; cbn [c_react clock_ok]; [|tauto]. intros Hc. destruct (n_open (rn r) =? 3); cbn [fst clock_ok]; [|exact Hc].
  unfold on_claim. rewrite (rstatic_now _ _ (handle_claim_st r (cx c) (name_bytes (cn c)))). exact Hc.
Qed.
Lemma spont_clock i s a : clock_ok s -> clock_ok (fst (c_spont i s a)).
Proof.
  intros Hc. destruct s as [r|f].
  - destruct a as [|nm y| |]; cbn [c_spont].
    + destruct (n_open (rn r) =? 3); cbn [fst clock_ok]; [exact Hc|].
      unfold lib_start. rewrite (rstatic_now _ _ (start_claim_all_st (lib_ndev r) (with_open r 3 (r_open_sched r)) 0)). exact Hc.
    + destruct (n_open (rn r) =? 3); cbn [fst clock_ok]; [|exact Hc].
      rewrite (rstatic_now _ _ (commanded_all_st (lib_ndev r) r nm y 0)). exact Hc.
    + destruct (n_open (rn r) =? 3); cbn [fst clock_ok]; [|exact Hc].
      rewrite (rstatic_now _ _ (start_claim_all_st (lib_ndev r) r 0)). exact Hc.
    + cbn [fst clock_ok]. rewrite claim_started_all_now. exact Hc.
  - destruct a as [|nm y| |]; cbn [c_spont]; try exact I. destruct (fn_addr f =? 254); exact I.
Qed.

(* ---------- the extra hypotheses of the convergence theorem ---------- *)
Lemma ev_claims_one_le e : (length (ev_claims [e]) <= 1)%nat.
Proof.
  unfold ev_claims. cbn [flat_map]. rewrite app_nil_r. destruct e as [id len data [|]| | |]; cbn [claim_of_event length]; try lia.
  destruct ((id_pf id =? 238) && (id_dp id =? 0) && (len =? 8)); cbn [length]; lia.
Qed.

Section ConvInst.
Variable nodes : nat.
Variable ndev0 : nat -> nat.
Variable name0 : nat -> nat -> Z.
Hypothesis Cfg : config_ok nodes ndev0 name0.
Notation good1 := (c_good ndev0 name0).
Notation good2 := (c_good2 ndev0 name0).

Lemma hyps2 : node_hyps pkind nodes ndev0 c_addr name0 good2 c_react c_spont c_allowed.
Proof.
  apply (node_hyps_strengthen pkind nodes ndev0 c_addr name0 good1 c_react c_spont c_allowed (fun _ s => clock_ok s)).
  - apply library_node_hyps. exact Cfg.
  - intros i s c _. apply react_clock.
  - intros i s a _ _ Hc _. apply spont_clock. exact Hc.
Qed.
Lemma pre2_pre1 i s c : pre pkind nodes ndev0 c_addr name0 good2 i s c -> pre pkind nodes ndev0 c_addr name0 good1 i s c /\ clock_ok s.
Proof. intros (A & (B & B') & C & D). split; [split; [exact A|split; [exact B|split; [exact C|exact D]]]|exact B']. Qed.

Lemma react_measured i s c : pre pkind nodes ndev0 c_addr name0 good2 i s c ->
  (length (snd (c_react i s c)) <= 1)%nat /\
  (snd (c_react i s c) <> [] -> exists k, valid_dev nodes ndev0 i k /\ c_addr s k = cx c /\ operational (cx c)) /\
  (forall k, valid_dev nodes ndev0 i k -> (c_addr (fst (c_react i s c)) k = c_addr s k /\ c_left (fst (c_react i s c)) k = c_left s k) \/
                                         (c_left (fst (c_react i s c)) k < c_left s k)%nat).
Proof.
  intros Hp2. destruct (pre2_pre1 i s c Hp2) as [Hp Hclk]. destruct s as [r|f].
  - (* library node *)
    unfold c_react. destruct (Z.eqb_spec (n_open (rn r)) 3) as [O|O]; cbn [fst snd].
    2:{ split; [cbn; lia|split; [intros X; congruence|intros k _; left; split; reflexivity]]. }
    destruct (pre_name nodes ndev0 name0 Cfg i _ c Hp) as [Rg Fn].
    destruct (lib_step nodes ndev0 name0 Cfg i r c Hp O) as (G' & O' & N' & M' & F & Args). cbv zeta in *.
    pose proof Hp as (Hi & (G & N & M) & _ & _).
    assert (Hfor: forall k, (k < lib_ndev r)%nat -> lib_src r k = cx c -> lib_name r k <> cn c) by (intros k Hk _; apply F; exact Hk).
    pose proof (on_claim_result r (cx c) (cn c) G O Rg Hfor) as (_ & _ & _ & _ & C). cbv zeta in C.
    split; [|split].
    + destruct C as [(_ & Ev & _)|(k & _ & _ & _ & _ & [(_ & _ & Ev & _)|(_ & a' & _ & _ & _ & _ & Ev & _)])]; rewrite Ev; [cbn; lia|apply ev_claims_one_le|apply ev_claims_one_le].
    + intros Hne. destruct C as [(_ & Ev & _)|(k & Hk & Ek & Hop & _)]; [rewrite Ev in Hne; cbn in Hne; congruence|].
      exists k. split; [split; [exact Hi|rewrite <- N; exact Hk]|]. split; [rewrite c_addr_open by exact O; exact Ek|exact Hop].
    + intros k [_ Hk]. rewrite !c_addr_open by assumption. cbn [c_left]. apply (lib_left_step r (cx c) (cn c) G O Hclk Rg Hfor). rewrite N. exact Hk.
  - (* reference node *)
    destruct Hp as (Hi & (N & Nm & Rg & Re & Rp) & _ & _). cbn [c_react fst snd]. unfold ref_react.
    destruct ((cx c =? fn_addr f) && (fn_addr f <=? 251)) eqn:E.
    2:{ cbn [fst snd]. split; [cbn; lia|split; [intros X; congruence|intros k _; left; split; reflexivity]]. }
    apply andb_prop in E as [E1 E2]. apply Z.eqb_eq in E1. apply Z.leb_le in E2.
    assert (Ha: 0 <= fn_addr f <= 251) by lia.
    assert (Dev: exists k, valid_dev nodes ndev0 i k /\ c_addr (PRef f) k = cx c /\ operational (cx c)).
    { exists 0%nat. split; [split; [exact Hi|lia]|]. cbn [c_addr]. split; [congruence|unfold operational; lia]. }
    destruct (fn_name f <? cn c); cbn [fst snd].
    { split; [cbn; lia|split; [intros _; exact Dev|intros k _; left; split; reflexivity]]. }
    destruct (cn c <? fn_name f); cbn [fst snd].
    2:{ split; [cbn; lia|split; [intros X; congruence|intros k _; left; split; reflexivity]]. }
    split; [cbn; lia|split; [intros _; exact Dev|]]. intros k [_ Hk]. rewrite N in Hk. destruct k; [|lia]. right.
    cbn [c_left fn_with_addr fn_addr fn_end]. assert (E254: fn_addr f =? 254 = false) by (apply Z.eqb_neq; lia). rewrite E254.
    unfold ref_next. destruct (Z.eqb_spec (fn_addr f) (fn_end f)) as [Ee|Ne]; [cbn [Z.eqb Pos.eqb]; lia|].
    fold (succ_addr (fn_addr f)). destruct (dist_succ (fn_addr f) (fn_end f) Ha Re Ne) as [D1 D2].
    pose proof (succ_addr_range (fn_addr f) Ha) as Hs. assert (E254': succ_addr (fn_addr f) =? 254 = false) by (apply Z.eqb_neq; lia).
    rewrite E254', D1. lia.
Qed.
End ConvInst.

Theorem library_converge_hyps : library_converge_hyps_stmt.
Proof. unfold library_converge_hyps_stmt. intros nodes ndev0 name0 Cfg. split; [apply hyps2; exact Cfg|apply react_measured; exact Cfg]. Qed.
Theorem library_converges : library_converges_stmt.
Proof.
  unfold library_converges_stmt. intros nodes ndev0 name0 Cfg w0 w Hi Hs.
  apply (converges pkind nodes ndev0 c_addr name0 (c_good2 ndev0 name0) c_react c_spont c_allowed c_left (hyps2 nodes ndev0 name0 Cfg)
           (react_measured nodes ndev0 name0 Cfg) w0 w Hi Hs).
Qed.
Print Assumptions library_converge_hyps.
Print Assumptions library_converges.

(* ---------- where a schedule ends ---------- *)
Lemma outside_empty nstate nodes ndev addr good react spont allowed w0 w :
  initial nstate nodes ndev addr good w0 -> steps nstate nodes react spont allowed w0 w -> forall q, (nodes <= q)%nat -> inbox nstate w q = [].
Proof.
  intros (_ & _ & E) Hs. induction Hs as [|w1 w2 w3 _ IH Hst]; intros q Hq; [apply E|].
  assert (Nl: (q <? nodes)%nat = false) by (apply Nat.ltb_ge; exact Hq).
  destruct Hst as [p c l1 l2 w Hp Hib | p a w Hp Hal]; cbn [inbox]; unfold bcast; rewrite Nl, orb_true_r.
  - unfold upd. destruct (Nat.eqb_spec q p); [lia|apply (IH E); exact Hq].
  - apply (IH E); exact Hq.
Qed.
Lemma terminal_quiescent nstate nodes react (w:world nstate) :
  (forall q, (nodes <= q)%nat -> inbox nstate w q = []) -> (forall w', ~ deliveries nstate nodes react w w') -> quiescent nstate w.
Proof.
  intros Out Term i. destruct (le_lt_dec nodes i) as [Hi|Hi]; [apply Out; exact Hi|].
  destruct (inbox nstate w i) as [|c l] eqn:E; [reflexivity|]. exfalso.
  eapply Term. exists i, c, [], l. split; [exact Hi|split; [exact E|reflexivity]].
Qed.
Theorem library_ends_unique : library_ends_unique_stmt.
Proof.
  unfold library_ends_unique_stmt. intros nodes ndev0 name0 Cfg w0 w Hi Hs Term.
  assert (Hi1: initial pkind nodes ndev0 c_addr (c_good ndev0 name0) w0).
  { destruct Hi as (A & B & C). split; [intros i; apply A|split; assumption]. }
  destruct (library_quiescent_unique_partial nodes ndev0 name0 Cfg w0 w Hi1 Hs) as (_ & U & _).
  apply U. apply (terminal_quiescent pkind nodes c_react w); [|exact Term].
  apply (outside_empty pkind nodes ndev0 c_addr (c_good2 ndev0 name0) c_react c_spont c_allowed w0 w Hi Hs).
Qed.
Print Assumptions library_ends_unique.
