(* C13 - node level, part 2: the shifted rnode, the bound, and the functions of Model/NodeRxDefs.v up to the ISO request handling. *)
From Coq Require Import ZArith List Bool Lia.
From N2kV Require Import Base.ListAux Model.CanId Model.Sched Model.PgnClass Model.NodeDefs Model.NodeRxDefs Gen.GenTables Gen.GenConsts
  Spec.ClockSpec Proofs.SendProofs Proofs.HbProofsFrame Proofs.ClockProofs Proofs.ClockProofsNode1.
Import ListNotations.
Local Open Scope Z_scope.
Set Warnings "-unused-intro-pattern".

(* ---------- projections and constructors of the shifted rnode ---------- *)
Lemma shr_rn c r : rn (shift_rnode c r) = shift_node c (rn r).  Proof. reflexivity. Qed.
Lemma shr_w64 c r : w64 (shift_rnode c r) = w64 r.  Proof. reflexivity. Qed.
Lemma shr_now c r : now (shift_rnode c r) = now r + c.  Proof. reflexivity. Qed.
Lemma shr_now32 c r : now32 (shift_rnode c r) = u32 (now r + c).  Proof. reflexivity. Qed.
Lemma shr_nslots c r : nslots (shift_rnode c r) = nslots r.
Proof. unfold nslots. cbn [shift_rnode r_slots]. rewrite map_length. reflexivity. Qed.
Lemma shr_cfg c r : r_cfg (shift_rnode c r) = r_cfg r.  Proof. reflexivity. Qed.
Lemma shr_q c r : r_q (shift_rnode c r) = r_q r.  Proof. reflexivity. Qed.
Lemma shr_slots c r : r_slots (shift_rnode c r) = map (shift_slot c) (r_slots r).  Proof. reflexivity. Qed.
Lemma shr_sync c r : r_sync (shift_rnode c r) = r_sync r + c.  Proof. reflexivity. Qed.
Lemma shr_open_sched c r : r_open_sched (shift_rnode c r) = sh64 c (r_open_sched r).  Proof. reflexivity. Qed.
Lemma shr_dev_src c r i : vi (rn r) i -> dev_src (shift_rnode c r) i = dev_src r i.
Proof. intros H. unfold dev_src. rewrite shr_rn, get_dev_sh by exact H. reflexivity. Qed.

Lemma with_rn_sh c r n : with_rn (shift_rnode c r) (shift_node c n) = shift_rnode c (with_rn r n).  Proof. reflexivity. Qed.
Lemma with_slots_sh c r s : with_slots (shift_rnode c r) (map (shift_slot c) s) = shift_rnode c (with_slots r s).  Proof. reflexivity. Qed.
Lemma with_devx_sh c r i x : with_devx (shift_rnode c r) i (shift_devx c x) = shift_rnode c (with_devx r i x).
Proof. unfold with_devx, shift_rnode. cbn. rewrite map_zset. reflexivity. Qed.
Lemma with_rxq_sh c r q : with_rxq (shift_rnode c r) q = shift_rnode c (with_rxq r q).  Proof. reflexivity. Qed.
Lemma with_open_sh c r st t : with_open (shift_rnode c r) st (sh64 c t) = shift_rnode c (with_open r st t).  Proof. reflexivity. Qed.
Lemma with_sync_sh c r s : with_sync (shift_rnode c r) (s + c) = shift_rnode c (with_sync r s).  Proof. reflexivity. Qed.
Lemma with_dic_sh c r : with_devinfo_changed (shift_rnode c r) = shift_rnode c (with_devinfo_changed r).  Proof. reflexivity. Qed.
Lemma set_oob_sh c r : set_oob (shift_rnode c r) = shift_rnode c (set_oob r).  Proof. reflexivity. Qed.
Lemma chk_dev_sh c r i : chk_dev (shift_rnode c r) i = shift_rnode c (chk_dev r i).
Proof. unfold chk_dev. rewrite shr_rn, shn_count. destruct (_ && _); reflexivity. Qed.
Lemma chk_slot_sh c r i : chk_slot (shift_rnode c r) i = shift_rnode c (chk_slot r i).
Proof. unfold chk_slot. rewrite shr_nslots. destruct (_ && _); reflexivity. Qed.

Definition vx (r:rnode) (i:Z) : Prop := (Z.to_nat i < length (rx_dev r))%nat.
Lemma get_devx_sh c r i : vx r i -> get_devx (shift_rnode c r) i = shift_devx c (get_devx r i).
Proof. intros H. unfold get_devx. cbn [shift_rnode rx_dev]. apply znth_map. exact H. Qed.
Lemma shift_slot0 c : shift_slot c slot0 = slot0.  Proof. reflexivity. Qed.
Lemma get_slot_sh c r i : get_slot (shift_rnode c r) i = shift_slot c (get_slot r i).
Proof. unfold get_slot, znth. cbn [shift_rnode r_slots]. rewrite <- (shift_slot0 c) at 1. apply map_nth. Qed.
Lemma set_slot_sh c r i s : set_slot (shift_rnode c r) i (shift_slot c s) = shift_rnode c (set_slot r i s).
Proof. unfold set_slot. rewrite chk_slot_sh. rewrite shr_slots, <- map_zset. apply with_slots_sh. Qed.

(* ---------- the bound ---------- *)
Lemma tok_nok c r : time_ok c r -> nok c (rn r).
Proof. intros [A B C D [E F] G H I J]. constructor; assumption. Qed.
Lemma tok_w64 c r : time_ok c r -> w64 r = true.  Proof. intros H. apply (to_w64 _ _ H). Qed.
Lemma tok_now c r : time_ok c r -> 0 < now r /\ now r + c < NB.  Proof. intros H. apply (to_now _ _ H). Qed.
Lemma tok_vx c r i : time_ok c r -> vi (rn r) i -> vx r i.
Proof. intros H. unfold vi, vx. rewrite (proj1 (to_len _ _ H)). auto. Qed.
Lemma tok_with_rn c r n : time_ok c r -> nok c n -> length (n_devs n) = length (n_devs (rn r)) -> time_ok c (with_rn r n).
Proof.
  intros [A B C D [E F] G H I J] [A' B' C' D'] L. constructor; cbn [with_rn rn rx_dev r_open_sched r_sync r_slots r_q]; try assumption.
  split; [congruence|exact D'].
Qed.
Lemma tok_with_rn_st c r n : time_ok c r -> nok c n -> nstatic (rn r) n -> time_ok c (with_rn r n).
Proof. intros H K S. apply tok_with_rn; try assumption. unfold nstatic in S. intuition. Qed.
Lemma tok_with_devx c r i x : time_ok c r -> devx_ok c x -> time_ok c (with_devx r i x).
Proof.
  intros [A B C D [E F] G H I J] X. constructor; cbn [with_devx rn rx_dev r_open_sched r_sync r_slots r_q]; try assumption.
  - apply Forall_zset; assumption.
  - split; [rewrite zset_length; exact E|exact F].
Qed.
Lemma tok_with_slots c r s : time_ok c r -> Forall (fun s => byte_list (s_data s)) s -> time_ok c (with_slots r s).
Proof. intros [A B C D E G H I J] X. constructor; cbn [with_slots rn rx_dev r_open_sched r_sync r_slots r_q]; assumption. Qed.
Lemma tok_with_rxq c r q : time_ok c r -> Forall (fun f => byte_list (r_buf f)) q -> time_ok c (with_rxq r q).
Proof. intros [A B C D E G H I J] X. constructor; cbn [with_rxq rn rx_dev r_open_sched r_sync r_slots r_q]; assumption. Qed.
Lemma tok_set_oob c r : time_ok c r -> time_ok c (set_oob r).
Proof. intros [A B C D E G H I J]. constructor; assumption. Qed.
Lemma tok_dic c r : time_ok c r -> time_ok c (with_devinfo_changed r).
Proof. intros [A B C D E G H I J]. constructor; assumption. Qed.
Lemma tok_chk_dev c r i : time_ok c r -> time_ok c (chk_dev r i).
Proof. intros H. unfold chk_dev. destruct (_ && _); [exact H|apply tok_set_oob; exact H]. Qed.
Lemma tok_chk_slot c r i : time_ok c r -> time_ok c (chk_slot r i).
Proof. intros H. unfold chk_slot. destruct (_ && _); [exact H|apply tok_set_oob; exact H]. Qed.
Lemma tok_set_slot c r i s : time_ok c r -> byte_list (s_data s) -> time_ok c (set_slot r i s).
Proof.
  intros H B. unfold set_slot. apply tok_with_slots; [apply tok_chk_slot; exact H|].
  apply Forall_zset; [|exact B]. pose proof (to_slots _ _ H) as S. unfold chk_slot. destruct (_ && _); exact S.
Qed.
Lemma tok_get_devx c r i : time_ok c r -> vi (rn r) i -> devx_ok c (get_devx r i).
Proof. intros H V. unfold get_devx. apply Forall_znth; [apply (to_devx _ _ H)|apply (tok_vx c r i H V)]. Qed.
Lemma tok_get_dev c r i : time_ok c r -> vi (rn r) i -> dev_ok c (get_dev (rn r) i).
Proof. intros H V. apply nok_get_dev; [apply tok_nok; exact H|exact V]. Qed.
Lemma tok_get_slot c r i : time_ok c r -> byte_list (s_data (get_slot r i)).
Proof.
  intros H. unfold get_slot, znth. destruct (Nat.lt_ge_cases (Z.to_nat i) (length (r_slots r))) as [L|L].
  - pose proof (to_slots _ _ H) as S. rewrite Forall_forall in S. apply S. apply nth_In. exact L.
  - rewrite nth_overflow by exact L. constructor.
Qed.
Lemma chk_dev_rn' r i : rn (chk_dev r i) = rn r.  Proof. unfold chk_dev. destruct (_ && _); reflexivity. Qed.
Lemma vi_chk_dev r i j : vi (rn r) j -> vi (rn (chk_dev r i)) j.  Proof. rewrite chk_dev_rn'. auto. Qed.
Lemma vr_static r r' j : rstatic r r' -> vi (rn r) j -> vi (rn r') j.
Proof. intros [S _]. apply vi_static. exact S. Qed.

Definition lift_r3 {Y} (c:Z) (p:rnode * list event * Y) : rnode * list event * Y := (shift_rnode c (fst (fst p)), snd (fst p), snd p).

(* ---------- rsend ---------- *)
Lemma rsend_sh c r m i : 0 <= c -> time_ok c r ->
  rsend (shift_rnode c r) m i = lift_r3 c (rsend r m i) /\ time_ok c (fst (fst (rsend r m i))).
Proof.
  intros Hc H. unfold rsend, lift_r3. rewrite shr_rn.
  destruct (send_msg_sh c (rn r) m i Hc (tok_nok c r H)) as [E K]. rewrite E. unfold lift3.
  pose proof (send_msg_st (rn r) m i) as S.
  destruct (send_msg (rn r) m i) as [[n' ev] ok]. cbn [fst snd] in *.
  split; [reflexivity|apply tok_with_rn_st; assumption].
Qed.

(* ---------- TP.CM messages we send ---------- *)
Lemma send_tpcm_cts_sh c r pgn dst idev np nx : 0 <= c -> time_ok c r -> vi (rn r) idev ->
  send_tpcm_cts (shift_rnode c r) pgn dst idev np nx = lift_res c (send_tpcm_cts r pgn dst idev np nx) /\ time_ok c (fst (send_tpcm_cts r pgn dst idev np nx)).
Proof.
  intros Hc H V. unfold send_tpcm_cts, lift_res. rewrite chk_dev_sh. pose proof (tok_chk_dev c r idev H) as H1.
  pose proof (vi_chk_dev r idev idev V) as V1. set (r1 := chk_dev r idev) in *.
  rewrite shr_rn, shn_active. destruct (is_active_node (rn r1)); cbn [negb fst snd]; [|split; [reflexivity|exact H1]].
  rewrite shr_dev_src by exact V1.
  destruct (rsend_sh c r1 (tpcm (dev_src r1 idev) dst ([c_TP_CM_CTS; tp_cts_packets np; u8 nx; 255; 255] ++ le_bytes 3 pgn)) idev Hc H1) as [E K].
  rewrite E. unfold lift_r3. destruct (rsend r1 _ idev) as [[r' ev] ok]. cbn [fst snd] in *. split; [reflexivity|exact K].
Qed.
Lemma send_tpcm_endack_sh c r pgn dst idev nb np : 0 <= c -> time_ok c r -> vi (rn r) idev ->
  send_tpcm_endack (shift_rnode c r) pgn dst idev nb np = lift_res c (send_tpcm_endack r pgn dst idev nb np) /\ time_ok c (fst (send_tpcm_endack r pgn dst idev nb np)).
Proof.
  intros Hc H V. unfold send_tpcm_endack, lift_res. rewrite chk_dev_sh. pose proof (tok_chk_dev c r idev H) as H1.
  pose proof (vi_chk_dev r idev idev V) as V1. set (r1 := chk_dev r idev) in *.
  rewrite shr_rn, shn_active. destruct (is_active_node (rn r1)); cbn [negb fst snd]; [|split; [reflexivity|exact H1]].
  rewrite shr_dev_src by exact V1.
  destruct (rsend_sh c r1 (tpcm (dev_src r1 idev) dst ([c_TP_CM_ACK] ++ le_bytes 2 nb ++ [np; 255] ++ le_bytes 3 pgn)) idev Hc H1) as [E K].
  rewrite E. unfold lift_r3. destruct (rsend r1 _ idev) as [[r' ev] ok]. cbn [fst snd] in *. split; [reflexivity|exact K].
Qed.
Lemma send_tpcm_abort_sh c r pgn dst idev code : 0 <= c -> time_ok c r -> vi (rn r) idev ->
  send_tpcm_abort (shift_rnode c r) pgn dst idev code = lift_res c (send_tpcm_abort r pgn dst idev code) /\ time_ok c (fst (send_tpcm_abort r pgn dst idev code)).
Proof.
  intros Hc H V. unfold send_tpcm_abort, lift_res. rewrite chk_dev_sh. pose proof (tok_chk_dev c r idev H) as H1.
  pose proof (vi_chk_dev r idev idev V) as V1. set (r1 := chk_dev r idev) in *.
  rewrite shr_rn, shn_active. destruct (is_active_node (rn r1)); cbn [negb fst snd]; [|split; [reflexivity|exact H1]].
  rewrite shr_dev_src by exact V1.
  destruct (rsend_sh c r1 (tpcm (dev_src r1 idev) dst ([c_TP_CM_Abort; code; 255; 255; 255] ++ le_bytes 3 pgn)) idev Hc H1) as [E K].
  rewrite E. unfold lift_r3. destruct (rsend r1 _ idev) as [[r' ev] ok]. cbn [fst snd] in *. split; [reflexivity|exact K].
Qed.

(* ---------- ISO-TP sending side ---------- *)
Lemma set_dev_tp_sh c r i tp t sq : 0 <= c -> time_ok c r -> vi (rn r) i -> tbc c t ->
  set_dev_tp (shift_rnode c r) i tp (sh64 c t) sq = shift_rnode c (set_dev_tp r i tp t sq) /\ time_ok c (set_dev_tp r i tp t sq).
Proof.
  intros Hc H V T. unfold set_dev_tp. rewrite chk_dev_sh. pose proof (tok_chk_dev c r i H) as H1.
  pose proof (vi_chk_dev r i i V) as V1. set (r1 := chk_dev r i) in *.
  pose proof (tok_get_dev c r1 i H1 V1) as (T1 & T2 & T3).
  rewrite shr_rn, shr_w64, get_dev_sh by exact V1. split.
  - rewrite <- with_rn_sh. f_equal. rewrite <- upd_dev_sh; repeat (f_equal; try reflexivity).
  - apply tok_with_rn; [exact H1| |cbn [upd_dev n_devs]; apply zset_length].
    apply nok_upd_dev; [apply tok_nok; exact H1|]. unfold dev_ok, set_tp. cbn [d_claim_timer d_next_dt_time d_src]. repeat split; assumption || lia.
Qed.
Lemma end_send_tp_r_sh c r i : 0 <= c -> time_ok c r -> vi (rn r) i ->
  end_send_tp_r (shift_rnode c r) i = shift_rnode c (end_send_tp_r r i) /\ time_ok c (end_send_tp_r r i).
Proof.
  intros Hc H V. unfold end_send_tp_r. rewrite chk_dev_sh. pose proof (tok_chk_dev c r i H) as H1.
  pose proof (vi_chk_dev r i i V) as V1. set (r1 := chk_dev r i) in *.
  rewrite shr_rn. destruct (end_send_tp_sh c (rn r1) i Hc (tok_nok c r1 H1) V1) as [E K]. rewrite E. split; [reflexivity|].
  apply tok_with_rn_st; [exact H1|exact K|apply end_send_tp_st].
Qed.
Lemma has_all_dt_sent_sh c d : has_all_dt_sent (shift_dev c d) = has_all_dt_sent d.  Proof. reflexivity. Qed.

Lemma send_tpdt_sh c r i : 0 <= c -> time_ok c r -> vi (rn r) i ->
  send_tpdt (shift_rnode c r) i = lift_r3 c (send_tpdt r i) /\ time_ok c (fst (fst (send_tpdt r i))).
Proof.
  intros Hc H V. unfold send_tpdt. rewrite chk_dev_sh. pose proof (tok_chk_dev c r i H) as H1.
  pose proof (vi_chk_dev r i i V) as V1. set (r1 := chk_dev r i) in *.
  pose proof (tok_get_dev c r1 i H1 V1) as (T1 & T2 & T3).
  rewrite shr_rn, get_dev_sh by exact V1.
  cbn [shift_dev d_tp_msg d_next_dt_seq d_src d_next_dt_time].
  destruct (set_dev_tp_sh c r1 i (d_tp_msg (get_dev (rn r1) i)) (d_next_dt_time (get_dev (rn r1) i)) (u8 (d_next_dt_seq (get_dev (rn r1) i) + 1)) Hc H1 V1 T2) as [E K].
  rewrite E. apply rsend_sh; assumption.
Qed.

Lemma send_tpdt_burst_sh c k : forall r i, 0 <= c -> time_ok c r -> vi (rn r) i ->
  send_tpdt_burst k (shift_rnode c r) i = lift_r3 c (send_tpdt_burst k r i) /\ time_ok c (fst (fst (send_tpdt_burst k r i))).
Proof.
  induction k as [|k IH]; intros r i Hc H V; cbn [send_tpdt_burst]; unfold lift_r3; [split; [reflexivity|exact H]|].
  rewrite shr_rn, get_dev_sh by exact V. rewrite has_all_dt_sent_sh.
  destruct (has_all_dt_sent (get_dev (rn r) i)); [split; [reflexivity|exact H]|].
  destruct (send_tpdt_sh c r i Hc H V) as [E K]. rewrite E. unfold lift_r3.
  pose proof (send_tpdt_st r i) as S.
  destruct (send_tpdt r i) as [[r1 ev1] ok]. cbn [fst snd] in *.
  destruct ok; [|split; [reflexivity|exact K]].
  destruct (IH r1 i Hc K (vr_static _ _ _ S V)) as [E2 K2]. rewrite E2. unfold lift_r3.
  destruct (send_tpdt_burst k r1 i) as [[r2 ev2] ok2]. cbn [fst snd] in *. split; [reflexivity|exact K2].
Qed.

Lemma send_pending_tp_sh c r i : 0 <= c -> time_ok c r -> vi (rn r) i ->
  send_pending_tp (shift_rnode c r) i = lift_res c (send_pending_tp r i) /\ time_ok c (fst (send_pending_tp r i)).
Proof.
  intros Hc H V. unfold send_pending_tp, lift_res. rewrite chk_dev_sh. pose proof (tok_chk_dev c r i H) as H1.
  pose proof (vi_chk_dev r i i V) as V1. set (r1 := chk_dev r i) in *.
  pose proof (tok_get_dev c r1 i H1 V1) as (T1 & T2 & T3).
  rewrite shr_rn, get_dev_sh by exact V1. cbn [shift_dev d_tp_msg d_next_dt_time].
  destruct (d_tp_msg (get_dev (rn r1) i)) as [m|] eqn:Etp; [|split; [reflexivity|exact H1]].
  rewrite shr_w64, shr_now, (tok_w64 c r1 H1).
  destruct (tok_now _ _ H1) as [N1 N2]. rewrite time_sh by assumption.
  destruct (sched_is_time true (now r1) (d_next_dt_time (get_dev (rn r1) i))); [|split; [reflexivity|exact H1]].
  destruct (m_dst m =? 255).
  - destruct (send_tpdt_sh c r1 i Hc H1 V1) as [E K]. rewrite E. unfold lift_r3.
    pose proof (send_tpdt_st r1 i) as S.
    destruct (send_tpdt r1 i) as [[r2 ev] ok]. cbn [fst snd] in *.
    pose proof (vr_static _ _ _ S V1) as V2.
    rewrite shr_rn, get_dev_sh by exact V2. cbn [shift_dev d_tp_msg d_next_dt_seq].
    rewrite shr_w64, shr_now, (tok_w64 c r2 K).
    destruct (tok_now _ _ K) as [M1 M2].
    destruct (from_now_sh c (now r2) 50 Hc M1 M2 ltac:(change (2^32) with 4294967296; lia)) as [F1 F2]. rewrite F1.
    destruct (set_dev_tp_sh c r2 i (d_tp_msg (get_dev (rn r2) i)) (sched_from_now true (now r2) 50) (d_next_dt_seq (get_dev (rn r2) i)) Hc K V2 F2) as [E3 K3].
    rewrite E3. set (r3 := set_dev_tp r2 i _ _ _) in *.
    pose proof (set_dev_tp_st r2 i (d_tp_msg (get_dev (rn r2) i)) (sched_from_now true (now r2) 50) (d_next_dt_seq (get_dev (rn r2) i))) as S3. fold r3 in S3.
    pose proof (vr_static _ _ _ S3 V2) as V3.
    rewrite shr_rn, get_dev_sh by exact V3. rewrite has_all_dt_sent_sh.
    destruct (has_all_dt_sent (get_dev (rn r3) i)); cbn [fst snd].
    + destruct (end_send_tp_r_sh c r3 i Hc K3 V3) as [E4 K4]. rewrite E4. split; [reflexivity|exact K4].
    + split; [reflexivity|exact K3].
  - cbn [fst snd]. destruct (end_send_tp_r_sh c r1 i Hc H1 V1) as [E4 K4]. rewrite E4. split; [reflexivity|exact K4].
Qed.

(* ---------- slots ---------- *)
Lemma ssp c s :
  s_free (shift_slot c s) = s_free s /\ s_ready (shift_slot c s) = s_ready s /\ s_known (shift_slot c s) = s_known s /\
  s_system (shift_slot c s) = s_system s /\ s_pri (shift_slot c s) = s_pri s /\ s_pgn (shift_slot c s) = s_pgn s /\
  s_src (shift_slot c s) = s_src s /\ s_dst (shift_slot c s) = s_dst s /\ s_tp (shift_slot c s) = s_tp s /\
  s_len (shift_slot c s) = s_len s /\ s_data (shift_slot c s) = s_data s /\ s_last (shift_slot c s) = s_last s /\
  s_tpmax (shift_slot c s) = s_tpmax s /\ s_tpreq (shift_slot c s) = s_tpreq s.
Proof. unfold shift_slot. destruct (s_free s) eqn:E; cbn; rewrite ?E; repeat split. Qed.
Ltac ssp_rw c s :=
  let H := fresh "SSP" in pose proof (ssp c s) as H;
  repeat (let h := fresh "SSPh" in destruct H as [h H]; rewrite ?h; clear h); rewrite ?H; clear H.
Lemma slot_msg_sh c s : slot_msg (shift_slot c s) = slot_msg s.
Proof. unfold slot_msg. ssp_rw c s. reflexivity. Qed.

(* a slot record that copies "free" and the time stamp from s: built from the shifted s it is the shifted record *)
Lemma slot_copy_sh c s rdy kn sy pri pgn src dst tp len data last tpmax tpreq :
  {| s_free := s_free s; s_ready := rdy; s_known := kn; s_system := sy; s_pri := pri; s_pgn := pgn; s_src := src; s_dst := dst; s_tp := tp; s_len := len;
     s_data := data; s_last := last; s_time := s_time (shift_slot c s); s_tpmax := tpmax; s_tpreq := tpreq |} =
  shift_slot c {| s_free := s_free s; s_ready := rdy; s_known := kn; s_system := sy; s_pri := pri; s_pgn := pgn; s_src := src; s_dst := dst; s_tp := tp;
                  s_len := len; s_data := data; s_last := last; s_time := s_time s; s_tpmax := tpmax; s_tpreq := tpreq |}.
Proof. unfold shift_slot. cbn [s_free]. destruct (s_free s); reflexivity. Qed.
(* a busy slot stamped with the current time *)
Lemma slot_now_sh c t rdy kn sy pri pgn src dst tp len data last tpmax tpreq :
  {| s_free := false; s_ready := rdy; s_known := kn; s_system := sy; s_pri := pri; s_pgn := pgn; s_src := src; s_dst := dst; s_tp := tp; s_len := len;
     s_data := data; s_last := last; s_time := u32 (t + c); s_tpmax := tpmax; s_tpreq := tpreq |} =
  shift_slot c {| s_free := false; s_ready := rdy; s_known := kn; s_system := sy; s_pri := pri; s_pgn := pgn; s_src := src; s_dst := dst; s_tp := tp;
                  s_len := len; s_data := data; s_last := last; s_time := u32 t; s_tpmax := tpmax; s_tpreq := tpreq |}.
Proof. unfold shift_slot. cbn [s_free s_time]. rewrite (u32_add_l t c). reflexivity. Qed.
(* a busy slot that keeps its time stamp *)
Lemma slot_busy_sh c s rdy kn sy pri pgn src dst tp len data last tpmax tpreq : s_free s = false ->
  {| s_free := false; s_ready := rdy; s_known := kn; s_system := sy; s_pri := pri; s_pgn := pgn; s_src := src; s_dst := dst; s_tp := tp; s_len := len;
     s_data := data; s_last := last; s_time := s_time (shift_slot c s); s_tpmax := tpmax; s_tpreq := tpreq |} =
  shift_slot c {| s_free := false; s_ready := rdy; s_known := kn; s_system := sy; s_pri := pri; s_pgn := pgn; s_src := src; s_dst := dst; s_tp := tp;
                  s_len := len; s_data := data; s_last := last; s_time := s_time s; s_tpmax := tpmax; s_tpreq := tpreq |}.
Proof. intros F. unfold shift_slot. rewrite F. reflexivity. Qed.

Lemma find_src_sh c : forall devs src i, find_src (map (shift_dev c) devs) src i = find_src devs src i.
Proof. induction devs as [|d l IH]; intros; cbn [map find_src]; [reflexivity|]. cbn [shift_dev d_src]. rewrite IH. reflexivity. Qed.
Lemma find_source_device_sh c r src : find_source_device (shift_rnode c r) src = find_source_device r src.
Proof. unfold find_source_device. rewrite shr_rn, shn_devs, find_src_sh. reflexivity. Qed.
Lemma find_src_range : forall devs src i, 0 <= i -> find_src devs src i = -1 \/ i <= find_src devs src i < i + Z.of_nat (length devs).
Proof.
  induction devs as [|d l IH]; intros src i Hi; cbn [find_src length]; [left; reflexivity|].
  destruct (d_src d =? src); [right; lia|]. destruct (IH src (i + 1) ltac:(lia)) as [E|E]; [left; exact E|right; lia].
Qed.
Lemma find_source_device_range r src : find_source_device r src = -1 \/ 0 <= find_source_device r src < dev_count (rn r).
Proof.
  unfold find_source_device, dev_count. destruct (src <=? 253); [|left; reflexivity].
  destruct (find_src_range (n_devs (rn r)) src 0 ltac:(lia)) as [E|E]; [left; exact E|right; lia].
Qed.
Lemma find_source_device_vi c r src : time_ok c r -> vi (rn r) (find_source_device r src).
Proof.
  intros H. apply vi_m1; [apply (proj2 (to_len _ _ H))|]. destruct (find_source_device_range r src) as [->|E]; [|lia].
  pose proof (proj2 (to_len _ _ H)). unfold dev_count. lia.
Qed.
Lemma find_tp_slot_sh c src dst : forall slots i, find_tp_slot (map (shift_slot c) slots) src dst i = find_tp_slot slots src dst i.
Proof.
  induction slots as [|s l IH]; intros i; cbn [map find_tp_slot]; [reflexivity|]. ssp_rw c s. rewrite IH. reflexivity.
Qed.
Lemma find_cont_sh c pgn src dst : forall slots i, find_cont (map (shift_slot c) slots) pgn src dst i = find_cont slots pgn src dst i.
Proof.
  induction slots as [|s l IH]; intros i; cbn [map find_cont]; [reflexivity|]. ssp_rw c s. rewrite IH. reflexivity.
Qed.
Lemma find_free_slot_sh c r pgn src dst tp :
  find_free_slot (shift_rnode c r) pgn src dst tp = (map (shift_slot c) (fst (find_free_slot r pgn src dst tp)), snd (find_free_slot r pgn src dst tp)).
Proof. apply slot_age_shift; reflexivity. Qed.

Lemma byte_list_app a b : byte_list a -> byte_list b -> byte_list (a ++ b).
Proof. unfold byte_list. intros. apply Forall_app. split; assumption. Qed.
Lemma Forall_firstn {A} (P:A -> Prop) k l : Forall P l -> Forall P (firstn k l).
Proof. revert l. induction k; intros l H; cbn; [constructor|]. destruct l; [constructor|]. inversion H; subst. constructor; auto. Qed.
Lemma Forall_skipn {A} (P:A -> Prop) k l : Forall P l -> Forall P (skipn k l).
Proof. revert l. induction k; intros l H; cbn; [exact H|]. destruct l; [constructor|]. inversion H; subst. auto. Qed.
Lemma byte_list_copy_buf d start len buf : byte_list d -> byte_list buf -> byte_list (copy_buf d start len buf).
Proof. intros A B. unfold copy_buf. apply byte_list_app; [exact A|]. unfold byte_list. apply Forall_firstn, Forall_firstn, Forall_skipn. exact B. Qed.
Lemma ffs_bytes c r pgn src dst tp : time_ok c r -> Forall (fun s => byte_list (s_data s)) (fst (find_free_slot r pgn src dst tp)).
Proof.
  intros H. pose proof (to_slots _ _ H) as S. unfold find_free_slot. cbv zeta.
  destruct (_ <? nslots r); [exact S|].
  destruct (ff_scan _ _ _ _ _ _ _ _) as [[i oi] ot]. destruct (_ && _); cbn [fst]; [|exact S].
  apply Forall_zset; [exact S|]. unfold free_slot. cbn [s_data].
  unfold znth. destruct (Nat.lt_ge_cases (Z.to_nat oi) (length (r_slots r))) as [L|L].
  - rewrite Forall_forall in S. apply S. apply nth_In. exact L.
  - rewrite nth_overflow by exact L. constructor.
Qed.

(* ---------- TestHandleTPMessage, by branch ---------- *)
Definition lift4 (c:Z) (p:bool * rnode * list event * Z) : bool * rnode * list event * Z :=
  (fst (fst (fst p)), shift_rnode c (snd (fst (fst p))), snd (fst p), snd p).

Lemma vi_ge0 c r i : time_ok c r -> vi (rn r) i -> vi (rn r) i.  Proof. auto. Qed.

Lemma htp_rts_sh c r src dst buf : 0 <= c -> time_ok c r ->
  htp_rts (shift_rnode c r) src dst buf = lift4 c (htp_rts r src dst buf) /\ time_ok c (snd (fst (fst (htp_rts r src dst buf)))).
Proof.
  intros Hc H0. unfold htp_rts, lift4. cbv zeta. rewrite shr_nslots, find_source_device_sh.
  pose proof (find_source_device_vi c r dst H0) as Vd. set (idev := find_source_device r dst) in *.
  set (mx := nslots r).
  (* the release of an open session of the same pair for another PGN commutes with the shift *)
  set (rel := fun s => if negb (s_free s) && s_tp s && (s_src s =? src) && (s_dst s =? dst) && negb (s_pgn s =? le3 buf 5) then free_slot s else s).
  assert (RelSh: map rel (r_slots (shift_rnode c r)) = map (shift_slot c) (map rel (r_slots r))).
  { rewrite shr_slots, !map_map. apply map_ext. intros s. unfold rel. ssp_rw c s.
    destruct (negb (s_free s) && s_tp s && (s_src s =? src) && (s_dst s =? dst) && negb (s_pgn s =? le3 buf 5)); [apply free_shift_slot|reflexivity]. }
  rewrite RelSh, with_slots_sh.
  assert (H: time_ok c (with_slots r (map rel (r_slots r)))).
  { apply tok_with_slots; [exact H0|]. pose proof (to_slots _ _ H0) as S. apply Forall_map. apply Forall_impl with (2 := S).
    intros s Bs. unfold rel. destruct (_ && _); [unfold free_slot; cbn [s_data]|]; exact Bs. }
  assert (MX: nslots (with_slots r (map rel (r_slots r))) = mx) by (unfold nslots, mx; cbn [with_slots r_slots]; rewrite map_length; reflexivity).
  set (ra := with_slots r (map rel (r_slots r))) in *.
  assert (Va: vi (rn ra) idev) by exact Vd.
  rewrite find_free_slot_sh.
  pose proof (ffs_bytes c ra (le3 buf 5) src dst true H) as FB.
  destruct (find_free_slot ra (le3 buf 5) src dst true) as [slots1 idx]. cbn [fst snd] in *.
  rewrite with_slots_sh. pose proof (tok_with_slots c ra slots1 H FB) as H1. set (r1 := with_slots ra slots1) in *.
  assert (V1: vi (rn r1) idev) by exact Va.
  fold mx. destruct (idx =? mx).
  - destruct ((byte buf 0 =? c_TP_CM_RTS) && (idev >=? 0)); [|split; [reflexivity|exact H1]].
    destruct (send_tpcm_abort_sh c r1 (le3 buf 5) src idev c_TP_CM_AbortBusy Hc H1 V1) as [E K]. rewrite E. unfold lift_res.
    destruct (send_tpcm_abort r1 (le3 buf 5) src idev c_TP_CM_AbortBusy) as [r2 ev]. cbn [fst snd] in *. split; [reflexivity|exact K].
  - rewrite shr_rn, shn_pgn. destruct (check_known (n_pgn (rn r1)) (le3 buf 5)) as [[known sys] fast].
    rewrite chk_slot_sh. pose proof (tok_chk_slot c r1 idx H1) as H2. set (r2 := chk_slot r1 idx) in *.
    assert (V2: vi (rn r2) idev) by (unfold r2, chk_slot; destruct (_ && _); exact V1).
    rewrite get_slot_sh, shr_cfg. set (s0 := get_slot r2 idx). ssp_rw c s0.
    cbn [s_free s_ready s_known s_system s_pri s_pgn s_src s_dst s_tp s_len s_data s_last s_tpmax s_tpreq].
    destruct ((byte buf 1 + 256 * byte buf 2 <=? c_MaxDataLen) && (known || negb (c_only_known (r_cfg r2)))).
    + rewrite shr_now32. unfold now32 at 2 3 4. rewrite slot_now_sh. fold (now32 r2). rewrite set_slot_sh.
      match goal with |- context [set_slot r2 idx ?s] => set (s2 := s) end.
      pose proof (tok_set_slot c r2 idx s2 H2 ltac:(unfold s2; cbn [s_data]; constructor)) as H3. set (r3 := set_slot r2 idx s2) in *.
      assert (V3: vi (rn r3) idev) by (apply (vr_static r2 r3); [apply set_slot_st|exact V2]).
      destruct ((byte buf 0 =? c_TP_CM_RTS) && (idev >=? 0)); [|split; [reflexivity|exact H3]].
      destruct (send_tpcm_cts_sh c r3 (le3 buf 5) src idev (byte buf 3) 1 Hc H3 V3) as [E K]. rewrite E. unfold lift_res.
      destruct (send_tpcm_cts r3 (le3 buf 5) src idev (byte buf 3) 1) as [r4 ev]. cbn [fst snd] in *. split; [reflexivity|exact K].
    + rewrite slot_copy_sh, set_slot_sh.
      match goal with |- context [set_slot r2 idx ?s] => set (s1 := s) end.
      pose proof (tok_set_slot c r2 idx s1 H2 (tok_get_slot c r2 idx H2)) as H3. set (r3 := set_slot r2 idx s1) in *.
      assert (V3: vi (rn r3) idev) by (apply (vr_static r2 r3); [apply set_slot_st|exact V2]).
      destruct ((byte buf 0 =? c_TP_CM_RTS) && (idev >=? 0)); [|split; [reflexivity|exact H3]].
      destruct (send_tpcm_abort_sh c r3 (le3 buf 5) src idev c_TP_CM_AbortBusy Hc H3 V3) as [E K]. rewrite E. unfold lift_res.
      destruct (send_tpcm_abort r3 (le3 buf 5) src idev c_TP_CM_AbortBusy) as [r4 ev]. cbn [fst snd] in *. split; [reflexivity|exact K].
Qed.

Lemma range_vi r i : (0 <=? i) && (i <? dev_count (rn r)) = true -> vi (rn r) i.
Proof. intros Hr. apply vi_range. apply andb_true_iff in Hr. destruct Hr as [H1 H2]. apply Z.leb_le in H1. apply Z.ltb_lt in H2. lia. Qed.

Lemma htp_cts_sh c r src dst buf : 0 <= c -> time_ok c r ->
  htp_cts (shift_rnode c r) src dst buf = lift4 c (htp_cts r src dst buf) /\ time_ok c (snd (fst (fst (htp_cts r src dst buf)))).
Proof.
  intros Hc H. unfold htp_cts, lift4. cbv zeta. rewrite shr_nslots, find_source_device_sh.
  set (idev := find_source_device r dst) in *. rewrite shr_rn, shn_count.
  destruct ((0 <=? idev) && (idev <? dev_count (rn r))) eqn:Hr; cbn [negb fst snd]; [|split; [reflexivity|exact H]].
  pose proof (range_vi r idev Hr) as V. rewrite get_dev_sh by exact V. cbn [shift_dev d_tp_msg d_next_dt_seq].
  destruct (d_tp_msg (get_dev (rn r) idev)) as [pm|] eqn:Etp; [|split; [reflexivity|exact H]].
  destruct (m_dst pm =? 255); [split; [reflexivity|exact H]|].
  destruct (negb (m_dst pm =? src)); [split; [reflexivity|exact H]|].
  destruct (end_send_tp_r_sh c r idev Hc H V) as [EE KE].
  destruct (negb (m_pgn pm =? le3 buf 5)); cbn [fst snd]; [rewrite EE; split; [reflexivity|exact KE]|].
  destruct (tok_now _ _ H) as [N1 N2].
  destruct (byte buf 1 >? 0).
  - destruct (negb (byte buf 2 - 1 =? d_next_dt_seq (get_dev (rn r) idev))); cbn [fst snd]; [rewrite EE; split; [reflexivity|exact KE]|].
    destruct (send_tpdt_burst_sh c (Z.to_nat (byte buf 1)) r idev Hc H V) as [E K]. rewrite E. unfold lift_r3.
    pose proof (send_tpdt_burst_st (Z.to_nat (byte buf 1)) r idev) as S.
    destruct (send_tpdt_burst (Z.to_nat (byte buf 1)) r idev) as [[r1 ev] ok]. cbn [fst snd] in *.
    pose proof (vr_static _ _ _ S V) as V1.
    assert (X: (if ok then shift_rnode c r1 else end_send_tp_r (shift_rnode c r1) idev) = shift_rnode c (if ok then r1 else end_send_tp_r r1 idev)
               /\ time_ok c (if ok then r1 else end_send_tp_r r1 idev) /\ vi (rn (if ok then r1 else end_send_tp_r r1 idev)) idev).
    { destruct ok; [split; [reflexivity|split; assumption]|].
      destruct (end_send_tp_r_sh c r1 idev Hc K V1) as [E2 K2]. split; [exact E2|split; [exact K2|]].
      apply (vr_static r1); [apply end_send_tp_r_st|exact V1]. }
    destruct X as (X1 & X2 & X3). rewrite X1. set (r2 := if ok then r1 else end_send_tp_r r1 idev) in *.
    rewrite shr_rn, get_dev_sh by exact X3. cbn [shift_dev d_tp_msg d_next_dt_seq].
    rewrite shr_w64, shr_now, (tok_w64 c r2 X2). destruct (tok_now _ _ X2) as [M1 M2].
    destruct (from_now_sh c (now r2) 100 Hc M1 M2 ltac:(change (2^32) with 4294967296; lia)) as [F1 F2]. rewrite F1.
    destruct (set_dev_tp_sh c r2 idev (d_tp_msg (get_dev (rn r2) idev)) (sched_from_now true (now r2) 100) (d_next_dt_seq (get_dev (rn r2) idev)) Hc X2 X3 F2) as [E3 K3].
    rewrite E3. split; [reflexivity|exact K3].
  - rewrite shr_w64, shr_now, (tok_w64 c r H).
    destruct (from_now_sh c (now r) 100 Hc N1 N2 ltac:(change (2^32) with 4294967296; lia)) as [F1 F2]. rewrite F1.
    destruct (set_dev_tp_sh c r idev (Some pm) (sched_from_now true (now r) 100) (d_next_dt_seq (get_dev (rn r) idev)) Hc H V F2) as [E3 K3].
    cbn [fst snd]. rewrite E3. split; [reflexivity|exact K3].
Qed.

Lemma htp_ack_sh c r src dst : 0 <= c -> time_ok c r ->
  htp_ack (shift_rnode c r) src dst = lift4 c (htp_ack r src dst) /\ time_ok c (snd (fst (fst (htp_ack r src dst)))).
Proof.
  intros Hc H. unfold htp_ack, lift4. cbv zeta. rewrite shr_nslots, find_source_device_sh.
  set (idev := find_source_device r dst) in *. rewrite shr_rn, shn_count.
  destruct ((0 <=? idev) && (idev <? dev_count (rn r))) eqn:Hr; cbn [negb fst snd]; [|split; [reflexivity|exact H]].
  pose proof (range_vi r idev Hr) as V. rewrite get_dev_sh by exact V. cbn [shift_dev d_tp_msg].
  destruct (d_tp_msg (get_dev (rn r) idev)) as [pm|]; [|split; [reflexivity|exact H]].
  destruct ((m_dst pm =? 255) || negb (m_dst pm =? src)); cbn [fst snd]; [split; [reflexivity|exact H]|].
  destruct (end_send_tp_r_sh c r idev Hc H V) as [EE KE]. rewrite EE. split; [reflexivity|exact KE].
Qed.

Lemma htp_dt_sh c r src dst len buf : 0 <= c -> time_ok c r -> byte_list buf ->
  htp_dt (shift_rnode c r) src dst len buf = lift4 c (htp_dt r src dst len buf) /\ time_ok c (snd (fst (fst (htp_dt r src dst len buf)))).
Proof.
  intros Hc H HB. unfold htp_dt, lift4. cbv zeta. rewrite shr_nslots, find_source_device_sh, shr_slots, find_tp_slot_sh.
  pose proof (find_source_device_vi c r dst H) as Vd. set (idev := find_source_device r dst) in *.
  set (idx := find_tp_slot (r_slots r) src dst 0).
  destruct (idx <? nslots r); cbn [fst snd]; [|split; [reflexivity|exact H]].
  rewrite chk_slot_sh. pose proof (tok_chk_slot c r idx H) as H2. set (r2 := chk_slot r idx) in *.
  assert (V2: vi (rn r2) idev) by (unfold r2, chk_slot; destruct (_ && _); exact Vd).
  rewrite get_slot_sh. set (s := get_slot r2 idx). ssp_rw c s.
  pose proof (tok_get_slot c r2 idx H2) as SB. fold s in SB.
  cbn [s_free s_ready s_known s_system s_pri s_pgn s_src s_dst s_tp s_len s_data s_last s_tpmax s_tpreq s_time].
  destruct (s_last s + 1 =? byte buf 0).
  - set (data' := copy_buf (s_data s) 1 len buf).
    assert (DB: byte_list data') by (apply byte_list_copy_buf; assumption).
    rewrite shr_now32. unfold now32. rewrite !slot_now_sh. fold (now32 r2).
    destruct (Z.of_nat (length data') >=? s_len s).
    + rewrite set_slot_sh.
      match goal with |- context [set_slot r2 idx ?x] => set (s2 := x) end.
      pose proof (tok_set_slot c r2 idx s2 H2 DB) as H3. set (r3 := set_slot r2 idx s2) in *.
      assert (V3: vi (rn r3) idev) by (apply (vr_static r2 r3); [apply set_slot_st|exact V2]).
      destruct ((s_tpreq s >? 0) && (idev >=? 0)); cbn [fst snd]; [|split; [reflexivity|exact H3]].
      destruct (send_tpcm_endack_sh c r3 (s_pgn s) src idev (s_len s) (byte buf 0) Hc H3 V3) as [E K]. rewrite E. unfold lift_res.
      destruct (send_tpcm_endack r3 (s_pgn s) src idev (s_len s) (byte buf 0)) as [r4 ev]. cbn [fst snd] in *. split; [reflexivity|exact K].
    + rewrite set_slot_sh.
      match goal with |- context [set_slot r2 idx ?x] => set (s1 := x) end.
      pose proof (tok_set_slot c r2 idx s1 H2 DB) as H3. set (r3 := set_slot r2 idx s1) in *.
      assert (V3: vi (rn r3) idev) by (apply (vr_static r2 r3); [apply set_slot_st|exact V2]).
      destruct ((s_tpreq s >? 0) && (idev >=? 0) && (byte buf 0 mod s_tpreq s =? 0)); cbn [fst snd]; [|split; [reflexivity|exact H3]].
      destruct (send_tpcm_cts_sh c r3 (s_pgn s) src idev (s_tpmax s) (byte buf 0 + 1) Hc H3 V3) as [E K]. rewrite E. unfold lift_res.
      destruct (send_tpcm_cts r3 (s_pgn s) src idev (s_tpmax s) (byte buf 0 + 1)) as [r4 ev]. cbn [fst snd] in *. split; [reflexivity|exact K].
  - assert (X: (if (s_tpreq s >? 0) && (idev >=? 0) then send_tpcm_abort (shift_rnode c r2) (s_pgn s) src idev c_TP_CM_AbortTimeout else (shift_rnode c r2, []))
               = lift_res c (if (s_tpreq s >? 0) && (idev >=? 0) then send_tpcm_abort r2 (s_pgn s) src idev c_TP_CM_AbortTimeout else (r2, []))
               /\ time_ok c (fst (if (s_tpreq s >? 0) && (idev >=? 0) then send_tpcm_abort r2 (s_pgn s) src idev c_TP_CM_AbortTimeout else (r2, [])))).
    { destruct ((s_tpreq s >? 0) && (idev >=? 0)); [apply send_tpcm_abort_sh; assumption|split; [reflexivity|exact H2]]. }
    destruct X as [X1 X2]. rewrite X1. unfold lift_res.
    destruct (if (s_tpreq s >? 0) && (idev >=? 0) then send_tpcm_abort r2 (s_pgn s) src idev c_TP_CM_AbortTimeout else (r2, [])) as [r3 ev]. cbn [fst snd] in *.
    rewrite get_slot_sh, free_shift_slot, set_slot_sh. split; [reflexivity|].
    apply tok_set_slot; [exact X2|]. unfold free_slot. cbn [s_data]. apply tok_get_slot with (c := c). exact X2.
Qed.

Lemma handle_tp_sh c r pgn src dst len buf : 0 <= c -> time_ok c r -> byte_list buf ->
  handle_tp (shift_rnode c r) pgn src dst len buf = lift4 c (handle_tp r pgn src dst len buf) /\
  time_ok c (snd (fst (fst (handle_tp r pgn src dst len buf)))).
Proof.
  intros Hc H HB. rewrite !handle_tp_split. cbv zeta.
  destruct (pgn =? c_TP_CM).
  - destruct ((byte buf 0 =? c_TP_CM_BAM) || (byte buf 0 =? c_TP_CM_RTS)); [apply htp_rts_sh; assumption|].
    destruct (byte buf 0 =? c_TP_CM_CTS); [apply htp_cts_sh; assumption|].
    destruct ((byte buf 0 =? c_TP_CM_ACK) || (byte buf 0 =? c_TP_CM_Abort)); [apply htp_ack_sh; assumption|].
    unfold lift4. cbn [fst snd]. rewrite shr_nslots. split; [reflexivity|exact H].
  - destruct (pgn =? c_TP_DT); [apply htp_dt_sh; assumption|].
    unfold lift4. cbn [fst snd]. rewrite shr_nslots. split; [reflexivity|exact H].
Qed.

(* ---------- SetN2kCANBufMsg ---------- *)
Lemma mark_ready_sh c r idx : time_ok c r ->
  mark_ready (shift_rnode c r) idx = (shift_rnode c (fst (mark_ready r idx)), snd (mark_ready r idx)) /\ time_ok c (fst (mark_ready r idx)).
Proof.
  intros H. unfold mark_ready. cbn [fst snd]. rewrite chk_slot_sh. pose proof (tok_chk_slot c r idx H) as H2. set (r2 := chk_slot r idx) in *.
  rewrite get_slot_sh, shr_nslots. set (s := get_slot r2 idx). ssp_rw c s.
  rewrite slot_copy_sh, set_slot_sh. split; [reflexivity|].
  apply tok_set_slot; [exact H2|]. cbn [s_data]. apply tok_get_slot with (c := c). exact H2.
Qed.

Lemma rx_frame_sh c r f : 0 <= c -> time_ok c r -> byte_list (r_buf f) ->
  rx_frame (shift_rnode c r) f = lift_r3 c (rx_frame r f) /\ time_ok c (fst (fst (rx_frame r f))).
Proof.
  intros Hc H HB. unfold rx_frame, lift_r3. cbv zeta. rewrite shr_nslots.
  destruct (can_id_to_n2k (r_id f)) as [[[pri pgn] src] dst].
  destruct (handle_tp_sh c r pgn src dst (r_len f) (r_buf f) Hc H HB) as [E K]. rewrite E. unfold lift4.
  destruct (handle_tp r pgn src dst (r_len f) (r_buf f)) as [[[handled r1] ev] idx]. cbn [fst snd] in *.
  destruct handled; [split; [reflexivity|exact K]|].
  rewrite shr_rn, shn_pgn, shr_cfg. destruct (check_known (n_pgn (rn r)) pgn) as [[known sys] fast].
  destruct (negb (known || negb (c_only_known (r_cfg r)))); cbn [fst snd]; [split; [reflexivity|exact H]|].
  destruct (fast && negb (Z.land (byte (r_buf f) 0) 31 =? 0)).
  - rewrite shr_slots, find_cont_sh. set (i := find_cont (r_slots r) pgn src dst 0).
    destruct (i <? nslots r); cbn [fst snd]; [|split; [reflexivity|exact H]].
    rewrite get_slot_sh. set (s := get_slot r i). ssp_rw c s.
    pose proof (tok_get_slot c r i H) as SB. fold s in SB.
    destruct (s_last s + 1 =? byte (r_buf f) 0).
    + rewrite slot_copy_sh, set_slot_sh.
      match goal with |- context [set_slot r i ?x] => set (s1 := x) end.
      assert (H3: time_ok c (set_slot r i s1)) by (apply tok_set_slot; [exact H|]; unfold s1; cbn [s_data]; apply byte_list_copy_buf; assumption).
      destruct (mark_ready_sh c (set_slot r i s1) i H3) as [E2 K2]. rewrite E2.
      destruct (mark_ready (set_slot r i s1) i) as [r3 idx3]. cbn [fst snd] in *. split; [reflexivity|exact K2].
    + cbn [fst snd]. rewrite free_shift_slot, set_slot_sh. split; [reflexivity|].
      apply tok_set_slot; [exact H|]. unfold free_slot. cbn [s_data]. exact SB.
  - rewrite find_free_slot_sh. pose proof (ffs_bytes c r pgn src dst false H) as FB.
    destruct (find_free_slot r pgn src dst false) as [slots1 i]. cbn [fst snd] in *.
    rewrite with_slots_sh. pose proof (tok_with_slots c r slots1 H FB) as H1. set (r1' := with_slots r slots1) in *.
    destruct (i <? nslots r); cbn [fst snd]; [|split; [reflexivity|exact H1]].
    rewrite get_slot_sh. set (s0 := get_slot r1' i). ssp_rw c s0.
    rewrite shr_now32. unfold now32. rewrite slot_now_sh. fold (now32 r1'). rewrite set_slot_sh.
    match goal with |- context [set_slot r1' i ?x] => set (base := x) end.
    assert (H3: time_ok c (set_slot r1' i base)).
    { apply tok_set_slot; [exact H1|]. unfold base. cbn [s_data]. apply byte_list_copy_buf; [constructor|exact HB]. }
    destruct (mark_ready_sh c (set_slot r1' i base) i H3) as [E2 K2]. rewrite E2.
    destruct (mark_ready (set_slot r1' i base) i) as [r3 idx3]. cbn [fst snd] in *. split; [reflexivity|exact K2].
Qed.

(* ---------- address claim ---------- *)
Lemma set_src_sh c r i src u : 0 <= c -> time_ok c r -> vi (rn r) i -> 0 <= src < 256 ->
  set_src (shift_rnode c r) i src u = shift_rnode c (set_src r i src u) /\ time_ok c (set_src r i src u).
Proof.
  intros Hc H V Hs. unfold set_src. rewrite chk_dev_sh. pose proof (tok_chk_dev c r i H) as H1.
  pose proof (vi_chk_dev r i i V) as V1. set (r1 := chk_dev r i) in *.
  pose proof (tok_get_dev c r1 i H1 V1) as (T1 & T2 & T3).
  rewrite shr_rn, get_dev_sh by exact V1. split.
  - rewrite <- with_rn_sh. f_equal. rewrite <- upd_dev_sh; repeat (f_equal; try reflexivity).
  - apply tok_with_rn; [exact H1| |cbn [upd_dev n_devs]; apply zset_length].
    apply nok_upd_dev; [apply tok_nok; exact H1|]. unfold dev_ok. cbn [d_claim_timer d_next_dt_time d_src]. repeat split; assumption || lia.
Qed.
Lemma set_addr_changed_sh c r : time_ok c r ->
  set_addr_changed (shift_rnode c r) = shift_rnode c (set_addr_changed r) /\ time_ok c (set_addr_changed r).
Proof.
  intros H. unfold set_addr_changed. split; [reflexivity|].
  apply tok_with_rn; [exact H| |reflexivity]. destruct (tok_nok c r H) as [A B C D]. constructor; assumption.
Qed.
Lemma same_as_sibling_sh c r i : vi (rn r) i -> same_as_sibling (shift_rnode c r) i = same_as_sibling r i.
Proof.
  intros V. unfold same_as_sibling. rewrite shr_dev_src by exact V. rewrite shr_rn, shn_devs, map_length.
  set (src := dev_src r i). set (idx := map Z.of_nat (seq 0 (length (n_devs (rn r))))).
  generalize idx. induction (n_devs (rn r)) as [|d l IH]; intros [|a idx']; cbn [map combine existsb]; try reflexivity.
  rewrite IH. reflexivity.
Qed.

Lemma next_address_sh c k : forall r i b, 0 <= c -> time_ok c r -> vi (rn r) i ->
  next_address k (shift_rnode c r) i b = shift_rnode c (next_address k r i b) /\ time_ok c (next_address k r i b).
Proof.
  induction k as [|k IH]; intros r i b Hc H V; cbn [next_address]; [split; [reflexivity|exact H]|].
  pose proof (tok_get_dev c r i H V) as (T1 & T2 & T3).
  rewrite shr_rn, get_dev_sh by exact V. cbn [shift_dev d_src d_claim_end].
  set (d := get_dev (rn r) i) in *.
  assert (step: forall s u, 0 <= s < 256 ->
            (if same_as_sibling (set_src (shift_rnode c r) i s u) i then next_address k (set_src (shift_rnode c r) i s u) i b else set_addr_changed (set_src (shift_rnode c r) i s u))
            = shift_rnode c (if same_as_sibling (set_src r i s u) i then next_address k (set_src r i s u) i b else set_addr_changed (set_src r i s u))
            /\ time_ok c (if same_as_sibling (set_src r i s u) i then next_address k (set_src r i s u) i b else set_addr_changed (set_src r i s u))).
  { intros s u Hs. destruct (set_src_sh c r i s u Hc H V Hs) as [E K]. rewrite E.
    assert (V1: vi (rn (set_src r i s u)) i) by (apply (vr_static r); [apply set_src_st|exact V]).
    rewrite same_as_sibling_sh by exact V1.
    destruct (same_as_sibling (set_src r i s u) i); [apply IH; assumption|apply set_addr_changed_sh; exact K]. }
  destruct (d_src d =? c_N2kNullCanBusAddress).
  - destruct b; [apply step; lia|split; [reflexivity|exact H]].
  - destruct (negb (d_src d =? d_claim_end d)).
    + apply step. unfold c_N2kMaxCanBusAddress. destruct (d_src d + 1 >? 251) eqn:G; [lia|]. destruct (Z.gtb_spec (d_src d + 1) 251); [discriminate|lia].
    + destruct (set_src_sh c r i c_N2kNullCanBusAddress false Hc H V ltac:(unfold c_N2kNullCanBusAddress; lia)) as [E K]. rewrite E.
      apply set_addr_changed_sh. exact K.
Qed.

Lemma rstart_claim_sh c r i : 0 <= c -> time_ok c r -> vi (rn r) i ->
  rstart_claim (shift_rnode c r) i = lift_res c (rstart_claim r i) /\ time_ok c (fst (rstart_claim r i)).
Proof.
  intros Hc H V. unfold rstart_claim, lift_res. rewrite chk_dev_sh. pose proof (tok_chk_dev c r i H) as H1.
  pose proof (vi_chk_dev r i i V) as V1. set (r1 := chk_dev r i) in *.
  rewrite shr_rn. destruct (start_address_claim_sh c (rn r1) i Hc (tok_nok c r1 H1) V1) as [E K]. rewrite E. unfold lift2.
  pose proof (start_address_claim_st (rn r1) i) as S.
  destruct (start_address_claim (rn r1) i) as [n' ev]. cbn [fst snd] in *. split; [reflexivity|apply tok_with_rn_st; assumption].
Qed.
Lemma rsend_claim_sh c r dst i : 0 <= c -> time_ok c r ->
  rsend_claim (shift_rnode c r) dst i = lift_res c (rsend_claim r dst i) /\ time_ok c (fst (rsend_claim r dst i)).
Proof.
  intros Hc H. unfold rsend_claim, lift_res. rewrite shr_rn.
  destruct (send_iso_address_claim_sh c (rn r) dst i Hc (tok_nok c r H)) as [E K]. rewrite E. unfold lift2.
  pose proof (send_iso_address_claim_st (rn r) dst i) as S.
  destruct (send_iso_address_claim (rn r) dst i) as [n' ev]. cbn [fst snd] in *. split; [reflexivity|apply tok_with_rn_st; assumption].
Qed.
Lemma set_name_sh c r i nm : 0 <= c -> time_ok c r -> vi (rn r) i ->
  set_name (shift_rnode c r) i nm = shift_rnode c (set_name r i nm) /\ time_ok c (set_name r i nm).
Proof.
  intros Hc H V. unfold set_name. rewrite chk_dev_sh. pose proof (tok_chk_dev c r i H) as H1.
  pose proof (vi_chk_dev r i i V) as V1. set (r1 := chk_dev r i) in *.
  pose proof (tok_get_dev c r1 i H1 V1) as (T1 & T2 & T3).
  rewrite shr_rn, get_dev_sh by exact V1. split.
  - rewrite <- with_rn_sh. f_equal. rewrite <- upd_dev_sh; repeat (f_equal; try reflexivity).
  - apply tok_with_rn; [exact H1| |cbn [upd_dev n_devs]; apply zset_length].
    apply nok_upd_dev; [apply tok_nok; exact H1|]. unfold dev_ok. cbn [d_claim_timer d_next_dt_time d_src]. repeat split; assumption || lia.
Qed.

Lemma handle_claim_sh c r src data : 0 <= c -> time_ok c r ->
  handle_claim (shift_rnode c r) src data = lift_res c (handle_claim r src data) /\ time_ok c (fst (handle_claim r src data)).
Proof.
  intros Hc H. unfold handle_claim. cbv zeta. rewrite find_source_device_sh.
  pose proof (find_source_device_vi c r src H) as V. set (i := find_source_device r src) in *.
  destruct ((src =? c_N2kNullCanBusAddress) || (i =? -1)); [unfold lift_res; split; [reflexivity|exact H]|].
  rewrite chk_dev_sh. pose proof (tok_chk_dev c r i H) as H1. pose proof (vi_chk_dev r i i V) as V1. set (r1 := chk_dev r i) in *.
  rewrite shr_rn, get_dev_sh by exact V1. cbn [shift_dev d_name].
  destruct (d_name (get_dev (rn r1) i) <? (if 8 <=? Z.of_nat (length data) then of_le8 data else 2 ^ 64 - 1)); [apply rsend_claim_sh; assumption|].
  destruct (claim_started_sh c (rn r1) i Hc (tok_nok c r1 H1) V1) as [E K]. rewrite E.
  pose proof (claim_started_st (rn r1) i) as S.
  destruct (claim_started (rn r1) i) as [n1 started]. cbn [fst snd] in *.
  set (eqn := d_name (get_dev (rn r1) i) =? (if 8 <=? Z.of_nat (length data) then of_le8 data else 2 ^ 64 - 1)).
  assert (X: (if eqn then with_rn (shift_rnode c r1) (shift_node c n1) else shift_rnode c r1) = shift_rnode c (if eqn then with_rn r1 n1 else r1)
             /\ time_ok c (if eqn then with_rn r1 n1 else r1) /\ vi (rn (if eqn then with_rn r1 n1 else r1)) i).
  { destruct eqn; [split; [reflexivity|split; [apply tok_with_rn_st; assumption|apply (vi_static _ _ _ S V1)]]|split; [reflexivity|split; assumption]]. }
  destruct X as (X1 & X2 & X3). rewrite X1. set (r2 := if eqn then with_rn r1 n1 else r1) in *.
  destruct (eqn && started).
  - destruct (set_name_sh c r2 i (bump_instance (d_name (get_dev (rn r1) i))) Hc X2 X3) as [E2 K2]. rewrite E2, with_dic_sh.
    apply rstart_claim_sh; [exact Hc|apply tok_dic; exact K2|].
    apply (vr_static r2); [|exact X3]. eapply rstatic_trans; [apply set_name_st|]. unfold rstatic, nstatic. cbn. repeat split.
  - destruct (next_address_sh c 300 r2 i false Hc X2 X3) as [E2 K2]. rewrite E2.
    apply rstart_claim_sh; [exact Hc|exact K2|]. apply (vr_static r2); [apply next_address_st|exact X3].
Qed.

Lemma lift_res_pair c r ev : lift_res c (r, ev) = (shift_rnode c r, ev).  Proof. reflexivity. Qed.

(* ---------- commanded address ---------- *)
Lemma commanded_one_sh c r nm na i : 0 <= c -> time_ok c r -> vi (rn r) i -> 0 <= na < 256 ->
  commanded_one (shift_rnode c r) nm na i = lift_res c (commanded_one r nm na i) /\ time_ok c (fst (commanded_one r nm na i)).
Proof.
  intros Hc H V Hna. unfold commanded_one. rewrite chk_dev_sh. pose proof (tok_chk_dev c r i H) as H1.
  pose proof (vi_chk_dev r i i V) as V1. set (r1 := chk_dev r i) in *.
  destruct (na =? 255); [split; [reflexivity|exact H1]|].
  rewrite shr_rn, get_dev_sh by exact V1. cbn [shift_dev d_name d_src].
  destruct ((d_name (get_dev (rn r1) i) =? nm) && negb (d_src (get_dev (rn r1) i) =? na)); [|split; [reflexivity|exact H1]].
  destruct (set_src_sh c r1 i na true Hc H1 V1 Hna) as [E K]. rewrite E.
  assert (V2: vi (rn (set_src r1 i na true)) i) by (apply (vr_static r1); [apply set_src_st|exact V1]).
  destruct (rstart_claim_sh c (set_src r1 i na true) i Hc K V2) as [E2 K2]. rewrite E2. unfold lift_res.
  destruct (rstart_claim (set_src r1 i na true) i) as [r2 ev]. cbn [fst snd] in *.
  destruct (set_addr_changed_sh c r2 K2) as [E3 K3]. rewrite E3. split; [reflexivity|exact K3].
Qed.
Lemma commanded_all_sh c k : forall r nm na i, 0 <= c -> time_ok c r -> 0 <= i -> i + Z.of_nat k <= dev_count (rn r) -> 0 <= na < 256 ->
  commanded_all k (shift_rnode c r) nm na i = lift_res c (commanded_all k r nm na i) /\ time_ok c (fst (commanded_all k r nm na i)).
Proof.
  induction k as [|k IH]; intros r nm na i Hc H Hi Hk Hna; cbn [commanded_all]; [split; [reflexivity|exact H]|].
  rewrite Nat2Z.inj_succ in Hk.
  assert (V: vi (rn r) i) by (apply vi_range; lia).
  destruct (commanded_one_sh c r nm na i Hc H V Hna) as [E K]. rewrite E. unfold lift_res at 1.
  pose proof (commanded_one_st r nm na i) as S.
  destruct (commanded_one r nm na i) as [r1 ev1]. cbn [fst snd] in *.
  assert (Hk1: i + 1 + Z.of_nat k <= dev_count (rn r1)).
  { destruct S as [(_ & _ & _ & _ & _ & L) _]. unfold dev_count in *. rewrite L. lia. }
  destruct (IH r1 nm na (i + 1) Hc K ltac:(lia) Hk1 Hna) as [E2 K2]. rewrite E2. unfold lift_res.
  destruct (commanded_all k r1 nm na (i + 1)) as [r2 ev2]. cbn [fst snd] in *. split; [reflexivity|exact K2].
Qed.
Lemma nth_byte l k d : byte_list l -> 0 <= d < 256 -> 0 <= nth k l d < 256.
Proof.
  intros B D. destruct (Nat.lt_ge_cases k (length l)) as [L|L].
  - unfold byte_list in B. rewrite Forall_forall in B. apply B. apply nth_In. exact L.
  - rewrite nth_overflow by exact L. exact D.
Qed.
Lemma handle_commanded_sh c r s : 0 <= c -> time_ok c r -> byte_list (s_data s) ->
  handle_commanded (shift_rnode c r) (shift_slot c s) = lift_res c (handle_commanded r s) /\ time_ok c (fst (handle_commanded r s)).
Proof.
  intros Hc H HB. unfold handle_commanded. cbv zeta. ssp_rw c s. rewrite find_source_device_sh.
  destruct (negb ((s_pgn s =? 65240) && s_tp s && (s_len s =? 9))); [split; [reflexivity|exact H]|].
  pose proof (find_source_device_vi c r (s_dst s) H) as V. set (i := find_source_device r (s_dst s)) in *.
  destruct (negb (s_dst s =? 255) && (i =? -1)); [split; [reflexivity|exact H]|].
  pose proof (nth_byte (s_data s) 8 255 HB ltac:(lia)) as NB.
  destruct (nth 8 (s_data s) 255 >=? 252); [split; [reflexivity|exact H]|].
  rewrite shr_rn, shn_devs, map_length.
  destruct (i =? -1).
  - apply commanded_all_sh; try assumption; [lia|unfold dev_count; lia].
  - apply commanded_one_sh; assumption.
Qed.

(* ---------- ISO request ---------- *)
Lemma pend_sched_sh c r src mul : 0 <= c -> time_ok c r -> 0 <= src < 256 -> 0 <= mul <= 10 ->
  pend_sched (shift_rnode c r) src mul = sh64 c (pend_sched r src mul) /\ tbc c (pend_sched r src mul).
Proof.
  intros Hc H Hs Hm. unfold pend_sched. rewrite shr_w64, shr_now, (tok_w64 c r H). destruct (tok_now _ _ H) as [N1 N2].
  apply from_now_sh; try assumption. change (2^32) with 4294967296. nia.
Qed.
Lemma set_pending_sh c r i a b d : 0 <= c -> time_ok c r -> vi (rn r) i -> tbc c a -> tbc c b -> tbc c d ->
  set_pending (shift_rnode c r) i (sh64 c a) (sh64 c b) (sh64 c d) = shift_rnode c (set_pending r i a b d) /\ time_ok c (set_pending r i a b d).
Proof.
  intros Hc H V Ta Tb Td. unfold set_pending. rewrite chk_dev_sh. pose proof (tok_chk_dev c r i H) as H1.
  pose proof (vi_chk_dev r i i V) as V1. set (r1 := chk_dev r i) in *.
  pose proof (tok_get_devx c r1 i H1 V1) as (X1 & X2 & X3 & X4 & X5 & X6).
  rewrite get_devx_sh by (apply (tok_vx c); assumption). split.
  - rewrite <- with_devx_sh. f_equal.
  - apply tok_with_devx; [exact H1|]. unfold devx_ok. cbn [x_pend_claim x_pend_prod x_pend_conf x_hb]. repeat split; assumption || lia.
Qed.
Lemma dev_src_byte c r i : time_ok c r -> vi (rn r) i -> 0 <= dev_src r i < 256.
Proof. intros H V. destruct (tok_get_dev c r i H V) as (_ & _ & T). exact T. Qed.

Lemma send_product_info_sh c r i : 0 <= c -> time_ok c r -> vi (rn r) i ->
  send_product_info (shift_rnode c r) i = lift_res c (send_product_info r i) /\ time_ok c (fst (send_product_info r i)).
Proof.
  intros Hc H V. unfold send_product_info. rewrite chk_dev_sh. pose proof (tok_chk_dev c r i H) as H1.
  pose proof (vi_chk_dev r i i V) as V1. set (r1 := chk_dev r i) in *.
  rewrite shr_dev_src by exact V1. rewrite shr_cfg.
  match goal with |- context [rsend r1 ?m i] => set (m0 := m) end.
  destruct (rsend_sh c r1 m0 i Hc H1) as [E K]. rewrite E. unfold lift_r3, lift_res.
  pose proof (rsend_st r1 m0 i) as S.
  destruct (rsend r1 m0 i) as [[r2 ev] ok]. cbn [fst snd] in *.
  pose proof (vr_static _ _ _ S V1) as V2.
  pose proof (tok_get_devx c r2 i K V2) as (X1 & X2 & X3 & X4 & X5 & X6).
  rewrite get_devx_sh by (apply (tok_vx c); assumption). cbn [shift_devx x_pend_claim x_pend_conf].
  rewrite shr_w64, (tok_w64 c r2 K), shr_dev_src by exact V2.
  destruct (pend_sched_sh c r2 (dev_src r2 i) 8 Hc K (dev_src_byte c r2 i K V2) ltac:(lia)) as [P1 P2]. rewrite P1.
  assert (Y: (if ok then sched_disabled true else sh64 c (pend_sched r2 (dev_src r2 i) 8)) = sh64 c (if ok then sched_disabled true else pend_sched r2 (dev_src r2 i) 8)
             /\ tbc c (if ok then sched_disabled true else pend_sched r2 (dev_src r2 i) 8)).
  { destruct ok; [rewrite dis64, sh64_dis; split; [reflexivity|apply tbc_dis]|split; [reflexivity|exact P2]]. }
  destruct Y as [Y1 Y2]. rewrite Y1.
  destruct (set_pending_sh c r2 i (x_pend_claim (get_devx r2 i)) _ (x_pend_conf (get_devx r2 i)) Hc K V2 X1 Y2 X3) as [E3 K3].
  rewrite E3. split; [reflexivity|exact K3].
Qed.
Lemma send_config_info_sh c r i : 0 <= c -> time_ok c r -> vi (rn r) i ->
  send_config_info (shift_rnode c r) i = lift_res c (send_config_info r i) /\ time_ok c (fst (send_config_info r i)).
Proof.
  intros Hc H V. unfold send_config_info. rewrite chk_dev_sh. pose proof (tok_chk_dev c r i H) as H1.
  pose proof (vi_chk_dev r i i V) as V1. set (r1 := chk_dev r i) in *.
  rewrite shr_dev_src by exact V1. rewrite shr_cfg.
  match goal with |- context [rsend r1 ?m i] => set (m0 := m) end.
  destruct (rsend_sh c r1 m0 i Hc H1) as [E K]. rewrite E. unfold lift_r3, lift_res.
  pose proof (rsend_st r1 m0 i) as S.
  destruct (rsend r1 m0 i) as [[r2 ev] ok]. cbn [fst snd] in *.
  pose proof (vr_static _ _ _ S V1) as V2.
  pose proof (tok_get_devx c r2 i K V2) as (X1 & X2 & X3 & X4 & X5 & X6).
  rewrite get_devx_sh by (apply (tok_vx c); assumption). cbn [shift_devx x_pend_claim x_pend_prod].
  rewrite shr_w64, (tok_w64 c r2 K), shr_dev_src by exact V2.
  destruct (pend_sched_sh c r2 (dev_src r2 i) 10 Hc K (dev_src_byte c r2 i K V2) ltac:(lia)) as [P1 P2]. rewrite P1.
  assert (Y: (if ok then sched_disabled true else sh64 c (pend_sched r2 (dev_src r2 i) 10)) = sh64 c (if ok then sched_disabled true else pend_sched r2 (dev_src r2 i) 10)
             /\ tbc c (if ok then sched_disabled true else pend_sched r2 (dev_src r2 i) 10)).
  { destruct ok; [rewrite dis64, sh64_dis; split; [reflexivity|apply tbc_dis]|split; [reflexivity|exact P2]]. }
  destruct Y as [Y1 Y2]. rewrite Y1.
  destruct (set_pending_sh c r2 i (x_pend_claim (get_devx r2 i)) (x_pend_prod (get_devx r2 i)) _ Hc K V2 X1 X2 Y2) as [E3 K3].
  rewrite E3. split; [reflexivity|exact K3].
Qed.

Lemma pgn_list_msg_sh c r i dst w df app : vi (rn r) i -> pgn_list_msg (shift_rnode c r) i dst w df app = pgn_list_msg r i dst w df app.
Proof. intros V. unfold pgn_list_msg. rewrite shr_dev_src by exact V. reflexivity. Qed.

Lemma respond_iso_request_sh c r rq ad p i : 0 <= c -> time_ok c r -> vi (rn r) i ->
  respond_iso_request (shift_rnode c r) rq ad p i = lift_res c (respond_iso_request r rq ad p i) /\ time_ok c (fst (respond_iso_request r rq ad p i)).
Proof.
  intros Hc H V. unfold respond_iso_request. rewrite chk_dev_sh. pose proof (tok_chk_dev c r i H) as H1.
  pose proof (vi_chk_dev r i i V) as V1. set (r1 := chk_dev r i) in *.
  rewrite shr_rn. destruct (claim_started_sh c (rn r1) i Hc (tok_nok c r1 H1) V1) as [E K]. rewrite E.
  pose proof (claim_started_st (rn r1) i) as S.
  destruct (claim_started (rn r1) i) as [n1 started]. cbn [fst snd] in *.
  rewrite with_rn_sh. pose proof (tok_with_rn_st c r1 n1 H1 K S) as H2. set (r2 := with_rn r1 n1) in *.
  assert (V2: vi (rn r2) i) by (apply (vi_static _ _ _ S V1)).
  destruct started; [split; [reflexivity|exact H2]|].
  destruct (p =? 60928); [apply rsend_claim_sh; assumption|].
  destruct (p =? 126464).
  - rewrite pgn_list_msg_sh by exact V2. rewrite shr_rn, get_dev_sh by exact V2. cbn [shift_dev d_tx].
    match goal with |- context [rsend r2 ?m i] => set (m1 := m) end.
    destruct (rsend_sh c r2 m1 i Hc H2) as [E1 K1]. rewrite E1. unfold lift_r3.
    pose proof (rsend_st r2 m1 i) as S1.
    destruct (rsend r2 m1 i) as [[r3 ev1] ok1]. cbn [fst snd] in *.
    pose proof (vr_static _ _ _ S1 V2) as V3.
    rewrite pgn_list_msg_sh by exact V3. rewrite get_devx_sh by (apply (tok_vx c); assumption). cbn [shift_devx x_rx].
    match goal with |- context [rsend r3 ?m i] => set (m2 := m) end.
    destruct (rsend_sh c r3 m2 i Hc K1) as [E2 K2]. rewrite E2. unfold lift_r3, lift_res.
    destruct (rsend r3 m2 i) as [[r4 ev2] ok2]. cbn [fst snd] in *. split; [reflexivity|exact K2].
  - destruct (p =? 126996); [apply send_product_info_sh; assumption|].
    destruct (p =? 126998).
    { rewrite shr_cfg. destruct (c_confinfo (r_cfg r2)); [|apply send_config_info_sh; assumption].
      destruct ad; [|split; [reflexivity|exact H2]].
      match goal with |- context [rsend r2 ?m i] => set (m1 := m) end.
      destruct (rsend_sh c r2 m1 i Hc H2) as [E1 K1]. rewrite E1. unfold lift_r3, lift_res.
      destruct (rsend r2 m1 i) as [[r3 ev1] ok1]. cbn [fst snd] in *. split; [reflexivity|exact K1]. }
    rewrite shr_cfg.
    destruct (match c_iso_handler (r_cfg r2) with Some acc => if negb ad && is_ignore_broadcast_iso_request p then None else Some (existsb (Z.eqb p) acc) | None => Some false end) as [[|]|];
      try (split; [reflexivity|exact H2]).
    destruct ad; [|split; [reflexivity|exact H2]].
    match goal with |- context [rsend r2 ?m i] => set (m1 := m) end.
    destruct (rsend_sh c r2 m1 i Hc H2) as [E1 K1]. rewrite E1. unfold lift_r3, lift_res.
    destruct (rsend r2 m1 i) as [[r3 ev1] ok1]. cbn [fst snd] in *. split; [reflexivity|exact K1].
Qed.

Lemma respond_all_sh c k : forall r rq p i, 0 <= c -> time_ok c r -> 0 <= i -> i + Z.of_nat k <= dev_count (rn r) ->
  respond_all k (shift_rnode c r) rq p i = lift_res c (respond_all k r rq p i) /\ time_ok c (fst (respond_all k r rq p i)).
Proof.
  induction k as [|k IH]; intros r rq p i Hc H Hi Hk; cbn [respond_all]; [split; [reflexivity|exact H]|].
  rewrite Nat2Z.inj_succ in Hk.
  assert (V: vi (rn r) i) by (apply vi_range; lia).
  destruct (respond_iso_request_sh c r rq false p i Hc H V) as [E K]. rewrite E. unfold lift_res at 1.
  pose proof (respond_iso_request_st r rq false p i) as S.
  destruct (respond_iso_request r rq false p i) as [r1 ev1]. cbn [fst snd] in *.
  assert (Hk1: i + 1 + Z.of_nat k <= dev_count (rn r1)).
  { destruct S as [(_ & _ & _ & _ & _ & L) _]. unfold dev_count in *. rewrite L. lia. }
  destruct (IH r1 rq p (i + 1) Hc K ltac:(lia) Hk1) as [E2 K2]. rewrite E2. unfold lift_res.
  destruct (respond_all k r1 rq p (i + 1)) as [r2 ev2]. cbn [fst snd] in *. split; [reflexivity|exact K2].
Qed.

Lemma handle_iso_request_sh c r s : 0 <= c -> time_ok c r ->
  handle_iso_request (shift_rnode c r) (shift_slot c s) = lift_res c (handle_iso_request r s) /\ time_ok c (fst (handle_iso_request r s)).
Proof.
  intros Hc H. unfold handle_iso_request. cbv zeta. ssp_rw c s. rewrite find_source_device_sh.
  pose proof (find_source_device_vi c r (s_dst s) H) as V. set (i := find_source_device r (s_dst s)) in *.
  destruct (negb (s_dst s =? 255) && (i =? -1)); [split; [reflexivity|exact H]|].
  rewrite shr_rn, shn_devs, map_length.
  destruct (s_dst s =? 255).
  - apply respond_all_sh; try assumption; [lia|unfold dev_count; lia].
  - apply respond_iso_request_sh; assumption.
Qed.
