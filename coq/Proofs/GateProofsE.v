From Coq Require Import ZArith List Bool Lia.
From N2kV Require Import Base.ListAux Model.CanId Model.Sched Model.PgnClass Model.NodeDefs Model.NodeRxDefs Gen.GenTables Gen.GenConsts
  Spec.SendSpec Spec.GateSpec Proofs.SendProofs Proofs.QueueProofs Proofs.GateProofsA Proofs.GateProofsB Proofs.GateProofsC Proofs.GateProofsD.
Import ListNotations.
Local Open Scope Z_scope.

(* C04, part E: the wire level during a claim window (with the queue hypothesis), its refutation without it (D-05). *)

(* the receiver reads the source address of an identifier from its low byte *)
Lemma src_of_low id : src_of id = id mod 256.
Proof. unfold src_of, can_id_to_n2k, u8. destruct (_ <? 240); reflexivity. Qed.

Lemma low_lor a b : Z.lor a b mod 256 = Z.lor (a mod 256) (b mod 256).
Proof. rewrite <- !land255. apply Z.land_lor_distr_l. Qed.
Lemma low_shl8 x : Z.shiftl x 8 mod 256 = 0.
Proof. rewrite Z.shiftl_mul_pow2 by lia. change (2^8) with 256. apply Z_mod_mult. Qed.
Lemma low_shl26 x : Z.shiftl x 26 mod 256 = 0.
Proof. rewrite Z.shiftl_mul_pow2 by lia. change (2^26) with (262144 * 256). rewrite Z.mul_assoc. apply Z_mod_mult. Qed.

Lemma src_of_to_can_id pri pgn src dst : to_can_id pri pgn src dst <> 0 -> 0 <= src < 256 -> src_of (to_can_id pri pgn src dst) = src.
Proof.
  intros Hnz Hs. rewrite src_of_low. unfold to_can_id in *. destruct (_ <? 240).
  - destruct (negb _); [contradiction Hnz; reflexivity|].
    rewrite !low_lor, low_shl26, !low_shl8. cbn [Z.lor]. apply Z.mod_small, Hs.
  - rewrite !low_lor, low_shl26, low_shl8. cbn [Z.lor]. apply Z.mod_small, Hs.
Qed.

Theorem wire_level : wire_level_stmt.
Proof.
  intros gf Hgf r o r' ev i H Henv Hfwd Hclk W O M Haddr Hi Hp Hdist HQ.
  destruct (produced_frames_entitled gf Hgf r o r' ev H Henv Hclk) as (p & R). rewrite Hfwd in R.
  destruct (run_start _ _ _ _ _ R W O M) as (_ & _ & P & T & Q).
  assert (Hprod: forall id, In id p -> src_of id = d_src (get_dev (rn r) i) -> is_claim_id id).
  { intros id Hin Hsrc. destruct (P id Hin) as (pri & pgn & src & dst & j & E1 & E2 & E3 & E4).
    destruct (Z.eq_dec pgn 60928) as [->|Hn]; [exists pri, src, dst; exact E1|]. exfalso.
    destruct (E4 Hn) as (Pj & S & [[Dj Sj]|[C _]]); [|discriminate].
    rewrite E1 in Hsrc. rewrite src_of_to_can_id in Hsrc; [|rewrite <- E1; exact E2|rewrite Sj; apply Haddr].
    apply (Hdist j Dj Pj). congruence. }
  split; intros id Hin Hsrc.
  - destruct (T id Hin) as [L|L]; [apply HQ; assumption|apply Hprod; assumption].
  - destruct (Q id Hin) as [L|L]; [apply HQ; assumption|apply Hprod; assumption].
Qed.
Print Assumptions wire_level.

(* ================= D-05: without the hypothesis on the queue the wire-level statement fails ================= *)
Definition d05_name : Z := 13849079829268463617.     (* 0xc0328200ffc00001, the NAME of the harness' device 0 *)
Definition d05_cfg : rcfg :=
  {| c_only_known := false; c_iso_handler := None; c_prodinfo := []; c_confinfo := []; c_hb_on := false;
     c_inst1 := []; c_inst2 := []; c_manuf := []; c_inst_changed := false |}.
Definition d05_node : rnode :=
  {| rn := opened_node true 1 5000 4 no_lists [mk_dev true 30 d05_name []];
     rx_dev := [cold_devx true []]; r_slots := repeat slot0 5; r_q := []; r_cfg := d05_cfg;
     r_open_sched := sched_disabled true; r_sync := 0; r_devinfo_changed := false; r_oob := false; r_clk := (0, 0) |}.
Definition d05_ops : list rop :=
  [ RBase (OAccept [false; false; false]);
    RBase (OSend 0 {| m_pri := 3; m_pgn := 127250; m_src := 0; m_dst := 255; m_data := [1;2;3;4;5;6;7;8]; m_tp := false |});
    RRx {| r_id := 418316062; r_len := 8; r_buf := [0;0;0;0;0;0;0;0] |};      (* 0x18eeff1e: PGN 60928 from address 30, NAME 0 *)
    RPoll;
    RBase (OTick 100);
    RPoll ].

Theorem wire_level_refuted : wire_level_refuted_stmt.
Proof.
  exists d05_node, d05_ops, 233902622, 8, [1;2;3;4;5;6;7;8].     (* 0xdf1121e: priority 3, PGN 127250, source 30 *)
  vm_compute. repeat split; auto.
Qed.
Print Assumptions wire_level_refuted.
