From Coq Require Import ZArith List Bool Lia.
From N2kV Require Import Base.ListAux Model.NodeDefs Model.NodeRxDefs Model.GroupFnDefs Model.ConfInfoDefs Gen.GenConsts Spec.IsoSpec Spec.GroupFnSpec
  Spec.ConfInfoSpec Proofs.GroupFnProofsG.
Import ListNotations.
Local Open Scope Z_scope.

Lemma set_char_buf_71 s : set_char_buf s c_Max_N2kConfigurationInfoField_len = firstn 70 s.
Proof. reflexivity. Qed.

Lemma set_char_buf_manuf s :
  set_char_buf s (Z.min (Z.of_nat (length s) + 1) c_Max_N2kConfigurationInfoField_len) = firstn 70 s.
Proof.
  unfold set_char_buf. change c_Max_N2kConfigurationInfoField_len with 71.
  destruct (Z.le_gt_cases (Z.of_nat (length s) + 1) 71) as [H|H].
  - rewrite Z.min_l by lia. replace (Z.to_nat (Z.of_nat (length s) + 1 - 1)) with (length s) by lia.
    rewrite firstn_all. symmetry. apply firstn_all2. lia.
  - rewrite Z.min_r by lia. reflexivity.
Qed.

Lemma Forall_firstn {A} (P:A -> Prop) n l : Forall P l -> Forall P (firstn n l).
Proof. revert l; induction n as [|n IH]; intros [|x l] H; simpl; auto. inversion H; subst. constructor; auto. Qed.

Theorem set_conf_info_content : set_conf_info_content_stmt.
Proof.
  unfold set_conf_info_content_stmt. intros c manuf inst1 inst2 F. cbv zeta.
  unfold set_configuration_information. cbn [c_confinfo c_inst1 c_inst2 c_manuf c_only_known c_iso_handler c_prodinfo c_hb_on].
  rewrite !set_char_buf_71, set_char_buf_manuf.
  apply Forall_app in F. destruct F as [F1 F]. apply Forall_app in F. destruct F as [F2 F3].
  assert (L1 : (length (firstn 70 inst1) <= 70)%nat) by (rewrite firstn_length; lia).
  assert (L2 : (length (firstn 70 inst2) <= 70)%nat) by (rewrite firstn_length; lia).
  assert (L3 : (length (firstn 70 manuf) <= 70)%nat) by (rewrite firstn_length; lia).
  assert (E : conf_payload (firstn 70 inst1) (firstn 70 inst2) (firstn 70 manuf)
              = ref_config_info (firstn 70 inst1) (firstn 70 inst2) (firstn 70 manuf)).
  { assert (FF : Forall (fun b => 0 < b < 128) (firstn 70 inst1 ++ firstn 70 inst2 ++ firstn 70 manuf)).
    { apply Forall_app; split; [apply Forall_firstn; exact F1|]. apply Forall_app; split; apply Forall_firstn; assumption. }
    rewrite (conf_payload_ascii _ _ _ FF L1 L2 L3).
    unfold ref_config_info, ref_var_string, len. rewrite <- ?app_assoc. reflexivity. }
  rewrite E. repeat split; auto.
  - unfold ref_config_info, ref_var_string. discriminate.
  - unfold ref_config_info, ref_var_string. rewrite !app_length. cbn [length]. lia.
Qed.
