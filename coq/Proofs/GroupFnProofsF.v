(* C09 proofs, part F: commands take effect (d), heartbeat limits (e) *)
From Coq Require Import ZArith List Bool Lia.
From N2kV Require Import Base.ListAux Model.CanId Model.Sched Model.PgnClass Model.NodeDefs Model.NodeRxDefs Model.GroupFnDefs Spec.GroupFnSpec Gen.GenTables Gen.GenConsts
  Proofs.GroupFnProofsA Proofs.GroupFnProofsB Proofs.GroupFnProofsC Proofs.GroupFnProofsD Proofs.GroupFnProofsE.
Import ListNotations.
Local Open Scope Z_scope.

(* ---------- the command loops against the reference ---------- *)
Lemma cmd_60928_ref st d : st <> [] -> forall n pos codes lo up si lo' up' si' cs,
  ref_cmd_60928 d pos n lo up si codes = Some (lo', up', si', cs) -> Forall code_ok codes ->
  cmd_60928_loop n d (Z.of_nat (length codes)) pos (st ++ pack codes) lo up si = (st ++ pack cs, lo', up', si') /\
  Forall code_ok cs /\ length cs = (length codes + n)%nat.
Proof.
  intros Hst. induction n as [|n IH]; intros pos codes lo up si lo' up' si' cs R F.
  - cbn [ref_cmd_60928] in R. injection R as <- <- <- <-. cbn [cmd_60928_loop]. repeat split; [exact F|lia].
  - cbn [ref_cmd_60928] in R. unfold pec_ok in *. destruct (byte_at d pos) as [f|] eqn:Bf; [|discriminate]. destruct (byte_at d (pos + 1)) as [v|] eqn:Bv; [|discriminate].
    cbn [cmd_60928_loop]. rewrite (get_byte_at _ _ _ Bf), (get_byte_at _ _ _ Bv). replace (pos + 1 + 1) with (pos + 2) by lia.
    assert (Fs: Forall code_ok (codes ++ [0])) by (apply Forall_snoc; [exact F|unfold code_ok; lia]).
    assert (Ls: Z.of_nat (length codes) + 1 = Z.of_nat (length (codes ++ [0]))) by (rewrite snoc_length; reflexivity).
    destruct (f =? 3); [|destruct (f =? 4); [|destruct (f =? 8); [|discriminate]]];
      rewrite ack_add_pack by assumption; rewrite Ls;
      (destruct (IH _ _ _ _ _ _ _ _ _ R Fs) as (E & Fc & L)); rewrite E; (repeat split; [exact Fc|rewrite L, app_length; cbn [length]; lia]).
Qed.

Lemma value_size_var_ge2 d pos l : value_size (KVar []) d pos = Some l -> 2 <= l /\ 0 <= pos.
Proof.
  cbn [value_size]. destruct (byte_at d pos) as [l0|] eqn:B0; [|discriminate]. destruct (byte_at d (pos + 1)) as [ty|]; [|discriminate].
  apply byte_at_Some in B0 as [B0 _]. destruct (ty =? 1); [|discriminate]. cbn [andb].
  destruct (l0 =? 2) eqn:L2; cbn [orb].
  - intros E. injection E as <-. apply Z.eqb_eq in L2. lia.
  - destruct ((3 <=? l0) && (l0 <? 255) && (pos + l0 <=? len d)) eqn:C; [|discriminate]. intros E. injection E as <-.
    apply andb_true_iff in C as [C _]. apply andb_true_iff in C as [C _]. apply Z.leb_le in C. lia.
Qed.
Lemma skipn_slice2 d k n : 0 <= k -> 2 <= n -> skipn 2 (slice d k n) = slice d (k + 2) (n - 2).
Proof. intros. change 2%nat with (Z.to_nat 2). apply skipn_slice; lia. Qed.
Lemma cmd_126998_ref st d : st <> [] -> forall n pos codes s1 s2 chg s1' s2' chg' cs,
  ref_cmd_126998 d pos n s1 s2 chg codes = Some (s1', s2', chg', cs) -> Forall code_ok codes ->
  cmd_126998_loop n d (Z.of_nat (length codes)) pos (st ++ pack codes) s1 s2 chg = (st ++ pack cs, s1', s2', chg') /\
  Forall code_ok cs /\ length cs = (length codes + n)%nat.
Proof.
  intros Hst. induction n as [|n IH]; intros pos codes s1 s2 chg s1' s2' chg' cs R F.
  - cbn [ref_cmd_126998] in R. injection R as <- <- <- <-. cbn [cmd_126998_loop]. repeat split; [exact F|lia].
  - cbn [ref_cmd_126998] in R. unfold pec_ok in *. destruct (byte_at d pos) as [f|] eqn:Bf; [|discriminate].
    destruct ((f =? 1) || (f =? 2)) eqn:F12; [|discriminate].
    destruct (value_size (KVar []) d (pos + 1)) as [l|] eqn:VS; [|discriminate]. destruct (value_size_var_ge2 _ _ _ VS) as [Hl Hp].
    cbn [cmd_126998_loop]. rewrite (get_byte_at _ _ _ Bf). rewrite (get_varstr_ref _ _ _ VS Hp).
    rewrite skipn_slice2 by lia. replace (pos + 1 + 2) with (pos + 3) by lia.
    assert (Fs: Forall code_ok (codes ++ [0])) by (apply Forall_snoc; [exact F|unfold code_ok; lia]).
    assert (Ls: Z.of_nat (length codes) + 1 = Z.of_nat (length (codes ++ [0]))) by (rewrite snoc_length; reflexivity).
    destruct (f =? 1).
    + rewrite ack_add_pack by assumption. rewrite Ls. destruct (IH _ _ _ _ _ _ _ _ _ R Fs) as (E & Fc & L). rewrite E.
      repeat split; [exact Fc|rewrite L, app_length; cbn [length]; lia].
    + cbn [orb] in F12. rewrite F12. rewrite ack_add_pack by assumption. rewrite Ls. destruct (IH _ _ _ _ _ _ _ _ _ R Fs) as (E & Fc & L). rewrite E.
      repeat split; [exact Fc|rewrite L, app_length; cbn [length]; lia].
Qed.

(* the NAME after SetDeviceInformationInstances *)
Definition model_name (nm lo up si:Z) : Z :=
  let di0 := nm_devinst nm in
  let di1 := if lo =? 255 then di0 else (di0 / 8) * 8 + lo mod 8 in
  let di2 := if up =? 255 then di1 else di1 mod 8 + (up mod 32) * 8 in
  let nm1 := if di2 =? di0 then nm else nm_set_devinst nm di2 in
  if negb (si =? 255) && negb (nm_sysinst nm1 =? si) then nm_set_sysinst nm1 si else nm1.
Lemma model_name_ref nm lo up si : model_name nm lo up si = ref_name_after nm lo up si.
Proof.
  unfold model_name, ref_name_after, set_bits, name_bits, nm_set_devinst, nm_set_sysinst, nm_sysinst, nm_b7, nm_devinst.
  change (2^3) with 8. change (2^5) with 32. change (2^4) with 16. change (2^32) with 4294967296. change (2^35) with 34359738368. change (2^56) with 72057594037927936.
  destruct (lo =? 255), (up =? 255), (si =? 255); cbn [negb andb];
  repeat match goal with |- context [?a =? ?b] => destruct (Z.eqb_spec a b) end; cbn [negb andb];
  Z.div_mod_to_equations; lia.
Qed.

Lemma set_nth_len {A} (l:list A) k v : length (set_nth l k v) = length l.
Proof. revert k. induction l as [|x r IH]; intros k; [reflexivity|]. destruct k; cbn [set_nth length]; [reflexivity|]. rewrite IH. reflexivity. Qed.
Lemma set_name_facts r i nm : 0 <= i < dev_count (rn r) ->
  d_name (get_dev (rn (set_name r i nm)) i) = nm /\ rx_dev (set_name r i nm) = rx_dev r /\ r_cfg (set_name r i nm) = r_cfg r /\
  dev_count (rn (set_name r i nm)) = dev_count (rn r) /\ is_ready_to_send (rn (set_name r i nm)) = is_ready_to_send (rn r) /\
  w64 (set_name r i nm) = w64 r /\ now (set_name r i nm) = now r /\ r_devinfo_changed (set_name r i nm) = r_devinfo_changed r.
Proof.
  intros Hi. unfold set_name. rewrite (chk_dev_in r i Hi). cbn [rn with_rn rx_dev r_cfg r_devinfo_changed].
  unfold get_dev, upd_dev, dev_count, is_ready_to_send, w64, now, znth, zset in *. cbn [rn with_rn n_devs n_mode n_open n_now n_w64].
  rewrite nth_set_nth by lia. cbn [d_name]. repeat split. rewrite set_nth_len. reflexivity.
Qed.

Theorem gf_commands_take_effect : gf_commands_take_effect_stmt.
Proof.
  unfold gf_commands_take_effect_stmt. split; [|split; [|split; [|split; [|split]]]].
  - (* decision 60928 *)
    intros e g n b lo up si cs [F _] Hd RH B4 R.
    destruct (header_facts _ _ _ _ F RH) as (B0 & G0 & G1 & _ & Hp & Hn & Bn). change (count_pos 1 60928) with 5 in Bn.
    unfold gf_decide. rewrite G0, G1. cbn [fst Z.gtb Z.compare Pos.compare Pos.compare_cont]. unfold decide_fc. cbn [Z.eqb Pos.eqb].
    unfold g_bcast. replace (g_dst g =? 255) with false by (symmetry; apply Z.eqb_neq; exact Hd).
    rewrite (get_byte_at _ _ _ B4). cbv beta iota zeta. change (4 + 1) with 5. rewrite (get_byte_at _ _ _ Bn). cbv beta iota zeta.
    unfold cmd_60928. set (pec := if b mod 16 =? 8 then 0 else 1).
    destruct (cmd_60928_ref (ack_start 60928 0 pec n) (g_d g) (ack_start_nonnil _ _ _ _) (Z.to_nat n) 6 [] 255 255 255 lo up si cs R (Forall_nil _)) as (E & Fc & L).
    cbn [pack app length Z.of_nat] in E. rewrite app_nil_r in E. rewrite E. cbn [length Nat.add] in L.
    eexists. eexists. split; [reflexivity|]. unfold byte_ok in Hn.
    rewrite (parse_ack_built 60928 0 pec n cs); [|lia|unfold code_ok; lia|unfold pec, code_ok; destruct (_ =? 8); lia|exact Fc|lia].
    cbn [ak_pgn ak_n ak_pgnec ak_tpec ak_codes]. split; [reflexivity|]. split; [reflexivity|]. split; [reflexivity|]. split; [reflexivity|]. split; reflexivity.
  - (* decision 126998 *)
    intros e g n b s1 s2 chg cs [F _] Hd RH B4 R.
    destruct (header_facts _ _ _ _ F RH) as (B0 & G0 & G1 & _ & Hp & Hn & Bn). change (count_pos 1 126998) with 5 in Bn.
    unfold gf_decide. rewrite G0, G1. cbn [fst Z.gtb Z.compare Pos.compare Pos.compare_cont]. unfold decide_fc. cbn [Z.eqb Pos.eqb].
    unfold g_bcast. replace (g_dst g =? 255) with false by (symmetry; apply Z.eqb_neq; exact Hd).
    rewrite (get_byte_at _ _ _ B4). cbv beta iota zeta. change (4 + 1) with 5. rewrite (get_byte_at _ _ _ Bn). cbv beta iota zeta.
    unfold cmd_126998.
    destruct (cmd_126998_ref (ack_start 126998 0 (prio_code (b mod 16)) n) (g_d g) (ack_start_nonnil _ _ _ _) (Z.to_nat n) 6 [] (e_s1 e) (e_s2 e) false s1 s2 chg cs R (Forall_nil _))
      as (E & Fc & L).
    cbn [pack app length Z.of_nat] in E. rewrite app_nil_r in E. rewrite E. cbn [length Nat.add] in L.
    eexists. eexists. split; [reflexivity|]. unfold byte_ok in Hn.
    rewrite (parse_ack_built 126998 0 (prio_code (b mod 16)) n cs); [|lia|unfold code_ok; lia|apply prio_code_ok|exact Fc|lia].
    cbn [ak_pgn ak_n ak_pgnec ak_tpec ak_codes]. rewrite prio_code_ref. split; [reflexivity|]. split; [reflexivity|]. split; [reflexivity|]. split; [reflexivity|]. split; reflexivity.
  - (* execution: instances, name *)
    intros r i dst ack lo up si Hi Hnm. cbv zeta. cbn [gf_exec].
    pose proof (send_ack_frame r i dst ack) as SF. cbv zeta in SF. destruct (send_ack r i dst ack) as [r1 ev]. cbn [fst] in *.
    destruct SF as (I1 & X1 & C1 & D1 & _). destruct (ids_dev _ _ i I1) as (_ & N1 & _ & DC & RS & NW & W6).
    assert (Hi1: 0 <= i < dev_count (rn r1)) by (rewrite DC; exact Hi).
    unfold set_instances. rewrite (chk_dev_in r1 i Hi1). rewrite N1. cbv zeta.
    set (nm := d_name (get_dev (rn r) i)). set (di0 := nm_devinst nm).
    set (di1 := if lo =? 255 then di0 else di0 / 8 * 8 + lo mod 8). set (di2 := if up =? 255 then di1 else di1 mod 8 + up mod 32 * 8).
    rewrite <- model_name_ref. unfold model_name. fold nm di0 di1 di2.
    set (r2 := if di2 =? di0 then r1 else with_devinfo_changed (set_name r1 i (nm_set_devinst nm di2))).
    assert (H2: d_name (get_dev (rn r2) i) = (if di2 =? di0 then nm else nm_set_devinst nm di2) /\ dev_count (rn r2) = dev_count (rn r1)).
    { unfold r2. destruct (di2 =? di0); [split; [exact N1|reflexivity]|]. destruct (set_name_facts r1 i (nm_set_devinst nm di2) Hi1) as (A & _ & _ & B & _). split; assumption. }
    destruct H2 as [H2 H2c]. rewrite H2. set (nm1 := if di2 =? di0 then nm else nm_set_devinst nm di2) in *.
    assert (Hi2: 0 <= i < dev_count (rn r2)) by (rewrite H2c; exact Hi1).
    set (r3 := if negb (si =? 255) && negb (nm_sysinst nm1 =? si) then with_devinfo_changed (set_name r2 i (nm_set_sysinst nm1 si)) else r2).
    assert (H3: d_name (get_dev (rn r3) i) = (if negb (si =? 255) && negb (nm_sysinst nm1 =? si) then nm_set_sysinst nm1 si else nm1)).
    { unfold r3. destruct (negb _ && negb _); [|exact H2]. destruct (set_name_facts r2 i (nm_set_sysinst nm1 si) Hi2) as (A & _). exact A. }
    (* what the two updates leave alone *)
    assert (K2: rx_dev r2 = rx_dev r /\ is_ready_to_send (rn r2) = is_ready_to_send (rn r) /\ w64 r2 = w64 r /\ now r2 = now r).
    { unfold r2. destruct (di2 =? di0).
      - unfold w64, now. rewrite X1, RS, W6, NW. repeat split.
      - destruct (set_name_facts r1 i (nm_set_devinst nm di2) Hi1) as (_ & A & _ & _ & B & C & D & _). cbn [with_devinfo_changed rx_dev rn]. unfold w64, now in *. cbn [rn with_devinfo_changed].
        rewrite A, B, C, D, X1, RS, W6, NW. repeat split. }
    destruct K2 as (K2a & K2b & K2c & K2d).
    assert (K3: rx_dev r3 = rx_dev r /\ is_ready_to_send (rn r3) = is_ready_to_send (rn r) /\ w64 r3 = w64 r /\ now r3 = now r /\ dev_count (rn r3) = dev_count (rn r)).
    { unfold r3. destruct (negb _ && negb _).
      - destruct (set_name_facts r2 i (nm_set_sysinst nm1 si) Hi2) as (_ & A & _ & E & B & C & D & _). unfold w64, now in *. cbn [rn rx_dev with_devinfo_changed].
        rewrite A, B, C, D, E, K2a, K2b, K2c, K2d, H2c, DC. repeat split.
      - rewrite K2a, K2b, K2c, K2d, H2c, DC. repeat split. }
    destruct K3 as (K3a & K3b & K3c & K3d & K3e).
    assert (PC: forall rr, d_name (get_dev (rn (pend_claim rr i)) i) = d_name (get_dev (rn rr) i) /\ r_devinfo_changed (pend_claim rr i) = r_devinfo_changed rr).
    { intros rr. unfold pend_claim. destruct ((i <? 0) || (i >=? dev_count (rn rr))); [split; reflexivity|]. unfold set_pending, chk_dev.
      destruct ((0 <=? i) && (i <? dev_count (rn rr))); split; reflexivity. }
    split; [|split].
    + destruct (is_ready_to_send (rn r3)); [rewrite (proj1 (PC r3))|]; exact H3.
    + intros Hne.
      assert (Chg: r_devinfo_changed r3 = true).
      { unfold r3. destruct (negb (si =? 255) && negb (nm_sysinst nm1 =? si)) eqn:S; [reflexivity|].
        unfold r2. destruct (di2 =? di0) eqn:Dq; [|reflexivity]. exfalso. apply Hne. reflexivity. }
      destruct (is_ready_to_send (rn r3)); [rewrite (proj2 (PC r3))|]; exact Chg.
    + intros RS0 Hx. rewrite K3b, RS0. unfold pend_claim.
      replace (i <? 0) with false by (symmetry; apply Z.ltb_ge; lia). replace (i >=? dev_count (rn r3)) with false by (symmetry; rewrite Z.geb_leb; apply Z.leb_gt; lia).
      cbn [orb]. unfold set_pending. rewrite (chk_dev_in r3 i) by lia. rewrite get_devx_with by (rewrite K3a; exact Hx). cbn [x_pend_claim]. rewrite K3c, K3d. reflexivity.
  - (* execution: descriptions *)
    intros r i dst ack s1 s2 Hi. cbv zeta. cbn [gf_exec].
    pose proof (send_ack_frame (set_conf_strings r s1 s2) i dst ack) as SF. cbv zeta in SF. destruct SF as (_ & _ & C1 & _). rewrite C1.
    split; [reflexivity|]. split; [reflexivity|]. split; [reflexivity|]. split; reflexivity.
  - (* ISO request 60928 *)
    intros r q addressed i Hi CS. unfold respond_iso_request. rewrite (chk_dev_in r i Hi), CS. cbn [Z.eqb Pos.eqb].
    unfold rsend_claim, send_iso_address_claim. cbn [rn with_rn].
    replace ((255 =? 255) && (i =? -1)) with false by (symmetry; apply andb_false_iff; right; apply Z.eqb_neq; lia).
    replace (i <? 0) with false by (symmetry; apply Z.ltb_ge; lia). replace (i >=? dev_count (rn r)) with false by (symmetry; rewrite Z.geb_leb; apply Z.leb_gt; lia).
    cbn [orb]. split; [|reflexivity]. destruct (send_msg (rn r) (claim_msg (get_dev (rn r) i) 255) i) as [[n1 ev] ok]. reflexivity.
  - (* ISO request 126998 *)
    intros r q addressed i Hi CS NE. split.
    + unfold respond_iso_request. rewrite (chk_dev_in r i Hi), CS. cbn [Z.eqb Pos.eqb].
      assert (E: with_rn r (rn r) = r) by (destruct r; reflexivity). rewrite E. destruct (c_confinfo (r_cfg r)); [congruence|reflexivity].
    + intros r1 ev ok RS. unfold send_config_info. rewrite (chk_dev_in r i Hi), RS. reflexivity.
Qed.

(* ---------- (e) ---------- *)
Theorem gf_heartbeat_limits : gf_heartbeat_limits_stmt.
Proof.
  unfold gf_heartbeat_limits_stmt. split.
  - intros e g iv ov [F _] RH Hi Ho.
    destruct (header_facts _ _ _ _ F RH) as (B0 & G0 & G1 & _ & Hp & Hn & Bn). change (count_pos 0 126993) with 10 in Bn.
    assert (ED: gf_decide e g = decide_fc e g 0 126993) by (unfold gf_decide; rewrite G0, G1; reflexivity).
    destruct (decide_request_hb e g 0 iv ov Hn Bn Hi Ho) as [ER A]. cbv zeta in A. rewrite ED, ER.
    pose proof (bytes_at_val_bound _ _ _ _ F Hi) as Biv. pose proof (bytes_at_val_bound _ _ _ _ F Ho) as Bov.
    change (256 ^ 4) with 4294967296 in Biv. change (256 ^ 2) with 65536 in Bov.
    set (interval := le_val iv) in *. set (offset := le_val ov) in *.
    assert (Shape: req_126993 e g interval offset 0 =
                   if hb_accepts interval offset then GaHeartbeat interval (if (offset =? 65535) || (offset =? 0) then 4294967295 else offset * 10)
                   else if (interval =? 4294967295) && (offset =? 65535) then req_default e g 126993 interval offset 0
                   else if g_bcast g then GaNone else GaAck (g_src g) (ack_uniform 126993 0 1 0 0)).
    { unfold req_126993, hb_accepts, tp_code. cbn [Z.eqb].
      destruct (Z.eqb_spec interval 0), (Z.eqb_spec interval 4294967295), (Z.eqb_spec interval 4294967294), (Z.leb_spec0 1000 interval), (Z.leb_spec0 interval 60000),
               (Z.eqb_spec offset 65535), (Z.eqb_spec offset 0), (Z.leb_spec0 offset 6000);
        cbn [negb andb orb Z.eqb Pos.eqb]; try reflexivity; try lia. }
    repeat split.
    + intros H. rewrite Shape, H. reflexivity.
    + intros H iv' off'. rewrite Shape, H. destruct ((interval =? 4294967295) && (offset =? 65535)).
      * unfold req_default. destruct (is_tx e 126993); [destruct (_ =? 1)|]; destruct (g_bcast g); discriminate.
      * destruct (g_bcast g); discriminate.
    + intros I0 Hd. rewrite <- ER. revert A. fold interval offset. rewrite I0. cbn [Z.eqb negb andb]. rewrite andb_false_r.
      replace (g_dst g =? 255) with false by (symmetry; apply Z.eqb_neq; exact Hd). cbn [agrees]. apply acks_weaken. intros r (_ & T & _). exact T.
  - intros r i interval off Hi Hx Hint Hoff. cbn [action_pre].
    replace ((interval =? 4294967295) && (off =? 65535)) with false by (symmetry; apply andb_false_iff; left; apply Z.eqb_neq; lia).
    cbn [set_heartbeat_all]. cbv zeta.
    replace (interval =? 4294967295) with false by (symmetry; apply Z.eqb_neq; lia).
    set (x := get_devx r i).
    set (interval1 := if interval =? 4294967294 then c_DefaultHeartbeatInterval else interval).
    set (period := if interval =? 4294967294 then 60000 else interval).
    assert (E1: interval1 = period) by reflexivity.
    assert (Hper: 1000 <= period <= 60000) by (unfold period; destruct (Z.eqb_spec interval 4294967294); lia).
    rewrite E1. replace (period =? 0) with false by (symmetry; apply Z.eqb_neq; lia).
    replace (Z.max 1000 (Z.min period c_MaxHeartbeatInterval)) with period by (unfold c_MaxHeartbeatInterval; lia).
    set (offset1 := if off =? 4294967295 then ss_offset (x_hb x) else off).
    set (changed := negb (ss_period (x_hb x) =? period) || negb (ss_offset (x_hb x) =? offset1)).
    assert (HB: forall p, 1000 <= p <= 60000 -> firstn 2 (m_data (heartbeat_msg (dev_src r i) p 255)) = le_bytes 2 (p / 10)).
    { intros p Hp. unfold heartbeat_msg. replace (p >? c_MaxHeartbeatInterval) with false by (symmetry; rewrite Z.gtb_ltb; apply Z.ltb_ge; unfold c_MaxHeartbeatInterval; lia).
      cbn [m_data]. rewrite (Z.mod_small (p / 10)) by (split; [apply Z.div_pos; lia|apply Z.div_lt_upper_bound; lia]). reflexivity. }
    destruct (changed || (ss_next (x_hb x) =? ss_disabled)) eqn:Go.
    + destruct (millis64 r) as [rc t] eqn:M.
      assert (RX: rx_dev rc = rx_dev r /\ rn rc = rn r) by (unfold millis64 in M; destruct (w64 r); injection M as <- _; split; reflexivity).
      destruct RX as [RX RN].
      set (x' := {| x_pend_claim := x_pend_claim x; x_pend_prod := x_pend_prod x; x_pend_conf := x_pend_conf x;
                    x_hb := ss_update_next t (r_sync rc) {| ss_next := ss_next (x_hb x); ss_offset := offset1; ss_period := period |};
                    x_hb_seq := x_hb_seq x; x_rx := x_rx x |}).
      set (r' := if changed then with_devinfo_changed (with_devx rc i x') else with_devx rc i x').
      assert (G: get_devx r' i = x' /\ dev_src r' i = dev_src r i).
      { unfold r'. destruct changed; unfold get_devx, dev_src, with_devinfo_changed, with_devx, znth, zset; cbn [rx_dev rn]; rewrite RN;
          (split; [apply nth_set_nth; rewrite RX; exact Hx|reflexivity]). }
      destruct G as [G GS]. cbn [action_msgs]. rewrite G, GS. unfold x'. cbn [x_hb]. unfold ss_update_next. cbn [ss_period ss_offset].
      replace (period =? 0) with false by (symmetry; apply Z.eqb_neq; lia). cbn [ss_period ss_offset].
      split; [reflexivity|]. split; [reflexivity|]. split; [reflexivity|]. apply HB, Hper.
    + apply orb_false_iff in Go as [Chg _]. unfold changed in Chg. apply orb_false_iff in Chg as [C1 C2]. apply negb_false_iff in C1, C2. apply Z.eqb_eq in C1, C2.
      fold x. cbn [action_msgs]. fold x. rewrite C1.
      split; [reflexivity|]. split; [exact C2|]. split; [reflexivity|]. apply HB, Hper.
Qed.
