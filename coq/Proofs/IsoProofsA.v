(* C08, part A: infrastructure.
   - device table updates and the relation [nsim] (what a send never changes: build, mode, open state, clock, PGN configuration, the
     devices' addresses, NAMEs, transmit lists and whether their address claim is pending)
   - the send gate passes for a device that is on the bus ([gate_pass])
   - with an accepting driver a SendFrame flushes the queue and hands its frame over ([send_frame_accepting], [send_all_accepting]),
     hence the exact outcome of a SendMsg ([send_accepting])
   - fast-packet framing for an arbitrary sequence-id byte ([fp_frames_gen])
   - for every driver and every queue content: the frames a SendMsg hands over or leaves queued were queued before or carry the
     identifier of the message ([send_msg_origin]) *)
From Coq Require Import ZArith List Bool Lia.
From N2kV Require Import Base.ListAux Model.CanId Model.Sched Model.PgnClass Model.NodeDefs Model.NodeRxDefs Gen.GenTables Gen.GenConsts
  Spec.SendSpec Spec.IsoSpec Proofs.SendProofs Proofs.QueueProofs.
Import ListNotations.
Local Open Scope Z_scope.

(* ================= device table ================= *)
Lemma nth_set_nth {A} (l:list A) : forall a k v d,
  nth k (set_nth l a v) d = if (k =? a)%nat && (a <? length l)%nat then v else nth k l d.
Proof.
  induction l as [|x l IH]; intros a k v d.
  - cbn [set_nth length]. destruct a; rewrite andb_false_r; reflexivity.
  - destruct a as [|a]; destruct k as [|k]; cbn [set_nth nth length]; try reflexivity.
    rewrite IH. reflexivity.
Qed.

Lemma get_upd_dev n i d j :
  get_dev (upd_dev n i d) j = if (Z.to_nat j =? Z.to_nat i)%nat && (Z.to_nat i <? length (n_devs n))%nat then d else get_dev n j.
Proof. unfold get_dev, upd_dev, znth, zset. cbn [n_devs]. apply nth_set_nth. Qed.

Lemma upd_dev_field {A} (f:dev -> A) n i d : f d = f (get_dev n i) -> forall j, f (get_dev (upd_dev n i d) j) = f (get_dev n j).
Proof.
  intros H j. rewrite get_upd_dev.
  destruct (Nat.eqb_spec (Z.to_nat j) (Z.to_nat i)) as [E|E]; cbn [andb]; [|reflexivity].
  destruct (Z.to_nat i <? length (n_devs n))%nat; [|reflexivity].
  rewrite H. unfold get_dev, znth. rewrite E. reflexivity.
Qed.

Lemma get_upd_dev_same n i d : 0 <= i < dev_count n -> get_dev (upd_dev n i d) i = d.
Proof.
  intros H. rewrite get_upd_dev, Nat.eqb_refl. unfold dev_count in H.
  destruct (Nat.ltb_spec (Z.to_nat i) (length (n_devs n))); [reflexivity|lia].
Qed.

Lemma upd_dev_count n i d : dev_count (upd_dev n i d) = dev_count n.
Proof. unfold dev_count, upd_dev, zset. cbn [n_devs]. rewrite QueueProofs.set_nth_length. reflexivity. Qed.

(* ================= the address-claim test ================= *)
Lemma claim_snd n j :
  snd (claim_started n j) =
  if sched_is_enabled (n_w64 n) (d_claim_timer (get_dev n j)) then negb (sched_is_time (n_w64 n) (n_now n) (d_claim_timer (get_dev n j))) else false.
Proof. unfold claim_started. destruct (sched_is_enabled _ _); [destruct (sched_is_time _ _ _)|]; reflexivity. Qed.

Lemma claim_snd_eq n n' j : n_w64 n' = n_w64 n -> n_now n' = n_now n -> d_claim_timer (get_dev n' j) = d_claim_timer (get_dev n j) ->
  snd (claim_started n' j) = snd (claim_started n j).
Proof. intros A B C. rewrite !claim_snd, A, B, C. reflexivity. Qed.

Lemma sched_disabled_not_enabled w : sched_is_enabled w (sched_disabled w) = false.
Proof. unfold sched_is_enabled. rewrite Z.eqb_refl. reflexivity. Qed.

(* ================= what sending never changes ================= *)
Record nsim (n n':node) : Prop := {
  ns_w64 : n_w64 n' = n_w64 n;
  ns_mode : n_mode n' = n_mode n;
  ns_open : n_open n' = n_open n;
  ns_now : n_now n' = n_now n;
  ns_pgn : n_pgn n' = n_pgn n;
  ns_count : dev_count n' = dev_count n;
  ns_src : forall j, d_src (get_dev n' j) = d_src (get_dev n j);
  ns_name : forall j, d_name (get_dev n' j) = d_name (get_dev n j);
  ns_tx : forall j, d_tx (get_dev n' j) = d_tx (get_dev n j);
  ns_tp : forall j, d_tp_msg (get_dev n' j) = d_tp_msg (get_dev n j);
  ns_claim : forall j, snd (claim_started n' j) = snd (claim_started n j)
}.

Lemma nsim_refl n : nsim n n.
Proof. constructor; reflexivity. Qed.

Lemma nsim_trans a b c : nsim a b -> nsim b c -> nsim a c.
Proof.
  intros [A1 A2 A3 A4 A5 A6 A7 A8 A9 A10 A11] [B1 B2 B3 B4 B5 B6 B7 B8 B9 B10 B11].
  constructor; try congruence; intros j; etransitivity; eauto.
Qed.

Lemma nsim_upd_q n q d : nsim n (upd_q n q d).
Proof. constructor; try reflexivity. intros j. apply claim_snd_eq; reflexivity. Qed.

Lemma nsim_claim n i : nsim n (fst (claim_started n i)).
Proof.
  unfold claim_started.
  destruct (sched_is_enabled (n_w64 n) (d_claim_timer (get_dev n i))) eqn:E1; [|apply nsim_refl].
  destruct (sched_is_time (n_w64 n) (n_now n) (d_claim_timer (get_dev n i))) eqn:E2; [|apply nsim_refl].
  cbn [fst]. constructor; try reflexivity.
  - apply upd_dev_count.
  - apply (upd_dev_field d_src). reflexivity.
  - apply (upd_dev_field d_name). reflexivity.
  - apply (upd_dev_field d_tx). reflexivity.
  - apply (upd_dev_field d_tp_msg). reflexivity.
  - intros j. rewrite !claim_snd. cbn [upd_dev n_w64 n_now]. change (n_w64 (upd_dev n i _)) with (n_w64 n).
    rewrite get_upd_dev.
    destruct (Nat.eqb_spec (Z.to_nat j) (Z.to_nat i)) as [E|E]; cbn [andb]; [|reflexivity].
    destruct (Z.to_nat i <? length (n_devs n))%nat; [|reflexivity].
    cbn [d_claim_timer]. rewrite sched_disabled_not_enabled.
    assert (G: get_dev n j = get_dev n i) by (unfold get_dev, znth; rewrite E; reflexivity).
    rewrite G, E1, E2. reflexivity.
Qed.

Lemma nsim_gsc n i p : nsim n (fst (get_sequence_counter n i p)).
Proof.
  unfold get_sequence_counter.
  destruct (match seq_scan _ p with Some r => r | None => _ end) as [c' sc]. cbn [fst].
  constructor; try reflexivity.
  - apply upd_dev_count.
  - apply (upd_dev_field d_src). reflexivity.
  - apply (upd_dev_field d_name). reflexivity.
  - apply (upd_dev_field d_tx). reflexivity.
  - apply (upd_dev_field d_tp_msg). reflexivity.
  - intros j. apply claim_snd_eq; try reflexivity. apply (upd_dev_field d_claim_timer). reflexivity.
Qed.

(* once the test has said "not pending" it keeps saying so, and does not change the node any more *)
Lemma claim_started_idem n i : 0 <= i < dev_count n -> snd (claim_started n i) = false ->
  claim_started (fst (claim_started n i)) i = (fst (claim_started n i), false).
Proof.
  intros Hi H. unfold claim_started in *.
  destruct (sched_is_enabled (n_w64 n) (d_claim_timer (get_dev n i))) eqn:E1.
  - destruct (sched_is_time (n_w64 n) (n_now n) (d_claim_timer (get_dev n i))) eqn:E2; [|discriminate].
    cbn [fst]. rewrite get_upd_dev_same by exact Hi. cbn [d_claim_timer].
    change (n_w64 (upd_dev n i _)) with (n_w64 n). rewrite sched_disabled_not_enabled. reflexivity.
  - cbn [fst]. rewrite E1. reflexivity.
Qed.

(* ================= the gate ================= *)
Definition gated (n:node) (m:msg) (idev:Z) : msg :=
  {| m_pri := m_pri m; m_pgn := m_pgn m; m_src := d_src (get_dev n idev);
     m_dst := (if negb (Z.land (m_pgn m) 255 =? 0) then 255 else m_dst m); m_data := m_data m; m_tp := m_tp m |}.
Definition gate_id (n:node) (m:msg) (idev:Z) : Z :=
  to_can_id (m_pri m) (m_pgn m) (d_src (get_dev n idev)) (if negb (Z.land (m_pgn m) 255 =? 0) then 255 else m_dst m).

Lemma gate_pass n m idev :
  n_open n = 3 -> 0 <= idev < dev_count n -> n_mode n <> 0 -> m_pgn m <> 0 ->
  (d_src (get_dev n idev) <= 251 \/ m_pgn m = 60928) -> gate_id n m idev <> 0 -> snd (claim_started n idev) = false ->
  send_gate n m idev = (fst (claim_started n idev), Some (gated n m idev, idev, gate_id n m idev)).
Proof.
  intros Ho Hi Hm Hp Hs Hid Hc. unfold send_gate, gate_id, gated in *.
  rewrite Ho. cbn [Z.eqb negb Pos.eqb].
  destruct (Z.geb_spec idev (dev_count n)); [lia|].
  destruct (Z.geb_spec idev 0); [|lia].
  assert (E3: (d_src (get_dev n idev) >? c_N2kMaxCanBusAddress) && negb (m_pgn m =? c_N2kPGNIsoAddressClaim) = false).
  { unfold c_N2kMaxCanBusAddress, c_N2kPGNIsoAddressClaim. destruct Hs as [Hs|Hs].
    - destruct (Z.gtb_spec (d_src (get_dev n idev)) 251); [lia|reflexivity].
    - rewrite Hs. cbn. apply andb_false_r. }
  rewrite E3.
  destruct (Z.eqb_spec (to_can_id (m_pri m) (m_pgn m) (d_src (get_dev n idev)) (if negb (Z.land (m_pgn m) 255 =? 0) then 255 else m_dst m)) 0); [contradiction|].
  destruct (Z.eqb_spec (n_mode n) 0); [contradiction|].
  destruct (Z.eqb_spec (m_pgn m) 0); [contradiction|].
  destruct (claim_started n idev) as [nn cl]. cbn [fst snd] in *. subst cl. cbn [andb]. reflexivity.
Qed.

(* ================= an accepting driver ================= *)
Definition flush_events (q:sring) : list event := map (fun f => EvTx (f_id f) (f_len f) (f_data f) true) (ring_contents q).

Lemma fifo_flush_accepting : forall p, fifo_flush p [] = ([], [], map (fun f => EvTx (f_id f) (f_len f) (f_data f) true) p, true).
Proof.
  induction p as [|f p IH]; cbn [fifo_flush map]; [reflexivity|].
  cbn [can_send]. rewrite IH. reflexivity.
Qed.

Lemma contents_nil_empty q : ring_wf q -> ring_contents q = [] -> q_rd q = q_wr q.
Proof.
  intros Hwf H. apply (count0_iff q Hwf). pose proof (contents_length q Hwf) as L. rewrite H in L. cbn [length] in L. lia.
Qed.

Lemma send_frame_accepting q id len data w : ring_wf q ->
  exists q', send_frame q [] id len data w = (q', [], flush_events q ++ [EvTx id len (firstn (Z.to_nat len) data) true], true) /\
             ring_wf q' /\ q_rd q' = q_wr q' /\ q_max q' = q_max q.
Proof.
  intros Hwf. destruct (send_frame q [] id len data w) as [[[q' d'] ev] ok] eqn:E.
  destruct (send_frame_refines _ _ _ _ _ _ _ _ _ _ Hwf E) as (Hwf' & Hmx & R).
  unfold fifo_send in R. rewrite fifo_flush_accepting in R. cbn [can_send] in R.
  injection R as R1 R2 R3 R4. subst d' ev ok.
  exists q'. split; [reflexivity|]. split; [exact Hwf'|]. split; [|exact Hmx].
  apply contents_nil_empty; [exact Hwf'|symmetry; exact R1].
Qed.

Lemma send_all_accepting q id f rest : ring_wf q ->
  exists q', send_all q [] id (f :: rest) = (q', [], flush_events q ++ map (fun f => EvTx id 8 (firstn 8 f) true) (f :: rest), true) /\
             ring_wf q' /\ q_rd q' = q_wr q' /\ q_max q' = q_max q.
Proof.
  intros Hwf. destruct (send_frame_accepting q id 8 f true Hwf) as (q' & E & Hwf' & Hemp & Hmx).
  exists q'. cbn [send_all]. rewrite E. rewrite (send_all_empty q' id Hemp rest).
  split; [|auto]. cbn [map]. rewrite <- app_assoc. reflexivity.
Qed.

(* ================= fast-packet framing, any sequence-id byte ================= *)
Local Ltac dm := Z.div_mod_to_equations; lia.

Lemma lor_low k order : 0 <= k < 32 -> order mod 32 = 0 -> Z.lor k order mod 32 = k /\ Z.lor k order / 32 = order / 32.
Proof.
  intros Hk Ho. rewrite Z.lor_comm. rewrite (lor_disj order k 5) by (change (2^5) with 32; lia). split; dm.
Qed.

Lemma fp_frames_gen order payload : order mod 32 = 0 -> (length payload <= 223)%nat ->
  fp_message (fp_frames order payload) payload.
Proof.
  intros Hord Hlen. unfold fp_message, fp_frames.
  set (len := Z.of_nat (length payload)). set (cnt := Z.to_nat (fp_frame_count len - 1)).
  assert (Hcnt: Z.of_nat cnt = if len <=? 6 then 0 else 1 + (len - 7) / 7).
  { subst cnt. unfold fp_frame_count. destruct (Z.gtb_spec len 6); destruct (Z.leb_spec len 6); try lia.
    replace (len - 6 - 1) with (len - 7) by lia. assert (0 <= (len - 7) / 7) by dm. lia. }
  assert (Hdata: exists pad, pad_ff 6 (firstn 6 payload) ++ concat (map (@tl Z) (fp_rest order 1 cnt (skipn 6 payload))) = payload ++ pad).
  { destruct (Nat.le_gt_cases (length payload) 6) as [Hs|Hl].
    - assert (cnt = O) by (destruct (Z.leb_spec len 6); lia). rewrite H. cbn [fp_rest map concat]. rewrite app_nil_r.
      rewrite pad_ff_short by exact Hs. eexists. reflexivity.
    - destruct (fp_rest_concat order cnt 1 (skipn 6 payload)) as (pad & E & F).
      { rewrite skipn_length. destruct (Z.leb_spec len 6); [lia|]. apply Nat2Z.inj_le. rewrite Nat2Z.inj_mul, Hcnt, Nat2Z.inj_sub by lia.
        fold len. change (Z.of_nat 7) with 7. change (Z.of_nat 6) with 6. dm. }
      exists pad. rewrite E. rewrite pad_ff_full by lia. rewrite app_assoc, firstn_skipn. reflexivity. }
  destruct Hdata as (pad & Edata).
  split; [|split; [|split]].
  - constructor; [|apply fp_rest_len8]. cbn [length]. rewrite pad_ff_firstn_length. reflexivity.
  - cbn [ref_decode]. rewrite Edata. f_equal. subst len. rewrite Nat2Z.id.
    rewrite <- (Nat.add_0_r (length payload)). rewrite firstn_app_2. cbn [firstn]. apply app_nil_r.
  - cbn [length]. rewrite fp_rest_length. rewrite Nat2Z.inj_succ, Hcnt. destruct (Z.leb_spec len 6); lia.
  - intros k f Hk.
    assert (Hk32: 0 <= Z.of_nat k < 32).
    { assert (Hl: (k < length ((Z.lor 0 order :: len :: pad_ff 6 (firstn 6 payload)) :: fp_rest order 1 cnt (skipn 6 payload)))%nat).
      { apply nth_error_Some. rewrite Hk. discriminate. }
      cbn [length] in Hl. rewrite fp_rest_length in Hl.
      assert (len <= 223) by (subst len; lia).
      destruct (Z.leb_spec len 6); [lia|]. assert ((len - 7) / 7 <= 30) by dm. lia. }
    assert (Hhd: hd 0 f = Z.lor (Z.of_nat k) order).
    { destruct k as [|k]; cbn [nth_error] in Hk.
      - injection Hk as <-. reflexivity.
      - apply fp_rest_hd in Hk. rewrite Hk. f_equal. lia. }
    unfold frame_counter. rewrite Hhd. cbn [hd].
    destruct (lor_low (Z.of_nat k) order Hk32 Hord) as [A B].
    destruct (lor_low 0 order ltac:(lia) Hord) as [_ B0].
    split; [exact A|]. rewrite B, B0. reflexivity.
Qed.

Lemma shl5_mod32 sc : Z.shiftl sc 5 mod 32 = 0.
Proof. rewrite shl5. apply Z_mod_mult. Qed.

(* ================= the exact outcome of a SendMsg with an accepting driver ================= *)
Lemma send_accepting n m idev :
  n_open n = 3 -> 0 <= idev < dev_count n -> n_mode n <> 0 -> m_pgn m <> 0 ->
  (d_src (get_dev n idev) <= 251 \/ m_pgn m = 60928) -> gate_id n m idev <> 0 -> snd (claim_started n idev) = false ->
  m_tp m = false -> n_drv n = [] -> ring_wf (n_q n) ->
  let n1 := fst (claim_started n idev) in
  exists n', send_msg n m idev =
             (n', pending_flush n ++ map (fun lf => EvTx (gate_id n m idev) (fst lf) (firstn (Z.to_nat (fst lf)) (snd lf)) true)
                                         (expected_frames n1 (gated n m idev) idev), true) /\
             nsim n n' /\ quiet_after n'.
Proof.
  intros Ho Hi Hm Hp Hs Hid Hc Htp Hdrv Hwf n1.
  pose proof (gate_pass n m idev Ho Hi Hm Hp Hs Hid Hc) as HG. fold n1 in HG.
  pose proof (claim_started_q n idev) as [Q1 Q2]. fold n1 in Q1, Q2.
  pose proof (nsim_claim n idev) as S1. fold n1 in S1.
  unfold send_msg. rewrite HG.
  replace (m_tp (gated n m idev)) with false by (symmetry; exact Htp). rewrite andb_false_r.
  unfold send_msg0. rewrite HG. unfold expected_frames.
  destruct ((m_len (gated n m idev) <=? 8) && negb (is_fast_packet n1 (gated n m idev))).
  - rewrite Q1, Q2, Hdrv.
    destruct (send_frame_accepting (n_q n) (gate_id n m idev) (m_len (gated n m idev)) (m_data (gated n m idev)) false Hwf) as (q' & E & Hwf' & Hemp & _).
    rewrite E. eexists. split; [reflexivity|]. split.
    + apply (nsim_trans _ _ _ S1). apply nsim_upd_q.
    + unfold quiet_after. cbn [upd_q n_drv n_q]. auto.
  - pose proof (gsc_q n1 idev (m_pgn (gated n m idev))) as [G1 G2].
    pose proof (nsim_gsc n1 idev (m_pgn (gated n m idev))) as S2.
    destruct (get_sequence_counter n1 idev (m_pgn (gated n m idev))) as [n2 sc]. cbn [fst snd] in *.
    rewrite G1, G2, Q1, Q2, Hdrv.
    unfold fp_frames at 1.
    match goal with |- context [send_all (n_q n) [] ?id (?f :: ?rest)] =>
      destruct (send_all_accepting (n_q n) id f rest Hwf) as (q' & E & Hwf' & Hemp & _) end.
    rewrite E. eexists. split.
    + unfold pending_flush, flush_events, fp_frames. rewrite map_map. cbn [fst snd]. reflexivity.
    + split.
      * apply (nsim_trans _ _ _ S1). apply (nsim_trans _ _ _ S2). apply nsim_upd_q.
      * unfold quiet_after. cbn [upd_q n_drv n_q]. auto.
Qed.

(* ================= any driver, any queue: where the frames come from ================= *)
Definition from_queue_or (p:list frame) (id:Z) (e:event) : Prop :=
  match e with
  | EvTx i l d _ => (exists f, In f p /\ f_id f = i /\ f_len f = l /\ f_data f = d) \/ i = id
  | _ => False
  end.

Lemma fifo_flush_origin : forall p d p' d' ev ok, fifo_flush p d = (p', d', ev, ok) ->
  (forall e, In e ev -> exists f okk, In f p /\ e = EvTx (f_id f) (f_len f) (f_data f) okk) /\ (forall f, In f p' -> In f p) /\
  (ok = false -> exists i l dt, In (EvTx i l dt false) ev).
Proof.
  induction p as [|f p IH]; intros d p' d' ev ok E; cbn [fifo_flush] in E.
  - injection E as <- <- <- <-. split; [intros e []|]. split; [auto|discriminate].
  - destruct (can_send d) as [b d1]. destruct b.
    + destruct (fifo_flush p d1) as [[[p2 d2] evs] r] eqn:E2. apply IH in E2. destruct E2 as (A & B & C).
      injection E as <- <- <- <-. split; [|split].
      * intros e [<-|He]; [exists f, true; split; [left; reflexivity|reflexivity]|].
        destruct (A e He) as (g & okk & Hg & ->). exists g, okk. split; [right; exact Hg|reflexivity].
      * intros g Hg. right. apply B. exact Hg.
      * intros Hr. destruct (C Hr) as (i & l & dt & Hin). exists i, l, dt. right. exact Hin.
    + injection E as <- <- <- <-. split; [|split].
      * intros e [<-|[]]. exists f, false. split; [left; reflexivity|reflexivity].
      * auto.
      * intros _. exists (f_id f), (f_len f), (f_data f). left. reflexivity.
Qed.

Lemma send_frame_origin q d id len data w q' d' ev ok : ring_wf q -> send_frame q d id len data w = (q', d', ev, ok) ->
  ring_wf q' /\ (forall e, In e ev -> from_queue_or (ring_contents q) id e) /\
  (forall f, In f (ring_contents q') -> In f (ring_contents q) \/ f_id f = id) /\
  (ok = false -> exists i l dt, In (EvTx i l dt false) ev) /\
  (d = [] -> ok = true /\ d' = []).
Proof.
  intros Hwf E. destruct (send_frame_refines _ _ _ _ _ _ _ _ _ _ Hwf E) as (Hwf' & _ & R).
  split; [exact Hwf'|]. unfold fifo_send in R.
  destruct (fifo_flush (ring_contents q) d) as [[[p1 d1] ev1] fl] eqn:EF.
  pose proof (fifo_flush_acc _ _ _ _ _ _ EF) as [_ Hfl].
  assert (Hacc: d = [] -> fl = true /\ d1 = []).
  { intros ->. rewrite fifo_flush_accepting in EF. injection EF as <- <- <- <-. auto. }
  apply fifo_flush_origin in EF. destruct EF as (A & B & C).
  assert (A': forall e, In e ev1 -> from_queue_or (ring_contents q) id e).
  { intros e He. destruct (A e He) as (g & okk & Hg & ->). left. exists g. auto. }
  assert (Hq: forall d2 ev2, (forall e, In e ev2 -> exists dt, e = EvTx id len dt false) -> (fl = false \/ ev2 <> []) ->
    (if Z.of_nat (length p1) <? q_max q - 1
     then (p1 ++ [{| f_id := id; f_len := Z.min len 8; f_data := firstn (Z.to_nat (Z.min len 8)) data; f_wait := w |}], d2, ev1 ++ ev2, true)
     else (p1, d2, ev1 ++ ev2, false)) = (ring_contents q', d', ev, ok) ->
    (forall e, In e ev -> from_queue_or (ring_contents q) id e) /\
    (forall f, In f (ring_contents q') -> In f (ring_contents q) \/ f_id f = id) /\
    (ok = false -> exists i l dt, In (EvTx i l dt false) ev)).
  { intros d2 ev2 H2 Hne E2. destruct (Z.of_nat (length p1) <? q_max q - 1); injection E2 as <- <- <- <-.
    - split; [|split; [|discriminate]].
      + intros e He. apply in_app_or in He. destruct He as [He|He]; [apply A', He|]. destruct (H2 e He) as (dt & ->). right. reflexivity.
      + intros f Hf. apply in_app_or in Hf. destruct Hf as [Hf|[<-|[]]]; [left; apply B, Hf|right; reflexivity].
    - split; [|split].
      + intros e He. apply in_app_or in He. destruct He as [He|He]; [apply A', He|]. destruct (H2 e He) as (dt & ->). right. reflexivity.
      + intros f Hf. left. apply B, Hf.
      + intros _. destruct Hne as [Hf|Hne].
        * destruct (C Hf) as (i & l & dt & Hin). exists i, l, dt. apply in_or_app. left. exact Hin.
        * destruct ev2 as [|e2 ev2]; [contradiction|]. destruct (H2 e2 (or_introl eq_refl)) as (dt & ->).
          exists id, len, dt. apply in_or_app. right. left. reflexivity. }
  destruct fl.
  - destruct (can_send d1) as [b d2] eqn:ECS. destruct b.
    + injection R as <- <- <- <-. split; [|split; [|split]].
      * intros e He. apply in_app_or in He. destruct He as [He|[<-|[]]]; [apply A', He|right; reflexivity].
      * intros f Hf. left. apply B, Hf.
      * discriminate.
      * intros Hd. destruct (Hacc Hd) as [_ ->]. cbn [can_send] in ECS. injection ECS as <-. auto.
    + destruct (Hq d2 [EvTx id len (firstn (Z.to_nat len) data) false]) with (3:=R) as (X & Y & Zz).
      { intros e [<-|[]]. eexists. reflexivity. }
      { right. discriminate. }
      split; [exact X|]. split; [exact Y|]. split.
      * exact Zz.
      * intros Hd. destruct (Hacc Hd) as [_ ->]. cbn [can_send] in ECS. discriminate.
  - destruct (Hq d1 []) with (3:=R) as (X & Y & Zz).
    { intros e []. }
    { left. reflexivity. }
    split; [exact X|]. split; [exact Y|]. split.
    + exact Zz.
    + intros Hd. destruct (Hacc Hd) as [Hx _]. discriminate.
Qed.

Lemma send_all_origin id : forall frames q d q' d' ev ok, ring_wf q -> send_all q d id frames = (q', d', ev, ok) ->
  ring_wf q' /\ (forall e, In e ev -> from_queue_or (ring_contents q) id e) /\
  (forall f, In f (ring_contents q') -> In f (ring_contents q) \/ f_id f = id) /\
  (ok = false -> exists i l dt, In (EvTx i l dt false) ev) /\
  (d = [] -> ok = true /\ d' = []).
Proof.
  induction frames as [|f rest IH]; intros q d q' d' ev ok Hwf E; cbn [send_all] in E.
  - injection E as <- <- <- <-. split; [exact Hwf|]. split; [intros e []|]. split; [auto|]. split; [discriminate|auto].
  - destruct (send_frame q d id 8 f true) as [[[q1 d1] ev1] ok1] eqn:E1.
    destruct (send_frame_origin _ _ _ _ _ _ _ _ _ _ Hwf E1) as (W1 & A1 & B1 & C1 & D1).
    destruct ok1.
    + destruct (send_all q1 d1 id rest) as [[[q2 d2] ev2] r] eqn:E2.
      destruct (IH _ _ _ _ _ _ W1 E2) as (W2 & A2 & B2 & C2 & D2).
      injection E as <- <- <- <-. split; [exact W2|]. split; [|split; [|split]].
      * intros e He. apply in_app_or in He. destruct He as [He|He]; [apply A1, He|].
        specialize (A2 e He). destruct e as [i l dt b| | |]; cbn [from_queue_or] in *; try contradiction.
        destruct A2 as [(g & Hg & G1 & G2 & G3)| -> ]; [|right; reflexivity].
        destruct (B1 g Hg) as [Hq|Hq]; [left; exists g; auto|right; congruence].
      * intros g Hg. destruct (B2 g Hg) as [Hq|Hq]; [|right; exact Hq]. apply B1, Hq.
      * intros Hr. destruct (C2 Hr) as (i & l & dt & Hin). exists i, l, dt. apply in_or_app. right. exact Hin.
      * intros Hd. destruct (D1 Hd) as [_ Hd1]. apply D2, Hd1.
    + injection E as <- <- <- <-. split; [exact W1|]. split; [exact A1|]. split; [exact B1|]. split; [intros _; apply C1; reflexivity|].
      intros Hd. destruct (D1 Hd) as [X _]. discriminate.
Qed.

(* ================= SendMsg of a message that is not flagged for ISO-TP, in general ================= *)
Lemma send_msg_notp n m idev : m_tp m = false -> send_msg n m idev = send_msg0 n m idev.
Proof.
  intros Htp. unfold send_msg. destruct (send_gate n m idev) as [n1 r] eqn:EG.
  destruct r as [[[m' i] id]|]; [|unfold send_msg0; rewrite EG; reflexivity].
  destruct (gate_inv _ _ _ _ _ EG) as (_ & _ & Hinv). destruct (Hinv _ _ _ eq_refl) as (_ & _ & _ & _ & _ & _ & _ & _ & _ & I10).
  assert (m_tp m' = false) by (rewrite I10; exact Htp). rewrite H, andb_false_r. reflexivity.
Qed.

Lemma gate_nsim n m idev : nsim n (fst (send_gate n m idev)).
Proof.
  unfold send_gate.
  destruct (negb (n_open n =? 3)); [apply nsim_refl|].
  destruct (idev >=? dev_count n); [apply nsim_refl|].
  destruct (_ && _); [apply nsim_refl|].
  destruct (_ =? 0); [apply nsim_refl|].
  destruct (n_mode n =? 0); [apply nsim_refl|].
  destruct (m_pgn m =? 0); [apply nsim_refl|].
  pose proof (nsim_claim n (if idev >=? 0 then idev else 0)) as S.
  destruct (claim_started n (if idev >=? 0 then idev else 0)) as [nn cl]. cbn [fst] in S.
  destruct (cl && _); exact S.
Qed.

Definition msg_id (n:node) (m:msg) (idev:Z) : Z :=
  to_can_id (m_pri m) (m_pgn m) (if idev >=? 0 then d_src (get_dev n idev) else m_src m) (if negb (Z.land (m_pgn m) 255 =? 0) then 255 else m_dst m).

Lemma send_msg_origin n m idev n' ev ok : m_tp m = false -> ring_wf (n_q n) -> send_msg n m idev = (n', ev, ok) ->
  ring_wf (n_q n') /\ nsim n n' /\
  (forall e, In e ev -> from_queue_or (ring_contents (n_q n)) (msg_id n m idev) e) /\
  (forall f, In f (ring_contents (n_q n')) -> In f (ring_contents (n_q n)) \/ f_id f = msg_id n m idev) /\
  (ev = [] -> ok = false -> n_q n' = n_q n /\ n_drv n' = n_drv n) /\
  (ok = false -> ev = [] \/ exists i l dt, In (EvTx i l dt false) ev).
Proof.
  intros Htp Hwf E. rewrite (send_msg_notp _ _ _ Htp) in E. unfold send_msg0 in E.
  pose proof (gate_nsim n m idev) as SG.
  destruct (send_gate n m idev) as [n1 r] eqn:EG. cbn [fst] in SG.
  destruct (gate_inv _ _ _ _ _ EG) as (Q1 & Q2 & Hinv).
  destruct r as [[[m' i] id]|].
  - destruct (Hinv _ _ _ eq_refl) as (_ & _ & I3 & _ & _ & _ & _ & _ & _ & _). fold (msg_id n m idev) in I3. subst id.
    destruct ((m_len m' <=? 8) && negb (is_fast_packet n1 m')).
    + destruct (send_frame (n_q n1) (n_drv n1) (msg_id n m idev) (m_len m') (m_data m') false) as [[[q d] ev1] ok1] eqn:E1.
      rewrite Q1 in E1. destruct (send_frame_origin _ _ _ _ _ _ _ _ _ _ Hwf E1) as (W & A & B & C & _).
      injection E as <- <- <-. cbn [upd_q n_q n_drv]. split; [exact W|]. split; [apply (nsim_trans _ _ _ SG), nsim_upd_q|].
      split; [exact A|]. split; [exact B|]. split.
      * intros -> Hok. destruct (C Hok) as (i0 & l & dt & []).
      * intros Hok. right. exact (C Hok).
    + pose proof (gsc_q n1 i (m_pgn m')) as [G1 G2]. pose proof (nsim_gsc n1 i (m_pgn m')) as S2.
      destruct (get_sequence_counter n1 i (m_pgn m')) as [n2 sc]. cbn [fst snd] in *.
      destruct (send_all (n_q n2) (n_drv n2) (msg_id n m idev) (fp_frames (Z.shiftl sc 5) (m_data m'))) as [[[q d] ev1] ok1] eqn:E1.
      rewrite G1, Q1 in E1. destruct (send_all_origin _ _ _ _ _ _ _ _ Hwf E1) as (W & A & B & C & _).
      injection E as <- <- <-. cbn [upd_q n_q n_drv]. split; [exact W|].
      split; [apply (nsim_trans _ _ _ SG), (nsim_trans _ _ _ S2), nsim_upd_q|].
      split; [exact A|]. split; [exact B|]. split.
      * intros -> Hok. destruct (C Hok) as (i0 & l & dt & []).
      * intros Hok. right. exact (C Hok).
  - injection E as <- <- <-. split; [rewrite Q1; exact Hwf|]. split; [exact SG|]. split; [intros e []|].
    split; [intros f Hf; left; rewrite Q1 in Hf; exact Hf|]. split; [auto|]. intros _. left. reflexivity.
Qed.
