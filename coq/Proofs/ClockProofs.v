(* C13 - proofs of statements 1..5 of Spec/ClockSpec.v: timer primitives, slot ageing, synchronised scheduler, N2kMillis64.
   (statement 6, the node level, is developed in Proofs/ClockProofsNode*.v) *)
From Coq Require Import ZArith List Bool Lia.
From N2kV Require Import Base.ListAux Model.CanId Model.Sched Model.PgnClass Model.NodeDefs Model.NodeRxDefs Gen.GenTables Gen.GenConsts
  Spec.ClockSpec Proofs.SendProofs.
Import ListNotations.
Local Open Scope Z_scope.

Ltac dm := unfold SENT32, SENT64, IMAX, u32, u64 in *; unfold M32, M64 in *;
  change (2^32) with 4294967296 in *; change (2^31) with 2147483648 in *; change (2^64) with 18446744073709551616 in *;
  Z.div_mod_to_equations; lia.

Lemma u32_shift a b c : u32 (u32 (a + c) - u32 (b + c)) = u32 (a - b).  Proof. dm. Qed.
Lemma u32_idem a : u32 (u32 a) = u32 a.  Proof. dm. Qed.
Lemma u32_sub_l a b : u32 (u32 a - b) = u32 (a - b).  Proof. dm. Qed.
Lemma u32_add_l a b : u32 (u32 a + b) = u32 (a + b).  Proof. dm. Qed.
Lemma u32_range a : 0 <= u32 a < M32.  Proof. dm. Qed.

Lemma is_time_before_shift t1 t2 c : is_time_before (u32 (t1 + c)) (u32 (t2 + c)) = is_time_before t1 t2.
Proof. unfold is_time_before. rewrite u32_shift. reflexivity. Qed.
Lemma has_elapsed_shift s el now c : has_elapsed (u32 (s + c)) el (u32 (now + c)) = has_elapsed s el now.
Proof. unfold has_elapsed. f_equal. dm. Qed.
Lemma has_elapsed_true s el e : 0 <= el -> 0 <= e -> e - el < IMAX -> el - e <= M32 - IMAX -> has_elapsed (u32 s) el (u32 (s + e)) = (el <=? e).
Proof.
  intros. unfold has_elapsed. destruct (Z.leb_spec el e); [apply Z.ltb_lt|apply Z.ltb_ge]; dm.
Qed.

Lemma sched_is_time32 now s : sched_is_time false now s = negb (s =? SENT32) && (u32 (now - s) <? IMAX).
Proof. unfold sched_is_time, sched_is_enabled, sched_disabled. rewrite u32_sub_l. reflexivity. Qed.
Lemma sched_from_now32 now add : sched_from_now false now add = if u32 (now + add) =? SENT32 then 0 else u32 (now + add).
Proof. unfold sched_from_now, sched_disabled. rewrite u32_add_l. reflexivity. Qed.

Theorem prim_shift : prim_shift_stmt.
Proof.
  unfold prim_shift_stmt.
  split; [exact is_time_before_shift|]. split; [exact has_elapsed_shift|].
  split.
  { intros now s c Hs Hn Hn'. rewrite !sched_is_time32. unfold sched_is_enabled, sched_disabled. fold SENT32.
    destruct (Z.eqb_spec (u32 (s + c)) SENT32) as [E|_]; [contradiction|].
    destruct (Z.eqb_spec s SENT32) as [E|_]; [contradiction|]. cbn [negb andb]. split; [reflexivity|].
    f_equal. dm. }
  split.
  { intros now c. rewrite sched_is_time32. unfold sched_is_enabled, sched_disabled. fold SENT32. rewrite Z.eqb_refl. split; reflexivity. }
  split.
  { intros now add c. cbv zeta. rewrite !sched_from_now32. unfold sched_is_enabled, sched_disabled. fold SENT32.
    destruct (Z.eqb_spec (u32 (now + add)) SENT32) as [E|E].
    - split; [reflexivity|]. split; [unfold M32; change (2^32) with 4294967296; lia|]. split; [right; split; [exact E|dm]|]. intros; contradiction.
    - split; [destruct (Z.eqb_spec (u32 (now + add)) SENT32); [contradiction|reflexivity]|].
      split; [apply u32_range|]. split; [left; reflexivity|]. intros _ H'.
      destruct (Z.eqb_spec (u32 (now + c + add)) SENT32) as [E'|_]; [contradiction|]. dm. }
  split.
  { intros now s c Hs. unfold sched_is_time. destruct (Z.ltb_spec (s + c) (now + c)), (Z.ltb_spec s now); try reflexivity; lia. }
  split.
  { intros now c H1 H2. unfold sched_is_time. destruct (Z.ltb_spec SENT64 (now + c)), (Z.ltb_spec SENT64 now); try reflexivity; lia. }
  { intros now add c H1 H2 H3. unfold sched_from_now. dm. }
Qed.
Print Assumptions prim_shift.

Theorem timer_fires : timer_fires_stmt.
Proof.
  unfold timer_fires_stmt. split; [|split].
  - intros t0 d e H. unfold sched_is_time, sched_from_now, u64. rewrite (Z.mod_small (t0 + d)) by exact H.
    destruct (Z.ltb_spec (t0 + d) (t0 + e)), (Z.ltb_spec d e); try reflexivity; lia.
  - intros t0 d e Hd He. cbv zeta. rewrite sched_is_time32, sched_from_now32.
    change (2^31) with 2147483648 in *.
    destruct (Z.eqb_spec (u32 (t0 + d)) SENT32) as [E|E].
    + change (0 =? SENT32) with false. cbn [negb andb]. split; [|split].
      * intros H. apply Z.ltb_lt. dm.
      * intros H. apply Z.ltb_ge. dm.
      * intros ->. apply Z.ltb_ge. dm.
    + destruct (Z.eqb_spec (u32 (t0 + d)) SENT32) as [|_]; [contradiction|]. cbn [negb andb]. split; [|split].
      * intros H. apply Z.ltb_lt. dm.
      * intros H. apply Z.ltb_ge. dm.
      * intros ->. apply Z.ltb_lt. dm.
  - exact has_elapsed_true.
Qed.
Print Assumptions timer_fires.

(* ================= slot ageing ================= *)
Lemma shift_slot_free c s : s_free (shift_slot c s) = s_free s.
Proof. unfold shift_slot. destruct (s_free s) eqn:E; [exact E|reflexivity]. Qed.
Lemma shift_slot_fields c s :
  s_pgn (shift_slot c s) = s_pgn s /\ s_src (shift_slot c s) = s_src s /\ s_dst (shift_slot c s) = s_dst s /\ s_tp (shift_slot c s) = s_tp s.
Proof. unfold shift_slot. destruct (s_free s); repeat split. Qed.
Lemma shift_slot_time c s : s_free s = false -> s_time (shift_slot c s) = u32 (s_time s + c).
Proof. unfold shift_slot. intros ->. reflexivity. Qed.
Lemma free_shift_slot c s : free_slot (shift_slot c s) = shift_slot c (free_slot s).
Proof. unfold shift_slot. destruct (s_free s) eqn:E; cbn; reflexivity. Qed.

Lemma ff_scan_shift c pgn src dst tp : forall slots i oi ot,
  ff_scan (map (shift_slot c) slots) pgn src dst tp i oi (u32 (ot + c)) =
  let '(j, oj, ot') := ff_scan slots pgn src dst tp i oi ot in (j, oj, u32 (ot' + c)).
Proof.
  induction slots as [|s rest IH]; intros i oi ot; cbn [map ff_scan]; [reflexivity|].
  rewrite shift_slot_free. destruct (shift_slot_fields c s) as (-> & -> & -> & ->).
  destruct (s_free s) eqn:F; cbn [orb]; [reflexivity|].
  destruct ((s_pgn s =? pgn) && (s_src s =? src) && (s_dst s =? dst) && eqb (s_tp s) tp); [reflexivity|].
  rewrite shift_slot_time by exact F. rewrite is_time_before_shift.
  destruct (is_time_before (s_time s) ot); apply IH.
Qed.

Lemma map_set_nth {A B} (f:A -> B) : forall l i v, map f (set_nth l i v) = set_nth (map f l) i (f v).
Proof. induction l as [|a l IH]; intros [|i] v; cbn; try reflexivity. rewrite IH. reflexivity. Qed.
Lemma map_zset {A B} (f:A -> B) l i v : map f (zset l i v) = zset (map f l) i (f v).
Proof. unfold zset. apply map_set_nth. Qed.
Lemma znth_map {A B} (f:A -> B) l i d d' : (Z.to_nat i < length l)%nat -> znth (map f l) i d' = f (znth l i d).
Proof. intros H. unfold znth. rewrite (nth_indep _ d' (f d)) by (rewrite map_length; exact H). apply map_nth. Qed.

Lemma ff_scan_oldest_range pgn src dst tp : forall slots i oi ot, 0 <= i ->
  let '(j, oj, _) := ff_scan slots pgn src dst tp i oi ot in
  (oj = oi \/ i <= oj < i + Z.of_nat (length slots)).
Proof.
  induction slots as [|s rest IH]; intros i oi ot Hi; cbn [ff_scan length]; [left; reflexivity|].
  destruct (s_free s || _); [left; reflexivity|].
  destruct (is_time_before (s_time s) ot).
  - specialize (IH (i + 1) i (s_time s) ltac:(lia)). destruct (ff_scan rest pgn src dst tp (i + 1) i (s_time s)) as [[j oj] t].
    right. rewrite Nat2Z.inj_succ. destruct IH; lia.
  - specialize (IH (i + 1) oi ot ltac:(lia)). destruct (ff_scan rest pgn src dst tp (i + 1) oi ot) as [[j oj] t].
    rewrite Nat2Z.inj_succ. destruct IH; [left; assumption|right; lia].
Qed.

Lemma ff_key_shift c pgn src dst tp : forall slots i,
  ff_key (map (shift_slot c) slots) pgn src dst tp i = ff_key slots pgn src dst tp i.
Proof.
  induction slots as [|s rest IH]; intros i; cbn [map ff_key]; [reflexivity|].
  rewrite shift_slot_free. destruct (shift_slot_fields c s) as (-> & -> & -> & ->). rewrite IH. reflexivity.
Qed.

Theorem slot_age_shift : slot_age_shift_stmt.
Proof.
  unfold slot_age_shift_stmt. intros r r' c pgn src dst tp Hs Hn.
  unfold find_free_slot, nslots, now32. rewrite Hs, Hn, map_length. rewrite ff_key_shift.
  destruct (ff_key (r_slots r) pgn src dst tp 0 <? Z.of_nat (length (r_slots r))); [reflexivity|].
  replace (u32 (now r + c)) with (u32 (u32 (now r) + c)) by dm.
  rewrite ff_scan_shift.
  pose proof (ff_scan_oldest_range pgn src dst tp (r_slots r) 0 (Z.of_nat (length (r_slots r))) (u32 (now r)) ltac:(lia)) as R.
  destruct (ff_scan (r_slots r) pgn src dst tp 0 (Z.of_nat (length (r_slots r))) (u32 (now r))) as [[j oj] ot].
  rewrite has_elapsed_shift.
  destruct ((j =? Z.of_nat (length (r_slots r))) && has_elapsed ot c_Max_N2kMsgBuf_Time (u32 (now r))) eqn:E; cbn [fst snd]; [|reflexivity].
  f_equal. rewrite map_zset. f_equal. rewrite <- free_shift_slot. f_equal.
  destruct R as [->|R].
  - (* the loop never recorded an oldest slot: the index is the table size, reading and writing there do nothing *)
    unfold znth. rewrite !nth_overflow by (rewrite ?map_length; lia). reflexivity.
  - apply znth_map. lia.
Qed.
Print Assumptions slot_age_shift.

(* ================= the synchronised scheduler ================= *)
Lemma SB_val : SB = 4611686018427387904.  Proof. reflexivity. Qed.
Lemma sh64_dis c : sh64 c SENT64 = SENT64.  Proof. unfold sh64. rewrite Z.eqb_refl. reflexivity. Qed.
Lemma sh64_en c t : t <> SENT64 -> sh64 c t = t + c.
Proof. unfold sh64. intros H. destruct (Z.eqb_spec t SENT64); [contradiction|reflexivity]. Qed.

Theorem ss_shift : ss_shift_stmt.
Proof.
  unfold ss_shift_stmt. intros now sync s c Hc Hn Hnc Hs Hsc Ho Hp. rewrite SB_val in *. split.
  - unfold ss_update_next, shift_ss. cbn [ss_period ss_offset ss_next].
    destruct (Z.eqb_spec (ss_period s) 0) as [E|E].
    + cbn [ss_next ss_offset ss_period]. change ss_disabled with SENT64. rewrite sh64_dis. reflexivity.
    + cbn [ss_next ss_offset ss_period]. f_equal.
      assert (B1: u64 (ss_offset s + (sync + c)) = ss_offset s + sync + c) by (unfold u64, M64; rewrite Z.mod_small; lia).
      assert (B2: u64 (ss_offset s + sync) = ss_offset s + sync) by (unfold u64, M64; rewrite Z.mod_small; lia).
      rewrite B1, B2.
      destruct (Z.gtb_spec (ss_offset s + sync + c) (now + c)) as [G|G], (Z.gtb_spec (ss_offset s + sync) now) as [G'|G']; try lia.
      * rewrite sh64_en by (unfold SENT64, M64; lia). lia.
      * replace (now + c - (ss_offset s + sync + c)) with (now - (ss_offset s + sync)) by lia.
        set (q := (now - (ss_offset s + sync)) / ss_period s + 1).
        assert (Hq: 0 < q * ss_period s <= now - (ss_offset s + sync) + ss_period s).
        { pose proof (Z.div_mod (now - (ss_offset s + sync)) (ss_period s) E).
          pose proof (Z.mod_pos_bound (now - (ss_offset s + sync)) (ss_period s) ltac:(lia)).
          assert (0 <= (now - (ss_offset s + sync)) / ss_period s) by (apply Z.div_pos; lia). unfold q. nia. }
        assert (B3: u64 (q * ss_period s) = q * ss_period s) by (unfold u64, M64; rewrite Z.mod_small; lia).
        rewrite B3.
        assert (B4: u64 (sync + c + ss_offset s + q * ss_period s) = sync + c + ss_offset s + q * ss_period s) by (unfold u64, M64; rewrite Z.mod_small; lia).
        assert (B5: u64 (sync + ss_offset s + q * ss_period s) = sync + ss_offset s + q * ss_period s) by (unfold u64, M64; rewrite Z.mod_small; lia).
        rewrite B4, B5. rewrite sh64_en by (unfold SENT64, M64; lia). lia.
  - unfold ss_is_time, shift_ss. cbn [ss_next]. unfold sh64.
    destruct (Z.eqb_spec (ss_next s) SENT64) as [E|E].
    + rewrite E. unfold SENT64, M64. destruct (Z.ltb_spec (2^64 - 1) (now + c)), (Z.ltb_spec (2^64 - 1) now); try reflexivity; lia.
    + destruct (Z.ltb_spec (ss_next s + c) (now + c)), (Z.ltb_spec (ss_next s) now); try reflexivity; lia.
Qed.
Print Assumptions ss_shift.

(* ================= N2kMillis64, 32-bit build ================= *)
Lemma millis64_32 r : w64 r = false ->
  millis64 r = (with_clk r (if snd (r_clk r) >? now32 r then (fst (r_clk r) + 1) mod M32 else fst (r_clk r), now32 r),
                (if snd (r_clk r) >? now32 r then (fst (r_clk r) + 1) mod M32 else fst (r_clk r)) * M32 + now32 r).
Proof. intros H. unfold millis64. rewrite H. reflexivity. Qed.

Lemma clock_reads_from : forall ts r t v,
  w64 r = false -> r_clk r = (fst (r_clk r), u32 t) -> v = fst (r_clk r) * M32 + u32 t ->
  0 <= fst (r_clk r) -> fst (r_clk r) + Z.of_nat (length ts) < M32 -> gaps_ok t ts ->
  map (fun x => x - v) (clock_reads r ts) = map (fun t' => t' - t) ts.
Proof.
  induction ts as [|t' rest IH]; intros r t v Hw Hclk Hv Hr Hn Hg; [reflexivity|].
  cbn [clock_reads gaps_ok length] in *. destruct Hg as [Hg1 Hg2].
  set (r0 := with_rn r (set_now (rn r) t')).
  assert (Hw0: w64 r0 = false) by exact Hw.
  rewrite (millis64_32 r0 Hw0).
  assert (Hc0: r_clk r0 = r_clk r) by reflexivity.
  assert (Hn0: now32 r0 = u32 t') by reflexivity.
  rewrite Hc0, Hn0. rewrite Hclk. cbn [fst snd].
  set (rolls := if u32 t >? u32 t' then (fst (r_clk r) + 1) mod M32 else fst (r_clk r)).
  assert (Hval: rolls * M32 + u32 t' - v = t' - t /\ 0 <= rolls /\ rolls + Z.of_nat (length rest) < M32).
  { subst v rolls. rewrite Nat2Z.inj_succ in Hn.
    destruct (Z.gtb_spec (u32 t) (u32 t')) as [G|G].
    - rewrite Z.mod_small by lia. split; [dm|lia].
    - split; [dm|lia]. }
  destruct Hval as (V1 & V2 & V3).
  cbn [map]. f_equal; [exact V1|].
  set (r1 := with_clk r0 (rolls, u32 t')).
  specialize (IH r1 t' (rolls * M32 + u32 t') Hw0 eq_refl eq_refl V2 V3 Hg2).
  cbn [r_clk with_clk fst] in IH.
  rewrite <- (map_ext (fun x => (x - (rolls * M32 + u32 t')) + (t' - t)) (fun x => x - v)) by (intros; lia).
  rewrite <- (map_map (fun x => x - (rolls * M32 + u32 t')) (fun y => y + (t' - t))).
  rewrite IH. rewrite map_map. apply map_ext. intros. lia.
Qed.

Theorem millis64_ok : millis64_stmt.
Proof.
  unfold millis64_stmt. intros r t0 ts Hw Hg Hr Hn. cbv zeta.
  cbn [clock_reads]. set (r0 := with_rn r (set_now (rn r) t0)).
  assert (Hw0: w64 r0 = false) by exact Hw.
  rewrite (millis64_32 r0 Hw0).
  assert (Hc0: r_clk r0 = r_clk r) by reflexivity.
  assert (Hn0: now32 r0 = u32 t0) by reflexivity.
  rewrite Hc0, Hn0.
  set (rolls := if snd (r_clk r) >? u32 t0 then (fst (r_clk r) + 1) mod M32 else fst (r_clk r)).
  cbn [hd map]. f_equal; [lia|].
  assert (R: 0 <= rolls /\ rolls + Z.of_nat (length ts) < M32).
  { subst rolls. destruct (snd (r_clk r) >? u32 t0); [rewrite Z.mod_small by lia|]; lia. }
  apply (clock_reads_from ts (with_clk r0 (rolls, u32 t0)) t0 (rolls * M32 + u32 t0) Hw0 eq_refl eq_refl); cbn [r_clk with_clk fst]; try lia.
  exact Hg.
Qed.
Print Assumptions millis64_ok.

Theorem millis64_gap : millis64_gap_stmt.
Proof.
  unfold millis64_gap_stmt. intros r t0 Hw. cbv zeta. cbn [clock_reads].
  set (r0 := with_rn r (set_now (rn r) t0)).
  assert (Hw0: w64 r0 = false) by exact Hw.
  rewrite (millis64_32 r0 Hw0).
  set (r1 := with_clk r0 _).
  set (r2 := with_rn r1 (set_now (rn r1) (t0 + M32))).
  assert (Hw2: w64 r2 = false) by exact Hw.
  rewrite (millis64_32 r2 Hw2). cbn [nth].
  assert (E: now32 r2 = now32 r0) by (unfold now32, now, r2, r1, r0; cbn; dm).
  assert (C: r_clk r2 = r_clk r1) by reflexivity.
  rewrite C. unfold r1 at 1 2 3. cbn [r_clk with_clk fst snd]. rewrite E.
  assert (G: forall x, (x >? x) = false) by (intros; rewrite Z.gtb_ltb; apply Z.ltb_irrefl).
  rewrite G. lia.
Qed.
Print Assumptions millis64_gap.
