(* C16 proofs, part C: round trips of fixed-length, AIS and plain variable-length fields. *)
From Coq Require Import ZArith List Bool Lia.
From N2kV Require Import Base.Res Base.ListAux Model.TextDefs Spec.TextSpec Proofs.TextProofsA Proofs.TextProofsB.
Import ListNotations ResNotations.
Local Open Scope Z_scope.

Local Ltac Zify.zify_post_hook ::= Z.div_mod_to_equations.

(* ---------- reading back what was appended ---------- *)
Lemma skipn_app_exact {A} (a b:list A) n : n = length a -> skipn n (a ++ b) = b.
Proof. intros ->. induction a as [|x a IH]; [reflexivity|exact IH]. Qed.

Lemma firstn_app_exact {A} (a b:list A) n : n = length a -> firstn n (a ++ b) = a.
Proof. intros ->. induction a as [|x a IH]; [reflexivity|]. cbn [length firstn app]. rewrite IH. reflexivity. Qed.

Lemma firstn_app_le {A} (a b:list A) n : (n <= length a)%nat -> firstn n (a ++ b) = firstn n a.
Proof. intros H. rewrite firstn_app. replace (n - length a)%nat with 0%nat by lia. cbn [firstn]. apply app_nil_r. Qed.

Lemma from_appended m f : payload m -> mlen m + Z.of_nat (length f) <= 223 ->
  from (appended m f) (mlen m) = f ++ skipn (Z.to_nat (mlen m) + length f) (mdata m).
Proof.
  intros [Hd Hl] Hf. unfold from, appended, splice. cbn [mdata].
  apply skipn_app_exact. rewrite firstn_length. lia.
Qed.

Lemma from_appended_skip m a f : payload m -> mlen m + Z.of_nat (length (a ++ f)) <= 223 ->
  from (appended m (a ++ f)) (mlen m + Z.of_nat (length a)) = f ++ skipn (Z.to_nat (mlen m) + length (a ++ f)) (mdata m).
Proof.
  intros [Hd Hl] Hf. unfold from, appended, splice. cbn [mdata].
  rewrite <- (app_assoc a f). rewrite (app_assoc (firstn _ _) a).
  apply skipn_app_exact. rewrite app_length, firstn_length. rewrite app_length in Hf. lia.
Qed.

(* ---------- c_str of what the readers store ---------- *)
Definition plain (nul:Z) (t:list Z) : Prop := Forall (fun b => b <> 0 /\ b <> nul) t.

Lemma gmap_plain nul t : plain nul t -> forall r, gmap nul false (t ++ r) = t ++ gmap nul false r.
Proof.
  induction t as [|b t IH]; intros Hp r; [reflexivity|].
  pose proof (Forall_inv Hp) as [Hb0 Hbn]. pose proof (Forall_inv_tail Hp) as Hp'.
  cbn [app gmap orb]. destruct (Z.eqb_spec b 0) as [?|_]; [congruence|]. destruct (Z.eqb_spec b nul) as [?|_]; [congruence|].
  cbn [orb]. rewrite IH by exact Hp'. reflexivity.
Qed.

Lemma gmap_stopped nul : forall l, gmap nul true l = repeat 0 (length l).
Proof. induction l as [|b l IH]; [reflexivity|]. cbn [gmap orb length repeat]. rewrite IH. reflexivity. Qed.

Lemma gmap_pad nul n : gmap nul false (repeat nul n) = repeat 0 n.
Proof.
  destruct n as [|n]; [reflexivity|]. cbn [repeat gmap orb]. rewrite Z.eqb_refl, orb_true_r.
  rewrite gmap_stopped, repeat_length. reflexivity.
Qed.

Lemma c_str_app_zero t r : Forall (fun b => b <> 0) t -> c_str (t ++ 0 :: r) = t.
Proof.
  induction t as [|b t IH]; intros H; [reflexivity|].
  pose proof (Forall_inv H) as Hb. pose proof (Forall_inv_tail H) as H'.
  cbn [app c_str]. destruct (Z.eqb_spec b 0) as [?|_]; [congruence|]. rewrite IH by exact H'. reflexivity.
Qed.

Lemma plain_nz nul t : plain nul t -> Forall (fun b => b <> 0) t.
Proof. intros H. eapply Forall_impl; [|exact H]. cbn beta. tauto. Qed.

Lemma plain_firstn nul n t : plain nul t -> plain nul (firstn n t).
Proof. intros H. unfold plain in *. rewrite <- (firstn_skipn n t) in H. apply Forall_app in H. tauto. Qed.

(* text, then padding, then at least one NUL *)
Lemma c_str_padded nul t a b : plain nul t -> c_str ((t ++ repeat 0 a) ++ repeat 0 (S b)) = t.
Proof.
  intros H. rewrite <- app_assoc.
  assert (E : exists r, repeat 0 a ++ repeat 0 (S b) = 0 :: r) by (destruct a; eexists; reflexivity).
  destruct E as (r & ->). apply c_str_app_zero. eapply plain_nz. exact H.
Qed.

Lemma firstn_repeat {A} (v:A) n k : firstn k (repeat v n) = repeat v (Nat.min k n).
Proof. revert n. induction k as [|k IH]; intros [|n]; cbn [firstn repeat Nat.min]; try reflexivity. rewrite IH. reflexivity. Qed.

(* a field  text ++ padding  read through k <= |field| bytes by the sized copy loop *)
Lemma gmap_field nul t p k : plain nul t ->
  gmap nul false (firstn k (t ++ repeat nul p)) = firstn k t ++ repeat 0 (Nat.min (k - length t) p).
Proof.
  intros H. rewrite firstn_app, firstn_repeat. rewrite (gmap_plain nul _ (plain_firstn nul k t H)). rewrite gmap_pad. reflexivity.
Qed.

(* ---------- 4a. fixed-length fields ---------- *)
Lemma cstring_plain s nul : cstring s -> ~ In nul s -> plain nul s.
Proof.
  intros Hs Hn. apply Forall_forall. intros b Hb. unfold cstring in Hs. rewrite Forall_forall in Hs.
  specialize (Hs b Hb). split; [lia|]. intros ->. exact (Hn Hb).
Qed.

Theorem roundtrip_fixed : roundtrip_fixed_stmt.
Proof.
  intros m s len fillc dest Hp Hs Hlen Hfit Hnin size Hsize.
  pose proof Hp as [Hd Hl].
  pose proof (fixed_field_length s len fillc Hlen) as Hfl.
  assert (Hp' : payload (appended m (fixed_field s len fillc))) by (apply appended_payload; [exact Hp|lia]).
  exists (appended m (fixed_field s len fillc)). eexists. split; [apply add_str_spec; assumption|].
  pose proof (get_str_sized_fits (appended m (fixed_field s len fillc)) dest len fillc (mlen m) Hp' ltac:(lia) Hlen) as E.
  cbn zeta in E. fold size in E. cbn [appended mlen] in E. rewrite Hfl in E. specialize (E ltac:(lia) Hsize).
  split; [exact E|].
  pose proof (gs_out_length (appended m (fixed_field s len fillc)) size len fillc (mlen m) Hp' ltac:(lia) Hlen) as Hol.
  cbn [appended mlen] in Hol. rewrite Hfl in Hol. specialize (Hol ltac:(lia) Hsize).
  unfold gs_out in *. rewrite from_appended in * by (try assumption; lia).
  set (k := Z.to_nat (Z.min len (size - 1))) in *.
  rewrite firstn_app_le in * by lia.
  unfold fixed_field in *. rewrite (gmap_field fillc) in * by (apply plain_firstn; apply cstring_plain; assumption).
  rewrite firstn_firstn in *. replace (Nat.min k (Z.to_nat len)) with k in * by lia.
  match goal with |- c_str (?x ++ repeat 0 ?n) = _ => replace n with (S (n - 1)) by lia end.
  rewrite (c_str_padded fillc) by (apply plain_firstn; apply cstring_plain; assumption).
  reflexivity.
Qed.

(* ---------- 5. AIS fields ---------- *)
Lemma toupper_schar b : 1 <= b <= 255 ->
  toupper_c (schar b) = if (97 <=? b) && (b <=? 122) then b - 32 else if b <? 128 then b else b - 256.
Proof.
  intros Hb. unfold toupper_c, schar. destruct (Z.ltb_spec b 128) as [Hlt|Hge].
  - reflexivity.
  - destruct (Z.leb_spec 97 (b - 256)); [lia|]. destruct (Z.leb_spec 97 b); [|lia]. destruct (Z.leb_spec b 122); [lia|]. reflexivity.
Qed.

Lemma ais_char_spec b : 1 <= b <= 255 -> ais_char b = ais_spec b /\ ais_char b <> 0 /\ (b <> 64 -> ais_char b <> 64).
Proof.
  intros Hb. unfold ais_char, ais_spec. cbv zeta. rewrite (toupper_schar b Hb).
  destruct (Z.leb_spec 97 b) as [H97|H97]; cbn [andb].
  - destruct (Z.leb_spec b 122) as [H122|H122].
    + destruct (Z.leb_spec 32 (b - 32)); [|lia]. destruct (Z.leb_spec (b - 32) 95); [|lia]. cbn [andb]. lia.
    + destruct (Z.ltb_spec b 128).
      * destruct (Z.leb_spec 32 b); [|lia]. destruct (Z.leb_spec b 95); [lia|]. cbn [andb]. lia.
      * destruct (Z.leb_spec 32 (b - 256)); [lia|]. destruct (Z.leb_spec 32 b); [|lia]. destruct (Z.leb_spec b 95); [lia|]. cbn [andb]. lia.
  - destruct (Z.ltb_spec b 128); [|lia].
    destruct (Z.leb_spec 32 b); cbn [andb]; [|lia].
    destruct (Z.leb_spec b 95); lia.
Qed.

Lemma map_ais s : cstring s -> map ais_char s = map ais_spec s.
Proof.
  intros Hs. apply map_ext_in. intros b Hb. unfold cstring in Hs. rewrite Forall_forall in Hs. apply ais_char_spec. apply Hs. exact Hb.
Qed.

Lemma ais_plain s : cstring s -> ~ In 64 s -> plain 64 (map ais_char s).
Proof.
  intros Hs Hn. apply Forall_forall. intros c Hc. apply in_map_iff in Hc. destruct Hc as (b & <- & Hb).
  unfold cstring in Hs. rewrite Forall_forall in Hs. destruct (ais_char_spec b (Hs b Hb)) as (_ & H0 & H64).
  split; [exact H0|]. apply H64. intros ->. exact (Hn Hb).
Qed.

Theorem roundtrip_ais : roundtrip_ais_stmt.
Proof.
  intros m s len dest Hp Hs Hlen Hnin size n.
  pose proof Hp as [Hd Hl].
  assert (Hn : 0 <= n) by (subst n; lia).
  pose proof (ais_field_length s n Hn) as Hfl.
  assert (Hp' : payload (appended m (ais_field s n))) by (apply appended_payload; [exact Hp|subst n; lia]).
  exists (appended m (ais_field s n)). split; [apply add_ais_str_spec; assumption|].
  split; [unfold appended; cbn [mlen]; lia|].
  assert (Hpl : plain 64 (map ais_char (firstn (Z.to_nat n) s))).
  { rewrite <- firstn_map. apply plain_firstn. apply ais_plain; assumption. }
  assert (Hmap : forall k, firstn k (map ais_char (firstn (Z.to_nat n) s)) = firstn (Nat.min k (Z.to_nat n)) (map ais_spec s)).
  { intros k. rewrite <- firstn_map, firstn_firstn, map_ais by exact Hs. reflexivity. }
  split.
  - intros Hsize. eexists.
    pose proof (get_str_sized_fits (appended m (ais_field s n)) dest n 64 (mlen m) Hp' ltac:(lia) Hn) as E.
    cbn zeta in E. fold size in E. cbn [appended mlen] in E. rewrite Hfl in E. specialize (E ltac:(lia) Hsize).
    cbn [appended mlen]. rewrite Hfl. split; [exact E|].
    pose proof (gs_out_length (appended m (ais_field s n)) size n 64 (mlen m) Hp' ltac:(lia) Hn) as Hol.
    cbn [appended mlen] in Hol. rewrite Hfl in Hol. specialize (Hol ltac:(lia) Hsize).
    unfold gs_out in *. rewrite from_appended in * by (try assumption; lia).
    set (k := Z.to_nat (Z.min n (size - 1))) in *.
    rewrite firstn_app_le in * by lia.
    unfold ais_field in *. rewrite (gmap_field 64) in * by exact Hpl.
    rewrite Hmap in *. replace (Nat.min k (Z.to_nat n)) with k in * by lia.
      match goal with |- c_str (?x ++ repeat 0 ?j) = _ => replace j with (S (j - 1)) by lia end.
    rewrite (c_str_padded 64) by (rewrite <- map_ais by exact Hs; apply plain_firstn; apply ais_plain; assumption).
    reflexivity.
  - intros Hsize. eexists.
    pose proof (get_str_unsized_fits (appended m (ais_field s n)) dest n (mlen m) Hp' ltac:(lia) Hn) as E.
    cbn [appended mlen] in E. rewrite Hfl in E. specialize (E ltac:(lia) ltac:(lia)).
    cbn [appended mlen]. rewrite Hfl. split; [exact E|].
    rewrite from_appended by (try assumption; lia).
    rewrite firstn_app_le by lia.
    replace (Z.to_nat n) with (length (ais_field s n)) at 1 by lia. rewrite firstn_all.
    unfold ais_field.
    replace (map ais_char (firstn (Z.to_nat n) s) ++ repeat 64 (Z.to_nat n - length s))
      with (firstn (Z.to_nat n) (map ais_char (firstn (Z.to_nat n) s) ++ repeat 64 (Z.to_nat n - length s))).
    2:{ apply firstn_all2. rewrite app_length, map_length, firstn_length, repeat_length. lia. }
    rewrite (gmap_field 64) by exact Hpl.
    rewrite Hmap. rewrite Nat.min_id.
    rewrite splice_full.
    2:{ rewrite !app_length, firstn_length, map_length, repeat_length. cbn [length]. rewrite map_length, firstn_length. lia. }
    replace [0] with (repeat 0 1) by reflexivity.
    rewrite (c_str_padded 64) by (rewrite <- map_ais by exact Hs; apply plain_firstn; apply ais_plain; assumption).
    reflexivity.
Qed.

(* ---------- GetVarStr on a field that AddVarStr appended ---------- *)
Lemma get_byte_from m idx b r : payload m -> 0 <= idx < mlen m -> from m idx = b :: r ->
  get_byte m idx = Ok (b, idx + 1) /\ from m (idx + 1) = r.
Proof.
  intros Hp Hi Hf. rewrite (from_cons m idx Hp Hi) in Hf. injection Hf as Hb Hr.
  rewrite get_byte_in by assumption. rewrite Hb. split; [reflexivity|exact Hr].
Qed.

Lemma c_str_zset0 (dest:list Z) : (0 < length dest)%nat -> c_str (zset dest 0 0) = [].
Proof. destruct dest as [|x dest]; cbn [length]; [lia|]. intros _. reflexivity. Qed.

Lemma get_var_str_appended m type body dest nul : payload m -> mlen m + Z.of_nat (length body) + 2 <= 223 ->
  (type = 0 \/ type = 1) ->
  let size := Z.of_nat (length dest) in 0 < size ->
  let m' := appended m (Z.of_nat (length body) + 2 :: type :: body) in
  payload m' /\ mlen m' = mlen m + 2 + Z.of_nat (length body) /\
  from m' (mlen m + 2) = body ++ skipn (Z.to_nat (mlen m) + length (Z.of_nat (length body) + 2 :: type :: body)) (mdata m) /\
  get_var_str m' size dest nul (mlen m) =
    if Z.of_nat (length body) =? 0 then Ok (true, 0, mlen m + 2, zset dest 0 0)
    else if type =? 1 then
      (r <- get_str_sized m' size dest (Z.of_nat (length body)) nul (mlen m + 2) ;;
       let '(_, idx3, d) := r in Ok (true, Z.of_nat (length body), idx3, d))
    else
      (r <- ucs2_to_utf8 (mdata m') (mlen m + 2) (Z.of_nat (length body)) dest size nul ;;
       Ok (true, fst r, mlen m + 2 + Z.of_nat (length body), snd r)).
Proof.
  intros Hp Hfit Hty size Hsize m'. pose proof Hp as [Hd Hl].
  set (f := Z.of_nat (length body) + 2 :: type :: body) in *.
  assert (Hfl : Z.of_nat (length f) = Z.of_nat (length body) + 2) by (subst f; cbn [length]; lia).
  assert (Hp' : payload m') by (apply appended_payload; [exact Hp|lia]).
  assert (Hml : mlen m' = mlen m + 2 + Z.of_nat (length body)) by (subst m'; unfold appended; cbn [mlen]; lia).
  assert (Hfrom2 : from m' (mlen m + 2) = body ++ skipn (Z.to_nat (mlen m) + length f) (mdata m)).
  { pose proof (from_appended_skip m [Z.of_nat (length body) + 2; type] body Hp) as H. cbn [app length] in H.
    change (Z.of_nat 2) with 2 in H. apply H. fold f. lia. }
  split; [exact Hp'|]. split; [exact Hml|]. split; [exact Hfrom2|].
  pose proof (from_appended m f Hp ltac:(lia)) as Hfrom. fold m' in Hfrom.
  destruct (get_byte_from m' (mlen m) _ _ Hp' ltac:(lia) Hfrom) as [E1 Hfrom1].
  destruct (get_byte_from m' (mlen m + 1) _ _ Hp' ltac:(lia) Hfrom1) as [E2 _].
  unfold get_var_str. rewrite E1. cbn [bind fst snd]. rewrite E2. cbn [bind fst snd].
  replace (mlen m + 1 + 1) with (mlen m + 2) by lia.
  destruct (Z.eqb_spec (Z.of_nat (length body)) 0) as [E0|Hne].
  - destruct (Z.leb_spec (Z.of_nat (length body) + 2) 2); [|lia]. cbn [orb].
    destruct (Z.gtb_spec size 0); [|lia]. rewrite wr_ok by lia. cbn [bind].
    destruct (Z.eqb_spec (Z.of_nat (length body) + 2) 2); [|lia].
    destruct (Z.leb_spec type 1); [|lia]. reflexivity.
  - destruct (Z.leb_spec (Z.of_nat (length body) + 2) 2); [lia|].
    destruct (Z.eqb_spec (Z.of_nat (length body) + 2) 255); [lia|].
    destruct (Z.gtb_spec type 1); [lia|].
    destruct (Z.geb_spec (mlen m + 2) (mlen m')); [lia|]. cbn [orb].
    replace (Z.of_nat (length body) + 2 - 2) with (Z.of_nat (length body)) by lia.
    destruct (Z.gtb_spec (Z.of_nat (length body) + (mlen m + 2)) (mlen m')); [lia|].
    destruct (Z.gtb_spec size 0); [|lia]. reflexivity.
Qed.

(* ---------- 4b. plain variable-length fields ---------- *)
Lemma ascii_cstring s : ascii s -> cstring s.
Proof. intros H. eapply Forall_impl; [|exact H]. cbn beta. intros b Hb. lia. Qed.

Lemma ru_loop_ascii s : ascii s -> forall fuel p, 0 <= p <= Z.of_nat (length s) ->
  Z.of_nat (length s) - p < Z.of_nat fuel -> ru_loop s fuel p = Ok false.
Proof.
  intros Ha. pose proof (ascii_cstring s Ha) as Hs.
  induction fuel as [|k IH]; intros p Hp Hf; [lia|]. cbn [ru_loop].
  destruct (Z.eq_dec p (Z.of_nat (length s))) as [->|Hne].
  - rewrite rd_end. cbn [bind]. reflexivity.
  - destruct (rd_in s p Hs ltac:(lia)) as (b & E & Hb & Hnth). rewrite E. cbn [bind].
    assert (Hb7 : 1 <= b <= 127).
    { unfold ascii in Ha. rewrite Forall_forall in Ha. apply Ha. eapply nth_error_In. exact Hnth. }
    destruct (Z.eqb_spec b 0); [lia|].
    unfold lead_len. destruct (Z.ltb_spec b 128); [|lia]. cbn [Z.eqb Z.sub Z.to_nat Z.pos_sub Z.add Z.opp ru_cont].
    destruct (rd_ok s (p + 1) Hs ltac:(lia)) as (b1 & E1 & _). rewrite E1. cbn [bind Z.gtb Z.compare Pos.compare].
    apply IH; lia.
Qed.

Lemma var_field_ascii s maxlen support chars dl : ascii s -> 0 <= maxlen -> 0 <= dl <= 221 ->
  var_field s maxlen support chars dl =
  Ok (1, firstn (Z.to_nat (Z.min (Z.min (Z.of_nat (length s)) maxlen) (221 - dl))) s).
Proof.
  intros Ha Hmax Hdl. pose proof (ascii_cstring s Ha) as Hs. unfold var_field.
  destruct (Z.leb_spec (223 - dl) 2).
  { replace (Z.to_nat (Z.min (Z.min (Z.of_nat (length s)) maxlen) (221 - dl))) with 0%nat by lia. reflexivity. }
  destruct s as [|c s'].
  { cbn [rd Z.ltb Z.compare Z.to_nat nth_error length Z.of_nat Z.eqb bind]. rewrite firstn_nil. reflexivity. }
  set (s := c :: s') in *.
  destruct (rd_in s 0 Hs ltac:(subst s; cbn [length]; lia)) as (c0 & E0 & Hc0 & _). rewrite E0. cbn [bind].
  destruct (Z.eqb_spec c0 0); [lia|].
  unfold require_unicode. rewrite (ru_loop_ascii s Ha) by lia. cbn [bind].
  f_equal. f_equal. f_equal. f_equal.
  set (l1 := if Z.of_nat (length s) >? maxlen then maxlen else Z.of_nat (length s)).
  assert (Hl1 : l1 = Z.min (Z.of_nat (length s)) maxlen) by (subst l1; destruct (Z.gtb_spec (Z.of_nat (length s)) maxlen); lia).
  destruct (Z.ltb_spec (223 - dl - 2) l1); lia.
Qed.

Theorem roundtrip_var_ascii : roundtrip_var_ascii_stmt.
Proof.
  intros m s maxlen support chars nul dest Hp Hfill Ha Hmax Hnin size Hsize.
  pose proof Hp as [Hd Hl]. pose proof (ascii_cstring s Ha) as Hs.
  destruct (add_var_str_spec m s maxlen support chars Hp Hfill Hs Hmax) as (ty & body & Ef & Ea & Hb & Hty & _).
  rewrite (var_field_ascii s maxlen support chars (mlen m) Ha Hmax ltac:(lia)) in Ef. injection Ef as <- <-.
  set (L := Z.min (Z.min (Z.of_nat (length s)) maxlen) (221 - mlen m)) in *.
  set (body := firstn (Z.to_nat L) s) in *.
  assert (Hbl : Z.of_nat (length body) = L) by (subst body; rewrite firstn_length; lia).
  destruct (get_var_str_appended m 1 body dest nul Hp ltac:(lia) ltac:(right; reflexivity) Hsize) as (Hp' & Hml & Hfrom & Eg).
  fold size in Eg.
  set (m' := appended m (Z.of_nat (length body) + 2 :: 1 :: body)) in *.
  exists m'.
  assert (Hplain : plain nul s) by (apply cstring_plain; assumption).
  destruct (Z.eqb_spec (Z.of_nat (length body)) 0) as [E0|Hne].
  - exists 0, (zset dest 0 0). split; [exact Ea|]. split; [rewrite Eg, Hml; f_equal; f_equal; f_equal; lia|].
    rewrite c_str_zset0 by lia. unfold zfirstn.
    replace (Z.to_nat (Z.min L (size - 1))) with 0%nat by lia. reflexivity.
  - change (1 =? 1) with true in Eg. cbv iota in Eg.
    pose proof (get_str_sized_fits m' dest (Z.of_nat (length body)) nul (mlen m + 2) Hp' ltac:(lia) ltac:(lia) ltac:(lia)) as E.
    cbn zeta in E. fold size in E. specialize (E Hsize).
    pose proof (gs_out_length m' size (Z.of_nat (length body)) nul (mlen m + 2) Hp' ltac:(lia) ltac:(lia) ltac:(lia) Hsize) as Hol.
    rewrite E in Eg. cbn [bind] in Eg.
    eexists _, _. split; [exact Ea|]. split; [rewrite Eg, Hml; reflexivity|].
    unfold gs_out in *. rewrite Hfrom in *.
    set (k := Z.to_nat (Z.min (Z.of_nat (length body)) (size - 1))) in *.
    rewrite firstn_app_le in * by lia.
    assert (Hpk : plain nul (firstn k body)) by (apply plain_firstn; subst body; apply plain_firstn; exact Hplain).
    assert (Hg : gmap nul false (firstn k body) = firstn k body).
    { rewrite <- (app_nil_r (firstn k body)) at 1. rewrite (gmap_plain nul _ Hpk). cbn [gmap]. apply app_nil_r. }
    rewrite Hg in *.
    match goal with |- c_str (?x ++ repeat 0 ?j) = _ => replace j with (S (j - 1)) by lia end.
    cbn [repeat]. rewrite c_str_app_zero by (eapply plain_nz; exact Hpk).
    subst body. rewrite firstn_firstn. unfold zfirstn. f_equal. lia.
Qed.

Print Assumptions roundtrip_fixed.
Print Assumptions roundtrip_ais.
Print Assumptions roundtrip_var_ascii.
