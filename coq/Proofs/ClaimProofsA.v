(* C03, generic part: the invariant pairwise_cover is preserved by every step of the abstract network (nodes with several devices,
   no loop-back), holds in every reachable world, gives unique addresses at quiescence, and a device only yields to a lower NAME. *)
From Coq Require Import ZArith List Lia Bool Arith.
From N2kV Require Import Spec.ClaimSpec.
Import ListNotations.
Local Open Scope Z_scope.

Section NetProofs.
Variable nstate : Type.
Variable ndev : nat -> nat.
Variable addr : nstate -> nat -> Z.
Variable name : nat -> nat -> Z.
Variable good : nat -> nstate -> Prop.
Variable react : nat -> nstate -> claim -> nstate * list claim.
Variable spont : nat -> nstate -> cause -> nstate * list claim.
Variable allowed : nat -> nstate -> cause -> Prop.
Hypothesis H : node_hyps nstate ndev addr name good react spont allowed.

Notation Inv := (pairwise_cover nstate ndev addr name good).
Notation vdev := (valid_dev ndev).
Notation own := (own_name ndev name).

Let Hnames : names_distinct ndev name. Proof. apply H. Qed.
Let HR1 : R1 nstate ndev addr name good react. Proof. apply H. Qed.
Let HR2 : R2 nstate ndev addr name good react. Proof. apply H. Qed.
Let HR3 : R3 nstate ndev addr name good react. Proof. apply H. Qed.
Let HR4 : R4 nstate ndev addr name good react. Proof. apply H. Qed.
Let HR5 : R5 nstate ndev addr name good react. Proof. apply H. Qed.
Let Hrown : react_own nstate ndev addr name good react. Proof. apply H. Qed.
Let HS2 : S2 nstate ndev addr name good spont allowed. Proof. apply H. Qed.
Let HS5 : S5 nstate ndev addr good spont allowed. Proof. apply H. Qed.
Let Hsown : spont_own nstate ndev addr name good spont allowed. Proof. apply H. Qed.

Lemma upd_same {A} (f:nat -> A) p v : upd f p v p = v.
Proof. unfold upd. now rewrite Nat.eqb_refl. Qed.
Lemma upd_other {A} (f:nat -> A) p q v : q <> p -> upd f p v q = f q.
Proof. unfold upd. intros E. apply Nat.eqb_neq in E. now rewrite E. Qed.
Lemma bcast_same ib p out : bcast ib p out p = ib p.
Proof. unfold bcast. now rewrite Nat.eqb_refl. Qed.
Lemma bcast_other ib p q out : q <> p -> bcast ib p out q = ib q ++ out.
Proof. unfold bcast. intros E. apply Nat.eqb_neq in E. now rewrite E. Qed.

Lemma in_remove_other (c d:claim) l1 l2 : In d (l1 ++ c :: l2) -> d <> c -> In d (l1 ++ l2).
Proof. rewrite !in_app_iff. simpl. intuition congruence. Qed.
Lemma claim_eq_dec (c d:claim) : {c = d} + {c <> d}.
Proof. destruct c as [x n], d as [y m]. destruct (Z.eq_dec x y); destruct (Z.eq_dec n m); subst; auto; right; congruence. Qed.
Lemma operational_dec x : {operational x} + {~ operational x}.
Proof. unfold operational. destruct (Z_le_dec 0 x); destruct (Z_le_dec x 251); [left|right|right|right]; lia. Qed.

(* a pending claim never carries a NAME of the node it is pending for *)
Lemma pending_foreign w i c : Inv w -> In c (inbox nstate w i) -> ~ own i (cn c).
Proof.
  intros (_ & I2 & _) Hin (k & Hk & E). destruct (I2 i c Hin) as (j & Hji & l & Hl & E2).
  destruct (Hnames i k j l Hk Hl) as [E3 _]; congruence.
Qed.
Lemma pre_of w i c : Inv w -> In c (inbox nstate w i) -> pre nstate ndev addr name good i (st nstate w i) c.
Proof.
  intros HI Hin. pose proof (pending_foreign w i c HI Hin) as Hf. destruct HI as (I1 & _ & _). destruct (I1 i) as [G S].
  unfold pre. split; [exact G|split; [exact S|exact Hf]].
Qed.

(* node p handles c; device (q,l) of another node shares the (new) address of device (p,k) *)
Lemma deliver_cover w p q k l c l1 l2 :
  Inv w -> q <> p -> vdev p k -> vdev q l -> inbox nstate w p = l1 ++ c :: l2 ->
  let s' := fst (react p (st nstate w p) c) in let out := snd (react p (st nstate w p) c) in
  addr s' k = addr (st nstate w q) l -> operational (addr s' k) ->
  In {| cx := addr s' k; cn := name p k |} (inbox nstate w q ++ out) \/ In {| cx := addr s' k; cn := name q l |} (l1 ++ l2).
Proof.
  intros HI Hqp Hk Hl Hib s' out Heq Hop.
  assert (Hin: In c (inbox nstate w p)) by (rewrite Hib; apply in_or_app; right; left; reflexivity).
  pose proof (pre_of w p c HI Hin) as Hpre.
  destruct (Z.eq_dec (addr s' k) (addr (st nstate w p) k)) as [Same|Changed].
  - destruct HI as (I1 & I2 & I3).
    assert (Hpq: p <> q) by congruence.
    assert (Heq0: addr (st nstate w p) k = addr (st nstate w q) l) by congruence.
    assert (Hop0: operational (addr (st nstate w p) k)) by (rewrite <- Same; exact Hop).
    destruct (I3 p q k l Hpq Hk Hl Heq0 Hop0) as [Hc|Hc].
    + left. apply in_or_app. left. rewrite Same. exact Hc.
    + rewrite Hib in Hc. destruct (claim_eq_dec {| cx := addr (st nstate w p) k; cn := name q l |} c) as [E|N].
      * assert (Hcx: addr (st nstate w p) k = cx c) by (rewrite <- E; reflexivity).
        assert (Hcn: cn c = name q l) by (rewrite <- E; reflexivity).
        assert (Hopc: operational (cx c)) by (rewrite <- Hcx; exact Hop0).
        destruct (Z.lt_trichotomy (name p k) (name q l)) as [Lt|[Eq|Gt]].
        -- destruct (HR3 p (st nstate w p) c k Hpre Hk Hcx Hopc) as [_ Hemit]. { rewrite Hcn. exact Lt. }
           left. apply in_or_app. right. rewrite Same. exact Hemit.
        -- destruct (Hnames p k q l Hk Hl Eq) as [E3 _]. congruence.
        -- exfalso. apply (HR1 p (st nstate w p) c k Hpre Hk Hcx Hopc). { rewrite Hcn. exact Gt. }
           fold s'. rewrite Same. exact Hcx.
      * right. rewrite Same. eapply in_remove_other; eauto.
  - left. apply in_or_app. right. apply (HR2 p (st nstate w p) c k Hpre Hk Changed Hop).
Qed.

Theorem step_inv w w' : Inv w -> step nstate react spont allowed w w' -> Inv w'.
Proof.
  intros HI Hs. destruct Hs as [p c l1 l2 w Hib | p a w Hal].
  - (* delivery *)
    assert (Hin: In c (inbox nstate w p)) by (rewrite Hib; apply in_or_app; right; left; reflexivity).
    pose proof (pre_of w p c HI Hin) as Hpre.
    pose proof HI as (I1 & I2 & I3).
    split; [|split]; cbn [st inbox].
    + intros i. destruct (Nat.eq_dec i p) as [->|Hip].
      * rewrite upd_same. apply HR5; exact Hpre.
      * rewrite upd_other by exact Hip. apply I1.
    + intros i d Hd. destruct (Nat.eq_dec i p) as [->|Hip].
      * rewrite bcast_same, upd_same in Hd. apply (I2 p d). rewrite Hib. apply in_app_or in Hd. apply in_or_app. destruct Hd; [left|right; right]; assumption.
      * rewrite bcast_other, upd_other in Hd by exact Hip. apply in_app_or in Hd as [Hd|Hd].
        -- apply I2; exact Hd.
        -- exists p. split; [congruence|]. apply (Hrown p (st nstate w p) c d Hpre Hd).
    + intros a b k l Hab Hk Hl Heq Hop.
      destruct (Nat.eq_dec a p) as [->|Hap]; [|destruct (Nat.eq_dec b p) as [->|Hbp]].
      * rewrite upd_same in *. rewrite (upd_other _ _ b) in * by congruence.
        rewrite bcast_same, upd_same. rewrite (bcast_other _ _ b), (upd_other _ _ b) by congruence.
        apply (deliver_cover w p b k l c l1 l2 HI); auto.
      * rewrite upd_same in *. rewrite (upd_other _ _ a) in * by congruence.
        rewrite bcast_same, upd_same. rewrite (bcast_other _ _ a), (upd_other _ _ a) by congruence.
        rewrite Heq in *.
        destruct (deliver_cover w p a l k c l1 l2 HI Hap Hl Hk Hib (eq_sym Heq) Hop) as [Hc|Hc]; [right|left]; exact Hc.
      * rewrite !(upd_other _ _ a) in * by congruence. rewrite !(upd_other _ _ b) in * by congruence.
        rewrite (bcast_other _ _ a), (bcast_other _ _ b) by congruence. rewrite (upd_other _ _ a), (upd_other _ _ b) by congruence.
        destruct (I3 a b k l Hab Hk Hl Heq Hop); [left|right]; apply in_or_app; left; assumption.
  - (* the node acts on its own *)
    pose proof HI as (I1 & I2 & I3). destruct (I1 p) as [G1 G2].
    split; [|split]; cbn [st inbox].
    + intros i. destruct (Nat.eq_dec i p) as [->|Hip].
      * rewrite upd_same. apply HS5; assumption.
      * rewrite upd_other by exact Hip. apply I1.
    + intros i d Hd. destruct (Nat.eq_dec i p) as [->|Hip].
      * rewrite bcast_same in Hd. apply I2; exact Hd.
      * rewrite bcast_other in Hd by exact Hip. apply in_app_or in Hd as [Hd|Hd].
        -- apply I2; exact Hd.
        -- exists p. split; [congruence|]. apply (Hsown p (st nstate w p) a d G1 G2 Hal Hd).
    + intros x y k l Hxy Hk Hl Heq Hop.
      destruct (Nat.eq_dec x p) as [->|Hxp]; [|destruct (Nat.eq_dec y p) as [->|Hyp]].
      * rewrite upd_same in *. rewrite (upd_other _ _ y) in * by congruence.
        rewrite bcast_same. rewrite (bcast_other _ _ y) by congruence.
        destruct (Z.eq_dec (addr (fst (spont p (st nstate w p) a)) k) (addr (st nstate w p) k)) as [Same|Changed].
        -- rewrite Same in *. destruct (I3 p y k l Hxy Hk Hl Heq Hop); [left; apply in_or_app; left|right]; assumption.
        -- left. apply in_or_app. right. apply (HS2 p (st nstate w p) a k G1 G2 Hal Hk Changed Hop).
      * rewrite upd_same in *. rewrite (upd_other _ _ x) in * by congruence.
        rewrite bcast_same. rewrite (bcast_other _ _ x) by congruence.
        destruct (Z.eq_dec (addr (fst (spont p (st nstate w p) a)) l) (addr (st nstate w p) l)) as [Same|Changed].
        -- rewrite Same in *. destruct (I3 x p k l Hxy Hk Hl Heq Hop); [left|right; apply in_or_app; left]; assumption.
        -- right. apply in_or_app. right. rewrite Heq in *. apply (HS2 p (st nstate w p) a l G1 G2 Hal Hl Changed Hop).
      * rewrite !(upd_other _ _ x) in * by congruence. rewrite !(upd_other _ _ y) in * by congruence.
        rewrite (bcast_other _ _ x), (bcast_other _ _ y) by congruence.
        destruct (I3 x y k l Hxy Hk Hl Heq Hop); [left|right]; apply in_or_app; left; assumption.
Qed.

Lemma initial_inv w : initial nstate ndev addr good w -> Inv w.
Proof.
  intros (G & N & E). split; [|split].
  - intros i. split; [apply G|]. intros k l Hk _ _ Hop. exfalso. exact (N i k Hk Hop).
  - intros i c Hc. rewrite E in Hc. destruct Hc.
  - intros i j k l _ Hk _ _ Hop. exfalso. exact (N i k Hk Hop).
Qed.

Theorem reachable_inv w0 w : initial nstate ndev addr good w0 -> steps nstate react spont allowed w0 w -> Inv w.
Proof. intros Hi Hs. induction Hs as [|w1 w2 w3 _ IH Hst]; [apply initial_inv; exact Hi|]. eapply step_inv; [apply IH; exact Hi|exact Hst]. Qed.

Theorem inv_quiescent_unique w : Inv w -> quiescent nstate w ->
  forall i k j l, vdev i k -> vdev j l -> (i, k) <> (j, l) -> operational (addr (st nstate w i) k) -> addr (st nstate w i) k <> addr (st nstate w j) l.
Proof.
  intros (I1 & I2 & I3) Hq i k j l Hk Hl Hne Hop Heq.
  destruct (Nat.eq_dec i j) as [->|Hij].
  - destruct (I1 j) as [_ Sd]. apply (Sd k l Hk Hl); [congruence|exact Hop|exact Heq].
  - destruct (I3 i j k l Hij Hk Hl Heq Hop) as [Hc|Hc]; [rewrite (Hq j) in Hc|rewrite (Hq i) in Hc]; exact Hc.
Qed.

Theorem inv_lower_name_wins w i c l1 l2 k : Inv w -> inbox nstate w i = l1 ++ c :: l2 -> vdev i k ->
  addr (fst (react i (st nstate w i) c)) k <> addr (st nstate w i) k ->
  cx c = addr (st nstate w i) k /\ operational (cx c) /\ cn c < name i k.
Proof.
  intros HI Hib Hk Hch.
  assert (Hin: In c (inbox nstate w i)) by (rewrite Hib; apply in_or_app; right; left; reflexivity).
  pose proof (pre_of w i c HI Hin) as Hpre.
  destruct (Z.eq_dec (addr (st nstate w i) k) (cx c)) as [E|N]; [|exfalso; apply Hch; apply (HR4 i _ c k Hpre Hk); left; exact N].
  destruct (operational_dec (cx c)) as [Hop|Hnop]; [|exfalso; apply Hch; apply (HR4 i _ c k Hpre Hk); right; exact Hnop].
  split; [congruence|split; [exact Hop|]].
  destruct (Z.lt_trichotomy (name i k) (cn c)) as [Lt|[Eq|Gt]]; [| |exact Gt].
  - exfalso. apply Hch. apply (HR3 i _ c k Hpre Hk E Hop Lt).
  - exfalso. destruct Hpre as (_ & _ & Hf). apply Hf. exists k. split; [exact Hk|congruence].
Qed.
End NetProofs.

Theorem pairwise_cover_preserved : pairwise_cover_preserved_stmt.
Proof. unfold pairwise_cover_preserved_stmt. intros. eapply step_inv; eauto. Qed.
Theorem pairwise_cover_reachable : pairwise_cover_reachable_stmt.
Proof. unfold pairwise_cover_reachable_stmt. intros. eapply reachable_inv; eauto. Qed.
Theorem quiescent_unique : quiescent_unique_stmt.
Proof.
  unfold quiescent_unique_stmt. intros nstate ndev addr name good react spont allowed Hh w0 w Hi Hs Hq i k j l Hk Hl Hne Hop.
  eapply inv_quiescent_unique; eauto. eapply reachable_inv; eauto.
Qed.
Theorem lower_name_wins : lower_name_wins_stmt.
Proof. unfold lower_name_wins_stmt. intros. eapply inv_lower_name_wins; eauto. Qed.
Print Assumptions pairwise_cover_preserved.
Print Assumptions quiescent_unique.
Print Assumptions lower_name_wins.
