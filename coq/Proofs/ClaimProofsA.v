(* C03, generic part: the invariant pairwise_cover is preserved by every step of the abstract network (nodes with several devices,
   no loop-back), holds in every reachable world, gives unique addresses at quiescence, and a device only yields to a lower NAME. *)
From Coq Require Import ZArith List Lia Bool Arith.
From N2kV Require Import Spec.ClaimSpec.
Import ListNotations.
Local Open Scope Z_scope.

Section NetProofs.
Variable nstate : Type.
Variable nodes : nat.
Variable ndev : nat -> nat.
Variable addr : nstate -> nat -> Z.
Variable name : nat -> nat -> Z.
Variable good : nat -> nstate -> Prop.
Variable react : nat -> nstate -> claim -> nstate * list claim.
Variable spont : nat -> nstate -> cause -> nstate * list claim.
Variable allowed : nat -> nstate -> cause -> Prop.
Hypothesis H : node_hyps nstate nodes ndev addr name good react spont allowed.

Notation Inv := (pairwise_cover nstate nodes ndev addr name good).
Notation vdev := (valid_dev nodes ndev).
Notation own := (own_name nodes ndev name).

Let Hnames : names_distinct nodes ndev name. Proof. apply H. Qed.
Let HR1 : R1 nstate nodes ndev addr name good react. Proof. apply H. Qed.
Let HR2 : R2 nstate nodes ndev addr name good react. Proof. apply H. Qed.
Let HR3 : R3 nstate nodes ndev addr name good react. Proof. apply H. Qed.
Let HR4 : R4 nstate nodes ndev addr name good react. Proof. apply H. Qed.
Let HR5 : R5 nstate nodes ndev addr name good react. Proof. apply H. Qed.
Let Hrown : react_own nstate nodes ndev addr name good react. Proof. apply H. Qed.
Let HS2 : S2 nstate nodes ndev addr name good spont allowed. Proof. apply H. Qed.
Let HS5 : S5 nstate nodes ndev addr good spont allowed. Proof. apply H. Qed.
Let Hsown : spont_own nstate nodes ndev addr name good spont allowed. Proof. apply H. Qed.

Lemma upd_same {A} (f:nat -> A) p v : upd f p v p = v.
Proof. unfold upd. now rewrite Nat.eqb_refl. Qed.
Lemma upd_other {A} (f:nat -> A) p q v : q <> p -> upd f p v q = f q.
Proof. unfold upd. intros E. apply Nat.eqb_neq in E. now rewrite E. Qed.
Lemma bcast_same ib p out : bcast nodes ib p out p = ib p.
Proof. unfold bcast. now rewrite Nat.eqb_refl. Qed.
Lemma bcast_other ib p q out : q <> p -> (q < nodes)%nat -> bcast nodes ib p out q = ib q ++ out.
Proof. unfold bcast. intros E L. apply Nat.eqb_neq in E. apply Nat.ltb_lt in L. now rewrite E, L. Qed.
Lemma bcast_sub ib p q out d : In d (bcast nodes ib p out q) -> In d (ib q) \/ (q <> p /\ In d out).
Proof.
  unfold bcast. destruct (Nat.eqb_spec q p) as [->|N]; cbn [orb]; [auto|]. destruct (negb (q <? nodes)%nat); [auto|].
  intros Hd. apply in_app_or in Hd as [Hd|Hd]; auto.
Qed.
Lemma bcast_sup ib p q out d : In d (ib q) -> In d (bcast nodes ib p out q).
Proof. unfold bcast. destruct (Nat.eqb q p || negb (q <? nodes)%nat); [auto|]. intros Hd. apply in_or_app. left. exact Hd. Qed.

Lemma in_remove_other (c d:claim) l1 l2 : In d (l1 ++ c :: l2) -> d <> c -> In d (l1 ++ l2).
Proof. rewrite !in_app_iff. simpl. intuition congruence. Qed.
Lemma claim_eq_dec (c d:claim) : {c = d} + {c <> d}.
Proof. destruct c as [x n], d as [y m]. destruct (Z.eq_dec x y); destruct (Z.eq_dec n m); subst; auto; right; congruence. Qed.
Lemma operational_dec x : {operational x} + {~ operational x}.
Proof. unfold operational. destruct (Z_le_dec 0 x); destruct (Z_le_dec x 251); [left|right|right|right]; lia. Qed.

(* a pending claim never carries a NAME of the node it is pending for *)
Lemma pending_foreign w i c : Inv w -> In c (inbox nstate w i) -> ~ own i (cn c).
Proof.
  intros (_ & I2 & _) Hin (k & Hk & E). destruct (I2 i c Hin) as (j & Hji & l & Hl & E2).
  destruct (Hnames i k j l Hk Hl) as [E3 _]; congruence.
Qed.
Lemma pre_of w i c : (i < nodes)%nat -> Inv w -> In c (inbox nstate w i) -> pre nstate nodes ndev addr name good i (st nstate w i) c.
Proof.
  intros Hi HI Hin. destruct HI as (I1 & I2 & _). destruct (I1 i) as [G S].
  unfold pre. split; [exact Hi|split; [exact G|split; [exact S|exact (I2 i c Hin)]]].
Qed.

(* node p handles c; device (q,l) of another node shares the (new) address of device (p,k) *)
Lemma deliver_cover w p q k l c l1 l2 :
  Inv w -> q <> p -> vdev p k -> vdev q l -> inbox nstate w p = l1 ++ c :: l2 ->
  let s' := fst (react p (st nstate w p) c) in let out := snd (react p (st nstate w p) c) in
  addr s' k = addr (st nstate w q) l -> operational (addr s' k) ->
  In {| cx := addr s' k; cn := name p k |} (inbox nstate w q ++ out) \/ In {| cx := addr s' k; cn := name q l |} (l1 ++ l2).
Proof.
  intros HI Hqp Hk Hl Hib s' out Heq Hop.
  assert (Hin: In c (inbox nstate w p)) by (rewrite Hib; apply in_or_app; right; left; reflexivity).
  pose proof (pre_of w p c (proj1 Hk) HI Hin) as Hpre.
  destruct (Z.eq_dec (addr s' k) (addr (st nstate w p) k)) as [Same|Changed].
  - destruct HI as (I1 & I2 & I3).
    assert (Hpq: p <> q) by congruence.
    assert (Heq0: addr (st nstate w p) k = addr (st nstate w q) l) by congruence.
    assert (Hop0: operational (addr (st nstate w p) k)) by (rewrite <- Same; exact Hop).
    destruct (I3 p q k l Hpq Hk Hl Heq0 Hop0) as [Hc|Hc].
    + left. apply in_or_app. left. rewrite Same. exact Hc.
    + rewrite Hib in Hc. destruct (claim_eq_dec {| cx := addr (st nstate w p) k; cn := name q l |} c) as [E|N].
      * assert (Hcx: addr (st nstate w p) k = cx c) by (rewrite <- E; reflexivity).
        assert (Hcn: cn c = name q l) by (rewrite <- E; reflexivity).
        assert (Hopc: operational (cx c)) by (rewrite <- Hcx; exact Hop0).
        destruct (Z.lt_trichotomy (name p k) (name q l)) as [Lt|[Eq|Gt]].
        -- destruct (HR3 p (st nstate w p) c k Hpre Hk Hcx Hopc) as [_ Hemit]. { rewrite Hcn. exact Lt. }
           left. apply in_or_app. right. rewrite Same. exact Hemit.
        -- destruct (Hnames p k q l Hk Hl Eq) as [E3 _]. congruence.
        -- exfalso. apply (HR1 p (st nstate w p) c k Hpre Hk Hcx Hopc). { rewrite Hcn. exact Gt. }
           fold s'. rewrite Same. exact Hcx.
      * right. rewrite Same. eapply in_remove_other; eauto.
  - left. apply in_or_app. right. apply (HR2 p (st nstate w p) c k Hpre Hk Changed Hop).
Qed.

Theorem step_inv w w' : Inv w -> step nstate nodes react spont allowed w w' -> Inv w'.
Proof.
  intros HI Hs. destruct Hs as [p c l1 l2 w Hp Hib | p a w Hp Hal].
  - (* delivery *)
    assert (Hin: In c (inbox nstate w p)) by (rewrite Hib; apply in_or_app; right; left; reflexivity).
    pose proof (pre_of w p c Hp HI Hin) as Hpre.
    pose proof HI as (I1 & I2 & I3).
    split; [|split]; cbn [st inbox].
    + intros i. destruct (Nat.eq_dec i p) as [->|Hip].
      * rewrite upd_same. apply HR5; exact Hpre.
      * rewrite upd_other by exact Hip. apply I1.
    + intros i d Hd. apply bcast_sub in Hd as [Hd|[Hip Hd]].
      * destruct (Nat.eq_dec i p) as [->|Hip].
        -- rewrite upd_same in Hd. apply (I2 p d). rewrite Hib. apply in_app_or in Hd. apply in_or_app. destruct Hd; [left|right; right]; assumption.
        -- rewrite upd_other in Hd by exact Hip. apply I2; exact Hd.
      * exists p. split; [congruence|]. apply (Hrown p (st nstate w p) c d Hpre Hd).
    + intros a b k l Hab Hk Hl Heq Hop. pose proof Hk as [Ha _]. pose proof Hl as [Hb _].
      destruct (Nat.eq_dec a p) as [->|Hap]; [|destruct (Nat.eq_dec b p) as [->|Hbp]].
      * rewrite upd_same in *. rewrite (upd_other _ _ b) in * by congruence.
        rewrite bcast_same, upd_same. rewrite (bcast_other _ _ b) by (try congruence; exact Hb). rewrite (upd_other _ _ b) by congruence.
        apply (deliver_cover w p b k l c l1 l2 HI); auto.
      * rewrite upd_same in *. rewrite (upd_other _ _ a) in * by congruence.
        rewrite bcast_same, upd_same. rewrite (bcast_other _ _ a) by (try congruence; exact Ha). rewrite (upd_other _ _ a) by congruence.
        rewrite Heq in *.
        destruct (deliver_cover w p a l k c l1 l2 HI Hap Hl Hk Hib (eq_sym Heq) Hop) as [Hc|Hc]; [right|left]; exact Hc.
      * rewrite !(upd_other _ _ a) in * by congruence. rewrite !(upd_other _ _ b) in * by congruence.
        destruct (I3 a b k l Hab Hk Hl Heq Hop) as [Hc|Hc]; [left|right]; apply bcast_sup; rewrite upd_other by congruence; exact Hc.
  - (* the node acts on its own *)
    pose proof HI as (I1 & I2 & I3). destruct (I1 p) as [G1 G2].
    split; [|split]; cbn [st inbox].
    + intros i. destruct (Nat.eq_dec i p) as [->|Hip].
      * rewrite upd_same. apply HS5; assumption.
      * rewrite upd_other by exact Hip. apply I1.
    + intros i d Hd. apply bcast_sub in Hd as [Hd|[Hip Hd]].
      * apply I2; exact Hd.
      * exists p. split; [congruence|]. apply (Hsown p (st nstate w p) a d Hp G1 G2 Hal Hd).
    + intros x y k l Hxy Hk Hl Heq Hop. pose proof Hk as [Hx _]. pose proof Hl as [Hy _].
      destruct (Nat.eq_dec x p) as [->|Hxp]; [|destruct (Nat.eq_dec y p) as [->|Hyp]].
      * rewrite upd_same in *. rewrite (upd_other _ _ y) in * by congruence.
        rewrite bcast_same. rewrite (bcast_other _ _ y) by (try congruence; exact Hy).
        destruct (Z.eq_dec (addr (fst (spont p (st nstate w p) a)) k) (addr (st nstate w p) k)) as [Same|Changed].
        -- rewrite Same in *. destruct (I3 p y k l Hxy Hk Hl Heq Hop); [left; apply in_or_app; left|right]; assumption.
        -- left. apply in_or_app. right. apply (HS2 p (st nstate w p) a k Hp G1 G2 Hal Hk Changed Hop).
      * rewrite upd_same in *. rewrite (upd_other _ _ x) in * by congruence.
        rewrite bcast_same. rewrite (bcast_other _ _ x) by (try congruence; exact Hx).
        destruct (Z.eq_dec (addr (fst (spont p (st nstate w p) a)) l) (addr (st nstate w p) l)) as [Same|Changed].
        -- rewrite Same in *. destruct (I3 x p k l Hxy Hk Hl Heq Hop); [left|right; apply in_or_app; left]; assumption.
        -- right. apply in_or_app. right. rewrite Heq in *. apply (HS2 p (st nstate w p) a l Hp G1 G2 Hal Hl Changed Hop).
      * rewrite !(upd_other _ _ x) in * by congruence. rewrite !(upd_other _ _ y) in * by congruence.
        destruct (I3 x y k l Hxy Hk Hl Heq Hop) as [Hc|Hc]; [left|right]; apply bcast_sup; exact Hc.
Qed.

Lemma initial_inv w : initial nstate nodes ndev addr good w -> Inv w.
Proof.
  intros (G & N & E). split; [|split].
  - intros i. split; [apply G|]. intros k l Hk _ _ Hop. exfalso. exact (N i k Hk Hop).
  - intros i c Hc. rewrite E in Hc. destruct Hc.
  - intros i j k l _ Hk _ _ Hop. exfalso. exact (N i k Hk Hop).
Qed.

Theorem reachable_inv w0 w : initial nstate nodes ndev addr good w0 -> steps nstate nodes react spont allowed w0 w -> Inv w.
Proof. intros Hi Hs. induction Hs as [|w1 w2 w3 _ IH Hst]; [apply initial_inv; exact Hi|]. eapply step_inv; [apply IH; exact Hi|exact Hst]. Qed.

Theorem inv_quiescent_unique w : Inv w -> quiescent nstate w ->
  forall i k j l, vdev i k -> vdev j l -> (i, k) <> (j, l) -> operational (addr (st nstate w i) k) -> addr (st nstate w i) k <> addr (st nstate w j) l.
Proof.
  intros (I1 & I2 & I3) Hq i k j l Hk Hl Hne Hop Heq.
  destruct (Nat.eq_dec i j) as [->|Hij].
  - destruct (I1 j) as [_ Sd]. apply (Sd k l Hk Hl); [congruence|exact Hop|exact Heq].
  - destruct (I3 i j k l Hij Hk Hl Heq Hop) as [Hc|Hc]; [rewrite (Hq j) in Hc|rewrite (Hq i) in Hc]; exact Hc.
Qed.

Theorem inv_lower_name_wins w i c l1 l2 k : Inv w -> inbox nstate w i = l1 ++ c :: l2 -> vdev i k ->
  addr (fst (react i (st nstate w i) c)) k <> addr (st nstate w i) k ->
  cx c = addr (st nstate w i) k /\ operational (cx c) /\ cn c < name i k.
Proof.
  intros HI Hib Hk Hch.
  assert (Hin: In c (inbox nstate w i)) by (rewrite Hib; apply in_or_app; right; left; reflexivity).
  pose proof (pre_of w i c (proj1 Hk) HI Hin) as Hpre.
  destruct (Z.eq_dec (addr (st nstate w i) k) (cx c)) as [E|N]; [|exfalso; apply Hch; apply (HR4 i _ c k Hpre Hk); left; exact N].
  destruct (operational_dec (cx c)) as [Hop|Hnop]; [|exfalso; apply Hch; apply (HR4 i _ c k Hpre Hk); right; exact Hnop].
  split; [congruence|split; [exact Hop|]].
  destruct (Z.lt_trichotomy (name i k) (cn c)) as [Lt|[Eq|Gt]]; [| |exact Gt].
  - exfalso. apply Hch. apply (HR3 i _ c k Hpre Hk E Hop Lt).
  - exfalso. apply (pending_foreign w i c HI Hin). exists k. split; [exact Hk|congruence].
Qed.
End NetProofs.

Theorem pairwise_cover_preserved : pairwise_cover_preserved_stmt.
Proof. unfold pairwise_cover_preserved_stmt. intros. eapply step_inv; eauto. Qed.
Theorem pairwise_cover_reachable : pairwise_cover_reachable_stmt.
Proof. unfold pairwise_cover_reachable_stmt. intros. eapply reachable_inv; eauto. Qed.
Theorem quiescent_unique : quiescent_unique_stmt.
Proof.
  unfold quiescent_unique_stmt. intros nstate ndev addr name good react spont allowed Hh w0 w Hi Hs Hq i k j l Hk Hl Hne Hop.
  eapply inv_quiescent_unique; eauto. eapply reachable_inv; eauto.
Qed.
Theorem lower_name_wins : lower_name_wins_stmt.
Proof. unfold lower_name_wins_stmt. intros. eapply inv_lower_name_wins; eauto. Qed.
Print Assumptions pairwise_cover_preserved.
Print Assumptions quiescent_unique.
Print Assumptions lower_name_wins.


(* ---------- the hypotheses are satisfiable and runs exist: a toy network of two single-device nodes that both prefer address 30;
              the loser gives up at once ---------- *)
Definition toy_react (i:nat) (s:Z) (c:claim) : Z * list claim :=
  if (s =? cx c) && (0 <=? cx c) && (cx c <=? 251) then
    if cn c <? Z.of_nat i then (254, [])
    else if Z.of_nat i <? cn c then (s, [{| cx := s; cn := Z.of_nat i |}]) else (s, [])
  else (s, []).
Definition toy_spont (i:nat) (s:Z) (a:cause) : Z * list claim :=
  match a with CStart => (30, [{| cx := 30; cn := Z.of_nat i |}]) | _ => (s, []) end.
Definition toy_ndev (i:nat) : nat := 1.
Definition toy_addr (s:Z) (k:nat) : Z := s.
Definition toy_name (i k:nat) : Z := Z.of_nat i.
Definition toy_good (i:nat) (s:Z) : Prop := True.
Definition toy_allowed (i:nat) (s:Z) (a:cause) : Prop := True.
Lemma toy_ok : node_hyps Z 2 toy_ndev toy_addr toy_name toy_good toy_react toy_spont toy_allowed.
Proof.
  unfold node_hyps.
  assert (Own: forall i, (i < 2)%nat -> own_name 2 toy_ndev toy_name i (Z.of_nat i)).
  { intros i Hi. exists 0%nat. split; [split; [exact Hi|unfold toy_ndev; lia]|reflexivity]. }
  split; [|split; [|split; [|split; [|split; [|split; [|split; [|split; [|split]]]]]]]].
  - intros i k j l [Hi Hk] [Hj Hl] E. unfold toy_ndev, toy_name in *. split; lia.
  - intros i s c k _ _ E Hop Lt. unfold toy_react, toy_addr, toy_name, operational in *.
    rewrite E, Z.eqb_refl. destruct (Z.leb_spec 0 (cx c)); [|lia]. destruct (Z.leb_spec (cx c) 251); [|lia]. cbn [andb].
    destruct (Z.ltb_spec (cn c) (Z.of_nat i)); [cbn [fst]; lia|lia].
  - intros i s c k _ _ Hch Hop. exfalso. revert Hch Hop. unfold toy_react, toy_addr, operational.
    destruct ((s =? cx c) && (0 <=? cx c) && (cx c <=? 251)); [|cbn [fst]; congruence].
    destruct (cn c <? Z.of_nat i); [cbn [fst]; lia|]. destruct (Z.of_nat i <? cn c); cbn [fst]; congruence.
  - intros i s c k _ _ E Hop Lt. unfold toy_react, toy_addr, toy_name, operational in *.
    rewrite E, Z.eqb_refl. destruct (Z.leb_spec 0 (cx c)); [|lia]. destruct (Z.leb_spec (cx c) 251); [|lia]. cbn [andb].
    destruct (Z.ltb_spec (cn c) (Z.of_nat i)); [lia|]. destruct (Z.ltb_spec (Z.of_nat i) (cn c)); [|lia]. cbn [fst snd]. split; [reflexivity|left; reflexivity].
  - intros i s c k _ _ Hne. unfold toy_react, toy_addr, operational in *.
    destruct (Z.eqb_spec s (cx c)) as [E|NE]; [|reflexivity]. destruct (Z.leb_spec 0 (cx c)); [|reflexivity]. destruct (Z.leb_spec (cx c) 251); [|reflexivity]. lia.
  - intros i s c _. split; [exact I|]. intros k l [_ Hk] [_ Hl] Hkl. unfold toy_ndev in *. lia.
  - intros i s c f (Hi & _) Hin. unfold toy_react in Hin.
    destruct ((s =? cx c) && (0 <=? cx c) && (cx c <=? 251)); [|destruct Hin].
    destruct (cn c <? Z.of_nat i); [destruct Hin|]. destruct (Z.of_nat i <? cn c); [|destruct Hin].
    destruct Hin as [<-|[]]. cbn [cn]. apply Own; exact Hi.
  - intros i s a k Hi _ _ _ _ Hch Hop. unfold toy_spont, toy_addr, toy_name in *. destruct a; cbn [fst snd] in *; try congruence. left. reflexivity.
  - intros i s a _ _ _ _. split; [exact I|]. intros k l [_ Hk] [_ Hl] Hkl. unfold toy_ndev in *. lia.
  - intros i s a f Hi _ _ _ Hin. unfold toy_spont in Hin. destruct a; cbn [snd] in Hin; try destruct Hin as [<-|[]]; try destruct Hin. cbn [cn]. apply Own; exact Hi.
Qed.

Lemma steps_first nstate nodes react spont allowed (w1 w2 w3:world nstate) :
  step nstate nodes react spont allowed w1 w2 -> steps nstate nodes react spont allowed w2 w3 -> steps nstate nodes react spont allowed w1 w3.
Proof. intros S1 S2. induction S2 as [|a b c _ IH Sb]; [eapply steps_step; [apply steps_refl|exact S1]|eapply steps_step; [apply IH; exact S1|exact Sb]]. Qed.

Definition toy_w0 : world Z := {| st := fun _ => 254; inbox := fun _ => [] |}.
(* both start, node 0 (lower NAME) defends, node 1 yields: nothing is pending any more, node 0 holds 30, node 1 has no address *)
Lemma toy_run : exists w, initial Z 2 toy_ndev toy_addr toy_good toy_w0 /\ steps Z 2 toy_react toy_spont toy_allowed toy_w0 w /\ quiescent Z w /\
  toy_addr (st Z w 0%nat) 0%nat = 30 /\ toy_addr (st Z w 1%nat) 0%nat = 254.
Proof.
  eexists. split; [|split; [|split; [|split]]].
  - split; [intros; exact I|split; [|reflexivity]]. intros i k _. unfold toy_addr, toy_w0, operational. cbn. lia.
  - eapply steps_first; [apply (Act Z 2 toy_react toy_spont toy_allowed 0%nat CStart toy_w0); [lia|exact I]|].
    eapply steps_first; [apply (Act Z 2 toy_react toy_spont toy_allowed 1%nat CStart); [lia|exact I]|].
    eapply steps_first; [apply (Deliver Z 2 toy_react toy_spont toy_allowed 0%nat {| cx := 30; cn := 1 |} [] []); [lia|reflexivity]|].
    eapply steps_first; [apply (Deliver Z 2 toy_react toy_spont toy_allowed 1%nat {| cx := 30; cn := 0 |} [] [{| cx := 30; cn := 0 |}]); [lia|reflexivity]|].
    eapply steps_first; [apply (Deliver Z 2 toy_react toy_spont toy_allowed 1%nat {| cx := 30; cn := 0 |} [] []); [lia|reflexivity]|].
    apply steps_refl.
  - intros [|[|i]]; reflexivity.
  - reflexivity.
  - reflexivity.
Qed.
