From Coq Require Import ZArith List Bool Lia.
From N2kV Require Import Base.ListAux Model.CanId Model.Sched Model.PgnClass Model.NodeDefs Model.NodeRxDefs Gen.GenTables Gen.GenConsts
  Spec.SendSpec Spec.GateSpec Proofs.SendProofs Proofs.QueueProofs Proofs.GateProofsA Proofs.GateProofsB.
Import ListNotations.
Local Open Scope Z_scope.

(* C04, part C: the step theorem (every step is a run of the machine), what a run means in terms of the state at its start,
   listen-only nodes. *)

Lemma gf_none_ok : gf_ok gf_none.
Proof. intros r s r' ev H _. injection H as <- <-. exists []. apply Run_refl. Qed.

(* ================= 3. every step is a run ================= *)
Lemma rstep_hb r iv off idev :
  let x := (if (iv =? 4294967295) && (off =? 65535) then (r, [])
            else if idev <? 0 then (set_heartbeat_all (length (n_devs (rn r))) r 0 iv off, [])
            else if idev <? dev_count (rn r) then (set_heartbeat_all 1 r idev iv off, []) else (r, [])) : rnode * list event in
  snd x = [] /\ rn (fst x) = rn r.
Proof.
  cbv zeta. destruct (_ && _)%bool; [split; reflexivity|]. destruct (idev <? 0); [split; [reflexivity|apply rn_set_heartbeat_all]|].
  destruct (idev <? _); split; try reflexivity. apply rn_set_heartbeat_all.
Qed.

Theorem produced_frames_entitled : produced_frames_entitled_stmt.
Proof.
  intros gf Hgf r o r' ev H Henv Hclk. destruct o as [o| |f|iv off idev]; cbn [rstep] in H.
  - destruct o as [dt|pat|i m| |i]; try discriminate Henv; cbn [is_fwd].
    + (* SendMsg *)
      destruct (n_open (rn r) =? 3).
      * cbn [step] in H. destruct (send_msg (rn r) m i) as [[n1 ev1] ok] eqn:E. injection H as <- <-. cbn [rn with_rn].
        destruct (send_msg_run _ _ _ _ _ _ E) as (p & R). exists (p ++ []). eapply R_seq; [exact R|apply R_note; reflexivity].
      * destruct (open_step r) as [[r1 ev0] opened] eqn:EO.
        destruct (open_step_nr _ _ _ _ EO Hclk) as (p0 & R0).
        destruct (opened && _)%bool.
        -- cbn [step] in H. destruct (send_msg (rn r1) m i) as [[n1 ev1] ok] eqn:E. injection H as <- <-. cbn [rn with_rn].
           destruct (send_msg_run _ _ _ _ _ _ E) as (p & R). exists (p0 ++ (p ++ [])).
           eapply R_seq; [apply Run_weaken; exact R0|]. eapply R_seq; [exact R|apply R_note; reflexivity].
        -- injection H as <- <-. exists (p0 ++ []). eapply R_seq; [apply Run_weaken; exact R0|apply R_note; reflexivity].
    + (* SendFrames *)
      cbn [step] in H. destruct (flush _ _) as [[[q d] ev1] ok] eqn:E. injection H as <- <-. cbn [rn with_rn].
      exists []. eapply R_flush. exact E.
    + (* StartAddressClaim *)
      cbn [step] in H. destruct ((0 <=? i) && (i <? dev_count (rn r))) eqn:Er.
      * destruct (start_address_claim (rn r) i) as [n1 ev1] eqn:E. injection H as <- <-. cbn [rn with_rn].
        apply andb_true_iff in Er. destruct Er as [Er _]. apply Z.leb_le in Er.
        eapply (start_claim_after (rn r) (rn r) i); try eassumption; try reflexivity. apply only_dev_refl.
      * injection H as <- <-. cbn [rn with_rn]. exists []. apply Run_refl.
  - destruct (poll_nr gf Hgf _ _ _ H Hclk) as (p & R). exists p. exact R.
  - injection H as <- <-. exists []. apply Run_refl.
  - destruct (rstep_hb r iv off idev) as [A B]. cbn [rstep] in A, B. rewrite H in A, B. cbn [fst snd] in A, B.
    subst ev. rewrite B. exists []. apply Run_refl.
Qed.
Print Assumptions produced_frames_entitled.

(* ================= what a run means, seen from its start ================= *)
Lemma tx_ids_app a b : tx_ids (a ++ b) = tx_ids a ++ tx_ids b.
Proof. unfold tx_ids. apply flat_map_app. Qed.

Lemma fifo_flush_sub : forall p d p' d' ev ok, fifo_flush p d = (p', d', ev, ok) ->
  (forall id, In id (tx_ids ev) -> In id (map f_id p)) /\ (forall f, In f p' -> In f p).
Proof.
  induction p as [|f rest IH]; intros d p' d' ev ok H; cbn [fifo_flush] in H.
  - injection H as <- <- <- <-. split; intros ? [].
  - destruct (can_send d) as [b d1]. destruct b.
    + destruct (fifo_flush rest d1) as [[[p2 d2] evs] r] eqn:E. injection H as <- <- <- <-.
      destruct (IH _ _ _ _ _ E) as [A B]. split.
      * intros id [<-|Hin]; [left; reflexivity|right; apply A, Hin].
      * intros g Hg. right. apply B, Hg.
    + injection H as <- <- <- <-. split; [|auto]. intros id [<-|[]]. left. reflexivity.
Qed.

Lemma flush_sub q d q' d' ev ok : ring_wf q -> flush q d = (q', d', ev, ok) ->
  ring_wf q' /\ (forall id, In id (tx_ids ev) -> In id (queue_ids q)) /\ (forall id, In id (queue_ids q') -> In id (queue_ids q)).
Proof.
  intros W H. destruct (flush_refines _ _ _ _ _ _ W H) as (W' & _ & F). destruct (fifo_flush_sub _ _ _ _ _ _ F) as [A B].
  split; [exact W'|]. split; [exact A|]. unfold queue_ids. intros id Hin. apply in_map_iff in Hin. destruct Hin as (f & <- & Hf).
  apply in_map, B, Hf.
Qed.

Lemma send_frame_sub q d id len data wait q' d' ev ok : ring_wf q -> send_frame q d id len data wait = (q', d', ev, ok) ->
  ring_wf q' /\ (forall x, In x (tx_ids ev) -> In x (queue_ids q) \/ x = id) /\ (forall x, In x (queue_ids q') -> In x (queue_ids q) \/ x = id).
Proof.
  intros W H. destruct (send_frame_refines _ _ _ _ _ _ _ _ _ _ W H) as (W' & _ & F). split; [exact W'|].
  unfold fifo_send in F. destruct (fifo_flush (ring_contents q) d) as [[[p1 d1] ev1] fl] eqn:EF.
  destruct (fifo_flush_sub _ _ _ _ _ _ EF) as [A B].
  assert (Hq: forall x p', (p' = p1 \/ p' = p1 ++ [{| f_id := id; f_len := Z.min len 8; f_data := firstn (Z.to_nat (Z.min len 8)) data; f_wait := wait |}]) ->
              In x (map f_id p') -> In x (queue_ids q) \/ x = id).
  { intros x p' [-> | ->] Hin.
    - left. unfold queue_ids. apply in_map_iff in Hin. destruct Hin as (f & <- & Hf). apply in_map, B, Hf.
    - rewrite map_app, in_app_iff in Hin. destruct Hin as [Hin|[<-|[]]]; [|right; reflexivity].
      left. unfold queue_ids. apply in_map_iff in Hin. destruct Hin as (f & <- & Hf). apply in_map, B, Hf. }
  destruct fl.
  - destruct (can_send d1) as [b d2]. destruct b.
    + injection F as F1 <- <- <-. split.
      * intros x Hx. rewrite tx_ids_app, in_app_iff in Hx. destruct Hx as [Hx|[<-|[]]]; [left; apply A, Hx|right; reflexivity].
      * intros x Hx. unfold queue_ids in Hx at 1. rewrite <- F1 in Hx. eapply Hq; [left; reflexivity|exact Hx].
    + destruct (_ <? _).
      * injection F as F1 <- <- <-. split.
        -- intros x Hx. rewrite tx_ids_app, in_app_iff in Hx. destruct Hx as [Hx|[<-|[]]]; [left; apply A, Hx|right; reflexivity].
        -- intros x Hx. unfold queue_ids in Hx at 1. rewrite <- F1 in Hx. eapply Hq; [right; reflexivity|exact Hx].
      * injection F as F1 <- <- <-. split.
        -- intros x Hx. rewrite tx_ids_app, in_app_iff in Hx. destruct Hx as [Hx|[<-|[]]]; [left; apply A, Hx|right; reflexivity].
        -- intros x Hx. unfold queue_ids in Hx at 1. rewrite <- F1 in Hx. eapply Hq; [left; reflexivity|exact Hx].
  - destruct (_ <? _).
    + injection F as F1 <- <- <-. split.
      * intros x Hx. rewrite app_nil_r in Hx. left. apply A, Hx.
      * intros x Hx. unfold queue_ids in Hx at 1. rewrite <- F1 in Hx. eapply Hq; [right; reflexivity|exact Hx].
    + injection F as F1 <- <- <-. split.
      * intros x Hx. rewrite app_nil_r in Hx. left. apply A, Hx.
      * intros x Hx. unfold queue_ids in Hx at 1. rewrite <- F1 in Hx. eapply Hq; [left; reflexivity|exact Hx].
Qed.

(* windows do not close and addresses are not taken without a window, along a run of an open node that claims its addresses *)
Definition mono (n n':node) : Prop :=
  n_w64 n' = n_w64 n /\ n_now n' = n_now n /\ n_mode n' = n_mode n /\ dev_count n' = dev_count n /\
  forall j, (d_src (get_dev n' j) = d_src (get_dev n j) /\ (claim_pending n j = true -> claim_pending n' j = true)) \/ claim_pending n' j = true.
Lemma mono_refl n : mono n n.
Proof. unfold mono. repeat split; auto. Qed.
Lemma mono_trans a b c : mono a b -> mono b c -> mono a c.
Proof.
  intros (A1 & A2 & A3 & A4 & A5) (B1 & B2 & B3 & B4 & B5). unfold mono. repeat split; try congruence.
  intros j. destruct (B5 j) as [[S P]|P]; [|right; exact P].
  destruct (A5 j) as [[S' P']|P']; [left; split; [congruence|auto]|right; auto].
Qed.

Lemma ready_open12 n : n_open n = 3 -> n_mode n = 1 \/ n_mode n = 2 -> is_ready_to_send n = true.
Proof. intros O [M|M]; unfold is_ready_to_send; rewrite O, M; reflexivity. Qed.

Lemma entitled_start_same fwd n id : entitled fwd n id -> entitled_at_start fwd n id.
Proof.
  intros (pri & pgn & src & dst & i & H1 & H2 & H3 & H4 & H5 & H6 & H7). exists pri, pgn, src, dst, i.
  repeat (split; [assumption|]). intros Hp. destruct (H7 Hp). auto.
Qed.
Lemma entitled_start_back fwd n n' id : mono n n' -> entitled_at_start fwd n' id -> entitled_at_start fwd n id.
Proof.
  intros (M1 & M2 & M3 & M4 & M5) (pri & pgn & src & dst & i & H1 & H2 & H3 & H4). exists pri, pgn, src, dst, i.
  split; [exact H1|]. split; [exact H2|]. split; [congruence|]. intros Hp. destruct (H4 Hp) as (P & S & D).
  destruct (M5 i) as [[Sr Pm]|Pn]; [|congruence].
  split; [destruct (claim_pending n i); [rewrite Pm in P by reflexivity; discriminate|reflexivity]|]. split; [exact S|].
  destruct D as [[D1 D2]|D]; [left; split; [lia|congruence]|right; exact D].
Qed.

Lemma run_start_gen fwd n ev p n' : Run fwd n ev p n' -> ring_wf (n_q n) -> n_open n = 3 -> n_mode n = 1 \/ n_mode n = 2 ->
  ring_wf (n_q n') /\ n_open n' = 3 /\ mono n n' /\
  (forall id, In id p -> entitled_at_start fwd n id) /\
  (forall id, In id (tx_ids ev) -> In id (queue_ids (n_q n)) \/ In id p) /\
  (forall id, In id (queue_ids (n_q n')) -> In id (queue_ids (n_q n)) \/ In id p).
Proof.
  induction 1; intros W O M.
  - destruct H as (Q1 & Q2 & Q3 & Q4 & Q5 & Q6 & Q7 & Q8). rewrite Q4.
    split; [exact W|]. split; [auto|]. split.
    + unfold mono. repeat split; auto. intros j. destruct (Q8 j) as [L|R]; [left; exact L|right; apply R].
      apply ready_open12; [auto|rewrite Q2; exact M].
    + split; [intros ? []|]. split; [intros ? []|]. intros id Hi. left. exact Hi.
  - split; [exact W|]. split; [exact O|]. split; [apply mono_refl|]. split; [intros ? []|]. split; [|auto].
    destruct e; try discriminate H; intros ? [].
  - cbn [upd_q n_q n_open]. destruct (flush_sub _ _ _ _ _ _ W H) as (W' & A & B).
    split; [exact W'|]. split; [exact O|]. split; [unfold mono; repeat split; auto|]. split; [intros ? []|]. split; intros id Hi; left; auto.
  - cbn [upd_q n_q n_open]. destruct (send_frame_sub _ _ _ _ _ _ _ _ _ _ W H0) as (W' & A & B).
    split; [exact W'|]. split; [exact O|]. split; [unfold mono; repeat split; auto|]. split.
    + intros x [<-|[]]. apply entitled_start_same, H.
    + split; intros x Hx; [destruct (A x Hx) as [L| ->]|destruct (B x Hx) as [L| ->]]; auto; right; left; reflexivity.
  - destruct (IHRun1 W O M) as (W2 & O2 & M2 & P1 & T1 & Q1).
    assert (Md2: n_mode n2 = 1 \/ n_mode n2 = 2) by (destruct M2 as (_ & _ & E & _); rewrite E; exact M).
    destruct (IHRun2 W2 O2 Md2) as (W3 & O3 & M3 & P2 & T2 & Q2).
    split; [exact W3|]. split; [exact O3|]. split; [eapply mono_trans; eassumption|]. split; [|split].
    + intros id Hi. apply in_app_iff in Hi. destruct Hi as [Hi|Hi]; [apply P1, Hi|]. eapply entitled_start_back; [exact M2|apply P2, Hi].
    + intros id Hi. rewrite tx_ids_app in Hi. apply in_app_iff in Hi. destruct Hi as [Hi|Hi].
      * destruct (T1 id Hi); [left; assumption|right; apply in_app_iff; left; assumption].
      * destruct (T2 id Hi) as [L|R]; [|right; apply in_app_iff; right; exact R].
        destruct (Q1 id L); [left; assumption|right; apply in_app_iff; left; assumption].
    + intros id Hi. destruct (Q2 id Hi) as [L|R]; [|right; apply in_app_iff; right; exact R].
      destruct (Q1 id L); [left; assumption|right; apply in_app_iff; left; assumption].
Qed.

Theorem run_start : run_start_stmt.
Proof.
  intros fwd n ev p n' R W O M. destruct (run_start_gen _ _ _ _ _ R W O M) as (A & B & _ & C & D & E). auto.
Qed.
Print Assumptions run_start.
