(* C16 proofs, part A: basic lemmas (checked accessors, splice), the add side:
   every loop that writes into the payload is shown equal to "compute a byte list, then splice it in at DataLen";
   add_safe, var_str_wellformed, var_str_degenerate. *)
From Coq Require Import ZArith List Bool Lia.
From N2kV Require Import Base.Res Base.ListAux Model.TextDefs Spec.TextSpec.
Import ListNotations ResNotations.
Local Open Scope Z_scope.

Local Ltac Zify.zify_post_hook ::= Z.div_mod_to_equations.

Lemma bind_ok {A B} (r:res A) (f:A -> res B) a : r = Ok a -> bind r f = f a.
Proof. intros ->. reflexivity. Qed.

(* ---------- set_nth / splice ---------- *)
Lemma set_nth_length {A} (l:list A) : forall i v, length (set_nth l i v) = length l.
Proof. induction l as [|x l IH]; intros [|i] v; cbn [set_nth length]; try reflexivity. rewrite IH. reflexivity. Qed.

Lemma set_nth_app_r {A} (x:list A) : forall y j v, set_nth (x ++ y) (length x + j) v = x ++ set_nth y j v.
Proof. induction x as [|a x IH]; intros y j v; cbn [app length set_nth Nat.add]; [reflexivity|]. rewrite IH. reflexivity. Qed.

Lemma set_nth_app_l {A} (x:list A) : forall y j v, (j < length x)%nat -> set_nth (x ++ y) j v = set_nth x j v ++ y.
Proof.
  induction x as [|a x IH]; intros y j v Hj; cbn [length] in Hj; [lia|].
  destruct j as [|j]; cbn [app set_nth]; [reflexivity|]. rewrite IH by lia. reflexivity.
Qed.

Lemma set_nth_here {A} (x:list A) y z v : set_nth (x ++ y :: z) (length x) v = x ++ v :: z.
Proof. rewrite <- (Nat.add_0_r (length x)). rewrite set_nth_app_r. reflexivity. Qed.

Lemma set_nth_mid {A} (a b:list A) y z v n : n = (length a + length b)%nat -> set_nth (a ++ b ++ y :: z) n v = a ++ b ++ v :: z.
Proof. intros ->. rewrite app_assoc, <- app_length, set_nth_here, <- app_assoc. reflexivity. Qed.

Lemma set_nth_set_nth {A} (l:list A) : forall i v w, set_nth (set_nth l i v) i w = set_nth l i w.
Proof. induction l as [|x l IH]; intros [|i] v w; cbn [set_nth]; try reflexivity. rewrite IH. reflexivity. Qed.

Lemma skipn_cons_nth {A} (d:list A) : forall n, (n < length d)%nat -> exists y, skipn n d = y :: skipn (S n) d.
Proof.
  induction d as [|x d IH]; intros n Hn; cbn [length] in Hn; [lia|].
  destruct n as [|n]; [exists x; reflexivity|]. destruct (IH n) as (y & Hy); [lia|]. exists y. exact Hy.
Qed.

Lemma splice_length (d:list Z) (off:nat) (f:list Z) : (off + length f <= length d)%nat -> length (splice d off f) = length d.
Proof. intros H. unfold splice. rewrite !app_length, firstn_length, skipn_length. lia. Qed.

Lemma splice_nil d off : splice d off [] = d.
Proof. unfold splice. cbn [app length]. rewrite Nat.add_0_r. apply firstn_skipn. Qed.

Lemma wr_ok d i v : 0 <= i < Z.of_nat (length d) -> wr d i v = Ok (zset d i v).
Proof.
  intros H. unfold wr, inb. destruct (Z.leb_spec 0 i); [|lia]. destruct (Z.ltb_spec i (Z.of_nat (length d))); [|lia]. reflexivity.
Qed.

Lemma zset_length (d:list Z) i v : length (zset d i v) = length d.
Proof. apply set_nth_length. Qed.

(* writing right behind the spliced part extends it *)
Lemma wr_splice (d:list Z) (off:nat) (acc:list Z) v i : (off + length acc < length d)%nat -> i = Z.of_nat (off + length acc) ->
  wr (splice d off acc) i v = Ok (splice d off (acc ++ [v])).
Proof.
  intros H ->. rewrite wr_ok by (rewrite splice_length by lia; lia).
  f_equal. unfold zset. rewrite Nat2Z.id. unfold splice.
  destruct (skipn_cons_nth d (off + length acc) H) as (y & Hy). rewrite Hy.
  rewrite set_nth_mid by (rewrite firstn_length; lia).
  rewrite app_length. cbn [length]. replace (off + (length acc + 1))%nat with (S (off + length acc)) by lia.
  rewrite <- app_assoc. reflexivity.
Qed.

(* writing inside the spliced part *)
Lemma wr_splice_in (d:list Z) (off:nat) (f:list Z) j v i : (off + length f <= length d)%nat -> (j < length f)%nat -> i = Z.of_nat (off + j) ->
  wr (splice d off f) i v = Ok (splice d off (set_nth f j v)).
Proof.
  intros H Hj ->. rewrite wr_ok by (rewrite splice_length by lia; lia).
  f_equal. unfold zset. rewrite Nat2Z.id. unfold splice.
  replace (off + j)%nat with (length (firstn off d) + j)%nat by (rewrite firstn_length; lia).
  rewrite set_nth_app_r, set_nth_app_l by exact Hj. rewrite set_nth_length. reflexivity.
Qed.

(* ---------- reading a C string ---------- *)
Lemma rd_end s : rd s (Z.of_nat (length s)) = Ok 0.
Proof.
  unfold rd. destruct (Z.ltb_spec (Z.of_nat (length s)) 0); [lia|]. rewrite Nat2Z.id.
  replace (nth_error s (length s)) with (@None Z) by (symmetry; apply nth_error_None; lia).
  rewrite Z.eqb_refl. reflexivity.
Qed.

Lemma rd_in s p : cstring s -> 0 <= p < Z.of_nat (length s) ->
  exists b, rd s p = Ok b /\ 1 <= b <= 255 /\ nth_error s (Z.to_nat p) = Some b.
Proof.
  intros Hs Hp. unfold rd. destruct (Z.ltb_spec p 0); [lia|].
  destruct (nth_error s (Z.to_nat p)) as [b|] eqn:E.
  - exists b. split; [reflexivity|]. split; [|reflexivity].
    unfold cstring in Hs. rewrite Forall_forall in Hs. apply Hs. eapply nth_error_In. exact E.
  - apply nth_error_None in E. lia.
Qed.

Lemma rd_ok s p : cstring s -> 0 <= p <= Z.of_nat (length s) ->
  exists b, rd s p = Ok b /\ 0 <= b <= 255 /\ (b = 0 <-> p = Z.of_nat (length s)).
Proof.
  intros Hs Hp. destruct (Z.eq_dec p (Z.of_nat (length s))) as [->|Hne].
  - exists 0. rewrite rd_end. repeat split; lia.
  - destruct (rd_in s p Hs) as (b & E & Hb & _); [lia|]. exists b. split; [exact E|]. split; [lia|]. split; lia.
Qed.

Lemma lead_len_range c : 0 <= lead_len c <= 6.
Proof. unfold lead_len. repeat match goal with |- context [if ?x <? ?y then _ else _] => destruct (x <? y) end; lia. Qed.

Lemma is_cont_nz b : is_cont b = true -> b <> 0.
Proof. unfold is_cont. rewrite andb_true_iff, Z.leb_le. lia. Qed.

(* ---------- N2kUTF8CharBytes never passes the terminator ---------- *)
Lemma char_bytes_go_ok s p : cstring s -> 0 <= p -> forall n bytes, 1 <= bytes -> p + bytes <= Z.of_nat (length s) ->
  exists u, char_bytes_go s p n bytes = Ok u /\ bytes <= u <= bytes + Z.of_nat n /\ p + u <= Z.of_nat (length s).
Proof.
  intros Hs Hp. induction n as [|n IH]; intros bytes Hb Hle; cbn [char_bytes_go].
  - exists bytes. split; [reflexivity|]. lia.
  - destruct (rd_ok s (p + bytes) Hs) as (b & E & Hbr & Hz); [lia|]. rewrite E. cbn [bind].
    destruct (is_cont b) eqn:Ec.
    + apply is_cont_nz in Ec. destruct (IH (bytes + 1)) as (u & Eu & Hu & Hl); [lia|lia|].
      exists u. split; [exact Eu|]. lia.
    + exists bytes. split; [reflexivity|]. lia.
Qed.

Lemma char_bytes_ok s p n : cstring s -> 0 <= p < Z.of_nat (length s) ->
  exists u, char_bytes s p n = Ok u /\ 1 <= u /\ p + u <= Z.of_nat (length s) /\ (1 <= n -> u <= n).
Proof.
  intros Hs Hp. unfold char_bytes. destruct (char_bytes_go_ok s p Hs ltac:(lia) (Z.to_nat (n - 1)) 1) as (u & E & Hu & Hl); [lia|lia|].
  exists u. split; [exact E|]. lia.
Qed.

(* ---------- one character of the two converters ---------- *)
Lemma ucs2_char_ok s p c : cstring s -> 0 <= p < Z.of_nat (length s) -> rd s p = Ok c ->
  exists u used, ucs2_char s p c = Ok (u, used) /\ 1 <= used /\ p + used <= Z.of_nat (length s) /\ 0 <= u < 65536.
Proof.
  intros Hs Hp Hc. destruct (rd_in s p Hs Hp) as (c' & E & Hcr & _). rewrite Hc in E. injection E as <-.
  unfold ucs2_char. destruct (Z.eqb_spec (lead_len c) 1) as [_|_].
  { exists c, 1. split; [reflexivity|]. lia. }
  destruct (Z.eqb_spec (lead_len c) 0) as [_|_].
  { exists 63, 1. split; [reflexivity|]. lia. }
  destruct (char_bytes_ok s p (lead_len c) Hs Hp) as (used & Eu & Hu1 & Hul & _). rewrite Eu. cbn [bind].
  destruct (Z.eqb_spec (lead_len c) 2) as [_|_].
  { destruct (Z.eqb_spec used 2) as [->|_]; [|exists 63, used; split; [reflexivity|lia]].
    destruct (rd_ok s (p + 1) Hs) as (c1 & E1 & Hc1 & _); [lia|]. rewrite E1. cbn [bind].
    eexists _, 2. split; [reflexivity|]. lia. }
  destruct (Z.eqb_spec (lead_len c) 3) as [_|_].
  { destruct (Z.eqb_spec used 3) as [->|_]; [|exists 63, used; split; [reflexivity|lia]].
    destruct (rd_ok s (p + 1) Hs) as (c1 & E1 & Hc1 & _); [lia|]. rewrite E1. cbn [bind].
    destruct (rd_ok s (p + 2) Hs) as (c2 & E2 & Hc2 & _); [lia|]. rewrite E2. cbn [bind].
    eexists _, 3. split; [reflexivity|]. lia. }
  exists 63, used. split; [reflexivity|]. lia.
Qed.

Lemma ascii_char_ok s p c : cstring s -> 0 <= p < Z.of_nat (length s) -> rd s p = Ok c ->
  exists u used, ascii_char s p c = Ok (u, used) /\ 1 <= used /\ p + used <= Z.of_nat (length s) /\ 0 <= u < 256.
Proof.
  intros Hs Hp Hc. destruct (rd_in s p Hs Hp) as (c' & E & Hcr & _). rewrite Hc in E. injection E as <-.
  unfold ascii_char. destruct (Z.eqb_spec (lead_len c) 1) as [_|_].
  { exists c, 1. split; [reflexivity|]. lia. }
  destruct (Z.eqb_spec (lead_len c) 0) as [_|_].
  { exists 63, 1. split; [reflexivity|]. lia. }
  destruct (char_bytes_ok s p (lead_len c) Hs Hp) as (used & Eu & Hu1 & Hul & _). rewrite Eu. cbn [bind].
  exists 63, used. split; [reflexivity|]. lia.
Qed.

(* ---------- N2kUTF8ToUCS2 = compute the bytes, then splice them in ---------- *)
Fixpoint u2u_pure (s:list Z) (fuel:nat) (p len buflen:Z) : res (list Z) :=
  match fuel with
  | O => Fuel
  | S k =>
    c <- rd s p ;;
    if (c =? 0) || negb (len + 2 <=? buflen) then Ok [] else
    r <- ucs2_char s p c ;;
    let (u, used) := r in
    t <- u2u_pure s k (p + used) (len + 2) buflen ;; Ok (u mod 256 :: u / 256 :: t)
  end.

Lemma u2u_loop_pure s d0 noff off buflen : forall fuel p len bp acc,
  off + bp = Z.of_nat (noff + length acc) ->
  Z.of_nat (noff + length acc) + (buflen - len) <= Z.of_nat (length d0) ->
  u2u_loop s fuel p len bp (splice d0 noff acc) off buflen =
  (out <- u2u_pure s fuel p len buflen ;; Ok (len + Z.of_nat (length out), splice d0 noff (acc ++ out))).
Proof.
  induction fuel as [|k IH]; intros p len bp acc Hoff Hb; cbn [u2u_loop u2u_pure]; [reflexivity|].
  destruct (rd s p) as [c| |]; cbn [bind]; [|reflexivity|reflexivity].
  destruct (Z.eqb_spec c 0) as [_|_]; cbn [orb].
  { cbn [bind length]. rewrite app_nil_r, Z.add_0_r. reflexivity. }
  destruct (Z.leb_spec (len + 2) buflen) as [Hfit|_]; cbn [negb].
  2:{ cbn [bind length]. rewrite app_nil_r, Z.add_0_r. reflexivity. }
  destruct (ucs2_char s p c) as [[u used]| |]; cbn [bind]; [|reflexivity|reflexivity].
  rewrite (wr_splice d0 noff acc (u mod 256) (off + bp)) by lia. cbn [bind].
  rewrite (wr_splice d0 noff (acc ++ [u mod 256]) (u / 256) (off + bp + 1)) by (rewrite app_length; cbn [length]; lia).
  cbn [bind].
  rewrite (IH (p + used) (len + 2) (bp + 2) ((acc ++ [u mod 256]) ++ [u / 256]))
    by (rewrite !app_length; cbn [length]; lia).
  destruct (u2u_pure s k (p + used) (len + 2) buflen) as [t| |]; cbn [bind]; [|reflexivity|reflexivity].
  rewrite <- !app_assoc. cbn [app length]. do 2 f_equal. lia.
Qed.

Lemma u2u_pure_ok s buflen : cstring s -> forall fuel p len, 0 <= p <= Z.of_nat (length s) ->
  Z.of_nat (length s) - p < Z.of_nat fuel -> 0 <= len ->
  exists out, u2u_pure s fuel p len buflen = Ok out /\ len + Z.of_nat (length out) <= Z.max len buflen /\
              Z.of_nat (length out) mod 2 = 0 /\ bytes out.
Proof.
  intros Hs. induction fuel as [|k IH]; intros p len Hp Hf Hl; [lia|]. cbn [u2u_pure].
  destruct (rd_ok s p Hs Hp) as (c & E & Hc & Hz). rewrite E. cbn [bind].
  destruct (Z.eqb_spec c 0) as [_|Hnz]; cbn [orb].
  { exists []. cbn [length]. repeat split; [lia|constructor]. }
  destruct (Z.leb_spec (len + 2) buflen) as [Hfit|_]; cbn [negb].
  2:{ exists []. cbn [length]. repeat split; [lia|constructor]. }
  assert (Hp' : 0 <= p < Z.of_nat (length s)) by lia.
  destruct (ucs2_char_ok s p c Hs Hp' E) as (u & used & Eu & Hu1 & Hul & Hur). rewrite Eu. cbn [bind].
  destruct (IH (p + used) (len + 2)) as (t & Et & Hlen & Hev & Hby); [lia|lia|lia|]. rewrite Et. cbn [bind].
  eexists. split; [reflexivity|]. cbn [length]. rewrite !Nat2Z.inj_succ.
  split; [lia|]. split; [lia|]. constructor; [lia|]. constructor; [lia|]. exact Hby.
Qed.

(* ---------- N2kUTF8ToASCII likewise ---------- *)
Fixpoint u2a_pure (s:list Z) (fuel:nat) (p len buflen:Z) : res (list Z) :=
  match fuel with
  | O => Fuel
  | S k =>
    c <- rd s p ;;
    if (c =? 0) || negb (len <? buflen) then Ok [] else
    r <- ascii_char s p c ;;
    let (u, used) := r in
    t <- u2a_pure s k (p + used) (len + 1) buflen ;; Ok (u :: t)
  end.

Lemma u2a_loop_pure s d0 noff off buflen : forall fuel p len acc,
  off + len = Z.of_nat (noff + length acc) ->
  Z.of_nat (noff + length acc) + (buflen - len) <= Z.of_nat (length d0) ->
  u2a_loop s fuel p len (splice d0 noff acc) off buflen =
  (out <- u2a_pure s fuel p len buflen ;; Ok (len + Z.of_nat (length out), splice d0 noff (acc ++ out))).
Proof.
  induction fuel as [|k IH]; intros p len acc Hoff Hb; cbn [u2a_loop u2a_pure]; [reflexivity|].
  destruct (rd s p) as [c| |]; cbn [bind]; [|reflexivity|reflexivity].
  destruct (Z.eqb_spec c 0) as [_|_]; cbn [orb].
  { cbn [bind length]. rewrite app_nil_r, Z.add_0_r. reflexivity. }
  destruct (Z.ltb_spec len buflen) as [Hfit|_]; cbn [negb].
  2:{ cbn [bind length]. rewrite app_nil_r, Z.add_0_r. reflexivity. }
  destruct (ascii_char s p c) as [[u used]| |]; cbn [bind]; [|reflexivity|reflexivity].
  rewrite (wr_splice d0 noff acc u (off + len)) by lia. cbn [bind].
  rewrite (IH (p + used) (len + 1) (acc ++ [u])) by (rewrite !app_length; cbn [length]; lia).
  destruct (u2a_pure s k (p + used) (len + 1) buflen) as [t| |]; cbn [bind]; [|reflexivity|reflexivity].
  rewrite <- !app_assoc. cbn [app length]. do 2 f_equal. lia.
Qed.

Lemma u2a_pure_ok s buflen : cstring s -> forall fuel p len, 0 <= p <= Z.of_nat (length s) ->
  Z.of_nat (length s) - p < Z.of_nat fuel -> 0 <= len ->
  exists out, u2a_pure s fuel p len buflen = Ok out /\ len + Z.of_nat (length out) <= Z.max len buflen /\ bytes out.
Proof.
  intros Hs. induction fuel as [|k IH]; intros p len Hp Hf Hl; [lia|]. cbn [u2a_pure].
  destruct (rd_ok s p Hs Hp) as (c & E & Hc & Hz). rewrite E. cbn [bind].
  destruct (Z.eqb_spec c 0) as [_|Hnz]; cbn [orb].
  { exists []. cbn [length]. repeat split; [lia|constructor]. }
  destruct (Z.ltb_spec len buflen) as [Hfit|_]; cbn [negb].
  2:{ exists []. cbn [length]. repeat split; [lia|constructor]. }
  assert (Hp' : 0 <= p < Z.of_nat (length s)) by lia.
  destruct (ascii_char_ok s p c Hs Hp' E) as (u & used & Eu & Hu1 & Hul & Hur). rewrite Eu. cbn [bind].
  destruct (IH (p + used) (len + 1)) as (t & Et & Hlen & Hby); [lia|lia|lia|]. rewrite Et. cbn [bind].
  eexists. split; [reflexivity|]. cbn [length]. rewrite !Nat2Z.inj_succ.
  split; [lia|]. constructor; [lia|]. exact Hby.
Qed.

(* ---------- N2kRequireUnicode never passes the terminator ---------- *)
Lemma ru_cont_ok s : cstring s -> forall n p, 0 <= p <= Z.of_nat (length s) ->
  exists r, ru_cont s n p = Ok r /\ forall p', r = Some p' -> p <= p' <= Z.of_nat (length s).
Proof.
  intros Hs. induction n as [|n IH]; intros p Hp; cbn [ru_cont];
    destruct (rd_ok s p Hs Hp) as (b & E & Hb & Hz); rewrite E; cbn [bind].
  - exists (Some p). split; [reflexivity|]. intros p' [= <-]. lia.
  - destruct (is_cont b) eqn:Ec.
    + apply is_cont_nz in Ec. destruct (IH (p + 1)) as (r & Er & Hr); [lia|].
      exists r. split; [exact Er|]. intros p' Hp'. specialize (Hr p' Hp'). lia.
    + exists None. split; [reflexivity|]. discriminate.
Qed.

Lemma ru_loop_ok s : cstring s -> forall fuel p, 0 <= p <= Z.of_nat (length s) ->
  Z.of_nat (length s) - p < Z.of_nat fuel -> exists b, ru_loop s fuel p = Ok b.
Proof.
  intros Hs. induction fuel as [|k IH]; intros p Hp Hf; [lia|]. cbn [ru_loop].
  destruct (rd_ok s p Hs Hp) as (b & E & Hb & Hz). rewrite E. cbn [bind].
  destruct (Z.eqb_spec b 0) as [_|Hnz]; [exists false; reflexivity|].
  destruct (Z.eqb_spec (lead_len b) 0) as [_|_]; [exists false; reflexivity|].
  destruct (ru_cont_ok s Hs (Z.to_nat (lead_len b - 1)) (p + 1)) as (r & Er & Hr); [lia|]. rewrite Er. cbn [bind].
  destruct r as [p'|]; [|exists false; reflexivity].
  destruct (lead_len b >? 1); [exists true; reflexivity|].
  specialize (Hr p' eq_refl). apply IH; lia.
Qed.

Lemma require_unicode_ok s : cstring s -> exists b, require_unicode s = Ok b.
Proof. intros Hs. unfold require_unicode. apply ru_loop_ok; [exact Hs|lia|lia]. Qed.

(* ---------- SetBufStr ---------- *)
Lemma firstn_skipn_cons {A} (s:list A) i c : nth_error s i = Some c -> forall n, firstn (S n) (skipn i s) = c :: firstn n (skipn (S i) s).
Proof.
  intros E n. destruct (skipn_cons_nth s i) as (y & Hy); [apply nth_error_Some; congruence|].
  rewrite Hy. cbn [firstn]. f_equal.
  assert (nth_error s i = Some y) as E'.
  { rewrite <- (firstn_skipn i s) at 1. rewrite nth_error_app2 by (rewrite firstn_length; lia).
    rewrite firstn_length. replace (i - Nat.min i (length s))%nat with 0%nat.
    - rewrite Hy. reflexivity.
    - assert (i < length s)%nat by (apply nth_error_Some; congruence). lia. }
  congruence.
Qed.

Lemma sbs_copy_spec s d0 noff : cstring s -> forall n ni acc i index,
  i = Z.of_nat ni -> (ni <= length s)%nat -> index = Z.of_nat (noff + length acc) -> (noff + length acc + n <= length d0)%nat ->
  let t := firstn n (skipn ni s) in
  sbs_copy s n i index (splice d0 noff acc) = Ok (i + Z.of_nat (length t), index + Z.of_nat (length t), splice d0 noff (acc ++ t)).
Proof.
  intros Hs. induction n as [|n IH]; intros ni acc i index Hi Hni Hidx Hb t; subst t; cbn [sbs_copy].
  - cbn [firstn length]. rewrite app_nil_r, !Z.add_0_r. reflexivity.
  - destruct (Nat.eq_dec ni (length s)) as [->|Hne].
    + subst i. rewrite rd_end. cbn [bind]. rewrite Z.eqb_refl. rewrite skipn_all. cbn [firstn length].
      rewrite app_nil_r, !Z.add_0_r. reflexivity.
    + destruct (rd_in s i Hs) as (c & E & Hc & Hnth); [lia|]. rewrite E. cbn [bind].
      destruct (Z.eqb_spec c 0) as [->|_]; [lia|].
      rewrite (wr_splice d0 noff acc c index) by lia. cbn [bind].
      subst i. rewrite Nat2Z.id in Hnth. rewrite (firstn_skipn_cons s ni c Hnth).
      rewrite (IH (S ni) (acc ++ [c]) (Z.of_nat ni + 1) (index + 1)); [|lia|lia|rewrite app_length; cbn [length]; lia|rewrite app_length; cbn [length]; lia].
      rewrite <- app_assoc. cbn [app length]. rewrite Nat2Z.inj_succ. f_equal. f_equal. f_equal; lia.
Qed.

Lemma fill_go_spec d0 noff v : forall n acc index,
  index = Z.of_nat (noff + length acc) -> (noff + length acc + n <= length d0)%nat ->
  fill_go n index (splice d0 noff acc) v = Ok (index + Z.of_nat n, splice d0 noff (acc ++ repeat v n)).
Proof.
  induction n as [|n IH]; intros acc index Hidx Hb; cbn [fill_go repeat].
  - rewrite app_nil_r, Z.add_0_r. reflexivity.
  - rewrite (wr_splice d0 noff acc v index) by lia. cbn [bind].
    rewrite (IH (acc ++ [v]) (index + 1)) by (rewrite app_length; cbn [length]; lia).
    rewrite <- app_assoc. cbn [app]. rewrite Nat2Z.inj_succ. f_equal. f_equal. lia.
Qed.

(* the content of a fixed-length field *)
Definition fixed_field (s:list Z) (len:Z) (fillc:Z) : list Z :=
  firstn (Z.to_nat len) s ++ repeat fillc (Z.to_nat len - length s).

Lemma fixed_field_length s len fillc : 0 <= len -> Z.of_nat (length (fixed_field s len fillc)) = len.
Proof. intros H. unfold fixed_field. rewrite app_length, firstn_length, repeat_length. lia. Qed.

Lemma set_buf_str_spec s d0 noff acc len fillc index : cstring s -> 0 <= len ->
  index = Z.of_nat (noff + length acc) -> Z.of_nat (noff + length acc) + len <= Z.of_nat (length d0) ->
  set_buf_str s len index (splice d0 noff acc) fillc = Ok (index + len, splice d0 noff (acc ++ fixed_field s len fillc)).
Proof.
  intros Hs Hl Hidx Hb. unfold set_buf_str.
  rewrite (sbs_copy_spec s d0 noff Hs (Z.to_nat len) 0%nat acc 0 index) by lia. cbn [bind skipn].
  set (t := firstn (Z.to_nat len) s).
  assert (Ht : length t = Nat.min (Z.to_nat len) (length s)) by (subst t; apply firstn_length).
  rewrite (fill_go_spec d0 noff fillc _ (acc ++ t) (index + Z.of_nat (length t))) by (rewrite app_length; lia).
  unfold fixed_field. fold t. rewrite <- app_assoc.
  replace (Z.to_nat (len - (0 + Z.of_nat (length t)))) with (Z.to_nat len - length s)%nat by lia.
  do 2 f_equal. lia.
Qed.

(* ---------- the representation of a payload as "d with nothing spliced in at DataLen" ---------- *)
Lemma payload_splice m : payload m -> mdata m = splice (mdata m) (Z.to_nat (mlen m)) [].
Proof. intros _. symmetry. apply splice_nil. Qed.

Lemma appended_payload m f : payload m -> mlen m + Z.of_nat (length f) <= 223 -> payload (appended m f).
Proof.
  intros [Hd Hl] Hf. unfold payload, appended. cbn [mdata mlen]. split; [|lia].
  rewrite splice_length by lia. exact Hd.
Qed.

(* ---------- AddStr ---------- *)
Lemma add_str_spec m s len fillc : payload m -> cstring s -> 0 <= len -> mlen m + len <= 223 ->
  add_str m s len fillc = Ok (appended m (fixed_field s len fillc)).
Proof.
  intros [Hd Hl] Hs Hlen Hfit. unfold add_str.
  rewrite (payload_splice m (conj Hd Hl)) at 1.
  rewrite (set_buf_str_spec s (mdata m) (Z.to_nat (mlen m)) [] len fillc (mlen m) Hs Hlen) by (cbn [length]; lia).
  cbn [bind fst snd app]. unfold appended. rewrite fixed_field_length by exact Hlen. reflexivity.
Qed.

(* ---------- AddAISStr ---------- *)
Lemma ais_loop_spec s d0 noff : cstring s -> length d0 = 223%nat -> forall n ni acc len p dl,
  p = Z.of_nat ni -> (ni <= length s)%nat -> dl = Z.of_nat (noff + length acc) -> (noff + length acc <= 223)%nat ->
  let t := firstn (Nat.min n (223 - (noff + length acc))) (skipn ni s) in
  ais_loop s n len p dl (splice d0 noff acc) =
  Ok (len - Z.of_nat (length t), dl + Z.of_nat (length t), splice d0 noff (acc ++ map ais_char t)).
Proof.
  intros Hs Hd. induction n as [|n IH]; intros ni acc len p dl Hp Hni Hdl Hb t; subst t; cbn [ais_loop].
  - cbn [Nat.min firstn map length]. rewrite app_nil_r, Z.add_0_r, Z.sub_0_r. reflexivity.
  - destruct (Nat.eq_dec ni (length s)) as [->|Hne].
    + subst p. rewrite rd_end. cbn [bind]. rewrite Z.eqb_refl. cbn [orb]. rewrite skipn_all, firstn_nil. cbn [map length].
      rewrite app_nil_r, Z.add_0_r, Z.sub_0_r. reflexivity.
    + destruct (rd_in s p Hs) as (c & E & Hc & Hnth); [lia|]. rewrite E. cbn [bind].
      destruct (Z.eqb_spec c 0) as [->|_]; [lia|]. cbn [orb]. unfold MaxDataLen.
      destruct (Z.ltb_spec dl 223) as [Hlt|Hge]; cbn [negb].
      * rewrite (wr_splice d0 noff acc (ais_char c) dl) by lia. cbn [bind].
        subst p. rewrite Nat2Z.id in Hnth.
        replace (Nat.min (S n) (223 - (noff + length acc))) with (S (Nat.min n (223 - (noff + length (acc ++ [c])))))
          by (rewrite app_length; cbn [length]; lia).
        rewrite (firstn_skipn_cons s ni c Hnth).
        rewrite (IH (S ni) (acc ++ [ais_char c]) (len - 1) (Z.of_nat ni + 1) (dl + 1));
          [|lia|lia|rewrite app_length; cbn [length]; lia|rewrite app_length; cbn [length]; lia].
        rewrite !app_length. cbn [length map]. rewrite <- app_assoc. cbn [app]. rewrite Nat2Z.inj_succ.
        f_equal. f_equal. f_equal; lia.
      * replace (223 - (noff + length acc))%nat with 0%nat by lia. rewrite Nat.min_0_r. cbn [firstn map length].
        rewrite app_nil_r, Z.add_0_r, Z.sub_0_r. reflexivity.
Qed.

(* the content of an AIS field of n characters *)
Definition ais_field (s:list Z) (n:Z) : list Z := map ais_char (firstn (Z.to_nat n) s) ++ repeat 64 (Z.to_nat n - length s).

Lemma ais_field_length s n : 0 <= n -> Z.of_nat (length (ais_field s n)) = n.
Proof. intros H. unfold ais_field. rewrite app_length, map_length, firstn_length, repeat_length. lia. Qed.

Lemma add_ais_str_spec m s len : payload m -> cstring s -> 0 <= len ->
  add_ais_str m s len = Ok (appended m (ais_field s (Z.min len (223 - mlen m)))).
Proof.
  intros [Hd Hl] Hs Hlen. unfold add_ais_str.
  rewrite (payload_splice m (conj Hd Hl)) at 1.
  rewrite (ais_loop_spec s (mdata m) (Z.to_nat (mlen m)) Hs Hd (Z.to_nat len) 0%nat [] len 0 (mlen m)) by (cbn [length]; lia).
  cbn [bind skipn length app]. rewrite Nat.add_0_r.
  set (t := firstn (Nat.min (Z.to_nat len) (223 - Z.to_nat (mlen m))) s).
  assert (Ht : length t = Nat.min (Nat.min (Z.to_nat len) (223 - Z.to_nat (mlen m))) (length s)) by (subst t; apply firstn_length).
  unfold MaxDataLen.
  set (len1 := len - Z.of_nat (length t)). set (dl := mlen m + Z.of_nat (length t)).
  set (len2 := if len1 >? 223 - dl then 223 - dl else len1).
  assert (Hlen2 : len2 = Z.min len1 (223 - dl)) by (subst len2; destruct (Z.gtb_spec len1 (223 - dl)); lia).
  assert (Hfield : ais_field s (Z.min len (223 - mlen m)) = map ais_char t ++ repeat 64 (Z.to_nat len2)).
  { unfold ais_field. f_equal.
    - f_equal. subst t. f_equal. lia.
    - f_equal. lia. }
  destruct (Z.gtb_spec len2 0) as [Hpos|Hnpos].
  - rewrite (fill_go_spec (mdata m) (Z.to_nat (mlen m)) 64 (Z.to_nat len2) (map ais_char t) dl)
      by (rewrite map_length; lia).
    cbn [bind snd]. unfold appended. rewrite Hfield. f_equal. f_equal.
    rewrite app_length, map_length, repeat_length. lia.
  - unfold appended. rewrite Hfield. replace (Z.to_nat len2) with 0%nat by lia. cbn [repeat]. rewrite app_nil_r.
    f_equal. f_equal. rewrite map_length. lia.
Qed.

(* ---------- AddVarStr ---------- *)
Lemma add_byte_splice (d0:list Z) (noff:nat) (acc:list Z) v dl : (noff + length acc < length d0)%nat -> dl = Z.of_nat (noff + length acc) ->
  add_byte {| mdata := splice d0 noff acc; mlen := dl |} v = Ok {| mdata := splice d0 noff (acc ++ [v]); mlen := dl + 1 |}.
Proof. intros H Hdl. unfold add_byte. cbn [mdata mlen]. rewrite (wr_splice d0 noff acc v dl H Hdl). reflexivity. Qed.

(* type and body of the field AddVarStr appends at fill level dl <= 221: a function of the string and the limits only *)
Definition var_field (s:list Z) (maxlen:Z) (support chars:bool) (dl:Z) : res (Z * list Z) :=
  let buffree := 223 - dl in
  if buffree <=? 2 then Ok (1, []) else
  c0 <- rd s 0 ;;
  if c0 =? 0 then Ok (1, []) else
  let buffree := buffree - 2 in
  ru <- require_unicode s ;;
  if ru then
    if support then
      let maxlen := if chars then maxlen * 2 else maxlen in
      let buffree := if buffree >? maxlen then maxlen else buffree in
      out <- u2u_pure s (S (length s)) 0 0 buffree ;; Ok (0, out)
    else
      let buffree := if buffree >? maxlen then maxlen else buffree in
      out <- u2a_pure s (S (length s)) 0 0 buffree ;; Ok (1, out)
  else
    let len := Z.of_nat (length s) in
    let len := if len >? maxlen then maxlen else len in
    let len := if buffree <? len then buffree else len in
    Ok (1, firstn (Z.to_nat len) s).

Lemma cstring_bytes s : cstring s -> bytes s.
Proof. intros H. eapply Forall_impl; [|exact H]. cbn beta. intros b Hb. lia. Qed.

Lemma bytes_firstn n s : bytes s -> bytes (firstn n s).
Proof. intros H. unfold bytes in *. rewrite <- (firstn_skipn n s) in H. apply Forall_app in H. tauto. Qed.

Lemma add_var_str_spec m s maxlen support chars : payload m -> mlen m <= 221 -> cstring s -> 0 <= maxlen ->
  exists type body,
    var_field s maxlen support chars (mlen m) = Ok (type, body) /\
    add_var_str m s maxlen support chars = Ok (appended m (Z.of_nat (length body) + 2 :: type :: body)) /\
    Z.of_nat (length body) + 2 <= 223 - mlen m /\ (type = 0 \/ type = 1) /\
    (type = 0 -> Z.of_nat (length body) mod 2 = 0) /\ bytes body /\ (support = false -> type = 1).
Proof.
  intros [Hd Hl] Hfill Hs Hmax. unfold add_var_str, var_field, MaxDataLen.
  destruct m as [d dl]. cbn [mdata mlen] in *.
  set (noff := Z.to_nat dl).
  assert (Hdl : dl = Z.of_nat noff) by lia.
  destruct (Z.ltb_spec dl 223) as [_|?]; [|lia].
  assert (Hsp : d = splice d noff []) by (symmetry; apply splice_nil).
  assert (H1 : 223 - dl >= 2 -> add_byte {| mdata := d; mlen := dl |} 2 = Ok {| mdata := splice d noff [2]; mlen := dl + 1 |}).
  { intros Hr. rewrite Hsp at 1. apply (add_byte_splice d noff [] 2 dl); cbn [length]; lia. }
  assert (H2 : 223 - dl >= 2 -> add_byte {| mdata := splice d noff [2]; mlen := dl + 1 |} 1 = Ok {| mdata := splice d noff [2; 1]; mlen := dl + 1 + 1 |}).
  { intros Hr. apply (add_byte_splice d noff [2] 1 (dl + 1)); cbn [length]; lia. }
  destruct (Z.leb_spec (223 - dl) 2) as [Hsmall|Hbig].
  { (* exactly two bytes free *)
    cbn [bind orb]. destruct (Z.geb_spec (223 - dl) 2) as [_|?]; [|lia].
    exists 1, []. split; [reflexivity|]. split.
    - rewrite H1 by lia. cbn [bind]. rewrite H2 by lia.
      unfold appended. cbn [mdata mlen length]. do 2 f_equal. lia.
    - cbn [length]. repeat split; try lia; try (right; reflexivity); constructor. }
  destruct (rd_ok s 0 Hs ltac:(lia)) as (c0 & E0 & Hc0 & Hz0). rewrite E0. cbn [bind orb].
  destruct (Z.eqb_spec c0 0) as [_|Hnz].
  { (* empty string *)
    destruct (Z.geb_spec (223 - dl) 2) as [_|?]; [|lia].
    exists 1, []. split; [reflexivity|]. split.
    - rewrite H1 by lia. cbn [bind]. rewrite H2 by lia.
      unfold appended. cbn [mdata mlen length]. do 2 f_equal. lia.
    - cbn [length]. repeat split; try lia; try (right; reflexivity); constructor. }
  rewrite H1 by lia. cbn [bind]. rewrite H2 by lia. cbn [bind mdata mlen].
  destruct (require_unicode_ok s Hs) as (ru & Eru). rewrite Eru. cbn [bind].
  (* the two closing writes of length and type byte *)
  assert (Hclose : forall type body, Z.of_nat (length body) + 2 <= 223 - dl ->
    (d1 <- wr (splice d noff (2 :: 1 :: body)) dl ((Z.of_nat (length body) + 2) mod 256) ;;
     d2 <- wr d1 (dl + 1) type ;; Ok {| mdata := d2; mlen := dl + 1 + 1 + Z.of_nat (length body) |})
    = Ok (appended {| mdata := d; mlen := dl |} (Z.of_nat (length body) + 2 :: type :: body))).
  { intros type body Hb.
    rewrite (wr_splice_in d noff (2 :: 1 :: body) 0 _ dl) by (cbn [length]; lia). cbn [bind set_nth].
    rewrite (wr_splice_in d noff (_ :: 1 :: body) 1 type (dl + 1)) by (cbn [length]; lia). cbn [bind set_nth].
    unfold appended. cbn [mdata mlen length]. fold noff. rewrite Z.mod_small by lia. do 2 f_equal. lia. }
  destruct ru.
  - destruct support.
    + (* UCS-2 *)
      set (ml := if chars then maxlen * 2 else maxlen).
      set (bf := if 223 - dl - 2 >? ml then ml else 223 - dl - 2).
      assert (Hbf : bf <= 221 - dl) by (subst bf; destruct (Z.gtb_spec (223 - dl - 2) ml); lia).
      unfold utf8_to_ucs2.
      rewrite (u2u_loop_pure s d noff (dl + 1 + 1) bf (S (length s)) 0 0 0 [2; 1]) by (cbn [length]; lia).
      destruct (u2u_pure_ok s bf Hs (S (length s)) 0 0) as (out & Eo & Hlen & Hev & Hby); [lia|lia|lia|].
      rewrite Eo. cbn [bind fst snd app mdata mlen].
      exists 0, out. split; [reflexivity|]. split.
      * replace (0 + Z.of_nat (length out)) with (Z.of_nat (length out)) by lia.
        apply (Hclose 0 out). lia.
      * repeat split; try lia; try (left; reflexivity); try exact Hby.
    + (* ASCII with '?' *)
      set (bf := if 223 - dl - 2 >? maxlen then maxlen else 223 - dl - 2).
      assert (Hbf : bf <= 221 - dl) by (subst bf; destruct (Z.gtb_spec (223 - dl - 2) maxlen); lia).
      unfold utf8_to_ascii.
      rewrite (u2a_loop_pure s d noff (dl + 1 + 1) bf (S (length s)) 0 0 [2; 1]) by (cbn [length]; lia).
      destruct (u2a_pure_ok s bf Hs (S (length s)) 0 0) as (out & Eo & Hlen & Hby); [lia|lia|lia|].
      rewrite Eo. cbn [bind fst snd app mdata mlen].
      exists 1, out. split; [reflexivity|]. split.
      * replace (0 + Z.of_nat (length out)) with (Z.of_nat (length out)) by lia.
        apply (Hclose 1 out). lia.
      * repeat split; try lia; try (right; reflexivity); try exact Hby.
  - (* plain copy *)
    set (l1 := if Z.of_nat (length s) >? maxlen then maxlen else Z.of_nat (length s)).
    set (len := if 223 - dl - 2 <? l1 then 223 - dl - 2 else l1).
    assert (Hlen : 0 <= len <= 221 - dl /\ len <= Z.of_nat (length s)).
    { assert (Hl1 : l1 = Z.min (Z.of_nat (length s)) maxlen) by (subst l1; destruct (Z.gtb_spec (Z.of_nat (length s)) maxlen); lia).
      assert (Hl2 : len = Z.min (223 - dl - 2) l1) by (subst len; destruct (Z.ltb_spec (223 - dl - 2) l1); lia).
      lia. }
    unfold add_str. cbn [mdata mlen].
    rewrite (set_buf_str_spec s d noff [2; 1] len 255 (dl + 1 + 1) Hs) by (cbn [length]; lia).
    cbn [bind fst snd app mdata mlen].
    assert (Hff : fixed_field s len 255 = firstn (Z.to_nat len) s).
    { unfold fixed_field. replace (Z.to_nat len - length s)%nat with 0%nat by lia. cbn [repeat]. apply app_nil_r. }
    rewrite Hff.
    assert (Hfl : Z.of_nat (length (firstn (Z.to_nat len) s)) = len) by (rewrite firstn_length; lia).
    exists 1, (firstn (Z.to_nat len) s). split; [reflexivity|]. split.
    + set (body := firstn (Z.to_nat len) s) in *. rewrite <- Hfl.
      apply (Hclose 1 body). lia.
    + rewrite Hfl. repeat split; try lia; try (right; reflexivity).
      apply bytes_firstn. apply cstring_bytes. exact Hs.
Qed.

(* ---------- the statements ---------- *)
Theorem var_str_degenerate : var_str_degenerate_stmt.
Proof.
  intros m s maxlen support chars [Hd Hl] Hs. unfold add_var_str, MaxDataLen. split; intros Hm; rewrite Hm.
  - cbn [Z.ltb Z.compare Z.sub Z.add Z.opp Z.pos_sub Pos.succ Z.leb Pos.compare Pos.compare_cont]. cbn.
    unfold add_byte. rewrite Hm.
    rewrite (payload_splice m (conj Hd Hl)) at 1. rewrite Hm.
    rewrite (wr_splice (mdata m) (Z.to_nat 222) [] 1 222) by (cbn [length]; lia). cbn [bind app].
    unfold appended. rewrite Hm. reflexivity.
  - cbn. reflexivity.
Qed.

Theorem var_str_wellformed : var_str_wellformed_stmt.
Proof.
  intros m1 m2 s maxlen support chars Hp1 Hp2 Heq Hfill Hs Hmax.
  destruct (add_var_str_spec m1 s maxlen support chars Hp1 Hfill Hs Hmax) as (t1 & b1 & Ef1 & Ea1 & H1).
  destruct (add_var_str_spec m2 s maxlen support chars Hp2 ltac:(lia) Hs Hmax) as (t2 & b2 & Ef2 & Ea2 & H2).
  rewrite <- Heq in Ef2. rewrite Ef1 in Ef2. injection Ef2 as <- <-.
  exists (Z.of_nat (length b1)), t1, b1.
  split; [exact Ea1|]. split; [exact Ea2|]. split; [reflexivity|]. exact H1.
Qed.

Theorem add_safe : add_safe_stmt.
Proof.
  intros m s Hp Hs. pose proof Hp as [Hd Hl].
  assert (Hvar : forall maxlen support chars, 0 <= maxlen ->
            exists m', add_var_str m s maxlen support chars = Ok m' /\ payload m' /\ mlen m <= mlen m').
  { intros maxlen support chars Hmax.
    destruct (Z.le_gt_cases (mlen m) 221) as [Hfill|Hfill].
    - destruct (add_var_str_spec m s maxlen support chars Hp Hfill Hs Hmax) as (ty & body & _ & Ea & Hb & _).
      eexists. split; [exact Ea|]. split.
      + apply appended_payload; [exact Hp|]. cbn [length]. lia.
      + unfold appended. cbn [mlen]. lia.
    - destruct (var_str_degenerate m s maxlen support chars Hp Hs) as [H222 H223].
      destruct (Z.eq_dec (mlen m) 222) as [E|E].
      + eexists. split; [exact (H222 E)|]. split; [apply appended_payload; [exact Hp|cbn [length]; lia]|].
        unfold appended. cbn [mlen]. lia.
      + exists m. split; [apply H223; lia|]. split; [exact Hp|lia]. }
  split; [|split; [exact Hvar|split]].
  - intros len Hlen. eexists. split; [apply add_ais_str_spec; assumption|]. split.
    + apply appended_payload; [exact Hp|]. rewrite ais_field_length by lia. lia.
    + unfold appended. cbn [mlen]. lia.
  - unfold add_var_str2. apply Hvar. lia.
  - intros len fillc Hlen Hfit. eexists. split; [apply add_str_spec; assumption|]. split.
    + apply appended_payload; [exact Hp|]. rewrite fixed_field_length by lia. lia.
    + unfold appended. cbn [mlen]. rewrite fixed_field_length by lia. reflexivity.
Qed.

Print Assumptions add_safe.
Print Assumptions var_str_wellformed.
Print Assumptions var_str_degenerate.
