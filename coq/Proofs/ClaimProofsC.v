(* C03, library part 2: every way a device's own address changes raises the address-changed indication (frame lemmas: nothing but
   GetNextAddress / HandleCommandedAddress writes N2kSource, and both raise the indication). *)
From Coq Require Import ZArith List Lia Bool Arith.
From N2kV Require Import Base.ListAux Model.CanId Model.Sched Model.PgnClass Model.NodeDefs Model.NodeRxDefs Model.NetDefs Gen.GenTables Gen.GenConsts
  Spec.SendSpec Spec.ClaimSpec Proofs.QueueProofs Proofs.SendProofs Proofs.ClaimProofsB.
Import ListNotations.
Local Open Scope Z_scope.

Definition srcs (n:node) : list Z := map d_src (n_devs n).
(* addresses and the indication untouched; a search end is either untouched or recomputed from the address (UpdateAddressClaimEndSource) *)
Definition keeps (n n':node) : Prop :=
  n_addr_changed n' = n_addr_changed n /\ length (n_devs n') = length (n_devs n) /\
  forall a:nat, d_src (nth a (n_devs n') ddev) = d_src (nth a (n_devs n) ddev) /\
    (d_claim_end (nth a (n_devs n') ddev) = d_claim_end (nth a (n_devs n) ddev) \/
     d_claim_end (nth a (n_devs n') ddev) = claim_end_of (d_src (nth a (n_devs n) ddev))).
Lemma keeps_refl n : keeps n n.  Proof. split; [reflexivity|split; [reflexivity|]]. intros a. split; [reflexivity|left; reflexivity]. Qed.
Lemma keeps_trans a b c : keeps a b -> keeps b c -> keeps a c.
Proof.
  intros (A1 & A2 & A3) (B1 & B2 & B3). split; [congruence|split; [congruence|]]. intros k.
  destruct (A3 k) as [X1 X2], (B3 k) as [Y1 Y2]. split; [congruence|]. rewrite X1 in Y2. destruct X2, Y2; [left|right|right|right]; congruence.
Qed.
Lemma keeps_srcs n n' : keeps n n' -> srcs n' = srcs n.
Proof.
  intros (_ & L & P). unfold srcs. apply (nth_ext _ _ 254 254); [now rewrite !map_length|]. intros k _.
  change 254 with (d_src ddev). rewrite !map_nth. apply P.
Qed.
Lemma nth_set_nth_cases {A} (l:list A) : forall b v a d, nth a (set_nth l b v) d = if Nat.eqb a b && Nat.ltb b (length l) then v else nth a l d.
Proof.
  induction l as [|x r IH]; intros b v a d; [destruct b; cbn [set_nth length]; rewrite andb_false_r; reflexivity|].
  destruct b as [|b]; destruct a as [|a]; cbn [set_nth nth length]; try reflexivity. rewrite IH. reflexivity.
Qed.
Lemma set_nth_length' {A} (l:list A) b v : length (set_nth l b v) = length l.
Proof. apply QueueProofs.set_nth_length. Qed.
Lemma keeps_upd_dev n i d' : d_src d' = d_src (get_dev n i) ->
  (d_claim_end d' = d_claim_end (get_dev n i) \/ d_claim_end d' = claim_end_of (d_src (get_dev n i))) -> keeps n (upd_dev n i d').
Proof.
  intros E1 E2. unfold keeps, upd_dev, zset, get_dev, znth in *. cbn [n_devs n_addr_changed].
  split; [reflexivity|split; [apply set_nth_length'|]]. intros a. rewrite nth_set_nth_cases.
  destruct (Nat.eqb_spec a (Z.to_nat i)) as [->|N]; cbn [andb]; [|split; [reflexivity|left; reflexivity]].
  destruct (Nat.ltb (Z.to_nat i) (length (n_devs n))); [split; assumption|split; [reflexivity|left; reflexivity]].
Qed.
Lemma keeps_upd_q n q d : keeps n (upd_q n q d).
Proof. unfold keeps, upd_q. cbn [n_devs n_addr_changed]. split; [reflexivity|split; [reflexivity|]]. intros a. split; [reflexivity|left; reflexivity]. Qed.

(* ---------- tactics (case analysis on the model's matches) ---------- *)
Ltac dsmart e :=
  lazymatch e with
  | (if ?c then _ else _) => destruct c eqn:?
  | _ => let T := type of e in
         lazymatch T with
         | prod (prod (prod _ _) _) _ => destruct e as [[[? ?] ?] ?] eqn:?
         | prod (prod _ _) _ => destruct e as [[? ?] ?] eqn:?
         | prod _ _ => destruct e as [? ?] eqn:?
         | _ => destruct e eqn:?
         end
  end.
Ltac brk1 := match goal with |- context [match ?e with _ => _ end] => dsmart e end.
Ltac brk := repeat (brk1; cbn [fst snd]).
Ltac kd := first [apply keeps_refl | apply keeps_upd_q | (apply keeps_upd_dev; [reflexivity|first [left; reflexivity|right; reflexivity]])].
Ltac use L := let H := fresh "K" in pose proof L as H; match goal with E : _ = _ |- _ => rewrite E in H; cbn [fst snd] in H end.

Lemma claim_started_k n i : keeps n (fst (claim_started n i)).
Proof. unfold claim_started. brk; kd. Qed.
Lemma gsc_k n i p : keeps n (fst (get_sequence_counter n i p)).
Proof. unfold get_sequence_counter. brk; kd. Qed.
Lemma send_gate_k n m i : keeps n (fst (send_gate n m i)).
Proof.
  unfold send_gate. cbv zeta. repeat match goal with |- context [if ?c then _ else _] => destruct c; cbn [fst]; try apply keeps_refl end.
  all: match goal with |- context [claim_started ?nn ?j] =>
         let K := fresh "K" in pose proof (claim_started_k nn j) as K; destruct (claim_started nn j) as [n1 cl]; cbn [fst] in K; cbv beta iota;
         match goal with |- context [if ?c then _ else _] => destruct c end; cbn [fst]; exact K end.
Qed.
Lemma send_msg0_k n m i : keeps n (fst (fst (send_msg0 n m i))).
Proof.
  unfold send_msg0. pose proof (send_gate_k n m i) as K. destruct (send_gate n m i) as [n1 [[[m' i'] id]|]]; cbn [fst] in *; [|exact K].
  destruct ((m_len m' <=? 8) && negb (is_fast_packet n1 m')).
  - destruct (send_frame _ _ _ _ _ _) as [[[q d] ev] ok]. cbn [fst]. eapply keeps_trans; [exact K|apply keeps_upd_q].
  - pose proof (gsc_k n1 i' (m_pgn m')) as K2. destruct (get_sequence_counter n1 i' (m_pgn m')) as [n2 sc]. cbn [fst] in *.
    destruct (send_all _ _ _ _) as [[[q d] ev] ok]. cbn [fst]. eapply keeps_trans; [exact K|]. eapply keeps_trans; [exact K2|apply keeps_upd_q].
Qed.
Lemma end_send_tp_k n i : keeps n (end_send_tp n i).
Proof. unfold end_send_tp. kd. Qed.
Lemma start_send_tp_k n m i : keeps n (fst (fst (start_send_tp n m i))).
Proof.
  unfold start_send_tp. destruct (negb _); [apply keeps_refl|]. destruct (d_tp_msg (get_dev n i)); [apply keeps_refl|].
  set (n1 := upd_dev n i _). assert (K1: keeps n n1) by (unfold n1; kd).
  destruct (negb (is_active_node n1)); cbn [fst]; [eapply keeps_trans; [exact K1|apply end_send_tp_k]|].
  pose proof (send_msg0_k n1 (tpcm_start (if m_dst m =? 255 then c_TP_CM_BAM else c_TP_CM_RTS) (d_src (get_dev n i)) (m_dst m) m) i) as K2.
  destruct (send_msg0 n1 _ i) as [[n2 ev] ok]. cbn [fst] in *. destruct ok; cbn [fst].
  - eapply keeps_trans; eassumption.
  - eapply keeps_trans; [exact K1|]. eapply keeps_trans; [exact K2|apply end_send_tp_k].
Qed.
Lemma send_msg_k n m i : keeps n (fst (fst (send_msg n m i))).
Proof.
  unfold send_msg. pose proof (send_gate_k n m i) as K. destruct (send_gate n m i) as [n1 [[[m' i'] id]|]]; cbn [fst] in *; [|exact K].
  destruct (negb _ && m_tp m').
  - eapply keeps_trans; [exact K|apply start_send_tp_k].
  - apply send_msg0_k.
Qed.
Lemma send_iso_address_claim_k n dst i : keeps n (fst (send_iso_address_claim n dst i)).
Proof.
  unfold send_iso_address_claim. destruct (_ || _); [apply keeps_refl|].
  set (i' := if (dst =? 255) && (i =? -1) then 0 else i).
  pose proof (send_msg_k n (claim_msg (get_dev n i') dst) i') as K. destruct (send_msg n _ i') as [[n1 ev] ok]. exact K.
Qed.
Lemma set_claim_timer_k n i t : keeps n (set_claim_timer n i t).
Proof. unfold set_claim_timer. kd. Qed.
Lemma start_address_claim_k n i : keeps n (fst (start_address_claim n i)).
Proof.
  unfold start_address_claim. destruct (is_ready_to_send n); [|apply keeps_refl].
  set (n1 := set_claim_timer n i _). pose proof (send_iso_address_claim_k n1 255 i) as K. destruct (send_iso_address_claim n1 255 i) as [n2 ev]. cbn [fst] in *.
  eapply keeps_trans; [apply set_claim_timer_k|]. eapply keeps_trans; [exact K|apply set_claim_timer_k].
Qed.

(* ---------- node with receive side ---------- *)
Definition flagged (r r':rnode) : Prop :=
  (lib_flag r = true -> lib_flag r' = true) /\ (srcs (rn r') = srcs (rn r) \/ lib_flag r' = true).
Lemma flagged_refl r : flagged r r.  Proof. split; auto. Qed.
Lemma flagged_trans a b c : flagged a b -> flagged b c -> flagged a c.
Proof. intros [A1 [A2|A2]] [B1 [B2|B2]]; split; auto; try (left; congruence); right; auto. Qed.
Lemma flagged_keeps r r' : keeps (rn r) (rn r') -> flagged r r'.
Proof. intros K. pose proof (keeps_srcs _ _ K) as S. destruct K as (K1 & _). unfold flagged, lib_flag. split; [congruence|left; exact S]. Qed.
Lemma flagged_set r r' : lib_flag r' = true -> flagged r r'.
Proof. intros F. split; auto. Qed.
Lemma flagged_changes r r' : flagged r r' -> changes_flagged r r'.
Proof.
  intros [_ [S|F]] [k Hk]; [|exact F]. exfalso. apply Hk. unfold lib_src, lib_dev, get_dev, znth, srcs in *.
  rewrite <- !(map_nth d_src). rewrite S. reflexivity.
Qed.
Lemma chk_dev_rn r i : rn (chk_dev r i) = rn r.
Proof. unfold chk_dev. destruct (_ && _); reflexivity. Qed.
Lemma rstart_claim_f r i : flagged r (fst (rstart_claim r i)).
Proof.
  unfold rstart_claim. pose proof (start_address_claim_k (rn (chk_dev r i)) i) as K. destruct (start_address_claim _ i) as [n' ev]. cbn [fst] in *.
  apply flagged_keeps. cbn [rn with_rn]. rewrite chk_dev_rn in K. exact K.
Qed.
Lemma rsend_claim_f r dst i : flagged r (fst (rsend_claim r dst i)).
Proof.
  unfold rsend_claim. pose proof (send_iso_address_claim_k (rn r) dst i) as K. destruct (send_iso_address_claim _ dst i) as [n' ev]. cbn [fst] in *.
  apply flagged_keeps. exact K.
Qed.

(* the address data of one device make sense *)
Definition dev_range (r:rnode) (i:Z) : Prop :=
  (0 <= d_src (get_dev (rn r) i) <= 251 /\ 0 <= d_claim_end (get_dev (rn r) i) <= 251) \/ d_src (get_dev (rn r) i) = 254.
Lemma moved_flag r i s : lib_flag (set_addr_changed (set_src r i s false)) = true.
Proof. reflexivity. Qed.
Lemma next_address_f r i restart : 0 <= i < dev_count (rn r) -> 0 <= d_src (get_dev (rn r) i) <= 251 -> 0 <= d_claim_end (get_dev (rn r) i) <= 251 ->
  lib_flag (next_address 300 r i restart) = true.
Proof.
  intros Hi Ha He.
  assert (Hd: dist_to_end (dev_src r i) (d_claim_end (get_dev (rn r) i)) < Z.of_nat 300)
    by (pose proof (dist_range (dev_src r i) (d_claim_end (get_dev (rn r) i))); lia).
  rewrite (next_address_search_gen 300 r i restart Hi Ha Hd He). apply moved_flag.
Qed.
Lemma find_source_range r x : find_source_device r x = -1 \/ (0 <= find_source_device r x < dev_count (rn r) /\ d_src (get_dev (rn r) (find_source_device r x)) = x).
Proof.
  unfold find_source_device. destruct (x <=? 253); [|left; reflexivity].
  destruct (find_src_spec (n_devs (rn r)) x 0) as [[F _]|(l & F & Hl & E & _)]; [left; exact F|right].
  rewrite F. cbn [Z.add]. unfold dev_count, get_dev, znth. rewrite Nat2Z.id. split; [lia|exact E].
Qed.

Lemma claim_end_of_range a : 0 <= a <= 251 -> 0 <= claim_end_of a <= 251.
Proof. unfold claim_end_of. change c_N2kMaxCanBusAddress with 251. destruct (Z.gtb_spec a 0); lia. Qed.
Lemma claim_started_end n i : 0 <= i < dev_count n ->
  d_claim_end (get_dev (fst (claim_started n i)) i) = d_claim_end (get_dev n i) \/
  d_claim_end (get_dev (fst (claim_started n i)) i) = claim_end_of (d_src (get_dev n i)).
Proof.
  intros Hi. unfold claim_started. destruct (sched_is_enabled _ _); [destruct (sched_is_time _ _ _)|]; cbn [fst]; auto.
  right. rewrite get_upd_same by exact Hi. reflexivity.
Qed.

Lemma handle_claim_f r x data : (forall i, 0 <= i < dev_count (rn r) -> dev_range r i) -> flagged r (fst (handle_claim r x data)).
Proof.
  intros Hok. unfold handle_claim. cbv zeta.
  destruct (find_source_range r x) as [E|[Hi Ex]].
  - rewrite E. rewrite orb_true_r. apply flagged_refl.
  - set (i := find_source_device r x) in *.
    destruct ((x =? c_N2kNullCanBusAddress) || (i =? -1)) eqn:Enull; [apply flagged_refl|].
    rewrite chk_dev_valid by exact Hi.
    destruct (d_name (get_dev (rn r) i) <? _); [apply rsend_claim_f|].
    pose proof (claim_started_k (rn r) i) as K. pose proof (claim_started_end (rn r) i Hi) as Ke.
    destruct (claim_started (rn r) i) as [n1 started]. cbn [fst] in K, Ke.
    apply orb_false_iff in Enull as [Ex254 _]. change c_N2kNullCanBusAddress with 254 in Ex254. apply Z.eqb_neq in Ex254.
    destruct (Hok i Hi) as [[Ha He]|Hn]; [|congruence].
    destruct (d_name (get_dev (rn r) i) =? _) eqn:Eq.
    + (* equal NAMEs *)
      destruct started; cbn [andb].
      * eapply flagged_trans; [|apply rstart_claim_f]. apply flagged_keeps. unfold with_devinfo_changed, set_name. cbn [rn with_rn].
        rewrite chk_dev_rn. cbn [rn with_rn]. eapply keeps_trans; [exact K|]. kd.
      * eapply flagged_trans; [|apply rstart_claim_f]. apply flagged_set. destruct K as (_ & KL & KP).
        assert (Hs1: d_src (get_dev n1 i) = d_src (get_dev (rn r) i)) by (unfold get_dev, znth; apply KP).
        apply next_address_f; cbn [rn with_rn].
        -- unfold dev_count in *. rewrite KL. exact Hi.
        -- rewrite Hs1. exact Ha.
        -- destruct Ke as [-> | ->]; [exact He|apply claim_end_of_range; exact Ha].
    + cbn [andb]. eapply flagged_trans; [|apply rstart_claim_f]. apply flagged_set. apply next_address_f; assumption.
Qed.

(* ---------- commanded address ---------- *)
Lemma commanded_one_f r nm y i : flagged r (fst (commanded_one r nm y i)).
Proof.
  unfold commanded_one. destruct (y =? 255); cbn [fst]; [apply flagged_keeps; rewrite chk_dev_rn; apply keeps_refl|].
  destruct (_ && _); cbn [fst]; [|apply flagged_keeps; rewrite chk_dev_rn; apply keeps_refl].
  destruct (rstart_claim _ i) as [r1 ev]. cbn [fst]. apply flagged_set. reflexivity.
Qed.
Lemma commanded_all_f k : forall r nm y i, flagged r (fst (commanded_all k r nm y i)).
Proof.
  induction k as [|k IH]; intros r nm y i; cbn [commanded_all fst]; [apply flagged_refl|].
  pose proof (commanded_one_f r nm y i) as K1. destruct (commanded_one r nm y i) as [r1 ev1]. cbn [fst] in K1.
  pose proof (IH r1 nm y (i + 1)) as K2. destruct (commanded_all k r1 nm y (i + 1)) as [r2 ev2]. cbn [fst] in *.
  eapply flagged_trans; eassumption.
Qed.
Lemma handle_commanded_f r s : flagged r (fst (handle_commanded r s)).
Proof.
  unfold handle_commanded. destruct (negb _); [apply flagged_refl|]. cbv zeta. destruct (negb _ && _); [apply flagged_refl|].
  destruct (_ >=? 252); [apply flagged_refl|]. destruct (_ =? -1); [apply commanded_all_f|apply commanded_one_f].
Qed.

(* ---------- Open() / Restart(): StartAddressClaim() over all devices ---------- *)
Definition range_ok (d:dev) : Prop := (0 <= d_src d <= 251 /\ 0 <= d_claim_end d <= 251) \/ d_src d = 254.
Definition all_range_ok (r:rnode) : Prop := forall a:nat, (a < length (n_devs (rn r)))%nat -> range_ok (nth a (n_devs (rn r)) ddev).
Lemma range_keeps r n' : keeps (rn r) n' -> all_range_ok r -> all_range_ok (with_rn r n').
Proof.
  intros (_ & L & P) H a Ha. cbn [rn with_rn] in *. rewrite L in Ha. destruct (P a) as [S E]. destruct (H a Ha) as [[A B]|A]; unfold range_ok; rewrite S.
  - left. split; [exact A|]. destruct E as [-> | ->]; [exact B|apply claim_end_of_range; exact A].
  - right. exact A.
Qed.
Definition dev_with_src_end (d:dev) (s:Z) : dev :=
  {| d_src := s; d_name := d_name d; d_claim_end := claim_end_of s; d_claim_timer := d_claim_timer d; d_tx := d_tx d; d_cells := d_cells d;
     d_tp_msg := d_tp_msg d; d_next_dt_time := d_next_dt_time d; d_next_dt_seq := d_next_dt_seq d; d_has_pending := d_has_pending d |}.
Lemma set_src_true_valid r i s : 0 <= i < dev_count (rn r) ->
  set_src r i s true = with_rn r (upd_dev (rn r) i (dev_with_src_end (get_dev (rn r) i) s)).
Proof. intros Hi. unfold set_src. rewrite chk_dev_valid by exact Hi. reflexivity. Qed.

(* what the search leaves behind: only device i differs, it is in range, the indication is raised *)
Definition searched (r r':rnode) (i:Z) : Prop :=
  lib_flag r' = true /\ length (n_devs (rn r')) = length (n_devs (rn r)) /\
  (forall a:nat, a <> Z.to_nat i -> nth a (n_devs (rn r')) ddev = nth a (n_devs (rn r)) ddev) /\ range_ok (get_dev (rn r') i).
Lemma searched_moved r i a' e : 0 <= i < dev_count (rn r) -> d_claim_end (get_dev (rn r) i) = e -> 0 <= e <= 251 -> (a' = 254 \/ 0 <= a' <= 251) ->
  searched r (moved r i a') i.
Proof.
  intros Hi Ee He Ha. destruct (moved_rn r i a' Hi) as (M1 & M2 & _). split; [exact M2|split; [|split]].
  - rewrite M1. apply QueueProofs.zset_length.
  - intros a Na. rewrite M1. unfold zset. apply QueueProofs.nth_set_nth_neq. congruence.
  - rewrite moved_get by exact Hi. unfold range_ok. cbn [dev_with_src d_src d_claim_end]. rewrite Ee. destruct Ha as [->|Ha]; [right; reflexivity|left; split; assumption].
Qed.
Lemma next_address_null_restart fuel r i : d_src (get_dev (rn r) i) = 254 ->
  next_address (S fuel) r i true = (let r1 := set_src r i 14 true in if same_as_sibling r1 i then next_address fuel r1 i true else set_addr_changed r1).
Proof. intros E. cbn [next_address]. change c_N2kNullCanBusAddress with 254. rewrite E. reflexivity. Qed.
Lemma next_address_restart r i : 0 <= i < dev_count (rn r) -> d_src (get_dev (rn r) i) = 254 -> searched r (next_address 300 r i true) i.
Proof.
  intros Hi E. rewrite (next_address_null_restart 299 r i E). cbv zeta.
  rewrite (set_src_true_valid r i 14 Hi). set (r1 := with_rn r _).
  assert (Hc1: dev_count (rn r1) = dev_count (rn r)) by (unfold r1; cbn [rn with_rn]; apply dev_count_upd).
  assert (Hg1: get_dev (rn r1) i = dev_with_src_end (get_dev (rn r) i) 14) by (unfold r1; cbn [rn with_rn]; apply get_upd_same; exact Hi).
  assert (Ho1: forall a:nat, a <> Z.to_nat i -> nth a (n_devs (rn r1)) ddev = nth a (n_devs (rn r)) ddev).
  { intros a Na. unfold r1, upd_dev, zset. cbn [rn with_rn n_devs]. apply QueueProofs.nth_set_nth_neq. congruence. }
  assert (Hl1: length (n_devs (rn r1)) = length (n_devs (rn r))) by (unfold dev_count in Hc1; lia).
  destruct (same_as_sibling r1 i).
  - assert (Hi1: 0 <= i < dev_count (rn r1)) by (rewrite Hc1; exact Hi).
    assert (Ha: 0 <= dev_src r1 i <= 251) by (unfold dev_src; rewrite Hg1; cbn; lia).
    assert (He: 0 <= d_claim_end (get_dev (rn r1) i) <= 251) by (rewrite Hg1; cbn; lia).
    assert (Hd: dist_to_end (dev_src r1 i) (d_claim_end (get_dev (rn r1) i)) < Z.of_nat 299).
    { unfold dev_src. rewrite Hg1. cbn [dev_with_src_end d_src d_claim_end]. vm_compute. reflexivity. }
    rewrite (next_address_search_gen 299 r1 i true Hi1 Ha Hd He).
    destruct (search_spec 299 (taken r1 i) _ _ Ha He Hd) as [_ C].
    set (a' := search 299 _ _ _) in *. fold (moved r1 i a').
    assert (Hav: a' = 254 \/ 0 <= a' <= 251).
    { destruct C as [[Z1 _]|(j & _ & J2 & _)]; [left; exact Z1|right]. rewrite J2. pose proof (Z.mod_pos_bound (dev_src r1 i + j) 252). lia. }
    destruct (searched_moved r1 i a' _ Hi1 eq_refl He Hav) as (S1 & S2 & S3 & S4).
    split; [exact S1|split; [congruence|split; [|exact S4]]]. intros a Na. rewrite S3 by exact Na. apply Ho1; exact Na.
  - split; [reflexivity|split; [exact Hl1|split; [exact Ho1|]]]. unfold set_addr_changed. cbn [rn with_rn]. 
    change (get_dev _ i) with (get_dev (rn r1) i). rewrite Hg1. left. cbn. lia.
Qed.

Lemma searched_flagged r r' i : searched r r' i -> flagged r r'.
Proof. intros (F & _). apply flagged_set. exact F. Qed.
Lemma searched_range r r' i : 0 <= i < dev_count (rn r) -> searched r r' i -> all_range_ok r -> all_range_ok r'.
Proof.
  intros Hi (_ & L & O & R) H a Ha. rewrite L in Ha. destruct (Nat.eq_dec a (Z.to_nat i)) as [->|Na].
  - exact R.
  - rewrite O by exact Na. apply H; exact Ha.
Qed.
Lemma rstart_claim_keeps r i : keeps (rn r) (rn (fst (rstart_claim r i))).
Proof.
  unfold rstart_claim. pose proof (start_address_claim_k (rn (chk_dev r i)) i) as K. destruct (start_address_claim _ i) as [n' ev]. cbn [fst rn with_rn] in *.
  rewrite chk_dev_rn in K. exact K.
Qed.
Lemma rstart_claim_range r i : all_range_ok r -> all_range_ok (fst (rstart_claim r i)).
Proof.
  intros H. pose proof (rstart_claim_keeps r i) as K. intros a Ha. destruct K as (_ & L & P). rewrite L in Ha.
  destruct (P a) as [S E]. destruct (H a Ha) as [[A B]|A]; unfold range_ok; rewrite S.
  - left. split; [exact A|]. destruct E as [-> | ->]; [exact B|apply claim_end_of_range; exact A].
  - right. exact A.
Qed.
Lemma start_claim_all_f k : forall r i, 0 <= i -> i + Z.of_nat k <= dev_count (rn r) -> all_range_ok r -> flagged r (fst (start_claim_all k r i)).
Proof.
  induction k as [|k IH]; intros r i Hi Hk Hr; cbn [start_claim_all fst]; [apply flagged_refl|].
  assert (Hv: 0 <= i < dev_count (rn r)) by lia.
  set (r0 := if dev_src r i =? c_N2kNullCanBusAddress then next_address 300 r i true else r).
  assert (H0: flagged r r0 /\ all_range_ok r0 /\ dev_count (rn r0) = dev_count (rn r)).
  { unfold r0. change c_N2kNullCanBusAddress with 254. destruct (Z.eqb_spec (dev_src r i) 254) as [E|_]; [|split; [apply flagged_refl|split; [exact Hr|reflexivity]]].
    pose proof (next_address_restart r i Hv E) as S. split; [eapply searched_flagged; exact S|split; [eapply searched_range; eassumption|]].
    destruct S as (_ & L & _). unfold dev_count. lia. }
  destruct H0 as (F0 & R0 & C0).
  pose proof (rstart_claim_f r0 i) as F1. pose proof (rstart_claim_range r0 i R0) as R1. pose proof (rstart_claim_keeps r0 i) as (_ & L1 & _).
  destruct (rstart_claim r0 i) as [r1 ev1]. cbn [fst] in *.
  assert (C1: dev_count (rn r1) = dev_count (rn r)) by (unfold dev_count in *; lia).
  pose proof (IH r1 (i + 1) ltac:(lia) ltac:(lia) R1) as F2. destruct (start_claim_all k r1 (i + 1)) as [r2 ev2]. cbn [fst] in *.
  eapply flagged_trans; [exact F0|]. eapply flagged_trans; eassumption.
Qed.

Lemma addr_data_all r : addr_data_ok r -> all_range_ok r.
Proof. intros H a Ha. specialize (H a Ha). unfold lib_src, lib_dev, get_dev, znth in H. rewrite Nat2Z.id in H. exact H. Qed.
Theorem address_changed_flag : address_changed_flag_stmt.
Proof.
  unfold address_changed_flag_stmt. split; [|split].
  - intros r x data Hok. apply flagged_changes. apply handle_claim_f. intros i Hi.
    pose proof (addr_data_all r Hok (Z.to_nat i)) as H. unfold dev_range, get_dev, znth. apply H. unfold dev_count in Hi. lia.
  - intros r s. apply flagged_changes. apply handle_commanded_f.
  - intros r Hok. apply flagged_changes. apply start_claim_all_f; [lia|unfold dev_count; lia|apply addr_data_all; exact Hok].
Qed.
Print Assumptions address_changed_flag.
