(* C03, generic part 2: convergence.  Once the nodes stop acting on their own, EVERY schedule of deliveries is finite.
   Measure (lexicographic): (1) the sum over all devices of the remaining-moves measure [left]; (2) the pending claims, each weighted
   by nodes ^ rank(NAME), rank = number of devices with a lower NAME.  A delivery that moves a device decreases (1); any other delivery
   leaves (1) alone and either consumes a claim without answer, or is a defence: the claim of a higher NAME is replaced by at most
   nodes-1 copies of a claim of a lower NAME, which weigh less. *)
From Coq Require Import ZArith List Lia Bool Arith Wf_nat.
From N2kV Require Import Spec.ClaimSpec Proofs.ClaimProofsA.
Import ListNotations.
Local Open Scope nat_scope.

(* ---------- finite sums ---------- *)
Fixpoint sumn (n:nat) (f:nat -> nat) : nat := match n with O => 0 | S m => sumn m f + f m end.
Lemma sumn_ext n f g : (forall k, k < n -> f k = g k) -> sumn n f = sumn n g.
Proof. induction n as [|n IH]; intros E; cbn [sumn]; [reflexivity|]. rewrite IH by (intros; apply E; lia). rewrite (E n) by lia. reflexivity. Qed.
Lemma sumn_le n f g : (forall k, k < n -> f k <= g k) -> sumn n f <= sumn n g.
Proof. induction n as [|n IH]; intros E; cbn [sumn]; [lia|]. pose proof (IH ltac:(intros; apply E; lia)). pose proof (E n ltac:(lia)). lia. Qed.
Lemma sumn_lt n f g : (forall k, k < n -> f k <= g k) -> (exists k, k < n /\ f k < g k) -> sumn n f < sumn n g.
Proof.
  induction n as [|n IH]; intros E (k & Hk & L); [lia|]. cbn [sumn].
  pose proof (sumn_le n f g ltac:(intros; apply E; lia)). pose proof (E n ltac:(lia)).
  destruct (Nat.eq_dec k n) as [->|N]; [lia|].
  pose proof (IH ltac:(intros; apply E; lia) ltac:(exists k; split; [lia|exact L])). lia.
Qed.
Lemma sumn_add n f g : sumn n (fun k => f k + g k) = sumn n f + sumn n g.
Proof. induction n as [|n IH]; cbn [sumn]; [reflexivity|]. rewrite IH. lia. Qed.
Lemma sumn_const n c : sumn n (fun _ => c) = n * c.
Proof. induction n as [|n IH]; cbn [sumn]; [reflexivity|]. rewrite IH. lia. Qed.
Lemma sumn_split n f i : i < n -> sumn n f = f i + sumn n (fun q => if Nat.eqb q i then 0 else f q).
Proof.
  induction n as [|n IH]; intros Hi; [lia|]. cbn [sumn]. destruct (Nat.eq_dec i n) as [->|N].
  - rewrite Nat.eqb_refl. rewrite (sumn_ext n (fun q => if Nat.eqb q n then 0 else f q) f); [lia|].
    intros k Hk. destruct (Nat.eqb_spec k n); [lia|reflexivity].
  - rewrite (IH ltac:(lia)). destruct (Nat.eqb_spec n i); [lia|]. lia.
Qed.
Lemma sumn_const_but n i c : i < n -> sumn n (fun q => if Nat.eqb q i then 0 else c) = (n - 1) * c.
Proof. intros Hi. pose proof (sumn_split n (fun _ => c) i Hi) as E. rewrite sumn_const in E. cbn beta in E. nia. Qed.
(* over a bounded range: either some index has B or all have A *)
Lemma all_or_ex (A B:nat -> Prop) n : (forall k, k < n -> A k \/ B k) -> (exists k, k < n /\ B k) \/ (forall k, k < n -> A k).
Proof.
  induction n as [|n IH]; intros E; [right; intros; lia|].
  destruct (IH ltac:(intros; apply E; lia)) as [(k & Hk & B')|All]; [left; exists k; split; [lia|exact B']|].
  destruct (E n ltac:(lia)) as [A'|B']; [right|left; exists n; split; [lia|exact B']].
  intros k Hk. destruct (Nat.eq_dec k n) as [->|]; [exact A'|apply All; lia].
Qed.

Section Converge.
Variable nstate : Type.
Variable nodes : nat.
Variable ndev : nat -> nat.
Variable addr : nstate -> nat -> Z.
Variable name : nat -> nat -> Z.
Variable good : nat -> nstate -> Prop.
Variable react : nat -> nstate -> claim -> nstate * list claim.
Variable spont : nat -> nstate -> cause -> nstate * list claim.
Variable allowed : nat -> nstate -> cause -> Prop.
Variable left : nstate -> nat -> nat.
Hypothesis H : node_hyps nstate nodes ndev addr name good react spont allowed.
Hypothesis Hq : forall i s c, pre nstate nodes ndev addr name good i s c ->
  (length (snd (react i s c)) <= 1) /\
  (snd (react i s c) <> [] -> exists k, valid_dev nodes ndev i k /\ addr s k = cx c /\ operational (cx c)) /\
  (forall k, valid_dev nodes ndev i k -> (addr (fst (react i s c)) k = addr s k /\ left (fst (react i s c)) k = left s k) \/
                                         (left (fst (react i s c)) k < left s k)).

Notation Inv := (pairwise_cover nstate nodes ndev addr name good).
Notation vdev := (valid_dev nodes ndev).

Definition rank (n:Z) : nat := sumn nodes (fun i => sumn (ndev i) (fun k => if (name i k <? n)%Z then 1 else 0)).
Definition wtc (c:claim) : nat := nodes ^ rank (cn c).
Definition wtl (l:list claim) : nat := list_sum (map wtc l).
Definition Phi (w:world nstate) : nat := sumn nodes (fun i => wtl (inbox nstate w i)).
Definition SLn (i:nat) (s:nstate) : nat := sumn (ndev i) (fun k => left s k).
Definition SL (w:world nstate) : nat := sumn nodes (fun i => SLn i (st nstate w i)).

Lemma rank_lt j l n2 : vdev j l -> (name j l < n2)%Z -> rank (name j l) < rank n2.
Proof.
  intros [Hj Hl] L. unfold rank. apply sumn_lt.
  - intros i _. apply sumn_le. intros k _. cbn beta. destruct (Z.ltb_spec (name i k) (name j l)); destruct (Z.ltb_spec (name i k) n2). all: lia.
  - exists j. split; [exact Hj|]. apply sumn_lt.
    + intros k _. cbn beta. destruct (Z.ltb_spec (name j k) (name j l)); destruct (Z.ltb_spec (name j k) n2); lia.
    + exists l. split; [exact Hl|]. cbn beta. destruct (Z.ltb_spec (name j l) (name j l)); destruct (Z.ltb_spec (name j l) n2); lia.
Qed.
Lemma wtl_app a b : wtl (a ++ b) = wtl a + wtl b.
Proof. unfold wtl. rewrite map_app, list_sum_app. reflexivity. Qed.
Lemma wtl_one c : wtl [c] = wtc c.
Proof. unfold wtl. simpl. lia. Qed.
Lemma wtl_mid l1 c l2 : wtl (l1 ++ c :: l2) = wtl (l1 ++ l2) + wtc c.
Proof. rewrite !wtl_app. change (c :: l2) with ([c] ++ l2). rewrite wtl_app, wtl_one. lia. Qed.
Lemma wtc_pos c : 0 < nodes -> 1 <= wtc c.
Proof. intros Hn. unfold wtc. pose proof (Nat.pow_nonzero nodes (rank (cn c)) ltac:(lia)). lia. Qed.
Lemma defence_lighter a b : 0 < nodes -> a < b -> (nodes - 1) * nodes ^ a < nodes ^ b.
Proof.
  intros Hn L. pose proof (Nat.pow_nonzero nodes a ltac:(lia)).
  pose proof (Nat.pow_le_mono_r nodes (S a) b ltac:(lia) ltac:(lia)) as M. rewrite Nat.pow_succ_r' in M. nia.
Qed.

(* one delivery: the measure decreases *)
Lemma delivery_decreases w i c l1 l2 : Inv w -> i < nodes -> inbox nstate w i = l1 ++ c :: l2 ->
  let w' := {| st := upd (st nstate w) i (fst (react i (st nstate w i) c));
               inbox := bcast nodes (upd (inbox nstate w) i (l1 ++ l2)) i (snd (react i (st nstate w i) c)) |} in
  SL w' < SL w \/ (SL w' = SL w /\ Phi w' < Phi w).
Proof.
  intros HI Hi Hib w'.
  assert (Hin: In c (inbox nstate w i)) by (rewrite Hib; apply in_or_app; right; left; reflexivity).
  pose proof (pre_of nstate nodes ndev addr name good w i c Hi HI Hin) as Hpre.
  destruct (Hq i (st nstate w i) c Hpre) as (Hlen & Hemit & Hleft).
  set (s := st nstate w i) in *. set (s' := fst (react i s c)) in *. set (out := snd (react i s c)) in *.
  assert (Hst: forall q, q <> i -> st nstate w' q = st nstate w q) by (intros q Hq'; unfold w'; cbn [st]; apply upd_other; exact Hq').
  assert (Hsi: st nstate w' i = s') by (unfold w'; cbn [st]; apply upd_same).
  destruct (all_or_ex (fun k => addr s' k = addr s k /\ left s' k = left s k) (fun k => left s' k < left s k) (ndev i)
              ltac:(intros k Hk; apply Hleft; split; assumption)) as [(k & Hk & Lk)|Same].
  - (* some device of node i used up a move *)
    left. unfold SL. apply sumn_lt.
    + intros q _. destruct (Nat.eq_dec q i) as [->|Nq]; [|rewrite Hst by exact Nq; lia].
      rewrite Hsi. fold s. unfold SLn. apply sumn_le. intros k' Hk'. destruct (Hleft k' (conj Hi Hk')) as [[_ E]|L]; lia.
    + exists i. split; [exact Hi|]. rewrite Hsi. fold s. unfold SLn. apply sumn_lt.
      * intros k' Hk'. destruct (Hleft k' (conj Hi Hk')) as [[_ E]|L]; lia.
      * exists k. split; assumption.
  - right. split.
    + unfold SL. apply sumn_ext. intros q _. destruct (Nat.eq_dec q i) as [->|Nq]; [|rewrite Hst by exact Nq; reflexivity].
      rewrite Hsi. fold s. unfold SLn. apply sumn_ext. intros k Hk. apply (Same k Hk).
    + (* the inboxes *)
      assert (Hbi: inbox nstate w' i = l1 ++ l2) by (unfold w'; cbn [inbox]; rewrite bcast_same, upd_same; reflexivity).
      assert (Hbo: forall q, q < nodes -> q <> i -> inbox nstate w' q = inbox nstate w q ++ out).
      { intros q Hq' Nq. unfold w'. cbn [inbox]. rewrite bcast_other by assumption. rewrite upd_other by exact Nq. reflexivity. }
      unfold Phi. rewrite (sumn_split nodes (fun q => wtl (inbox nstate w q)) i Hi), (sumn_split nodes (fun q => wtl (inbox nstate w' q)) i Hi).
      rewrite Hbi, Hib, wtl_mid.
      rewrite (sumn_ext nodes (fun q => if Nat.eqb q i then 0 else wtl (inbox nstate w' q))
                 (fun q => (if Nat.eqb q i then 0 else wtl (inbox nstate w q)) + (if Nat.eqb q i then 0 else wtl out))).
      2:{ intros q Hq'. destruct (Nat.eqb_spec q i) as [|Nq]; [reflexivity|]. rewrite Hbo by assumption. apply wtl_app. }
      rewrite sumn_add, sumn_const_but by exact Hi.
      assert (Hn: 0 < nodes) by lia. pose proof (wtc_pos c Hn) as Hc.
      enough (E: (nodes - 1) * wtl out < wtc c) by lia.
      destruct out as [|f [|g rest]] eqn:Eout.
      * unfold wtl. cbn. lia.
      * destruct (Hemit ltac:(discriminate)) as (k & Hk & Ea & Hop).
        destruct H as (Hnames & HR1 & _ & HR3 & _).
        destruct (Z.lt_trichotomy (name i k) (cn c)) as [Lt|[Eq|Gt]].
        -- destruct (HR3 i s c k Hpre Hk Ea Hop Lt) as [_ Hf]. fold out in Hf. rewrite Eout in Hf. destruct Hf as [Ef|[]].
           rewrite wtl_one, Ef. unfold wtc. cbn [cn]. apply defence_lighter; [exact Hn|]. apply rank_lt; assumption.
        -- exfalso. apply (pending_foreign nstate nodes ndev addr name good react spont allowed H w i c HI Hin). exists k. split; [exact Hk|congruence].
        -- exfalso. apply (HR1 i s c k Hpre Hk Ea Hop Gt). fold s'. destruct Hk as [_ Hk]. rewrite (proj1 (Same k Hk)). exact Ea.
      * cbn [length] in Hlen. lia.
Qed.

Definition later (w2 w1:world nstate) : Prop := deliveries nstate nodes react w1 w2.
Lemma deliveries_step w w' : deliveries nstate nodes react w w' -> step nstate nodes react spont allowed w w'.
Proof. intros (i & c & l1 & l2 & Hi & Hib & ->). apply Deliver; assumption. Qed.

Theorem inv_converges : forall w, Inv w -> Acc later w.
Proof.
  assert (G: forall a b w, Inv w -> SL w = a -> Phi w = b -> Acc later w).
  { induction a as [a IHa] using lt_wf_ind. induction b as [b IHb] using lt_wf_ind. intros w HI Ea Eb.
    constructor. intros w' Hd. pose proof (step_inv nstate nodes ndev addr name good react spont allowed H w w' HI (deliveries_step w w' Hd)) as HI'.
    destruct Hd as (i & c & l1 & l2 & Hi & Hib & ->).
    destruct (delivery_decreases w i c l1 l2 HI Hi Hib) as [L|[E L]].
    - eapply (IHa _ ltac:(rewrite <- Ea; exact L)); [exact HI'|reflexivity|reflexivity].
    - eapply (IHb _ ltac:(rewrite <- Eb; exact L)); [exact HI'|congruence|reflexivity]. }
  intros w HI. eapply G; [exact HI|reflexivity|reflexivity].
Qed.
End Converge.

Theorem converges : converges_stmt.
Proof.
  unfold converges_stmt. intros nstate nodes ndev addr name good react spont allowed left H Hq w0 w Hi Hs.
  apply (inv_converges nstate nodes ndev addr name good react spont allowed left H Hq).
  eapply reachable_inv; eauto.
Qed.
Print Assumptions converges.
