(* C03, from claims to frames (2): the receive loop and ParseMessages on a queue of claim frames; one step of the model network. *)
From Coq Require Import ZArith List Lia Bool Arith.
From N2kV Require Import Base.ListAux Model.CanId Model.Sched Model.PgnClass Model.NodeDefs Model.NodeRxDefs Model.NetDefs Gen.GenTables Gen.GenConsts
  Spec.SendSpec Spec.ClaimSpec Proofs.QueueProofs Proofs.SendProofs Proofs.HbProofsFrame Proofs.RxProofsA
  Proofs.ClaimProofsB Proofs.ClaimProofsC Proofs.ClaimProofsD Proofs.ClaimProofsE Proofs.ClaimProofsH Proofs.ClaimProofsI.
Import ListNotations.
Local Open Scope Z_scope.

Lemma ev_claims_app' a b : ev_claims (a ++ b) = ev_claims a ++ ev_claims b.
Proof. unfold ev_claims. apply flat_map_app. Qed.

(* one claim frame at the head of the receive queue *)
Lemma rx_loop_claim_step gf r c rest fuel : rx_ready r -> 0 <= cx c < 256 -> r_q r = claim_frame c :: rest ->
  exists r1 m r3, rn r1 = rn r /\ r_q r3 = rest /\ rx_ready r3 /\ rn r3 = rn (fst (on_claim r1 (cx c) (cn c))) /\
    rx_loop gf (S fuel) r = (fst (rx_loop gf fuel r3), snd (on_claim r1 (cx c) (cn c)) ++ [EvDeliver m] ++ snd (rx_loop gf fuel r3)).
Proof.
  intros (Hop & Hact & Hck & Hsl) Hx Hq. destruct c as [x n]. cbn [cx cn] in *.
  cbn [rx_loop]. rewrite Hq. set (r0 := with_rxq r rest).
  assert (Hsl0: slots_free r0) by exact Hsl.
  rewrite (rx_frame_claim r0 x n Hck Hsl0 Hx).
  set (b := claim_slot r0 x n true). set (rb := with_slots r0 (zset (r_slots r0) 0 b)).
  assert (Hn: 0 <= 0 < nslots r0).
  { destruct Hsl0 as [Ne _]. unfold nslots. destruct (r_slots r0); [congruence|cbn [length]; lia]. }
  assert (Hnb: 0 <= 0 < nslots rb) by (unfold rb, nslots; cbn [r_slots with_slots]; rewrite QueueProofs.zset_length; exact Hn).
  assert (Hlt: (0 <? nslots rb) = true) by (apply Z.ltb_lt; lia). rewrite Hlt.
  rewrite (chk_slot_valid rb 0 Hnb).
  assert (Hg: get_slot rb 0 = b) by (unfold get_slot, rb; cbn [r_slots with_slots]; apply QueueProofs.znth_zset_eq; exact Hn).
  rewrite Hg.
  assert (Hs: handle_system gf rb b = on_claim rb x n).
  { unfold handle_system, on_claim. change (n_mode (rn rb)) with (n_mode (rn r)). destruct (active_mode (rn r) Hact) as [M|M]; rewrite M; cbn [Z.eqb Pos.eqb orb negb andb b claim_slot s_system s_pgn s_src s_len s_data];
      change (Z.to_nat 8) with 8%nat; rewrite name_bytes_firstn; reflexivity. }
  rewrite Hs. pose proof (rxsame_handle_claim rb x (name_bytes n)) as [Rq Rs]. fold (on_claim rb x n) in Rq, Rs.
  pose proof (handle_claim_st rb x (name_bytes n)) as ((_ & Sm & So & _ & Sp & _) & _). fold (on_claim rb x n) in Sm, So, Sp.
  destruct (on_claim rb x n) as [r3 ev2] eqn:Eh. cbn [fst snd] in *.
  set (r3' := set_slot r3 0 (free_slot (get_slot r3 0))).
  destruct (set_slot_rn r3 0 (free_slot (get_slot r3 0))) as [Srn Sq]. fold r3' in Srn, Sq.
  exists rb, (slot_msg b), r3'. rewrite Eh. cbn [fst snd]. split; [reflexivity|]. split; [rewrite Sq, Rq; reflexivity|]. split; [|split; [exact Srn|]].
  - unfold rx_ready. rewrite Srn. split; [rewrite So; exact Hop|split; [unfold is_active_node in *; rewrite Sm; exact Hact|split; [rewrite Sp; exact Hck|]]].
    assert (Hn3: 0 <= 0 < nslots r3) by (unfold nslots; rewrite Rs; exact Hnb).
    unfold r3'. rewrite (set_slot_valid r3 0 _ Hn3). unfold slots_free. cbn [r_slots with_slots]. rewrite Rs. unfold rb. cbn [r_slots with_slots].
    rewrite zset_twice. destruct Hsl0 as [Ne Fr]. split.
    + intros E. apply (f_equal (@length slot)) in E. rewrite QueueProofs.zset_length in E. destruct (r_slots r0); [congruence|discriminate].
    + unfold zset. apply Forall_set_nth; [exact Fr|reflexivity].
  - destruct (rx_loop gf fuel r3') as [r4 ev4]. cbn [fst snd app]. reflexivity.
Qed.

Theorem rx_loop_claims : rx_loop_claims_stmt.
Proof.
  unfold rx_loop_claims_stmt. intros gf r cs. revert r. induction cs as [|c cs IH]; intros r fuel Hr Hcx Hq Hlen; cbv zeta.
  - cbn [map] in Hq. rewrite (rx_loop_empty gf fuel r Hq). cbn [fst snd]. split; [apply cr_nil|split; [exact Hq|exact Hr]].
  - destruct fuel as [|fuel]; [cbn [length] in Hlen; lia|]. inversion Hcx as [|? ? Hc Hcs]; subst.
    destruct (rx_loop_claim_step gf r c (map claim_frame cs) fuel Hr Hc Hq) as (r1 & m & r3 & E1 & Q3 & R3 & N3 & Eloop).
    rewrite Eloop. cbn [fst snd]. destruct (IH r3 fuel R3 Hcs Q3 ltac:(cbn [length] in Hlen; lia)) as (Run & Qe & Re). cbv zeta in *.
    split; [|split; [exact Qe|exact Re]].
    rewrite !ev_claims_app'. change (ev_claims [EvDeliver m]) with (@nil claim). cbn [app].
    apply (cr_cons (rn r) c cs r1 _ _ E1). rewrite <- N3. exact Run.
Qed.
Print Assumptions rx_loop_claims.

Lemma rx_ready_kept r r' : rx_ready r -> addr_kept (rn r) (rn r') -> r_slots r' = r_slots r -> rx_ready r'.
Proof.
  intros (O & A & C & S) (_ & _ & Ko & Km & Kp & _) Es. unfold rx_ready, is_active_node, slots_free in *. rewrite Ko, Km, Kp, Es. tauto.
Qed.
Theorem poll_claims : poll_claims_stmt.
Proof.
  unfold poll_claims_stmt. intros gf r cs Hr Hcx Hq Hlen. pose proof Hr as (O & A & _).
  unfold poll. apply Z.eqb_eq in O as Ob. rewrite Ob. cbn [andb negb]. rewrite Ob. cbn [negb].
  pose proof (rflush_rk r) as K1. destruct (rflush_k r) as [[(S1s & S1q & _) _]]. destruct (rflush r) as [r2 ev1]. cbn [fst snd] in *.
  pose proof (send_pending_info_rk (length (n_devs (rn r2))) r2 0) as K2.
  destruct (send_pending_info_k (length (n_devs (rn r2))) r2 0) as [[(S2s & S2q & _) _]].
  destruct (send_pending_info _ r2 0) as [r3 ev2]. cbn [fst snd] in *.
  assert (K3: addr_kept (rn r) (rn r3)) by (eapply ak_trans; [exact K1|exact K2]).
  assert (R3: rx_ready r3) by (apply (rx_ready_kept r r3 Hr K3); congruence).
  assert (Q3: r_q r3 = map claim_frame cs) by congruence.
  change (Z.to_nat c_MaxReadFramesOnParse) with 20%nat.
  destruct (rx_loop_claims gf r3 cs 20%nat R3 Hcx Q3 Hlen) as (Run & Q4 & R4). cbv zeta in *.
  destruct (rx_loop gf 20 r3) as [r4 ev3]. cbn [fst snd] in *.
  destruct R4 as (O4 & A4 & C4 & S4). rewrite A4.
  pose proof (send_heartbeat_rk (length (n_devs (rn r4))) r4 0) as K5.
  destruct (send_heartbeat_k (length (n_devs (rn r4))) r4 0) as [[(S5s & S5q & _) _]].
  destruct (send_heartbeat _ r4 0) as [r5 ev4]. cbn [fst snd] in *.
  exists (rn r3), (rn r4), (ev_claims ev3), (ev1 ++ ev2), ev3, ev4.
  split; [exact K3|split; [exact Run|split; [exact K5|split; [cbn [app]; rewrite <- app_assoc; reflexivity|split; [reflexivity|split; [congruence|]]]]]].
  unfold slots_free in *. rewrite S5s. exact S4.
Qed.
Print Assumptions poll_claims.

(* ---------- one step of the model network ---------- *)
Lemma nth_error_indexed_from {A} (l:list A) : forall off k x, nth_error l k = Some x ->
  nth_error (combine (map Z.of_nat (seq off (length l))) l) k = Some (Z.of_nat (off + k), x).
Proof.
  induction l as [|a r IH]; intros off k x E; [destruct k; discriminate|].
  destruct k as [|k]; cbn [length seq map combine nth_error] in *; [injection E as <-; rewrite Nat.add_0_r; reflexivity|].
  rewrite (IH (S off) k x E). f_equal. f_equal. lia.
Qed.
Lemma get_part_bcast nt i fs p : get_part nt i = Some p ->
  get_part {| nt_parts := NetDefs.bcast (nt_parts nt) i fs; nt_clk := nt_clk nt; nt_sync := nt_sync nt |} i = Some p.
Proof.
  unfold get_part. destruct (i <? 0) eqn:Neg; [discriminate|]. intros E. cbn [nt_parts]. unfold NetDefs.bcast, indexed.
  rewrite nth_error_map. rewrite (nth_error_indexed_from (nt_parts nt) 0 (Z.to_nat i) p E). cbn [option_map fst snd Nat.add].
  apply Z.ltb_ge in Neg. rewrite Z2Nat.id by exact Neg. rewrite Z.eqb_refl. reflexivity.
Qed.
Lemma get_set_part nt i p q clk : get_part nt i = Some p -> get_part (set_part nt i q clk) i = Some q.
Proof.
  unfold get_part, set_part. destruct (i <? 0); [discriminate|]. cbn [nt_parts]. unfold zset. intros E.
  assert (L: (Z.to_nat i < length (nt_parts nt))%nat) by (apply nth_error_Some; congruence).
  revert L. generalize (Z.to_nat i) (nt_parts nt). clear. intros k l. revert k. induction l as [|a r IH]; intros [|k] L; cbn [length set_nth nth_error] in *; try lia; [reflexivity|apply IH; lia].
Qed.
Lemma get_part_set_sync nt s i : get_part (set_sync nt s) i = get_part nt i.
Proof. reflexivity. Qed.

Theorem net_step_claim_partial : net_step_claim_partial_stmt.
Proof.
  unfold net_step_claim_partial_stmt. intros gf nt i k p r c Hg Hon Hk Hnth Hk0 Hr Hq Hx.
  cbn [net_step]. rewrite Hg, Hon. assert (Kn: (k <? 0) = false) by (apply Z.ltb_ge; exact Hk0). rewrite Kn. cbn [negb orb].
  rewrite Hnth, Hk. rewrite Hq. cbn [app].
  set (rest := firstn (Z.to_nat k) (p_inbox p) ++ skipn (S (Z.to_nat k)) (p_inbox p)).
  set (p1 := {| p_on := true; p_kind := PLib (with_rxq r [claim_frame c]); p_inbox := rest |}).
  set (nt1 := set_part nt i p1 (nt_clk nt)).
  assert (Hg1: get_part nt1 i = Some p1) by (apply (get_set_part nt i p p1 _ Hg)).
  unfold poll_part. rewrite Hg1. cbn [p_kind p1 p_on p_inbox]. unfold lib_poll.
  set (rin := with_sync (with_clk (with_rxq r [claim_frame c]) (nt_clk nt1)) (nt_sync nt1)).
  assert (Rin: rx_ready rin) by exact Hr.
  assert (Qin: r_q rin = map claim_frame [c]) by reflexivity.
  destruct (poll_claims gf rin [c] Rin (Forall_cons _ Hx (Forall_nil _)) Qin ltac:(cbn; lia)) as (na & nb & out & evA & evC & evB & K1 & Run & K2 & Ev & Ec & _ & _).
  destruct (poll gf rin) as [r' ev] eqn:Ep. cbn [fst snd] in *.
  inversion Run as [|n0 c0 cs0 r1 n' out0 E1 Run' E2 E3 E4 E5]; subst. inversion Run' as [n1 E6 E7 E8 E9|]; subst.
  set (p' := {| p_on := true; p_kind := PLib r'; p_inbox := rest |}).
  exists p', r', r1, evA, evC, evB.
  assert (O1: n_open (rn r1) = 3) by (destruct K1 as (_ & _ & Ko & _); rewrite Ko; apply Hr).
  split; [|split; [reflexivity|split; [reflexivity|split; [exact K1|split; [exact O1|]]]]].
  - unfold emit. cbn [fst]. apply get_part_bcast. rewrite get_part_set_sync. apply (get_set_part nt1 i p1 p' _ Hg1).
  - unfold c_react. apply Z.eqb_eq in O1 as Ob. rewrite Ob. cbn [fst snd].
    split; [exact K2|split]; [unfold emit; cbn [snd]; reflexivity|]. rewrite <- E5. apply app_nil_r.
Qed.
Print Assumptions net_step_claim_partial.

(* ---------- arbitration at the level of ParseMessages (nothing queued, nothing pending) ---------- *)
Lemma upd_q_same n : n_drv n = [] -> upd_q n (n_q n) [] = n.
Proof. destruct n. cbn. intros ->. reflexivity. Qed.
Lemma with_rn_same r : with_rn r (rn r) = r.
Proof. destruct r. reflexivity. Qed.
Lemma rflush_idle r : n_drv (rn r) = [] -> q_rd (n_q (rn r)) = q_wr (n_q (rn r)) -> rflush r = (r, []).
Proof. intros D E. unfold rflush. rewrite D, (flush_empty _ E). rewrite upd_q_same by exact D. rewrite with_rn_same. reflexivity. Qed.
Lemma send_pending_info_idle : forall k r i, 0 <= i -> i + Z.of_nat k <= dev_count (rn r) ->
  (forall j, 0 <= j < dev_count (rn r) -> has_pending r j = false) -> send_pending_info k r i = (r, []).
Proof.
  induction k as [|k IH]; intros r i Hi Hk Hp; cbn [send_pending_info]; [reflexivity|].
  rewrite Hp by lia. rewrite (IH r (i + 1)) by (try assumption; lia). reflexivity.
Qed.
Lemma lib_good_rn r r1 : rn r1 = rn r -> lib_good r -> lib_good r1.
Proof. intros E. unfold lib_good, lib_sib_distinct, lib_src, lib_dev, lib_ndev. rewrite E. tauto. Qed.
Lemma lib_src_kept r r' k : addr_kept (rn r) (rn r') -> lib_src r' k = lib_src r k.
Proof. intros (_&_&_&_&_&_&_&P). unfold lib_src, lib_dev, get_dev, znth. apply (P (Z.to_nat (Z.of_nat k))). Qed.

Theorem poll_arbitration_partial : poll_arbitration_partial_stmt.
Proof.
  unfold poll_arbitration_partial_stmt. intros gf r c k G Hr Hp Hq Hk Hn Es Hop.
  pose proof Hr as (O & A & _). pose proof G as (_ & D & _ & Qe & _).
  assert (Hx: 0 <= cx c < 256) by (unfold operational in Hop; lia).
  unfold poll. apply Z.eqb_eq in O as Ob. rewrite Ob. cbn [andb negb]. rewrite Ob. cbn [negb].
  rewrite (rflush_idle r D Qe). assert (Hcnt: 0 + Z.of_nat (length (n_devs (rn r))) <= dev_count (rn r)) by (unfold dev_count; lia).
  rewrite (send_pending_info_idle (length (n_devs (rn r))) r 0 ltac:(lia) Hcnt Hp).
  change (Z.to_nat c_MaxReadFramesOnParse) with 20%nat.
  destruct (rx_loop_claim_step gf r c [] 19 Hr Hx Hq) as (r1 & m & r3 & E1 & Q3 & R3 & N3 & Eloop).
  rewrite Eloop. rewrite (rx_loop_empty gf 19 r3 Q3). cbn [fst snd app].
  destruct R3 as (_ & A3 & _). rewrite A3.
  pose proof (send_heartbeat_rk (length (n_devs (rn r3))) r3 0) as K5. destruct (send_heartbeat _ r3 0) as [r5 ev4]. cbn [fst snd] in *.
  assert (G1: lib_good r1) by (apply (lib_good_rn r r1 E1 G)).
  assert (Args: claim_args r1 (cx c) (cn c) k).
  { unfold claim_args, lib_open, lib_ndev in *. rewrite E1. tauto. }
  assert (Es1: lib_src r1 k = cx c) by (unfold lib_src, lib_dev in *; rewrite E1; exact Es).
  assert (Nm: lib_name r1 k = lib_name r k) by (unfold lib_name, lib_dev; rewrite E1; reflexivity).
  assert (S35: forall r', rn r' = rn (fst (on_claim r1 (cx c) (cn c))) -> lib_src r5 k = lib_src (fst (on_claim r1 (cx c) (cn c))) k).
  { intros r' _. rewrite (lib_src_kept r3 r5 k K5). unfold lib_src, lib_dev. rewrite N3. reflexivity. }
  split.
  - intros Lt. rewrite (S35 r3 N3). apply (lib_R1 r1 (cx c) (cn c) k Args Es1 Hop). rewrite Nm. exact Lt.
  - intros Lt. destruct (lib_R3 r1 (cx c) (cn c) k Args Es1 Hop ltac:(rewrite Nm; exact Lt)) as (S & Ev & _).
    split; [rewrite (S35 r3 N3); exact S|]. rewrite Ev, Nm. apply in_or_app. left. left. reflexivity.
Qed.
Print Assumptions poll_arbitration_partial.

(* non-vacuity: the opened example node with a pending claim for address 30 (its device 0, NAME 26) meets the premises *)
Lemma poll_arbitration_nonvacuous : lib_good ex_rx /\ rx_ready ex_rx /\ (forall i, 0 <= i < dev_count (rn ex_rx) -> has_pending ex_rx i = false) /\
  r_q ex_rx = [claim_frame {| cx := 30; cn := 5 |}] /\ (0 < lib_ndev ex_rx)%nat /\ lib_src ex_rx 0 = 30 /\ 5 < lib_name ex_rx 0.
Proof.
  destruct dispatch_nonvacuous as (O & A & C & S & Q). destruct ex_lib_good as (G & _).
  destruct (with_open_good ex_lib 0 G) as (Go & _).
  split; [exact (lib_good_rn (with_open ex_lib 3 0) ex_rx eq_refl Go)|]. split; [unfold rx_ready; tauto|]. split; [|split; [exact Q|split; [cbn; lia|split; [reflexivity|reflexivity]]]].
  intros i Hi. change (dev_count (rn ex_rx)) with 2 in Hi. assert (E: i = 0 \/ i = 1) by lia. destruct E as [-> | ->]; reflexivity.
Qed.
