(* C09 proofs, part D: the shape of every answer (whatever the payload) and statement (a) *)
From Coq Require Import ZArith List Bool Lia.
From N2kV Require Import Base.ListAux Model.Sched Model.NodeDefs Model.NodeRxDefs Model.GroupFnDefs Spec.GroupFnSpec Gen.GenTables Gen.GenConsts
  Proofs.GroupFnProofsA Proofs.GroupFnProofsB Proofs.GroupFnProofsC.
Import ListNotations.
Local Open Scope Z_scope.

Lemma get_byte_range d k : Forall byte_ok d -> 0 <= k -> byte_ok (fst (get_byte d k)).
Proof.
  intros F Hk. destruct (byte_at d k) as [b|] eqn:B.
  - rewrite (get_byte_at _ _ _ B). apply (byte_at_ok _ _ _ F B).
  - rewrite get_byte_out by (apply byte_at_None in B; lia). cbn [fst]. unfold byte_ok. lia.
Qed.
Lemma get_byte_idx d k : 0 <= k -> 0 <= snd (get_byte d k).
Proof. intros H. unfold get_byte. destruct (k <? dlen d); cbn [snd]; lia. Qed.
Lemma get_u16_idx d k : 0 <= k -> 0 <= snd (get_u16 d k).
Proof. intros H. unfold get_u16. destruct (k + 2 <=? dlen d); cbn [snd]; lia. Qed.
Lemma get_u32_idx d k : 0 <= k -> 0 <= snd (get_u32 d k).
Proof. intros H. unfold get_u32. destruct (k + 4 <=? dlen d); cbn [snd]; lia. Qed.

(* a parsed acknowledge for any PGN value the getter can deliver (0xFFFFFFFF when the message is cut before the PGN) *)
Lemma parse_ack_built_mod pgn pe te n cs :
  0 <= pgn -> code_ok pe -> code_ok te -> Forall code_ok cs -> n = Z.of_nat (length cs) ->
  parse_ack (ack_start pgn pe te n ++ pack cs) =
    Some {| ak_pgn := pgn mod 16777216; ak_pgnec := pe; ak_tpec := te; ak_n := n; ak_codes := cs |}.
Proof.
  intros Hp Hpe Hte F Hn.
  assert (E: ack_start pgn pe te n = ack_start (pgn mod 16777216) pe te n).
  { unfold ack_start. rewrite !le_bytes3. f_equal. f_equal.
    f_equal; [|f_equal; [|f_equal]]; Z.div_mod_to_equations; lia. }
  rewrite E. apply parse_ack_built; try assumption. apply Z.mod_pos_bound. lia.
Qed.

(* the shape every acknowledge of the handlers has *)
Definition ack_shape (ack:list Z) (pgn np:Z) : Prop :=
  exists pe te cs, ack = ack_start pgn pe te np ++ pack cs /\ code_ok pe /\ code_ok te /\ Forall code_ok cs /\ Z.of_nat (length cs) = np.
Lemma ack_shape_uniform pgn pe te np c : code_ok pe -> code_ok te -> code_ok c -> 0 <= np -> ack_shape (ack_uniform pgn pe te np c) pgn np.
Proof.
  intros Hpe Hte Hc Hn. exists pe, te, (repeat c (Z.to_nat np)). rewrite ack_uniform_eq by assumption.
  split; [reflexivity|]. split; [exact Hpe|]. split; [exact Hte|]. split; [apply Forall_repeat, Hc|rewrite repeat_length; lia].
Qed.
Lemma ack_shape_parse ack pgn np : ack_shape ack pgn np -> 0 <= pgn -> 0 <= np < 256 ->
  exists r, parse_ack ack = Some r /\ ak_pgn r = pgn mod 16777216 /\ ak_n r = np /\ (length ack <= 223)%nat.
Proof.
  intros (pe & te & cs & -> & Hpe & Hte & F & L) Hp Hn. eexists. split; [apply parse_ack_built_mod; try assumption; lia|].
  cbn [ak_pgn ak_n]. split; [reflexivity|]. split; [reflexivity|]. apply ack_fits. lia.
Qed.

(* ---------- the loops produce one code per announced pair ---------- *)
Definition codes_ok (fs:fstep) : Prop := forall d idx mt, code_ok (fst (fst (fst (fs d idx mt)))).
Ltac lit := unfold code_ok; cbn [fst]; lia.
Ltac destr_lets := repeat match goal with |- context [match ?g with pair _ _ => _ end] =>
  lazymatch g with mnum _ _ _ _ => fail | mstr _ _ _ => fail | _ => destruct g end end.
Ltac leaf_num := match goal with |- context [mnum ?v ?m ?c ?mt] => unfold mnum; destruct (Z.land v m =? c); lit end.
Ltac leaf_str := match goal with |- context [mstr ?q ?c ?mt] => unfold mstr; destruct (leqb q c); lit end.
Lemma codes_ok_60928 nm : codes_ok (fstep_60928 nm).
Proof.
  intros d idx mt. unfold fstep_60928. destruct (get_byte d idx) as [f i1]. cbv zeta.
  repeat match goal with |- context [if (f =? ?k) then _ else _] => destruct (f =? k) end;
  destr_lets; try leaf_num; unfold invalid_field; lit.
Qed.
Lemma codes_ok_126464 : codes_ok fstep_126464.
Proof.
  intros d idx mt. unfold fstep_126464. destruct (get_byte d idx) as [f i1]. destruct (f =? 1); [|unfold invalid_field; lit].
  destruct (get_byte d i1) as [v i2]. destruct ((v =? 0) || (v =? 1)); lit.
Qed.
Lemma codes_ok_126996 p : codes_ok (fstep_126996 p).
Proof.
  intros d idx mt. unfold fstep_126996. destruct (get_byte d idx) as [f i1]. cbv zeta.
  repeat match goal with |- context [if (f =? ?k) then _ else _] => destruct (f =? k) end;
  destr_lets; try leaf_num; try leaf_str; unfold invalid_field; lit.
Qed.
Lemma codes_ok_126998 s1 s2 s3 : codes_ok (fstep_126998 s1 s2 s3).
Proof.
  intros d idx mt. unfold fstep_126998. destruct (get_byte d idx) as [f i1]. cbv zeta.
  repeat match goal with |- context [if (f =? ?k) then _ else _] => destruct (f =? k) end;
  destr_lets; try leaf_str; unfold invalid_field; lit.
Qed.

Lemma req_loop_shape fs st d : st <> [] -> codes_ok fs ->
  forall k i idx mt inv cs0 sel, Forall code_ok cs0 -> i = Z.of_nat (length cs0) ->
    exists cs mt' sel', req_loop fs k d false i idx mt inv (st ++ pack cs0) sel = (st ++ pack (cs0 ++ cs), mt', sel') /\
                        Forall code_ok cs /\ length cs = k.
Proof.
  intros Hst CO. induction k as [|k IH]; intros i idx mt inv cs0 sel F ->.
  - exists [], mt, sel. cbn [req_loop]. rewrite app_nil_r. repeat split. constructor.
  - cbn [req_loop]. rewrite orb_true_r.
    assert (Step: forall c idx' mt' inv' sel', code_ok c ->
              exists cs mt'' sel'', req_loop fs k d false (Z.of_nat (length cs0) + 1) idx' mt' inv' (ack_add (st ++ pack cs0) (Z.of_nat (length cs0)) c) sel'
                                    = (st ++ pack (cs0 ++ cs), mt'', sel'') /\ Forall code_ok cs /\ length cs = S k).
    { intros c idx' mt' inv' sel' Hc. rewrite ack_add_pack by assumption.
      destruct (IH (Z.of_nat (length cs0) + 1) idx' mt' inv' (cs0 ++ [c]) sel') as (cs & m2 & s2 & E & Fc & L);
        [apply Forall_snoc; assumption|symmetry; apply snoc_length|].
      exists (c :: cs), m2, s2. rewrite E, <- app_assoc. repeat split; [constructor; assumption|cbn [length]; lia]. }
    destruct inv.
    + apply Step. unfold code_ok. lia.
    + pose proof (CO d idx mt) as Hc. destruct (fs d idx mt) as [[[c i'] m'] v']. cbn [fst] in Hc. apply Step. exact Hc.
Qed.

Lemma req_filtered_shape g pgn iv ov np fs deliver : codes_ok fs -> g_bcast g = false -> 0 <= np ->
  (exists sel, req_filtered g pgn iv ov np fs deliver = deliver sel) \/
  (exists ack, req_filtered g pgn iv ov np fs deliver = GaAck (g_src g) ack /\ ack_shape ack pgn np).
Proof.
  intros CO BC Hn. unfold req_filtered. rewrite BC.
  set (pec := tp_code iv ov None).
  assert (Hpec: code_ok pec) by (unfold pec, tp_code; destruct (_ && _); unfold code_ok; lia).
  destruct (req_loop_shape fs (ack_start pgn 0 pec np) (g_d g) (ack_start_nonnil _ _ _ _) CO (Z.to_nat np) 0 11 true false [] 255 (Forall_nil _) eq_refl)
    as (cs & mt & sel & E & Fc & L).
  cbn [pack app] in E. rewrite app_nil_r in E. rewrite E. cbn [app].
  destruct (mt && (pec =? 0)); [left; exists sel; reflexivity|].
  right. eexists. split; [reflexivity|]. exists 0, pec, cs. split; [reflexivity|]. split; [unfold code_ok; lia|]. split; [exact Hpec|]. split; [exact Fc|lia].
Qed.

Lemma cmd_60928_shape st d : st <> [] -> forall k i idx cs0 lo up si, Forall code_ok cs0 -> i = Z.of_nat (length cs0) ->
  exists cs lo' up' si', cmd_60928_loop k d i idx (st ++ pack cs0) lo up si = (st ++ pack (cs0 ++ cs), lo', up', si') /\ Forall code_ok cs /\ length cs = k.
Proof.
  intros Hst. induction k as [|k IH]; intros i idx cs0 lo up si F ->.
  - exists [], lo, up, si. cbn [cmd_60928_loop]. rewrite app_nil_r. repeat split. constructor.
  - cbn [cmd_60928_loop].
    assert (Step: forall c idx' lo' up' si', code_ok c ->
              exists cs lo2 up2 si2, cmd_60928_loop k d (Z.of_nat (length cs0) + 1) idx' (ack_add (st ++ pack cs0) (Z.of_nat (length cs0)) c) lo' up' si'
                                     = (st ++ pack (cs0 ++ cs), lo2, up2, si2) /\ Forall code_ok cs /\ length cs = S k).
    { intros c idx' lo' up' si' Hc. rewrite ack_add_pack by assumption.
      destruct (IH (Z.of_nat (length cs0) + 1) idx' (cs0 ++ [c]) lo' up' si') as (cs & l2 & u2 & s2 & E & Fc & L);
        [apply Forall_snoc; assumption|symmetry; apply snoc_length|].
      exists (c :: cs), l2, u2, s2. rewrite E, <- app_assoc. repeat split; [constructor; assumption|cbn [length]; lia]. }
    destruct (get_byte d idx) as [f i1].
    destruct (f =? 3); [destruct (get_byte d i1); apply Step; unfold code_ok; lia|].
    destruct (f =? 4); [destruct (get_byte d i1); apply Step; unfold code_ok; lia|].
    destruct (f =? 8); [destruct (get_byte d i1); apply Step; unfold code_ok; lia|].
    apply Step; unfold code_ok; lia.
Qed.
Lemma cmd_126998_shape st d : st <> [] -> forall k i idx cs0 s1 s2 chg, Forall code_ok cs0 -> i = Z.of_nat (length cs0) ->
  exists cs s1' s2' chg', cmd_126998_loop k d i idx (st ++ pack cs0) s1 s2 chg = (st ++ pack (cs0 ++ cs), s1', s2', chg') /\ Forall code_ok cs /\ length cs = k.
Proof.
  intros Hst. induction k as [|k IH]; intros i idx cs0 s1 s2 chg F ->.
  - exists [], s1, s2, chg. cbn [cmd_126998_loop]. rewrite app_nil_r. repeat split. constructor.
  - cbn [cmd_126998_loop].
    assert (Step: forall c idx' s1' s2' chg', code_ok c ->
              exists cs a2 b2 c2, cmd_126998_loop k d (Z.of_nat (length cs0) + 1) idx' (ack_add (st ++ pack cs0) (Z.of_nat (length cs0)) c) s1' s2' chg'
                                  = (st ++ pack (cs0 ++ cs), a2, b2, c2) /\ Forall code_ok cs /\ length cs = S k).
    { intros c idx' s1' s2' chg' Hc. rewrite ack_add_pack by assumption.
      destruct (IH (Z.of_nat (length cs0) + 1) idx' (cs0 ++ [c]) s1' s2' chg') as (cs & a2 & b2 & c2 & E & Fc & L);
        [apply Forall_snoc; assumption|symmetry; apply snoc_length|].
      exists (c :: cs), a2, b2, c2. rewrite E, <- app_assoc. repeat split; [constructor; assumption|cbn [length]; lia]. }
    destruct (get_byte d idx) as [f i1].
    destruct (f =? 1); [destruct (get_varstr d i1); apply Step; unfold code_ok; lia|].
    destruct (f =? 2); [destruct (get_varstr d i1); apply Step; unfold code_ok; lia|].
    apply Step; unfold code_ok; lia.
Qed.

(* ---------- every addressed request / command / read / write is answered by the PGN or by one well-formed acknowledge ---------- *)
Definition np_of (d:list Z) (fc pgn:Z) : Z :=
  if fc =? 0 then fst (get_byte d (snd (get_u16 d (snd (get_u32 d 4)))))
  else if fc =? 1 then fst (get_byte d (snd (get_byte d 4)))
  else let i1 := if (if has_handler pgn then false else is_proprietary pgn) then snd (get_u16 d 4) else 4 in
       fst (get_byte d (snd (get_byte d (snd (get_byte d i1))))).

Lemma prio_code_ok p : code_ok (prio_code p).
Proof. unfold prio_code, code_ok. destruct (_ || _); lia. Qed.

Lemma decide_shape e g fc pgn : Forall byte_ok (g_d g) -> g_dst g <> 255 -> (fc = 0 \/ fc = 1 \/ fc = 3 \/ fc = 5) ->
  let a := decide_fc e g fc pgn in
  (fc = 0 /\ answers_requested pgn a) \/ (exists ack, ack_of a = Some (g_src g, ack) /\ ack_shape ack pgn (np_of (g_d g) fc pgn)).
Proof.
  intros F Hd Hfc a. assert (BC: g_bcast g = false) by (unfold g_bcast; apply Z.eqb_neq; exact Hd).
  assert (GB: forall k v k', get_byte (g_d g) k = (v, k') -> 0 <= k -> 0 <= v /\ 0 <= k').
  { intros k v k' E Hk. pose proof (get_byte_range (g_d g) k F Hk) as X. pose proof (get_byte_idx (g_d g) k Hk) as Y. rewrite E in X, Y. unfold byte_ok in X. cbn [fst snd] in *. lia. }
  unfold a, decide_fc, np_of. clear a.
  destruct Hfc as [->|[->|Hfc]].
  - cbn [Z.eqb]. destruct (get_u32 (g_d g) 4) as [iv i1] eqn:E1. cbn [fst snd].
    assert (Hi1: 0 <= i1) by (pose proof (get_u32_idx (g_d g) 4 ltac:(lia)) as X; rewrite E1 in X; exact X).
    destruct (get_u16 (g_d g) i1) as [ov i2] eqn:E2. cbn [fst snd].
    assert (Hi2: 0 <= i2) by (pose proof (get_u16_idx (g_d g) i1 Hi1) as X; rewrite E2 in X; exact X).
    destruct (get_byte (g_d g) i2) as [np i3] eqn:E3. cbn [fst snd]. destruct (GB _ _ _ E3 Hi2) as [Hnp _].
    assert (Filt: forall fs deliver, codes_ok fs -> (forall sel, answers_requested pgn (deliver sel)) ->
              (0 = 0 /\ answers_requested pgn (req_filtered g pgn iv ov np fs deliver)) \/
              (exists ack, ack_of (req_filtered g pgn iv ov np fs deliver) = Some (g_src g, ack) /\ ack_shape ack pgn np)).
    { intros fs deliver CO AD. destruct (req_filtered_shape g pgn iv ov np fs deliver CO BC Hnp) as [[sel E]|[ack [E S]]]; rewrite E.
      - left. split; [reflexivity|apply AD]. - right. exists ack. split; [reflexivity|exact S]. }
    assert (Def: forall p, exists ack, ack_of (req_default e g p iv ov np) = Some (g_src g, ack) /\ ack_shape ack p np).
    { intros p. unfold req_default. rewrite BC. destruct (is_tx e p); [destruct (tp_code iv ov None =? 1)|];
      (eexists; split; [reflexivity|apply ack_shape_uniform; unfold code_ok; lia]). }
    destruct (pgn =? 60928) eqn:P1; [apply Z.eqb_eq in P1; subst pgn; apply Filt; [apply codes_ok_60928|intros; reflexivity]|].
    destruct (pgn =? 126464) eqn:P2; [apply Z.eqb_eq in P2; subst pgn; apply Filt; [apply codes_ok_126464|intros; reflexivity]|].
    destruct (pgn =? 126993) eqn:P3.
    { apply Z.eqb_eq in P3; subst pgn. unfold req_126993. rewrite BC.
      set (pec := if iv =? 0 then 1 else tp_code iv ov (Some (60000, 1000, 6000))).
      assert (Hpec: code_ok pec) by (unfold pec, tp_code; destruct (iv =? 0); [|destruct (_ && _)]; unfold code_ok; lia).
      destruct (np =? 0) eqn:N0.
      - apply Z.eqb_eq in N0. subst np. destruct ((iv =? 4294967295) && (ov =? 65535)); [right; apply Def|].
        destruct (pec =? 0); [left; split; reflexivity|].
        right. eexists. split; [reflexivity|]. apply ack_shape_uniform; try assumption; unfold code_ok; lia.
      - right. eexists. split; [reflexivity|]. apply ack_shape_uniform; try assumption; unfold code_ok; lia. }
    destruct (pgn =? 126996) eqn:P4; [apply Z.eqb_eq in P4; subst pgn; apply Filt; [apply codes_ok_126996|intros; reflexivity]|].
    destruct (pgn =? 126998) eqn:P5; [apply Z.eqb_eq in P5; subst pgn; apply Filt; [apply codes_ok_126998|intros; reflexivity]|].
    right. apply Def.
  - cbn [Z.eqb Pos.eqb]. rewrite BC. right. destruct (get_byte (g_d g) 4) as [b i1] eqn:E1. cbn [fst snd]. destruct (GB _ _ _ E1 ltac:(lia)) as [_ Hi1].
    destruct (get_byte (g_d g) i1) as [np i2] eqn:E2. cbn [fst snd]. destruct (GB _ _ _ E2 Hi1) as [Hnp _].
    destruct (pgn =? 60928) eqn:P1.
    { unfold cmd_60928. set (pec := if b mod 16 =? 8 then 0 else 1).
      destruct (cmd_60928_shape (ack_start 60928 0 pec np) (g_d g) (ack_start_nonnil _ _ _ _) (Z.to_nat np) 0 6 [] 255 255 255 (Forall_nil _) eq_refl)
        as (cs & lo & up & si & E & Fc & L). cbn [pack app] in E. rewrite app_nil_r in E. rewrite E. cbn [app].
      eexists. split; [reflexivity|]. apply Z.eqb_eq in P1. subst pgn. exists 0, pec, cs.
      split; [reflexivity|]. split; [unfold code_ok; lia|]. split; [unfold pec, code_ok; destruct (_ =? 8); lia|]. split; [exact Fc|lia]. }
    destruct (pgn =? 126993) eqn:P2.
    { unfold cmd_126993. eexists. split; [reflexivity|]. apply ack_shape_uniform; try apply prio_code_ok; try assumption; unfold code_ok; lia. }
    destruct (pgn =? 126998) eqn:P3.
    { unfold cmd_126998.
      destruct (cmd_126998_shape (ack_start 126998 0 (prio_code (b mod 16)) np) (g_d g) (ack_start_nonnil _ _ _ _) (Z.to_nat np) 0 6 [] (e_s1 e) (e_s2 e) false
                                 (Forall_nil _) eq_refl) as (cs & s1 & s2 & chg & E & Fc & L). cbn [pack app] in E. rewrite app_nil_r in E. rewrite E. cbn [app].
      eexists. split; [reflexivity|]. apply Z.eqb_eq in P3. subst pgn. exists 0, (prio_code (b mod 16)), cs.
      split; [reflexivity|]. split; [unfold code_ok; lia|]. split; [apply prio_code_ok|]. split; [exact Fc|lia]. }
    unfold cmd_default. eexists. split; [reflexivity|]. apply ack_shape_uniform; try apply prio_code_ok; try assumption; [destruct (is_tx e pgn)|]; unfold code_ok; lia.
  - assert (E: (fc =? 0) = false /\ (fc =? 1) = false /\ ((fc =? 3) || (fc =? 5)) = true) by (destruct Hfc; subst fc; repeat split; reflexivity).
    destruct E as (E0 & E1 & E35). rewrite E0, E1, E35, BC. right.
    set (i1 := if (if has_handler pgn then false else is_proprietary pgn) then snd (get_u16 (g_d g) 4) else 4).
    assert (Hi1: 0 <= i1) by (unfold i1; destruct (if has_handler pgn then false else is_proprietary pgn); [apply get_u16_idx|]; lia).
    destruct (get_byte (g_d g) i1) as [u i2] eqn:G1. cbn [fst snd]. destruct (GB _ _ _ G1 Hi1) as [_ Hi2].
    destruct (get_byte (g_d g) i2) as [ns i3] eqn:G2. cbn [fst snd]. destruct (GB _ _ _ G2 Hi2) as [_ Hi3].
    destruct (get_byte (g_d g) i3) as [np i4] eqn:G3. cbn [fst snd]. destruct (GB _ _ _ G3 Hi3) as [Hnp _].
    unfold rw_default. eexists. split; [reflexivity|]. apply ack_shape_uniform; try assumption; [destruct (is_tx e pgn)| |]; unfold code_ok; lia.
Qed.

(* a broadcast request is never acknowledged *)
Lemma request_bcast_shape e g pgn : g_bcast g = true ->
  decide_fc e g 0 pgn = GaNone \/ answers_requested pgn (decide_fc e g 0 pgn).
Proof.
  intros BC. unfold decide_fc. cbn [Z.eqb]. destruct (get_u32 (g_d g) 4) as [iv i1]. destruct (get_u16 (g_d g) i1) as [ov i2]. destruct (get_byte (g_d g) i2) as [np i3].
  assert (Filt: forall fs deliver, (forall sel, answers_requested pgn (deliver sel)) ->
            req_filtered g pgn iv ov np fs deliver = GaNone \/ answers_requested pgn (req_filtered g pgn iv ov np fs deliver)).
  { intros fs deliver AD. unfold req_filtered. destruct (req_loop _ _ _ _ _ _ _ _ _ _) as [[ack mt] sel]. rewrite BC.
    destruct (mt && _); [right; apply AD|left; reflexivity]. }
  assert (Def: forall p, req_default e g p iv ov np = GaNone).
  { intros p. unfold req_default. rewrite BC. destruct (is_tx e p); [destruct (_ =? 1)|]; reflexivity. }
  destruct (pgn =? 60928) eqn:P1; [apply Z.eqb_eq in P1; subst pgn; apply Filt; intros; reflexivity|].
  destruct (pgn =? 126464) eqn:P2; [apply Z.eqb_eq in P2; subst pgn; apply Filt; intros; reflexivity|].
  destruct (pgn =? 126993) eqn:P3.
  { apply Z.eqb_eq in P3. subst pgn. unfold req_126993. rewrite BC. destruct (np =? 0); [|left; reflexivity].
    destruct (_ && _); [left; apply Def|]. destruct (_ =? 0); [right; reflexivity|left; reflexivity]. }
  destruct (pgn =? 126996) eqn:P4; [apply Z.eqb_eq in P4; subst pgn; apply Filt; intros; reflexivity|].
  destruct (pgn =? 126998) eqn:P5; [apply Z.eqb_eq in P5; subst pgn; apply Filt; intros; reflexivity|].
  left. apply Def.
Qed.

(* the count the getters read is the count of the reference header when the header is complete *)
Lemma np_of_header d fc pgn n : Forall byte_ok d -> (fc = 0 \/ fc = 1 \/ fc = 3 \/ fc = 5) ->
  byte_at d (count_pos fc pgn) = Some n -> np_of d fc pgn = n.
Proof.
  intros F Hfc B. apply byte_at_Some in B as [Bk Bv]. unfold np_of, count_pos in *.
  destruct Hfc as [->|[->|Hfc]]; cbn [Z.eqb Pos.eqb] in *.
  - rewrite (get_u32_at d 4 (slice d 4 4)) by (apply bytes_at_in; lia). cbn [snd]. change (4 + 4) with 8.
    rewrite (get_u16_at d 8 (slice d 8 2)) by (apply bytes_at_in; lia). cbn [snd]. change (8 + 2) with 10.
    rewrite get_byte_in by lia. cbn [fst]. symmetry. exact Bv.
  - rewrite (get_byte_in d 4) by lia. cbn [snd]. change (4 + 1) with 5. rewrite get_byte_in by lia. symmetry. exact Bv.
  - assert (E: (fc =? 0) = false /\ (fc =? 1) = false) by (destruct Hfc; subst fc; split; reflexivity). destruct E as [E0 E1]. rewrite E0, E1 in *.
    assert (Epr: (if has_handler pgn then false else is_proprietary pgn) = ref_proprietary pgn).
    { destruct (has_handler pgn) eqn:HH; [symmetry; apply has_handler_not_proprietary, HH|apply is_proprietary_ref]. }
    rewrite Epr. destruct (ref_proprietary pgn).
    + rewrite (get_u16_at d 4 (slice d 4 2)) by (apply bytes_at_in; lia). cbn [snd]. change (4 + 2) with 6.
      rewrite (get_byte_in d 6) by lia. cbn [snd]. rewrite (get_byte_in d (6 + 1)) by lia. cbn [snd]. rewrite get_byte_in by lia. cbn [fst]. symmetry. exact Bv.
    + rewrite (get_byte_in d 4) by lia. cbn [snd]. rewrite (get_byte_in d (4 + 1)) by lia. cbn [snd]. rewrite get_byte_in by lia. cbn [fst]. symmetry. exact Bv.
Qed.

(* ---------- (a) ---------- *)
Theorem gf_one_answer : gf_one_answer_stmt.
Proof.
  unfold gf_one_answer_stmt. intros e g [F HL] Hs.
  assert (Nothing: forall rr, ref_answer e g = Some rr -> rr = RNothing -> gf_decide e g = GaNone).
  { intros rr RA ->. pose proof (gf_ack_codes e g RNothing (conj F HL) Hs RA) as A.
    destruct (ref_header (g_d g)) as [[[? ?] ?]|]; [exact A|exact (proj2 A)]. }
  assert (ED: forall fc, ref_fc (g_d g) = Some fc -> fc <= 6 -> gf_decide e g = decide_fc e g fc (fst (get_u24 (g_d g) 1))).
  { intros fc FC H6. unfold gf_decide. unfold ref_fc in FC. rewrite (get_byte_at _ _ _ FC). cbn [fst].
    replace (fc >? 6) with false by (symmetry; rewrite Z.gtb_ltb; apply Z.ltb_ge; lia). reflexivity. }
  assert (Hpgn: 0 <= fst (get_u24 (g_d g) 1)).
  { destruct (bytes_at (g_d g) 1 3) as [v|] eqn:B.
    - rewrite (get_u24_at _ _ _ B). cbn [fst]. pose proof (bytes_at_val_bound _ _ _ _ F B). lia.
    - unfold get_u24. destruct (_ <=? _); cbn [fst]; [|lia]. unfold bytes_at in B. cbn [Z.leb Z.compare andb] in B.
      destruct (1 + 3 <=? len (g_d g)) eqn:C; [discriminate|]. pose proof (znth_Forall byte_ok (g_d g)) as ZF.
      assert (forall k, 0 <= znth (g_d g) k 0).
      { intros k. unfold znth. destruct (nth_in_or_default (Z.to_nat k) (g_d g) 0) as [I| ->]; [|lia]. rewrite Forall_forall in F. apply F in I. unfold byte_ok in I. lia. }
      pose proof (H 1). pose proof (H (1+1)). pose proof (H (1+2)). lia. }
  repeat split.
  - destruct (ref_fc (g_d g)) as [fc|] eqn:FC.
    + intros H. apply (Nothing RNothing); [|reflexivity]. unfold ref_answer. rewrite FC.
      replace ((fc =? 2) || (fc =? 4) || (fc =? 6) || (6 <? fc)) with true; [reflexivity|].
      symmetry. destruct H as [->|[->|[->|H]]]; try reflexivity. replace (6 <? fc) with true by (symmetry; apply Z.ltb_lt; exact H). rewrite orb_true_r. reflexivity.
    + apply (Nothing RNothing); [|reflexivity]. unfold ref_answer. rewrite FC. reflexivity.
  - intros Hd fc FC Hfc. apply (Nothing RNothing); [|reflexivity]. unfold ref_answer. rewrite FC.
    destruct ((fc =? 2) || (fc =? 4) || (fc =? 6) || (6 <? fc)); [reflexivity|]. rewrite Hd. cbn [Z.eqb Pos.eqb andb].
    replace (fc =? 0) with false by (symmetry; apply Z.eqb_neq; exact Hfc). reflexivity.
  - intros Hd FC. rewrite (ED 0 FC) by lia.
    destruct (request_bcast_shape e g (fst (get_u24 (g_d g) 1))) as [H|H]; [unfold g_bcast; rewrite Hd; reflexivity|left; exact H|right; eexists; exact H].
  - intros Hd fc pgn n RH Hfc. destruct (header_facts _ _ _ _ F RH) as (B0 & G0 & G1 & _ & Hp & Hn & Bn).
    rewrite (ED fc B0) by lia. rewrite G1. cbn [fst].
    destruct (decide_shape e g fc pgn F Hd Hfc) as [H|[ack [Ha S]]]; [left; exact H|right].
    rewrite (np_of_header _ _ _ _ F Hfc Bn) in S.
    destruct (ack_shape_parse ack pgn n S ltac:(lia) Hn) as (r & P & Pp & Pn & Pl).
    exists ack, r. rewrite Z.mod_small in Pp by lia. repeat split; assumption.
  - intros Hd fc FC Hfc RH. rewrite (ED fc FC) by lia.
    destruct (decide_shape e g fc (fst (get_u24 (g_d g) 1)) F Hd Hfc) as [[H1 H2]|[ack [Ha S]]]; [left; split; [exact H1|eexists; exact H2]|right].
    assert (Hnp: 0 <= np_of (g_d g) fc (fst (get_u24 (g_d g) 1)) < 256).
    { destruct S as (pe & te & cs & _ & _ & _ & _ & L).
      unfold np_of. destruct (fc =? 0); [apply get_byte_range; [exact F|apply get_u16_idx, get_u32_idx; lia]|].
      destruct (fc =? 1); [apply get_byte_range; [exact F|apply get_byte_idx; lia]|].
      apply get_byte_range; [exact F|]. apply get_byte_idx, get_byte_idx.
      destruct (if has_handler _ then false else is_proprietary _); [apply get_u16_idx|]; lia. }
    destruct (ack_shape_parse ack _ _ S Hpgn Hnp) as (r & P & _). exists ack, r. split; assumption.
Qed.
