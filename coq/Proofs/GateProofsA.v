From Coq Require Import ZArith List Bool Lia.
From N2kV Require Import Base.ListAux Model.CanId Model.Sched Model.PgnClass Model.NodeDefs Model.NodeRxDefs Gen.GenTables Gen.GenConsts
  Spec.SendSpec Spec.GateSpec Proofs.SendProofs.
Import ListNotations.
Local Open Scope Z_scope.

(* C04, part A: the machine [Run] of Spec/GateSpec.v and the send side of the node (Model/NodeDefs.v).
   [gate_facts]      inversion of send_gate with everything the machine needs (incl. the device range, which gate_inv does not expose)
   [Frames]          a sequence of SendFrame calls with one identifier threading (queue, driver)
   [send_msg_shape]  SendMsg = gate, then silent device updates of the sending device, then such a sequence
   [send_msg_run]    hence a run of the machine; [start_claim_after] StartAddressClaim after an arbitrary change of that device. *)

(* ---------- lists ---------- *)
Lemma nth_set_nth {A} (l:list A) m v k d :
  nth k (set_nth l m v) d = if (Nat.eqb k m && Nat.ltb m (length l))%bool then v else nth k l d.
Proof.
  revert m k. induction l as [|x l IH]; intros m k.
  - replace (Nat.ltb m (length (@nil A))) with false by (symmetry; apply Nat.ltb_ge; simpl; lia).
    rewrite andb_false_r. destruct m; reflexivity.
  - destruct m as [|m], k as [|k]; cbn [set_nth nth length]; try reflexivity.
    rewrite IH. reflexivity.
Qed.

(* ---------- devices ---------- *)
Definition alias (i j:Z) : bool := Nat.eqb (Z.to_nat j) (Z.to_nat i).

Lemma get_upd_dev n i d j :
  get_dev (upd_dev n i d) j = if (alias i j && Nat.ltb (Z.to_nat i) (length (n_devs n)))%bool then d else get_dev n j.
Proof. unfold get_dev, upd_dev, znth, zset, alias. cbn [n_devs]. apply nth_set_nth. Qed.

Lemma alias_get n i j : alias i j = true -> get_dev n j = get_dev n i.
Proof. unfold alias, get_dev, znth. intros H. apply Nat.eqb_eq in H. rewrite H. reflexivity. Qed.

Lemma alias_refl i : alias i i = true.
Proof. unfold alias. apply Nat.eqb_refl. Qed.

Lemma dev_count_upd n i d : dev_count (upd_dev n i d) = dev_count n.
Proof. unfold dev_count, upd_dev. cbn [n_devs]. rewrite zset_length. reflexivity. Qed.

Lemma upd_q_same n : upd_q n (n_q n) (n_drv n) = n.
Proof. destruct n. reflexivity. Qed.

Definition dev_pending (w:bool) (now:Z) (d:dev) : bool :=
  sched_is_enabled w (d_claim_timer d) && negb (sched_is_time w now (d_claim_timer d)).
Lemma claim_pending_dev n i : claim_pending n i = dev_pending (n_w64 n) (n_now n) (get_dev n i).
Proof. reflexivity. Qed.

Lemma disabled_not_enabled w : sched_is_enabled w (sched_disabled w) = false.
Proof. unfold sched_is_enabled. rewrite Z.eqb_refl. reflexivity. Qed.

(* arming the claim timer opens the window *)
Lemma armed_pending w now : (w = true -> 0 <= now < 2^63) ->
  sched_is_enabled w (sched_from_now w now 250) && negb (sched_is_time w now (sched_from_now w now 250)) = true.
Proof.
  intros H. destruct w.
  - specialize (H eq_refl). unfold sched_is_enabled, sched_is_time, sched_from_now, sched_disabled, u64, M64.
    change (2^64) with 18446744073709551616 in *. change (2^63) with 9223372036854775808 in *.
    rewrite Z.mod_small by lia.
    destruct (Z.eqb_spec (now + 250) (18446744073709551616 - 1)); [lia|]. destruct (Z.ltb_spec (now + 250) now); [lia|]. reflexivity.
  - clear H. unfold sched_is_time, sched_from_now, sched_is_enabled, sched_disabled, u32, M32, IMAX.
    change (2^32) with 4294967296. change (2^31 - 1) with 2147483647.
    set (a := now mod 4294967296). assert (Ha: 0 <= a < 4294967296) by (apply Z.mod_pos_bound; lia).
    assert (Hm: (a + 250) mod 4294967296 = if a + 250 <? 4294967296 then a + 250 else a + 250 - 4294967296).
    { destruct (Z.ltb_spec (a + 250) 4294967296); [apply Z.mod_small; lia|symmetry; apply (Z.mod_unique _ _ 1); lia]. }
    rewrite Hm.
    destruct (Z.ltb_spec (a + 250) 4294967296) as [L|L].
    + destruct (Z.eqb_spec (a + 250) (4294967296 - 1)) as [E|E].
      * assert (a = 4294967045) by lia. subst a. rewrite H. reflexivity.
      * cbn [negb andb]. destruct (Z.eqb_spec (a + 250) (4294967296 - 1)); [contradiction|]. cbn [andb].
        replace ((a - (a + 250)) mod 4294967296) with 4294967046; [reflexivity|].
        apply (Z.mod_unique _ _ (-1)); lia.
    + destruct (Z.eqb_spec (a + 250 - 4294967296) (4294967296 - 1)) as [E|E]; [lia|].
      cbn [negb andb]. destruct (Z.eqb_spec (a + 250 - 4294967296) (4294967296 - 1)); [contradiction|]. cbn [andb].
      replace ((a - (a + 250 - 4294967296)) mod 4294967296) with 4294967046; [reflexivity|].
      apply (Z.mod_unique _ _ 0); lia.
Qed.

(* ---------- quiet changes ---------- *)
Lemma quiet_refl n : quiet_change n n.
Proof. unfold quiet_change. repeat split; auto. Qed.

(* replacing device i by one with the same address whose window is not closed *)
Lemma quiet_upd_dev n i d :
  d_src d = d_src (get_dev n i) ->
  (dev_pending (n_w64 n) (n_now n) (get_dev n i) = true -> dev_pending (n_w64 n) (n_now n) d = true) ->
  quiet_change n (upd_dev n i d).
Proof.
  intros Hs Hp. unfold quiet_change. cbn [upd_dev n_w64 n_mode n_now n_q n_drv n_open].
  repeat split; auto; [apply dev_count_upd|].
  intros j. left. rewrite !claim_pending_dev. cbn [upd_dev n_w64 n_now]. fold (upd_dev n i d). rewrite get_upd_dev.
  destruct (alias i j && _)%bool eqn:E; [|split; auto].
  apply andb_true_iff in E. destruct E as [E _]. rewrite (alias_get n i j E). split; assumption.
Qed.

(* replacing device i by an arbitrary one that is left with a pending claim if the node claims its addresses *)
Lemma quiet_upd_dev_re n i d :
  (is_ready_to_send n = true -> dev_pending (n_w64 n) (n_now n) d = true) ->
  quiet_change n (upd_dev n i d).
Proof.
  intros Hp. unfold quiet_change. cbn [upd_dev n_w64 n_mode n_now n_q n_drv n_open].
  repeat split; auto; [apply dev_count_upd|].
  intros j. rewrite !claim_pending_dev. cbn [upd_dev n_w64 n_now]. fold (upd_dev n i d). rewrite get_upd_dev.
  destruct (alias i j && _)%bool eqn:E; [right|left; split; auto].
  exact Hp.
Qed.

(* ---------- runs ---------- *)
Lemma Run_refl fwd n : Run fwd n [] [] n.
Proof. apply R_quiet, quiet_refl. Qed.

Lemma entitled_weaken fwd n id : entitled false n id -> entitled fwd n id.
Proof.
  intros (pri & pgn & src & dst & i & H1 & H2 & H3 & H4 & H5 & H6 & H7).
  exists pri, pgn, src, dst, i. repeat (split; [assumption|]). split; [|assumption].
  destruct H6 as [H6|[H6 _]]; [left; assumption|discriminate].
Qed.

Lemma Run_weaken fwd n ev p n' : Run false n ev p n' -> Run fwd n ev p n'.
Proof.
  induction 1.
  - apply R_quiet; assumption.
  - apply R_note; assumption.
  - eapply R_flush; eassumption.
  - eapply R_frame; [apply entitled_weaken|]; eassumption.
  - eapply R_seq; eassumption.
Qed.

Lemma Run_seq_nil_l fwd n n1 ev p n2 : quiet_change n n1 -> Run fwd n1 ev p n2 -> Run fwd n ev p n2.
Proof. intros H R. change ev with ([] ++ ev). change p with ([] ++ p). eapply R_seq; [apply R_quiet; exact H|exact R]. Qed.

Lemma Run_seq_nil_r fwd n n1 ev p n2 : Run fwd n ev p n1 -> quiet_change n1 n2 -> Run fwd n ev p n2.
Proof.
  intros R H. rewrite <- (app_nil_r ev), <- (app_nil_r p). eapply R_seq; [exact R|apply R_quiet; exact H].
Qed.

(* entitlement looks only at the open state, the mode, the device count, addresses and windows *)
Definition ent_same (n n':node) : Prop :=
  n_open n' = n_open n /\ n_mode n' = n_mode n /\ dev_count n' = dev_count n /\
  forall j, d_src (get_dev n' j) = d_src (get_dev n j) /\ claim_pending n' j = claim_pending n j.
Lemma entitled_same fwd n n' id : ent_same n n' -> entitled fwd n id -> entitled fwd n' id.
Proof.
  intros (E1 & E2 & E3 & E4) (pri & pgn & src & dst & i & H1 & H2 & H3 & H4 & H5 & H6 & H7).
  exists pri, pgn, src, dst, i. rewrite E1, E2, E3. repeat (split; [assumption|]). split.
  - destruct H6 as [[H6 H6']|H6]; [left; split; [exact H6|]|right; exact H6]. rewrite (proj1 (E4 i)). exact H6'.
  - rewrite (proj2 (E4 i)). exact H7.
Qed.
Lemma ent_same_upd_q n q d : ent_same n (upd_q n q d).
Proof. unfold ent_same. repeat split; reflexivity. Qed.
Lemma ent_same_refl n : ent_same n n.
Proof. unfold ent_same. repeat split; reflexivity. Qed.
Lemma ent_same_trans a b c : ent_same a b -> ent_same b c -> ent_same a c.
Proof.
  intros (A1 & A2 & A3 & A4) (B1 & B2 & B3 & B4). unfold ent_same. repeat split; try congruence.
  - rewrite (proj1 (B4 j)). apply A4.
  - rewrite (proj2 (B4 j)). apply A4.
Qed.

(* a device update that keeps address and timer *)
Lemma ent_same_upd_dev n i d : d_src d = d_src (get_dev n i) -> d_claim_timer d = d_claim_timer (get_dev n i) -> ent_same n (upd_dev n i d).
Proof.
  intros Hs Ht. unfold ent_same. cbn [upd_dev n_open n_mode]. repeat split; auto; [apply dev_count_upd| |].
  - fold (upd_dev n i d). rewrite get_upd_dev. destruct (alias i j && _)%bool eqn:E; [|reflexivity].
    apply andb_true_iff in E. destruct E as [E _]. rewrite (alias_get n i j E). exact Hs.
  - rewrite !claim_pending_dev. cbn [upd_dev n_w64 n_now]. fold (upd_dev n i d). rewrite get_upd_dev.
    destruct (alias i j && _)%bool eqn:E; [|reflexivity].
    apply andb_true_iff in E. destruct E as [E _]. rewrite (alias_get n i j E). unfold dev_pending. rewrite Ht. reflexivity.
Qed.
Lemma quiet_upd_dev_same n i d : d_src d = d_src (get_dev n i) -> d_claim_timer d = d_claim_timer (get_dev n i) -> quiet_change n (upd_dev n i d).
Proof. intros Hs Ht. apply quiet_upd_dev; [exact Hs|]. unfold dev_pending. rewrite Ht. auto. Qed.

(* ---------- IsAddressClaimStarted ---------- *)
Lemma claim_started_spec n i :
  snd (claim_started n i) = claim_pending n i /\ quiet_change n (fst (claim_started n i)) /\ ent_same n (fst (claim_started n i)).
Proof.
  unfold claim_started. rewrite claim_pending_dev. unfold dev_pending.
  destruct (sched_is_enabled (n_w64 n) (d_claim_timer (get_dev n i))) eqn:E1; cbn [andb].
  - destruct (sched_is_time (n_w64 n) (n_now n) (d_claim_timer (get_dev n i))) eqn:E2; cbn [fst snd negb].
    + split; [reflexivity|]. split.
      * apply quiet_upd_dev; [reflexivity|]. unfold dev_pending. rewrite E1, E2. discriminate.
      * unfold ent_same. cbn [upd_dev n_open n_mode]. repeat split; auto; [apply dev_count_upd| |].
        -- match goal with |- context [upd_dev n i ?d] => fold (upd_dev n i d); rewrite get_upd_dev end.
           destruct (alias i j && _)%bool eqn:E; [|reflexivity].
           apply andb_true_iff in E. destruct E as [E _]. rewrite (alias_get n i j E). reflexivity.
        -- rewrite !claim_pending_dev. cbn [n_w64 n_now].
           match goal with |- context [upd_dev n i ?d] => fold (upd_dev n i d); rewrite get_upd_dev end.
           destruct (alias i j && _)%bool eqn:E; [|reflexivity].
           apply andb_true_iff in E. destruct E as [E _]. rewrite (alias_get n i j E).
           unfold dev_pending. cbn [d_claim_timer]. rewrite disabled_not_enabled, E1, E2. reflexivity.
    + split; [reflexivity|]. split; [apply quiet_refl|apply ent_same_refl].
  - cbn [fst snd]. split; [reflexivity|]. split; [apply quiet_refl|apply ent_same_refl].
Qed.

(* ---------- the gate ---------- *)
Lemma gate_facts n m idev n1 m' i id : send_gate n m idev = (n1, Some (m', i, id)) ->
  let src := if idev >=? 0 then d_src (get_dev n idev) else m_src m in
  let i0 := if idev >=? 0 then idev else 0 in
  n1 = fst (claim_started n i0) /\ i = i0 /\ idev < dev_count n /\
  n_open n = 3 /\ n_mode n <> 0 /\ m_pgn m <> 0 /\ id <> 0 /\
  id = to_can_id (m_pri m) (m_pgn m) src (m_dst m') /\ m_pgn m' = m_pgn m /\ m_src m' = src /\ m_data m' = m_data m /\ m_tp m' = m_tp m /\
  (m_pgn m <> 60928 -> claim_pending n i0 = false /\ src <= 251).
Proof.
  unfold send_gate. cbv zeta. intros H.
  destruct (Z.eqb_spec (n_open n) 3) as [E1|E1]; cbn [negb] in H; [|discriminate].
  destruct (Z.geb_spec idev (dev_count n)) as [E2|E2]; [discriminate|].
  destruct (((if idev >=? 0 then d_src (get_dev n idev) else m_src m) >? c_N2kMaxCanBusAddress) && negb (m_pgn m =? c_N2kPGNIsoAddressClaim)) eqn:E3; [discriminate|].
  destruct (Z.eqb_spec (to_can_id (m_pri m) (m_pgn m) (if idev >=? 0 then d_src (get_dev n idev) else m_src m)
                          (if negb (Z.land (m_pgn m) 255 =? 0) then 255 else m_dst m)) 0) as [E4|E4]; [discriminate|].
  destruct (Z.eqb_spec (n_mode n) 0) as [E5|E5]; [discriminate|].
  destruct (Z.eqb_spec (m_pgn m) 0) as [E6|E6]; [discriminate|].
  pose proof (claim_started_spec n (if idev >=? 0 then idev else 0)) as (S1 & _ & _).
  destruct (claim_started n (if idev >=? 0 then idev else 0)) as [n1' cl]. cbn [fst snd] in *.
  destruct (cl && negb (m_pgn m =? c_N2kPGNIsoAddressClaim)) eqn:E7; [discriminate|].
  injection H as <- <- <- <-. cbn [m_pgn m_src m_dst m_data m_tp].
  repeat (split; [first [assumption|reflexivity|lia]|]).
  intros Hp. unfold c_N2kPGNIsoAddressClaim, c_N2kMaxCanBusAddress in *.
  rewrite (proj2 (Z.eqb_neq _ _) Hp) in E3, E7. cbn [negb] in E3, E7. rewrite andb_true_r in E3, E7.
  split; [rewrite <- S1; exact E7|]. destruct (Z.gtb_spec (if idev >=? 0 then d_src (get_dev n idev) else m_src m) 251); [discriminate|lia].
Qed.

Lemma gate_none_quiet n m idev n1 : send_gate n m idev = (n1, None) -> quiet_change n n1 /\ ent_same n n1.
Proof.
  unfold send_gate. cbv zeta. intros H.
  repeat match type of H with
  | (if ?c then _ else _) = _ => destruct c; [injection H as <-; split; [apply quiet_refl|apply ent_same_refl]|]
  end.
  all: try (injection H as <-; split; [apply quiet_refl|apply ent_same_refl]).
  pose proof (claim_started_spec n (if idev >=? 0 then idev else 0)) as (_ & S2 & S3).
  destruct (claim_started n (if idev >=? 0 then idev else 0)) as [n1' cl]. cbn [fst snd] in *.
  destruct (cl && _)%bool; [|discriminate]. injection H as <-. split; assumption.
Qed.

(* the entitlement the gate establishes, for the state it returns *)
Lemma gate_entitled n m idev n1 m' i id : send_gate n m idev = (n1, Some (m', i, id)) ->
  entitled (idev <? 0) n1 id /\ quiet_change n n1 /\ ent_same n n1 /\ n_q n1 = n_q n /\ n_drv n1 = n_drv n.
Proof.
  intros H. pose proof (gate_facts _ _ _ _ _ _ _ H) as F. cbv zeta in F.
  destruct F as (F1 & F2 & F3 & F4 & F5 & F6 & F7 & F8 & F9 & F10 & F11 & F12 & F13).
  pose proof (claim_started_spec n (if idev >=? 0 then idev else 0)) as (_ & S2 & S3). rewrite <- F1 in S2, S3.
  split; [|split; [exact S2|split; [exact S3|destruct S2 as (_ & _ & _ & Q1 & Q2 & _); auto]]].
  apply (entitled_same _ n n1 id S3).
  exists (m_pri m), (m_pgn m), (if idev >=? 0 then d_src (get_dev n idev) else m_src m), (m_dst m'), (if idev >=? 0 then idev else 0).
  repeat (split; [assumption|]). split; [|exact F13].
  destruct (Z.geb_spec idev 0) as [G|G].
  - left. split; [lia|reflexivity].
  - right. split; [apply Z.ltb_lt; exact G|reflexivity].
Qed.

(* ---------- sequences of SendFrame calls with one identifier ---------- *)
Inductive Frames (id:Z) : sring -> drv -> list event -> list Z -> sring -> drv -> Prop :=
| F_nil q d : Frames id q d [] [] q d
| F_cons q d len data wait q1 d1 ev1 ok q2 d2 ev2 p2 :
    send_frame q d id len data wait = (q1, d1, ev1, ok) -> Frames id q1 d1 ev2 p2 q2 d2 -> Frames id q d (ev1 ++ ev2) (id :: p2) q2 d2.

Lemma send_all_frames id : forall frames q d q' d' ev ok, send_all q d id frames = (q', d', ev, ok) -> exists p, Frames id q d ev p q' d'.
Proof.
  induction frames as [|f rest IH]; intros q d q' d' ev ok H; cbn [send_all] in H.
  - injection H as <- <- <- <-. exists []. constructor.
  - destruct (send_frame q d id 8 f true) as [[[q1 d1] ev1] ok1] eqn:E1. destruct ok1.
    + destruct (send_all q1 d1 id rest) as [[[q2 d2] ev2] r] eqn:E2. injection H as <- <- <- <-.
      destruct (IH _ _ _ _ _ _ E2) as (p & Hp). exists (id :: p). econstructor; eassumption.
    + injection H as <- <- <- <-. exists [id]. rewrite <- (app_nil_r ev1). econstructor; [eassumption|constructor].
Qed.

Lemma frames_run fwd n id : forall q d ev p q' d', Frames id q d ev p q' d' ->
  entitled fwd n id -> Run fwd (upd_q n q d) ev p (upd_q n q' d').
Proof.
  induction 1; intros He.
  - apply Run_refl.
  - change (id :: p2) with ([id] ++ p2). eapply R_seq; [|apply IHFrames; exact He].
    change (upd_q n q1 d1) with (upd_q (upd_q n q d) q1 d1).
    eapply R_frame; [apply (entitled_same fwd n (upd_q n q d) id); [apply ent_same_upd_q|exact He]|exact H].
Qed.

(* ---------- sequence counters, TP bookkeeping: silent ---------- *)
Lemma gsc_quiet n i p : quiet_change n (fst (get_sequence_counter n i p)) /\ ent_same n (fst (get_sequence_counter n i p)).
Proof.
  unfold get_sequence_counter.
  destruct (match seq_scan _ p with Some r => r | None => _ end) as [c' sc]. cbn [fst].
  split; [apply quiet_upd_dev_same|apply ent_same_upd_dev]; reflexivity.
Qed.

Lemma set_tp_quiet n i tp t s b : quiet_change n (upd_dev n i (set_tp (get_dev n i) (n_w64 n) tp t s b)) /\
                                  ent_same n (upd_dev n i (set_tp (get_dev n i) (n_w64 n) tp t s b)).
Proof. split; [apply quiet_upd_dev_same|apply ent_same_upd_dev]; reflexivity. Qed.

Lemma end_send_tp_quiet n i : quiet_change n (end_send_tp n i) /\ ent_same n (end_send_tp n i).
Proof. unfold end_send_tp. apply set_tp_quiet. Qed.

(* ---------- SendMsg ---------- *)
Lemma send_msg0_run n m idev n' ev ok : send_msg0 n m idev = (n', ev, ok) -> exists p, Run (idev <? 0) n ev p n'.
Proof.
  unfold send_msg0. intros H. destruct (send_gate n m idev) as [n1 [[[m' i] id]|]] eqn:EG.
  - destruct (gate_entitled _ _ _ _ _ _ _ EG) as (He & Hq & Hs & _ & _).
    destruct ((m_len m' <=? 8) && negb (is_fast_packet n1 m')).
    + destruct (send_frame (n_q n1) (n_drv n1) id (m_len m') (m_data m') false) as [[[q d] ev1] ok1] eqn:E1.
      injection H as <- <- <-. exists [id]. eapply Run_seq_nil_l; [exact Hq|]. eapply R_frame; eassumption.
    + pose proof (gsc_quiet n1 i (m_pgn m')) as [G1 G2].
      destruct (get_sequence_counter n1 i (m_pgn m')) as [n2 sc]. cbn [fst] in *.
      destruct (send_all (n_q n2) (n_drv n2) id (fp_frames (Z.shiftl sc 5) (m_data m'))) as [[[q d] ev1] ok1] eqn:E1.
      injection H as <- <- <-. destruct (send_all_frames _ _ _ _ _ _ _ _ E1) as (p & Hp). exists p.
      eapply Run_seq_nil_l; [exact Hq|]. eapply Run_seq_nil_l; [exact G1|].
      rewrite <- (upd_q_same n2) at 1. eapply frames_run; [exact Hp|]. apply (entitled_same _ n1 n2 id); assumption.
  - injection H as <- <- <-. exists []. apply R_quiet. apply (gate_none_quiet _ _ _ _ EG).
Qed.

Lemma start_send_tp_run n m i n' ev ok : 0 <= i -> start_send_tp n m i = (n', ev, ok) -> exists p, Run false n ev p n'.
Proof.
  unfold start_send_tp. intros Hi H. destruct (negb ((0 <=? i) && (i <? dev_count n))); [injection H as <- <- <-; exists []; apply Run_refl|].
  destruct (d_tp_msg (get_dev n i)); [injection H as <- <- <-; exists []; apply Run_refl|].
  pose proof (set_tp_quiet n i (Some m) (sched_from_now (n_w64 n) (n_now n) 50) 0 true) as [Q1 _].
  set (n1 := upd_dev n i _) in *.
  destruct (negb (is_active_node n1)).
  - injection H as <- <- <-. exists []. eapply Run_seq_nil_l; [exact Q1|]. apply R_quiet. apply end_send_tp_quiet.
  - destruct (send_msg0 n1 _ i) as [[n2 ev2] ok2] eqn:E2.
    destruct (send_msg0_run _ _ _ _ _ _ E2) as (p & Hp).
    assert (Hf: (i <? 0) = false) by (apply Z.ltb_ge; exact Hi). rewrite Hf in Hp.
    destruct ok2; injection H as <- <- <-; exists p.
    + eapply Run_seq_nil_l; [exact Q1|exact Hp].
    + eapply Run_seq_nil_l; [exact Q1|]. eapply Run_seq_nil_r; [exact Hp|apply end_send_tp_quiet].
Qed.

Theorem send_msg_run n m idev n' ev ok : send_msg n m idev = (n', ev, ok) -> exists p, Run (idev <? 0) n ev p n'.
Proof.
  unfold send_msg. intros H. destruct (send_gate n m idev) as [n1 [[[m' i] id]|]] eqn:EG.
  - destruct (negb ((m_len m' <=? 8) && negb (is_fast_packet n1 m')) && m_tp m').
    + destruct (gate_entitled _ _ _ _ _ _ _ EG) as (_ & Hq & _).
      pose proof (gate_facts _ _ _ _ _ _ _ EG) as F. cbv zeta in F. destruct F as (_ & F2 & _).
      assert (Hi: 0 <= i) by (rewrite F2; destruct (Z.geb_spec idev 0); lia).
      destruct (start_send_tp_run _ _ _ _ _ _ Hi H) as (p & Hp). exists p.
      apply Run_weaken. eapply Run_seq_nil_l; eassumption.
    + eapply send_msg0_run; exact H.
  - injection H as <- <- <-. exists []. apply R_quiet. apply (gate_none_quiet _ _ _ _ EG).
Qed.
Print Assumptions send_msg_run.

(* ================= StartAddressClaim ================= *)
(* [only_dev i n n']: nothing but device i (and the queue / driver) differs *)
Definition only_dev (i:Z) (n n':node) : Prop :=
  n_w64 n' = n_w64 n /\ n_mode n' = n_mode n /\ n_now n' = n_now n /\ n_open n' = n_open n /\ dev_count n' = dev_count n /\
  forall j, alias i j = false -> get_dev n' j = get_dev n j.
(* ... and device i keeps its address *)
Definition same_src_only (i:Z) (n n':node) : Prop := only_dev i n n' /\ forall j, d_src (get_dev n' j) = d_src (get_dev n j).

Lemma only_dev_refl i n : only_dev i n n.
Proof. unfold only_dev. repeat split; auto. Qed.
Lemma only_dev_trans i a b c : only_dev i a b -> only_dev i b c -> only_dev i a c.
Proof.
  intros (A1 & A2 & A3 & A4 & A5 & A6) (B1 & B2 & B3 & B4 & B5 & B6). unfold only_dev. repeat split; try congruence.
  intros j Hj. rewrite (B6 j Hj). apply A6, Hj.
Qed.
Lemma same_src_refl i n : same_src_only i n n.
Proof. split; [apply only_dev_refl|auto]. Qed.
Lemma same_src_trans i a b c : same_src_only i a b -> same_src_only i b c -> same_src_only i a c.
Proof. intros [A B] [C D]. split; [eapply only_dev_trans; eassumption|]. intros j. rewrite D. apply B. Qed.

Lemma only_dev_upd n i d : only_dev i n (upd_dev n i d).
Proof.
  unfold only_dev. cbn [upd_dev n_w64 n_mode n_now n_open]. repeat split; auto; [apply dev_count_upd|].
  intros j Hj. fold (upd_dev n i d). rewrite get_upd_dev, Hj. reflexivity.
Qed.
Lemma same_src_upd n i d : d_src d = d_src (get_dev n i) -> same_src_only i n (upd_dev n i d).
Proof.
  intros Hs. split; [apply only_dev_upd|]. intros j. rewrite get_upd_dev.
  destruct (alias i j && _)%bool eqn:E; [|reflexivity]. apply andb_true_iff in E. destruct E as [E _].
  rewrite (alias_get n i j E). exact Hs.
Qed.
Lemma same_src_upd_q i n q d : same_src_only i n (upd_q n q d).
Proof. split; [unfold only_dev; repeat split; auto|auto]. Qed.

Lemma claim_started_src i n : same_src_only i n (fst (claim_started n i)).
Proof.
  unfold claim_started. destruct (sched_is_enabled _ _); [destruct (sched_is_time _ _ _)|]; cbn [fst]; try apply same_src_refl.
  apply same_src_upd. reflexivity.
Qed.
Lemma gsc_src i n p : same_src_only i n (fst (get_sequence_counter n i p)).
Proof.
  unfold get_sequence_counter. destruct (match seq_scan _ p with Some r => r | None => _ end) as [c' sc]. cbn [fst].
  apply same_src_upd. reflexivity.
Qed.
Lemma set_claim_timer_src i n t : same_src_only i n (set_claim_timer n i t).
Proof. unfold set_claim_timer. apply same_src_upd. reflexivity. Qed.

(* the shape of SendMsg for a message that is not flagged for ISO-TP *)
Lemma send_msg_notp_shape n m idev n' ev ok : m_tp m = false -> 0 <= idev -> send_msg n m idev = (n', ev, ok) ->
  same_src_only idev n n' /\
  exists id p, Frames id (n_q n) (n_drv n) ev p (n_q n') (n_drv n') /\
    (p <> [] -> n_open n = 3 /\ n_mode n <> 0 /\ idev < dev_count n /\ id <> 0 /\ m_pgn m <> 0 /\
                exists dst, id = to_can_id (m_pri m) (m_pgn m) (d_src (get_dev n idev)) dst).
Proof.
  intros Htp Hi. unfold send_msg.
  assert (Hge: (idev >=? 0) = true) by (apply Z.geb_le; lia).
  destruct (send_gate n m idev) as [n1 [[[m' i] id]|]] eqn:EG.
  - pose proof (gate_facts _ _ _ _ _ _ _ EG) as F. cbv zeta in F. rewrite Hge in F.
    destruct F as (F1 & F2 & F3 & F4 & F5 & F6 & F7 & F8 & F9 & F10 & F11 & F12 & F13).
    rewrite F12, Htp, andb_false_r. unfold send_msg0. rewrite EG.
    assert (S1: same_src_only idev n n1) by (rewrite F1; apply claim_started_src).
    assert (Q1: n_q n1 = n_q n /\ n_drv n1 = n_drv n).
    { pose proof (claim_started_spec n idev) as (_ & (_ & _ & _ & A & B & _) & _). rewrite F1. split; assumption. }
    destruct Q1 as [Q1 Q2].
    assert (Hfacts: n_open n = 3 /\ n_mode n <> 0 /\ idev < dev_count n /\ id <> 0 /\ m_pgn m <> 0 /\
                    exists dst, id = to_can_id (m_pri m) (m_pgn m) (d_src (get_dev n idev)) dst).
    { repeat (split; [assumption|]). exists (m_dst m'). exact F8. }
    destruct ((m_len m' <=? 8) && negb (is_fast_packet n1 m')).
    + destruct (send_frame (n_q n1) (n_drv n1) id (m_len m') (m_data m') false) as [[[q d] ev1] ok1] eqn:E1.
      intros H. injection H as <- <- <-. split; [eapply same_src_trans; [exact S1|apply same_src_upd_q]|].
      exists id, [id]. split; [|intros _; exact Hfacts]. cbn [upd_q n_q n_drv]. rewrite <- Q1, <- Q2.
      rewrite <- (app_nil_r ev1). econstructor; [exact E1|constructor].
    + pose proof (gsc_src i n1 (m_pgn m')) as G. pose proof (gsc_q n1 i (m_pgn m')) as [G1 G2].
      destruct (get_sequence_counter n1 i (m_pgn m')) as [n2 sc]. cbn [fst] in *.
      destruct (send_all (n_q n2) (n_drv n2) id (fp_frames (Z.shiftl sc 5) (m_data m'))) as [[[q d] ev1] ok1] eqn:E1.
      intros H. injection H as <- <- <-. rewrite F2 in G. split.
      * eapply same_src_trans; [exact S1|]. eapply same_src_trans; [exact G|apply same_src_upd_q].
      * destruct (send_all_frames _ _ _ _ _ _ _ _ E1) as (p & Hp). exists id, p. split; [|intros _; exact Hfacts].
        cbn [upd_q n_q n_drv]. rewrite <- Q1, <- Q2, <- G1, <- G2. exact Hp.
  - intros H. injection H as <- <- <-.
    assert (n1 = n \/ n1 = fst (claim_started n (if idev >=? 0 then idev else 0))) as Hn1.
    { revert EG. unfold send_gate. cbv zeta. intros H.
      repeat match type of H with (if ?c then _ else _) = _ => destruct c; [injection H as <-; left; reflexivity|] end.
      all: try (injection H as <-; left; reflexivity).
      destruct (claim_started n (if idev >=? 0 then idev else 0)) as [n1' cl]. cbn [fst].
      destruct (cl && _)%bool; [injection H as <-; right; reflexivity|discriminate]. }
    rewrite Hge in Hn1.
    assert (S1: same_src_only idev n n1) by (destruct Hn1 as [-> | ->]; [apply same_src_refl|apply claim_started_src]).
    split; [exact S1|]. exists 0, []. split; [|intros C; contradiction C; reflexivity].
    destruct (gate_none_quiet _ _ _ _ EG) as ((_ & _ & _ & A & B & _) & _). rewrite A, B. constructor.
Qed.

Lemma get_dev_oob n j : (length (n_devs n) <= Z.to_nat j)%nat -> get_dev n j = ddev.
Proof. intros H. unfold get_dev, znth. apply nth_overflow. exact H. Qed.

(* StartAddressClaim(i) on n0, seen from an earlier state n from which only device i has been changed (a new address, a new NAME, or
   nothing at all): a run of the machine from n *)
Lemma start_claim_after n n0 i n3 ev : 0 <= i -> only_dev i n n0 -> n_q n0 = n_q n -> n_drv n0 = n_drv n -> clock_ok n ->
  start_address_claim n0 i = (n3, ev) -> exists p, Run false n ev p n3.
Proof.
  intros Hi Ho Hq Hd Hclk. unfold start_address_claim.
  destruct Ho as (O1 & O2 & O3 & O4 & O5 & O6).
  destruct (is_ready_to_send n0) eqn:Hrdy.
  2:{ intros H. injection H as <- <-. exists []. apply R_quiet. unfold quiet_change.
      do 5 (split; [assumption|]). split; [congruence|]. split; [assumption|]. intros j.
      destruct (alias i j) eqn:Ea; [right; rewrite Hrdy; discriminate|left]. rewrite !claim_pending_dev, O1, O3, (O6 j Ea). auto. }
  set (n1 := set_claim_timer n0 i (sched_disabled (n_w64 n0))).
  assert (S1: same_src_only i n0 n1) by apply set_claim_timer_src.
  unfold send_iso_address_claim.
  assert (Hi1: (i =? -1) = false) by (apply Z.eqb_neq; lia). rewrite Hi1, andb_false_r.
  assert (Hi0: (i <? 0) = false) by (apply Z.ltb_ge; lia). rewrite Hi0. cbn [orb].
  (* common part: the final state, with the old queue, is a quiet change away from n *)
  assert (Hfinal: forall n2, same_src_only i n1 n2 ->
            quiet_change n (upd_q (set_claim_timer n2 i (sched_from_now (n_w64 n2) (n_now n2) c_N2kAddressClaimTimeout)) (n_q n) (n_drv n))).
  { intros n2 S2. pose proof (same_src_trans _ _ _ _ S1 S2) as [(T1 & T2 & T3 & T4 & T5 & T6) T7].
    unfold quiet_change. cbn [upd_q set_claim_timer upd_dev n_w64 n_mode n_now n_q n_drv n_open].
    repeat (split; [first [reflexivity|congruence]|]).
    split; [change (dev_count (set_claim_timer n2 i (sched_from_now (n_w64 n2) (n_now n2) c_N2kAddressClaimTimeout)) = dev_count n);
            unfold set_claim_timer; rewrite dev_count_upd; congruence|].
    intros j. rewrite !claim_pending_dev. cbn [upd_q n_w64 n_now].
    change (get_dev (upd_q ?x _ _) j) with (get_dev x j). unfold set_claim_timer. cbn [upd_dev n_w64 n_now]. fold (upd_dev n2 i).
    match goal with |- context [upd_dev n2 i ?d] => set (d3 := d) end.
    change (get_dev {| n_w64 := n_w64 n2; n_mode := n_mode n2; n_open := n_open n2; n_now := n_now n2; n_pgn := n_pgn n2; n_devs := zset (n_devs n2) i d3;
                       n_q := n_q n2; n_drv := n_drv n2; n_addr_changed := n_addr_changed n2 |} j) with (get_dev (upd_dev n2 i d3) j).
    rewrite get_upd_dev.
    destruct (alias i j) eqn:Ea; cbn [andb].
    - destruct (Nat.ltb (Z.to_nat i) (length (n_devs n2))) eqn:El.
      + right. intros _. unfold dev_pending, d3. cbn [d_claim_timer]. unfold c_N2kAddressClaimTimeout.
        apply armed_pending. intros Hw. rewrite T3, O3. apply Hclk; [congruence|].
        unfold is_ready_to_send in Hrdy. unfold claims_addresses. rewrite <- O2.
        destruct (n_open n0 =? 3); [exact Hrdy|discriminate].
      + left. apply Nat.ltb_ge in El.
        assert (Hlen: length (n_devs n2) = length (n_devs n)).
        { unfold dev_count in *. apply Nat2Z.inj. congruence. }
        rewrite (alias_get n2 i j Ea), (alias_get n i j Ea), (get_dev_oob n2 i), (get_dev_oob n i) by lia.
        rewrite T1, T3, O1, O3. auto.
    - left. rewrite (T6 j Ea), (O6 j Ea), T1, T3, O1, O3. auto. }
  destruct (i >=? dev_count n1) eqn:Hrange.
  - intros H. injection H as <- <-. exists []. apply R_quiet.
    pose proof (Hfinal n1 (same_src_refl _ _)) as HF. rewrite <- Hq, <- Hd in HF.
    set (X := set_claim_timer n1 i (sched_from_now (n_w64 n1) (n_now n1) c_N2kAddressClaimTimeout)) in *.
    change (n_q n0) with (n_q X) in HF. change (n_drv n0) with (n_drv X) in HF. rewrite upd_q_same in HF. exact HF.
  - destruct (send_msg n1 (claim_msg (get_dev n1 i) 255) i) as [[n2 ev2] ok2] eqn:ES.
    intros H. injection H as <- <-.
    destruct (send_msg_notp_shape n1 (claim_msg (get_dev n1 i) 255) i n2 ev2 ok2 eq_refl Hi ES) as (S2 & id & p & HF & Hfacts).
    exists p. eapply Run_seq_nil_l; [apply (Hfinal n2 S2)|].
    set (n3 := set_claim_timer n2 i (sched_from_now (n_w64 n2) (n_now n2) c_N2kAddressClaimTimeout)).
    rewrite <- (upd_q_same n3) at 2. change (n_q n3) with (n_q n2). change (n_drv n3) with (n_drv n2).
    assert (Hq1: n_q n1 = n_q n) by exact Hq. assert (Hd1: n_drv n1 = n_drv n) by exact Hd. rewrite Hq1, Hd1 in HF.
    destruct p as [|id0 p'].
    + inversion HF; subst. apply Run_refl.
    + eapply frames_run; [exact HF|].
      destruct (Hfacts ltac:(discriminate)) as (H1 & H2 & H3 & H4 & H5 & dst & H6).
      pose proof (set_claim_timer_src i n2 (sched_from_now (n_w64 n2) (n_now n2) c_N2kAddressClaimTimeout)) as S3. fold n3 in S3.
      pose proof (same_src_trans _ _ _ _ S2 S3) as [(U1 & U2 & U3 & U4 & U5 & U6) U7].
      exists (m_pri (claim_msg (get_dev n1 i) 255)), c_N2kPGNIsoAddressClaim, (d_src (get_dev n1 i)), dst, i.
      split; [exact H6|]. split; [exact H4|]. split; [exact H5|]. split; [congruence|]. split; [congruence|].
      split; [left; split; [lia|symmetry; apply U7]|]. intros C. contradiction C. reflexivity.
Qed.
Print Assumptions start_claim_after.
