(* C11 at node level, part B: the functions of Model/NodeRxDefs.v that do not depend on the group function reaction - ISO-TP both
   roles, reassembly, address claim, commanded address, ISO requests.  One lemma per function (see part A for the vocabulary). *)
From Coq Require Import ZArith List Bool Lia.
From N2kV Require Import Base.ListAux Model.CanId Model.Sched Model.PgnClass Model.NodeDefs Model.NodeRxDefs Gen.GenTables Gen.GenConsts
  Spec.SendSpec Proofs.QueueProofs Spec.NodeQueueSpec Proofs.NodeQueueProofsA.
Import ListNotations.
Local Open Scope Z_scope.

(* ================= state changes that leave queue and driver alone ================= *)
Lemma rn_chk_dev r i : rn (chk_dev r i) = rn r.
Proof. unfold chk_dev. destruct (_ && _); reflexivity. Qed.
Lemma rn_chk_slot r i : rn (chk_slot r i) = rn r.
Proof. unfold chk_slot. destruct (_ && _); reflexivity. Qed.
Lemma rn_set_oob r : rn (set_oob r) = rn r.  Proof. reflexivity. Qed.
Lemma rn_with_slots r s : rn (with_slots r s) = rn r.  Proof. reflexivity. Qed.
Lemma rn_with_devx r i x : rn (with_devx r i x) = rn r.  Proof. reflexivity. Qed.
Lemma rn_with_rxq r q : rn (with_rxq r q) = rn r.  Proof. reflexivity. Qed.
Lemma rn_with_sync r s : rn (with_sync r s) = rn r.  Proof. reflexivity. Qed.
Lemma rn_with_dic r : rn (with_devinfo_changed r) = rn r.  Proof. reflexivity. Qed.
Lemma rn_with_clk r c : rn (with_clk r c) = rn r.  Proof. reflexivity. Qed.
Lemma rn_set_slot r i s : rn (set_slot r i s) = rn r.
Proof. unfold set_slot. cbn [rn with_slots]. apply rn_chk_slot. Qed.
Lemma rn_set_pending r i a b c : rn (set_pending r i a b c) = rn r.
Proof. unfold set_pending. cbn [rn with_devx]. apply rn_chk_dev. Qed.
Lemma nqd_with_open r st sc : nqd (rn (with_open r st sc)) = nqd (rn r).  Proof. reflexivity. Qed.
Lemma nqd_set_dev_tp r i tp t s : nqd (rn (set_dev_tp r i tp t s)) = nqd (rn r).
Proof. unfold set_dev_tp. cbn [rn with_rn]. rewrite nqd_upd_dev, rn_chk_dev. reflexivity. Qed.
Lemma nqd_end_send_tp_r r i : nqd (rn (end_send_tp_r r i)) = nqd (rn r).
Proof. unfold end_send_tp_r. cbn [rn with_rn]. rewrite nqd_end_send_tp, rn_chk_dev. reflexivity. Qed.
Lemma nqd_set_src r i s ue : nqd (rn (set_src r i s ue)) = nqd (rn r).
Proof. unfold set_src. cbn [rn with_rn]. rewrite nqd_upd_dev, rn_chk_dev. reflexivity. Qed.
Lemma nqd_set_name r i nm : nqd (rn (set_name r i nm)) = nqd (rn r).
Proof. unfold set_name. cbn [rn with_rn]. rewrite nqd_upd_dev, rn_chk_dev. reflexivity. Qed.
Lemma nqd_set_addr_changed r : nqd (rn (set_addr_changed r)) = nqd (rn r).  Proof. reflexivity. Qed.
Global Hint Rewrite rn_chk_dev rn_chk_slot rn_set_oob rn_with_slots rn_with_devx rn_with_rxq rn_with_sync rn_with_dic rn_with_clk rn_set_slot
  rn_set_pending nqd_with_open nqd_set_dev_tp nqd_end_send_tp_r nqd_set_src nqd_set_name nqd_set_addr_changed : nq.

Lemma nqd_next_address : forall k r i b, nqd (rn (next_address k r i b)) = nqd (rn r).
Proof.
  induction k as [|k IH]; intros r i b; cbn [next_address]; [reflexivity|].
  repeat match goal with |- context [if ?c then _ else _] =>
    lazymatch c with context [if _ then _ else _] => fail | _ => destruct c end end;
  rewrite ?IH; autorewrite with nq; reflexivity.
Qed.
Global Hint Rewrite nqd_next_address : nq.

Lemma rs_millis64 r : RS r (millis64 r).
Proof. unfold RS, millis64. destruct (w64 r); reflexivity. Qed.
Lemma rs_mark_ready r i : RS r (mark_ready r i).
Proof. unfold RS, mark_ready. cbn [fst]. autorewrite with nq. reflexivity. Qed.
Global Hint Resolve rs_millis64 rs_mark_ready : qt.

Lemma nqd_set_heartbeat_all : forall k r i iv off, nqd (rn (set_heartbeat_all k r i iv off)) = nqd (rn r).
Proof.
  induction k as [|k IH]; intros r i iv off; cbn [set_heartbeat_all]; [reflexivity|]. cbv zeta.
  pose proof (rs_millis64 r) as M. unfold RS in M. destruct (millis64 r) as [rc t]. cbn [fst] in M.
  repeat match goal with |- context [if ?c then _ else _] =>
    lazymatch c with context [if _ then _ else _] => fail | _ => destruct c end end;
  rewrite IH; autorewrite with nq; auto.
Qed.
Lemma nqd_resync_heartbeats : forall k r i, nqd (rn (resync_heartbeats k r i)) = nqd (rn r).
Proof.
  induction k as [|k IH]; intros r i; cbn [resync_heartbeats]; [reflexivity|]. cbv zeta.
  pose proof (rs_millis64 r) as M. unfold RS in M. destruct (millis64 r) as [rc t]. cbn [fst] in M.
  repeat match goal with |- context [if ?c then _ else _] =>
    lazymatch c with context [if _ then _ else _] => fail | _ => destruct c end end;
  rewrite IH; autorewrite with nq; auto.
Qed.
Global Hint Rewrite nqd_set_heartbeat_all nqd_resync_heartbeats : nq.

(* ================= sending ================= *)
Ltac go f := unfold f; cbv zeta; walk; qfin.

Lemma rp3_rsend r m idev : RP3 r (rsend r m idev).
Proof. go rsend. Qed.
Global Hint Resolve rp3_rsend : qt.

Lemma rp_send_tpcm_cts r pgn dst idev np nx : RP r (send_tpcm_cts r pgn dst idev np nx).
Proof. go send_tpcm_cts. Qed.
Lemma rp_send_tpcm_endack r pgn dst idev nb np : RP r (send_tpcm_endack r pgn dst idev nb np).
Proof. go send_tpcm_endack. Qed.
Lemma rp_send_tpcm_abort r pgn dst idev code : RP r (send_tpcm_abort r pgn dst idev code).
Proof. go send_tpcm_abort. Qed.
Global Hint Resolve rp_send_tpcm_cts rp_send_tpcm_endack rp_send_tpcm_abort : qt.

Lemma rp3_send_tpdt r i : RP3 r (send_tpdt r i).
Proof. go send_tpdt. Qed.
Global Hint Resolve rp3_send_tpdt : qt.
Lemma rp3_send_tpdt_burst : forall k r i, RP3 r (send_tpdt_burst k r i).
Proof. induction k as [|k IH]; intros r i; cbn [send_tpdt_burst]; [qfin|]. walk; qfin. Qed.
Global Hint Resolve rp3_send_tpdt_burst : qt.
Lemma rp_send_pending_tp r i : RP r (send_pending_tp r i).
Proof. go send_pending_tp. Qed.
Global Hint Resolve rp_send_pending_tp : qt.

(* ================= receiving ================= *)
Lemma rp4_handle_tp r pgn src dst len buf : RP4 r (handle_tp r pgn src dst len buf).
Proof. go handle_tp. Qed.
Global Hint Resolve rp4_handle_tp : qt.

Lemma rp3_rx_frame r f : RP3 r (rx_frame r f).
Proof. go rx_frame. Qed.
Global Hint Resolve rp3_rx_frame : qt.

(* ================= address claim ================= *)
Lemma rp_rstart_claim r i : RP r (rstart_claim r i).
Proof. go rstart_claim. Qed.
Lemma rp_rsend_claim r dst i : RP r (rsend_claim r dst i).
Proof. go rsend_claim. Qed.
Global Hint Resolve rp_rstart_claim rp_rsend_claim : qt.
Lemma rp_handle_claim r src data : RP r (handle_claim r src data).
Proof. go handle_claim. Qed.
Global Hint Resolve rp_handle_claim : qt.
Lemma rp_commanded_one r nm na i : RP r (commanded_one r nm na i).
Proof. go commanded_one. Qed.
Global Hint Resolve rp_commanded_one : qt.
Lemma rp_commanded_all : forall k r nm na i, RP r (commanded_all k r nm na i).
Proof. induction k as [|k IH]; intros r nm na i; cbn [commanded_all]; [qfin|]. walk; qfin. Qed.
Global Hint Resolve rp_commanded_all : qt.
Lemma rp_handle_commanded r s : RP r (handle_commanded r s).
Proof. go handle_commanded. Qed.
Global Hint Resolve rp_handle_commanded : qt.

(* ================= ISO request ================= *)
Lemma rp_send_product_info r i : RP r (send_product_info r i).
Proof. go send_product_info. Qed.
Lemma rp_send_config_info r i : RP r (send_config_info r i).
Proof. go send_config_info. Qed.
Global Hint Resolve rp_send_product_info rp_send_config_info : qt.
Lemma rp_respond_iso_request r rq ad rpgn i : RP r (respond_iso_request r rq ad rpgn i).
Proof. go respond_iso_request. Qed.
Global Hint Resolve rp_respond_iso_request : qt.
Lemma rp_respond_all : forall k r rq rpgn i, RP r (respond_all k r rq rpgn i).
Proof. induction k as [|k IH]; intros r rq rpgn i; cbn [respond_all]; [qfin|]. walk; qfin. Qed.
Global Hint Resolve rp_respond_all : qt.
Lemma rp_handle_iso_request r s : RP r (handle_iso_request r s).
Proof. go handle_iso_request. Qed.
Global Hint Resolve rp_handle_iso_request : qt.
