(* C11 at node level, part E: head-of-line retry (statement 5 of Spec/NodeQueueSpec.v), proved on the list FIFO and transported to
   the node through the trace theorem and the refinement.

   Invariant of a FIFO run, over the driver calls made so far (tx) and the pending list (p):
     retry_ok tx   and   [hol tx p]: when the last call was refused, the frame it concerned is the head of p. *)
From Coq Require Import ZArith List Bool Lia.
From N2kV Require Import Base.ListAux Model.CanId Model.Sched Model.PgnClass Model.NodeDefs Model.NodeRxDefs Model.GroupFnDefs Model.ApiDefs
  Gen.GenTables Gen.GenConsts Spec.SendSpec Proofs.QueueProofs Spec.NodeQueueSpec Proofs.NodeQueueProofsD.
Import ListNotations.
Local Open Scope Z_scope.

Definition jn (e:event) (rest:list event) : Prop :=
  match e, rest with EvTx id len data false, e2 :: _ => same_frame e e2 | _, _ => True end.
Lemma retry_ok_cons e rest : retry_ok (e :: rest) <-> jn e rest /\ retry_ok rest.
Proof. destruct e as [id len data [|]| | |]; destruct rest; simpl; tauto. Qed.

Lemma retry_ok_snoc e : forall tx, retry_ok tx ->
  (forall pre id len data, tx = pre ++ [EvTx id len data false] -> same_frame (EvTx id len data false) e) ->
  retry_ok (tx ++ [e]).
Proof.
  induction tx as [|x tx IH]; intros R J.
  - cbn [app]. apply retry_ok_cons. split; [destruct e as [? ? ? [|]| | |]; exact I | exact I].
  - cbn [app]. apply retry_ok_cons in R. destruct R as (Jx & R). apply retry_ok_cons. split.
    + destruct tx as [|y tx'].
      * cbn [app]. destruct x as [id len data [|]| | |]; try exact I. cbn [jn]. apply (J []). reflexivity.
      * cbn [app]. destruct x as [id len data [|]| | |]; try exact I. exact Jx.
    + apply IH; [exact R|]. intros pre id len data E. apply (J (x :: pre)). rewrite E. reflexivity.
Qed.

Definition hol (tx:list event) (p:list frame) : Prop :=
  forall pre id len data, tx = pre ++ [EvTx id len data false] ->
    exists f rest, p = f :: rest /\ f_id f = id /\ f_len f = len /\ f_data f = data.
Definition RInv (tx:list event) (p:list frame) : Prop := retry_ok tx /\ hol tx p.

Lemma hol_accepted tx id len data p : hol (tx ++ [EvTx id len data true]) p.
Proof. intros pre id' len' data' E. apply app_inj_tail in E. destruct E as (_ & E). discriminate. Qed.

(* one more driver call for the head of the pending list *)
Lemma rinv_head tx f rest b : RInv tx (f :: rest) -> retry_ok (tx ++ [EvTx (f_id f) (f_len f) (f_data f) b]).
Proof.
  intros (R & H). apply retry_ok_snoc; [exact R|]. intros pre id len data E.
  destruct (H _ _ _ _ E) as (f' & rest' & Ep & A & B & C). inversion Ep; subst. cbn. auto.
Qed.

Lemma flush_rinv : forall p tx d p' d' ev ok, RInv tx p -> fifo_flush p d = (p', d', ev, ok) -> RInv (tx ++ ev) p'.
Proof.
  induction p as [|f rest IH]; intros tx d p' d' ev ok I E; cbn [fifo_flush] in E.
  - inversion E; subst. rewrite app_nil_r. exact I.
  - destruct (can_send d) as [b d1]. destruct b.
    + destruct (fifo_flush rest d1) as [[[p2 d2] evs] r] eqn:E2. inversion E; subst.
      unfold fifo_flush_step. change (tx ++ ?e :: evs) with (tx ++ [e] ++ evs). rewrite app_assoc.
      eapply IH; [|exact E2]. split; [eapply rinv_head; exact I | apply hol_accepted].
    + inversion E; subst. unfold fifo_flush_step. split; [eapply rinv_head; exact I|].
      intros pre id len data Ee. apply app_inj_tail in Ee. destruct Ee as (_ & Ee). inversion Ee; subst.
      exists f, rest. auto.
Qed.

Lemma hol_enqueue tx p x : hol tx p -> p <> [] -> hol tx (p ++ [x]).
Proof.
  intros H Hp pre id len data E. destruct (H _ _ _ _ E) as (f & rest & Ep & A). subst p.
  exists f, (rest ++ [x]). auto.
Qed.

Lemma send_rinv cap tx p d id len data wait p' d' ev ok : 1 <= cap -> len <= 8 -> RInv tx p ->
  fifo_send cap p d id len data wait = (p', d', ev, ok) -> RInv (tx ++ ev) p'.
Proof.
  intros Hc Hl I E. unfold fifo_send in E.
  destruct (fifo_flush p d) as [[[p1 d1] ev1] fl] eqn:EF.
  pose proof (flush_rinv _ _ _ _ _ _ _ I EF) as I1.
  apply fifo_flush_acc in EF. destruct EF as (_ & Hfl).
  rewrite (Z.min_l len 8 Hl) in E.
  destruct fl.
  - rewrite (Hfl eq_refl) in *. destruct (can_send d1) as [b d2]. destruct b.
    + inversion E; subst. rewrite app_assoc. destruct I1 as (R1 & H1). split.
      * apply retry_ok_snoc; [exact R1|]. intros pre i l dt Ee. destruct (H1 _ _ _ _ Ee) as (? & ? & Ep & _). discriminate.
      * apply hol_accepted.
    + cbn [length Z.of_nat] in E. destruct (Z.ltb_spec 0 cap) as [_|Hn]; [|lia].
      inversion E; subst. rewrite app_assoc. destruct I1 as (R1 & H1). split.
      * apply retry_ok_snoc; [exact R1|]. intros pre i l dt Ee. destruct (H1 _ _ _ _ Ee) as (? & ? & Ep & _). discriminate.
      * intros pre i l dt Ee. apply app_inj_tail in Ee. destruct Ee as (_ & Ee). inversion Ee; subst.
        do 2 eexists. split; [reflexivity|]. cbn. auto.
  - destruct (Z.of_nat (length p1) <? cap); inversion E; subst; rewrite app_nil_r; [|exact I1].
    destruct I1 as (R1 & H1). split; [exact R1|].
    intros pre i l dt Ee. destruct (H1 _ _ _ _ Ee) as (f & rest & Ep & A). subst p1. do 2 eexists. split; [reflexivity|]. exact A.
Qed.

Lemma el_run_rinv cap : 1 <= cap -> forall ops tx p d p' d' outs, Forall eop_len_ok ops -> RInv tx p ->
  el_run cap p d ops = (p', d', outs) -> RInv (tx ++ concat (map fst outs)) p'.
Proof.
  intros Hc. induction ops as [|o r IH]; intros tx p d p' d' outs Hok I E; cbn [el_run] in E.
  - inversion E; subst. cbn. rewrite app_nil_r. exact I.
  - inversion Hok as [|? ? Ho Hr]; subst.
    destruct (el_step cap p d o) as [[[p1 d1] ev] ok] eqn:E1.
    destruct (el_run cap p1 d1 r) as [[p2 d2] outs2] eqn:E2. inversion E; subst.
    cbn [map fst concat]. rewrite app_assoc. eapply IH; [exact Hr| |exact E2].
    destruct o as [[|id len data wait]|s]; cbn [el_step l_step eop_len_ok op_len_ok] in *.
    + eapply flush_rinv; eassumption.
    + eapply send_rinv; eassumption.
    + inversion E1; subst. rewrite app_nil_r. exact I.
Qed.

Theorem node_retry : node_retry_stmt.
Proof.
  intros gf Hgf r ops r' evs Hwf E.
  destruct (xrun_etrace gf Hgf ops r r' evs E) as (eops & outs & Er & T & L & S).
  destruct (e_run_refines _ _ _ _ _ _ Hwf Er) as (A & B & C).
  assert (Hc: 1 <= q_max (n_q (rn r)) - 1) by (destruct Hwf; lia).
  assert (I0: RInv [] (ring_contents (n_q (rn r)))).
  { split; [exact I|]. intros pre id len data E0. destruct pre; discriminate. }
  destruct (el_run_rinv _ Hc _ _ _ _ _ _ _ L I0 C) as (R & _). rewrite T. exact R.
Qed.
Print Assumptions node_retry.
