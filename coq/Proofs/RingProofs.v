From Coq Require Import ZArith List Bool Lia.
From N2kV Require Import Base.ListAux Model.RingDefs Spec.RingSpec.
Import ListNotations.
Local Open Scope Z_scope.

(* Proofs of the four C20 (ring buffer) statements of Spec/RingSpec.v.

   Plain ring: invariant [RI r q] (queue q stored at positions (tail+i) mod size), one-step lemma [ring_step_ok].
   Span machine: [head_live] is preserved by every step; [proj p sp] (values of priority p in the span) satisfies
     proj p sp ++ adds = reads ++ rest   along every clear-free run ([per_pri_gen]).
   Priority ring: abstraction relation [R r sp] = sizes + [Rw slots prefs head tail sp] + head_live sp, where Rw says
     - head = tail advanced length sp times, length sp < size,
     - [slots_ok]: the slot at the i-th position of the span holds (priority, value) of the i-th span entry, or
       INVALID_PRI for a hole,
     - [linked]: for every priority p the positions of its entries ([chain p tail sp], oldest first) form the
       singly linked list described by prefs[p] (pnext = first, plast = last, snext links, INVALID_REF at the end).
     Preservation: [Rw_add] (add), [Rw_read_gen] + [advance_strip] + [Rw_strip] (reads), [Rw_empty] (new, clear);
     observers: [Rw_count], [Rw_head_eq], [Rw_pnext], [Rw_first_nonempty]. *)

(* ---------- set_nth / znth / zset ---------- *)
Lemma set_nth_length {A} (l:list A) i v : length (set_nth l i v) = length l.
Proof. revert i; induction l as [|x l IH]; intros [|i]; simpl; auto. Qed.

Lemma nth_set_nth_eq {A} (l:list A) i v d : (i < length l)%nat -> nth i (set_nth l i v) d = v.
Proof.
  revert i; induction l as [|x l IH]; intros [|i] H; simpl in *; try lia; auto.
  apply IH; lia.
Qed.

Lemma nth_set_nth_neq {A} (l:list A) i j v d : i <> j -> nth j (set_nth l i v) d = nth j l d.
Proof.
  revert i j; induction l as [|x l IH]; intros [|i] [|j] H; simpl; auto; try congruence.
Qed.

Lemma zset_length {A} (l:list A) i v : length (zset l i v) = length l.
Proof. apply set_nth_length. Qed.

Lemma znth_zset_eq {A} (l:list A) i v d : 0 <= i < Z.of_nat (length l) -> znth (zset l i v) i d = v.
Proof. intros H. unfold znth, zset. apply nth_set_nth_eq. lia. Qed.

Lemma znth_zset_neq {A} (l:list A) i j v d : 0 <= i -> 0 <= j -> i <> j -> znth (zset l i v) j d = znth l j d.
Proof. intros Hi Hj H. unfold znth, zset. apply nth_set_nth_neq. lia. Qed.

(* ---------- modular positions with a variable modulus ---------- *)
Lemma mod_inc m x : 0 <= x < m -> (x+1) mod m = if x+1 <? m then x+1 else 0.
Proof.
  intros H. destruct (Z.ltb_spec (x+1) m) as [H0|H0].
  - apply Z.mod_small; lia.
  - assert (H1: x+1 = m) by lia. rewrite H1. apply Z.mod_same; lia.
Qed.

Lemma mod_diff m a b : 0 <= a < m -> 0 <= b < m -> (a-b) mod m = if b <=? a then a-b else a-b+m.
Proof.
  intros Ha Hb. destruct (Z.leb_spec b a).
  - apply Z.mod_small; lia.
  - symmetry; apply (Z.mod_unique _ _ (-1)); lia.
Qed.

Lemma mod_add_small m t j : 0 <= t < m -> 0 <= j <= m -> (t+j) mod m = if t+j <? m then t+j else t+j-m.
Proof.
  intros Ht Hj. destruct (Z.ltb_spec (t+j) m).
  - apply Z.mod_small; lia.
  - symmetry; apply (Z.mod_unique _ _ 1); lia.
Qed.

(* ================= plain ring ================= *)
Record RI (r:ring) (q:list Z) : Prop := {
  ri_sz : 3 <= rsize r;
  ri_t : 0 <= rtail r < rsize r;
  ri_h : 0 <= rhead r < rsize r;
  ri_len : length (rbuf r) = Z.to_nat (rsize r);
  ri_cnt : Z.of_nat (length q) = (rhead r - rtail r) mod rsize r;
  ri_val : forall i, (i < length q)%nat -> znth (rbuf r) ((rtail r + Z.of_nat i) mod rsize r) 0 = nth i q 0 }.

Lemma ring_step_ok r q o : RI r q ->
  snd (ring_step r o) = snd (fifo_step (rsize r - 1) q o) /\
  RI (fst (ring_step r o)) (fst (fifo_step (rsize r - 1) q o)) /\
  rsize (fst (ring_step r o)) = rsize r.
Proof.
  intros [Hsz Ht Hh Hlen Hcnt Hval]. destruct r as [sz h t buf]. cbn [rsize rhead rtail rbuf] in *.
  rewrite mod_diff in Hcnt by lia.
  destruct o as [v| | | | | ]; cbn [ring_step fifo_step].
  - (* add *)
    unfold ring_add. cbn [rsize rhead rtail rbuf]. rewrite mod_inc by lia.
    destruct (Z.ltb_spec (Z.of_nat (length q)) (sz - 1)) as [Hc|Hc].
    + assert (Hne: ((if h + 1 <? sz then h + 1 else 0) =? t) = false).
      { apply Z.eqb_neq. destruct (Z.ltb_spec (h+1) sz); destruct (Z.leb_spec t h); lia. }
      rewrite Hne. cbn [fst snd]. split; [reflexivity|]. split; [|reflexivity].
      constructor; cbn [rsize rhead rtail rbuf].
      * lia.
      * lia.
      * destruct (Z.ltb_spec (h+1) sz); lia.
      * rewrite zset_length. exact Hlen.
      * rewrite app_length. cbn [length]. rewrite mod_diff by (destruct (Z.ltb_spec (h+1) sz); lia).
        destruct (Z.ltb_spec (h+1) sz); destruct (Z.leb_spec t h); destruct (Z.leb_spec t (h+1)); destruct (Z.leb_spec t 0); lia.
      * intros i Hi. rewrite app_length in Hi. cbn [length] in Hi.
        rewrite mod_add_small by lia.
        destruct (Nat.lt_ge_cases i (length q)) as [Hlt|Hge].
        -- rewrite app_nth1 by lia. rewrite <- (Hval i Hlt). rewrite mod_add_small by lia.
           apply znth_zset_neq; destruct (Z.ltb_spec (t + Z.of_nat i) sz); destruct (Z.leb_spec t h); lia.
        -- assert (Hi': i = length q) by lia. rewrite app_nth2 by lia. rewrite Hi', Nat.sub_diag. cbn [nth].
           replace (if t + Z.of_nat (length q) <? sz then t + Z.of_nat (length q) else t + Z.of_nat (length q) - sz) with h
             by (destruct (Z.ltb_spec (t + Z.of_nat (length q)) sz); destruct (Z.leb_spec t h); lia).
           apply znth_zset_eq. lia.
    + assert (He: ((if h + 1 <? sz then h + 1 else 0) =? t) = true).
      { apply Z.eqb_eq. destruct (Z.ltb_spec (h+1) sz); destruct (Z.leb_spec t h); lia. }
      rewrite He. cbn [fst snd]. split; [reflexivity|]. split; [|reflexivity].
      constructor; cbn [rsize rhead rtail rbuf]; try assumption; try lia.
      rewrite mod_diff by lia. exact Hcnt.
  - (* read *)
    unfold ring_read, ring_is_empty. cbn [rsize rhead rtail rbuf].
    destruct q as [|x q'].
    + cbn [length] in Hcnt. assert (Hht: h = t) by (destruct (Z.leb_spec t h); lia).
      rewrite (proj2 (Z.eqb_eq h t) Hht). cbn [fst snd]. split; [reflexivity|]. split; [|reflexivity].
      constructor; cbn [rsize rhead rtail rbuf]; try assumption; try lia.
      rewrite mod_diff by lia. exact Hcnt.
    + cbn [length] in Hcnt. assert (Hht: h <> t) by (destruct (Z.leb_spec t h); lia).
      rewrite (proj2 (Z.eqb_neq h t) Hht). cbn [fst snd]. split.
      * f_equal. f_equal. specialize (Hval O ltac:(cbn; lia)). cbn [nth Z.of_nat] in Hval.
        rewrite Z.add_0_r, Z.mod_small in Hval by lia. exact Hval.
      * split; [|reflexivity].
        assert (Ht1: 0 <= (t + 1) mod sz < sz) by (apply Z.mod_pos_bound; lia).
        constructor; cbn [rsize rhead rtail rbuf]; try assumption; try lia.
        -- rewrite mod_diff by lia. rewrite mod_inc in * by lia.
           destruct (Z.ltb_spec (t+1) sz); destruct (Z.leb_spec t h); destruct (Z.leb_spec (t+1) h); destruct (Z.leb_spec 0 h); lia.
        -- intros i Hi. rewrite Zplus_mod_idemp_l.
           specialize (Hval (S i) ltac:(cbn [length]; lia)). cbn [nth] in Hval. rewrite <- Hval.
           f_equal. f_equal. lia.
  - (* peek *)
    unfold ring_peek, ring_is_empty. cbn [rsize rhead rtail rbuf fst snd].
    split; [|split; [|reflexivity]].
    + destruct q as [|x q'].
      * cbn [length] in Hcnt. assert (Hht: h = t) by (destruct (Z.leb_spec t h); lia).
        rewrite (proj2 (Z.eqb_eq h t) Hht). reflexivity.
      * cbn [length] in Hcnt. assert (Hht: h <> t) by (destruct (Z.leb_spec t h); lia).
        rewrite (proj2 (Z.eqb_neq h t) Hht). cbn [hd_error]. f_equal. f_equal.
        specialize (Hval O ltac:(cbn; lia)). cbn [nth Z.of_nat] in Hval.
        rewrite Z.add_0_r, Z.mod_small in Hval by lia. exact Hval.
    + constructor; cbn [rsize rhead rtail rbuf]; try assumption; try lia.
      rewrite mod_diff by lia. exact Hcnt.
  - (* clear *)
    unfold ring_clear. cbn [rsize rhead rtail rbuf fst snd].
    split; [reflexivity|]. split; [|reflexivity].
    constructor; cbn [rsize rhead rtail rbuf]; try assumption; try lia.
    + rewrite Z.sub_diag, Z.mod_0_l by lia. reflexivity.
    + intros i Hi. cbn in Hi. lia.
  - (* count *)
    unfold ring_count. cbn [rsize rhead rtail rbuf fst snd].
    split; [|split; [|reflexivity]].
    + f_equal. destruct (Z.ltb_spec (h - t) 0); destruct (Z.leb_spec t h); lia.
    + constructor; cbn [rsize rhead rtail rbuf]; try assumption; try lia.
      rewrite mod_diff by lia. exact Hcnt.
  - (* is_empty *)
    unfold ring_is_empty. cbn [rsize rhead rtail rbuf fst snd].
    split; [|split; [|reflexivity]].
    + f_equal. destruct q as [|x q']; cbn [length] in Hcnt.
      * apply Z.eqb_eq. destruct (Z.leb_spec t h); lia.
      * apply Z.eqb_neq. destruct (Z.leb_spec t h); lia.
    + constructor; cbn [rsize rhead rtail rbuf]; try assumption; try lia.
      rewrite mod_diff by lia. exact Hcnt.
Qed.

Lemma ring_run_ok ops : forall r q, RI r q ->
  snd (ring_run r ops) = snd (fifo_run (rsize r - 1) q ops).
Proof.
  induction ops as [|o ops IH]; intros r q HR; cbn [ring_run fifo_run].
  - reflexivity.
  - destruct (ring_step_ok r q o HR) as (Hout & HR' & Hs).
    destruct (ring_step r o) as [r1 x] eqn:E1.
    destruct (fifo_step (rsize r - 1) q o) as [q1 y] eqn:E2.
    cbn [fst snd] in *. subst y.
    specialize (IH r1 q1 HR'). rewrite Hs in IH.
    destruct (ring_run r1 ops) as [r2 xs]. destruct (fifo_run (rsize r - 1) q1 ops) as [q2 ys].
    cbn [snd] in *. now rewrite IH.
Qed.

Lemma clamp_size_ge s : 3 <= clamp_size s.
Proof. unfold clamp_size. destruct (Z.ltb_spec s 3); lia. Qed.

Lemma ring_new_RI s : RI (ring_new s) [].
Proof.
  pose proof (clamp_size_ge s) as H. unfold ring_new.
  constructor; cbn [rsize rhead rtail rbuf length]; try lia.
  - apply repeat_length.
  - rewrite Z.sub_diag, Z.mod_0_l by lia. reflexivity.
Qed.

Theorem ring_refines_fifo : ring_refines_fifo_stmt.
Proof.
  intros s ops _. apply (ring_run_ok ops (ring_new s) [] (ring_new_RI s)).
Qed.
Print Assumptions ring_refines_fifo.

(* ================= span machine: head of the span is live ================= *)
Definition head_live (sp:span) : Prop := match sp with None :: _ => False | _ => True end.

Lemma strip_head_live sp : head_live (strip sp).
Proof. induction sp as [|[x|] r IH]; cbn; auto. Qed.

Lemma head_live_snoc sp x : head_live sp -> head_live (sp ++ [Some x]).
Proof. destruct sp as [|[y|] r]; cbn; auto. Qed.

Lemma pspec_step_head_live size maxp sp o : head_live sp -> head_live (fst (pspec_step size maxp sp o)).
Proof.
  intros H. destruct o as [p v|p| | | |p]; cbn [pspec_step].
  - destruct (Z.of_nat (length sp) <? size - 1); cbn [fst]; [apply head_live_snoc|]; exact H.
  - destruct (take_first (eff maxp p) sp) as [[v sp']|]; cbn [fst]; [apply strip_head_live|exact H].
  - destruct (lowest (Z.to_nat maxp) 0 sp) as [p|]; [|exact H].
    destruct (take_first p sp) as [[v sp']|]; cbn [fst]; [apply strip_head_live|exact H].
  - exact I.
  - exact H.
  - exact H.
Qed.

Lemma pspec_run_head_live size maxp ops : forall sp, head_live sp -> head_live (fst (pspec_run size maxp sp ops)).
Proof.
  induction ops as [|o ops IH]; intros sp H; cbn [pspec_run].
  - exact H.
  - pose proof (pspec_step_head_live size maxp sp o H) as H1.
    destruct (pspec_step size maxp sp o) as [s1 x]. cbn [fst] in H1.
    specialize (IH s1 H1). destruct (pspec_run size maxp s1 ops) as [s2 xs]. exact IH.
Qed.

Theorem span_head_live : span_head_live_stmt.
Proof.
  intros size maxp ops. apply (pspec_run_head_live size maxp ops [] I).
Qed.
Print Assumptions span_head_live.

(* ================= span machine: per-priority FIFO ================= *)
Definition is_pri (p:Z) (x:option (Z*Z)) : bool := match x with Some (q, _) => q =? p | None => false end.

Fixpoint proj (p:Z) (sp:span) : list Z :=
  match sp with
  | [] => []
  | Some (q, v) :: r => if q =? p then v :: proj p r else proj p r
  | None :: r => proj p r
  end.

Lemma proj_app p a b : proj p (a ++ b) = proj p a ++ proj p b.
Proof.
  induction a as [|[[q v]|] r IH]; cbn [proj app]; auto.
  destruct (q =? p); cbn [app]; now rewrite IH.
Qed.

Lemma proj_strip p sp : proj p (strip sp) = proj p sp.
Proof. induction sp as [|[[q v]|] r IH]; cbn [proj strip]; auto. Qed.

Lemma take_first_proj t p sp : forall v sp', take_first t sp = Some (v, sp') ->
  proj p sp = if t =? p then v :: proj p sp' else proj p sp'.
Proof.
  induction sp as [|[[q w]|] r IH]; intros v sp' H; cbn [take_first] in H.
  - discriminate.
  - destruct (Z.eqb_spec q t) as [->|Hne].
    + injection H as <- <-. cbn [proj]. destruct (t =? p); reflexivity.
    + destruct (take_first t r) as [[x r']|]; [|discriminate]. injection H as <- <-.
      cbn [proj]. rewrite (IH x r' eq_refl).
      destruct (Z.eqb_spec q p) as [->|Hqp]; [|reflexivity].
      rewrite (proj2 (Z.eqb_neq t p)) by congruence. reflexivity.
  - destruct (take_first t r) as [[x r']|]; [|discriminate]. injection H as <- <-.
    cbn [proj]. apply (IH x r' eq_refl).
Qed.

Lemma per_pri_gen size maxp p ops : forall sp, no_clear ops ->
  exists rest, proj p sp ++ adds_of maxp p ops (snd (pspec_run size maxp sp ops))
             = reads_of maxp p ops (snd (pspec_run size maxp sp ops)) ++ rest.
Proof.
  induction ops as [|o ops IH]; intros sp Hnc.
  - cbn. exists (proj p sp). now rewrite app_nil_r.
  - inversion Hnc as [|o' ops' Ho Hnc']; subst.
    cbn [pspec_run].
    destruct (pspec_step size maxp sp o) as [s1 x] eqn:Es.
    destruct (IH s1 Hnc') as [rest Hrest].
    destruct (pspec_run size maxp s1 ops) as [s2 xs]. cbn [snd] in *.
    destruct o as [q v|q| | | |q]; cbn [pspec_step] in Es.
    + destruct (Z.of_nat (length sp) <? size - 1); injection Es as <- <-; cbn [adds_of reads_of].
      * rewrite proj_app in Hrest. cbn [proj] in Hrest.
        exists rest. destruct (eff maxp q =? p).
        -- rewrite <- Hrest, <- app_assoc. reflexivity.
        -- rewrite <- Hrest, app_nil_r. reflexivity.
      * exists rest. exact Hrest.
    + destruct (take_first (eff maxp q) sp) as [[v sp']|] eqn:Et; injection Es as <- <-; cbn [adds_of reads_of].
      * rewrite (take_first_proj _ p _ _ _ Et). rewrite proj_strip in Hrest.
        exists rest. destruct (eff maxp q =? p); cbn [app]; now rewrite Hrest.
      * exists rest. exact Hrest.
    + destruct (lowest (Z.to_nat maxp) 0 sp) as [t|].
      * destruct (take_first t sp) as [[v sp']|] eqn:Et; injection Es as <- <-; cbn [adds_of reads_of].
        -- rewrite (take_first_proj _ p _ _ _ Et). rewrite proj_strip in Hrest.
           exists rest. destruct (t =? p); cbn [app]; now rewrite Hrest.
        -- exists rest. exact Hrest.
      * injection Es as <- <-; cbn [adds_of reads_of]. exists rest. exact Hrest.
    + congruence.
    + injection Es as <- <-; cbn [adds_of reads_of]. exists rest. exact Hrest.
    + injection Es as <- <-; cbn [adds_of reads_of]. exists rest. exact Hrest.
Qed.

Theorem per_priority_fifo : per_priority_fifo_stmt.
Proof.
  intros size maxp ops p _ _ Hnc. cbv zeta.
  destruct (per_pri_gen size maxp p ops [] Hnc) as [rest H]. exists rest. exact H.
Qed.
Print Assumptions per_priority_fifo.

(* ================= priority ring ================= *)
Section PR.
Variables sz mx : Z.
Hypothesis Hsz : 3 <= sz <= 65535.
Hypothesis Hmx : 1 <= mx <= 254.

Definition nxt (t:Z) : Z := (t + 1) mod sz.
Fixpoint adv (t:Z) (n:nat) : Z := match n with O => t | S k => adv (nxt t) k end.
Fixpoint posl (t:Z) (n:nat) : list Z := match n with O => [] | S k => t :: posl (nxt t) k end.

Lemma nxt_range t : 0 <= nxt t < sz.
Proof. apply Z.mod_pos_bound; lia. Qed.

Lemma adv_mod n : forall t, 0 <= t < sz -> adv t n = (t + Z.of_nat n) mod sz.
Proof.
  induction n as [|k IH]; intros t Ht; cbn [adv].
  - rewrite Nat2Z.inj_0, Z.add_0_r, Z.mod_small by lia. reflexivity.
  - rewrite IH by apply nxt_range. unfold nxt. rewrite Zplus_mod_idemp_l. f_equal. lia.
Qed.

Lemma adv_range t n : 0 <= t < sz -> 0 <= adv t n < sz.
Proof. intros Ht. rewrite adv_mod by exact Ht. apply Z.mod_pos_bound; lia. Qed.

Lemma adv_add t n m : adv t (n + m) = adv (adv t n) m.
Proof. revert t; induction n as [|k IH]; intros t; cbn [adv Nat.add]; auto. Qed.

Lemma adv_S t n : adv t (S n) = nxt (adv t n).
Proof. replace (S n) with (n + 1)%nat by lia. rewrite adv_add. reflexivity. Qed.

Lemma posl_In n : forall t a, In a (posl t n) -> exists i, (i < n)%nat /\ a = adv t i.
Proof.
  induction n as [|k IH]; intros t a H; cbn [posl] in H.
  - destruct H.
  - destruct H as [<-|H].
    + exists O. split; [lia|reflexivity].
    + destruct (IH _ _ H) as (i & Hi & ->). exists (S i). split; [lia|reflexivity].
Qed.

Lemma posl_range t n a : 0 <= t < sz -> In a (posl t n) -> 0 <= a < sz.
Proof. intros Ht H. destruct (posl_In _ _ _ H) as (i & _ & ->). apply adv_range, Ht. Qed.

Lemma adv_neq t i : 0 <= t < sz -> (0 < i)%nat -> Z.of_nat i < sz -> adv t i <> t.
Proof.
  intros Ht Hi Hlt. rewrite adv_mod by exact Ht. rewrite mod_add_small by lia.
  destruct (Z.ltb_spec (t + Z.of_nat i) sz); lia.
Qed.

Lemma posl_notin t n : 0 <= t < sz -> Z.of_nat n < sz -> ~ In t (posl (nxt t) n).
Proof.
  intros Ht Hn H. destruct (posl_In _ _ _ H) as (i & Hi & He).
  change (adv (nxt t) i) with (adv t (S i)) in He.
  symmetry in He. revert He. apply adv_neq; [exact Ht|lia|lia].
Qed.

Lemma posl_NoDup n : forall t, 0 <= t < sz -> Z.of_nat n <= sz -> NoDup (posl t n).
Proof.
  induction n as [|k IH]; intros t Ht Hn; cbn [posl].
  - constructor.
  - constructor.
    + apply posl_notin; [exact Ht|lia].
    + apply IH; [apply nxt_range|lia].
Qed.

Lemma posl_app t n m : posl t (n + m) = posl t n ++ posl (adv t n) m.
Proof. revert t; induction n as [|k IH]; intros t; cbn [posl adv Nat.add app]; [reflexivity|]. now rewrite IH. Qed.

(* ---------- abstraction relation ---------- *)
Fixpoint chain (p:Z) (t:Z) (sp:span) : list Z :=
  match sp with
  | [] => []
  | x :: r => if is_pri p x then t :: chain p (nxt t) r else chain p (nxt t) r
  end.

Definition cell_ok (sl:list slot) (a:Z) (x:option (Z*Z)) : Prop :=
  match x with
  | Some (p, v) => spri (znth sl a dslot) = p /\ sval (znth sl a dslot) = v /\ 0 <= p < mx
  | None => spri (znth sl a dslot) = INVALID_PRI
  end.

Fixpoint slots_ok (sl:list slot) (t:Z) (sp:span) : Prop :=
  match sp with
  | [] => True
  | x :: r => cell_ok sl t x /\ slots_ok sl (nxt t) r
  end.

Fixpoint is_chain (sl:list slot) (a:Z) (rest:list Z) (last:Z) : Prop :=
  match rest with
  | [] => snext (znth sl a dslot) = INVALID_REF /\ last = a
  | b :: r => snext (znth sl a dslot) = b /\ is_chain sl b r last
  end.

Definition linked (sl:list slot) (c:list Z) (pr:pref) : Prop :=
  match c with
  | [] => pnext pr = INVALID_REF /\ plast pr = INVALID_REF
  | a :: rest => pnext pr = a /\ is_chain sl a rest (plast pr)
  end.

Record Rw (sl:list slot) (prf:list pref) (hd tl:Z) (sp:span) : Prop := {
  rw_tl : 0 <= tl < sz;
  rw_len : Z.of_nat (length sp) < sz;
  rw_hd : hd = adv tl (length sp);
  rw_sl : length sl = Z.to_nat sz;
  rw_pr : length prf = Z.to_nat mx;
  rw_ok : slots_ok sl tl sp;
  rw_ch : forall p, 0 <= p < mx -> linked sl (chain p tl sp) (znth prf p dref) }.

Definition R (r:pring) (sp:span) : Prop :=
  psize r = sz /\ pmax r = mx /\ Rw (pslots r) (prefs r) (phead r) (ptail r) sp /\ head_live sp.

(* ---------- chain / slots_ok structure ---------- *)
Lemma chain_app p l1 : forall t l2, chain p t (l1 ++ l2) = chain p t l1 ++ chain p (adv t (length l1)) l2.
Proof.
  induction l1 as [|x l1 IH]; intros t l2; cbn [chain app length adv]; [reflexivity|].
  rewrite IH. destruct (is_pri p x); reflexivity.
Qed.

Lemma slots_ok_app sl l1 : forall t l2, slots_ok sl t (l1 ++ l2) <-> slots_ok sl t l1 /\ slots_ok sl (adv t (length l1)) l2.
Proof.
  induction l1 as [|x l1 IH]; intros t l2; cbn [slots_ok app length adv]; [tauto|].
  rewrite IH. tauto.
Qed.

Lemma chain_posl p sp : forall t a, In a (chain p t sp) -> In a (posl t (length sp)).
Proof.
  induction sp as [|x r IH]; intros t a H; cbn [chain length posl] in *; [exact H|].
  destruct (is_pri p x).
  - destruct H as [H|H]; [left; exact H|right; apply IH, H].
  - right; apply IH, H.
Qed.

Lemma chain_NoDup p sp : forall t, 0 <= t < sz -> Z.of_nat (length sp) <= sz -> NoDup (chain p t sp).
Proof.
  induction sp as [|x r IH]; intros t Ht Hn; cbn [chain length] in *; [constructor|].
  assert (Hr: NoDup (chain p (nxt t) r)) by (apply IH; [apply nxt_range|lia]).
  destruct (is_pri p x); [|exact Hr].
  constructor; [|exact Hr]. intros H. apply chain_posl in H. revert H. apply posl_notin; [exact Ht|lia].
Qed.

Lemma chain_spri sl p sp : forall t a, slots_ok sl t sp -> In a (chain p t sp) -> spri (znth sl a dslot) = p.
Proof.
  induction sp as [|x r IH]; intros t a Hok H; cbn [chain slots_ok] in *; [destruct H|].
  destruct Hok as [Hc Hok]. destruct x as [[q v]|]; cbn [is_pri] in H.
  - destruct (Z.eqb_spec q p) as [->|Hne].
    + destruct H as [<-|H]; [apply Hc|apply (IH _ _ Hok H)].
    + apply (IH _ _ Hok H).
  - apply (IH _ _ Hok H).
Qed.

Lemma chain_nil_iff p sp : forall t, chain p t sp = [] <-> has_pri p sp = false.
Proof.
  induction sp as [|x r IH]; intros t; cbn [chain has_pri existsb]; [tauto|].
  change (existsb _ r) with (has_pri p r).
  change (match x with Some (q, _) => q =? p | None => false end) with (is_pri p x).
  destruct (is_pri p x); cbn [orb]; [split; discriminate|apply IH].
Qed.

Lemma slots_ok_ext sl sl' sp : forall t,
  (forall b, In b (posl t (length sp)) -> spri (znth sl' b dslot) = spri (znth sl b dslot) /\ sval (znth sl' b dslot) = sval (znth sl b dslot)) ->
  slots_ok sl t sp -> slots_ok sl' t sp.
Proof.
  induction sp as [|x r IH]; intros t He Hok; cbn [slots_ok length posl] in *; [exact I|].
  destruct Hok as [Hc Hok]. split.
  - destruct (He t (or_introl eq_refl)) as [E1 E2]. unfold cell_ok in *. rewrite E1, E2. exact Hc.
  - apply IH; [|exact Hok]. intros b Hb. apply He. right; exact Hb.
Qed.

Lemma is_chain_ext sl sl' rest : forall a last,
  (forall b, In b (a :: rest) -> snext (znth sl' b dslot) = snext (znth sl b dslot)) ->
  is_chain sl a rest last -> is_chain sl' a rest last.
Proof.
  induction rest as [|b r IH]; intros a last He H; cbn [is_chain] in *.
  - rewrite (He a (or_introl eq_refl)). exact H.
  - rewrite (He a (or_introl eq_refl)). destruct H as [H1 H2]. split; [exact H1|].
    apply IH; [|exact H2]. intros c Hc. apply He. right; exact Hc.
Qed.

Lemma linked_ext sl sl' c pr :
  (forall b, In b c -> snext (znth sl' b dslot) = snext (znth sl b dslot)) ->
  linked sl c pr -> linked sl' c pr.
Proof.
  intros He H. destruct c as [|a rest]; cbn [linked] in *; [exact H|].
  destruct H as [H1 H2]. split; [exact H1|]. apply (is_chain_ext sl sl' rest a _ He H2).
Qed.

Lemma is_chain_last_in sl rest : forall a last, is_chain sl a rest last -> In last (a :: rest).
Proof.
  induction rest as [|b r IH]; intros a last H; cbn [is_chain] in H.
  - left. symmetry. apply H.
  - right. apply IH, H.
Qed.


(* ---------- observers ---------- *)
Lemma Rw_head_eq sl prf hd tl sp : Rw sl prf hd tl sp -> (hd =? tl) = match sp with [] => true | _ => false end.
Proof.
  intros H. destruct H as [Ht Hl Hh _ _ _ _]. subst hd. destruct sp as [|x r].
  - cbn [length adv]. apply Z.eqb_refl.
  - apply Z.eqb_neq. apply adv_neq; [exact Ht|cbn [length]; lia|exact Hl].
Qed.

Lemma Rw_count sl prf hd tl sp : Rw sl prf hd tl sp ->
  (if hd - tl <? 0 then hd - tl + sz else hd - tl) = Z.of_nat (length sp).
Proof.
  intros H. destruct H as [Ht Hl Hh _ _ _ _]. subst hd. rewrite adv_mod by exact Ht.
  rewrite mod_add_small by lia.
  destruct (Z.ltb_spec (tl + Z.of_nat (length sp)) sz); destruct (Z.ltb_spec (tl + Z.of_nat (length sp) - tl) 0);
    destruct (Z.ltb_spec (tl + Z.of_nat (length sp) - sz - tl) 0); lia.
Qed.

Lemma chain_lt p t sp a : 0 <= t < sz -> In a (chain p t sp) -> 0 <= a < sz.
Proof. intros Ht H. apply chain_posl in H. apply (posl_range _ _ _ Ht H). Qed.

Lemma Rw_pnext sl prf hd tl sp p : Rw sl prf hd tl sp -> 0 <= p < mx ->
  (pnext (znth prf p dref) =? INVALID_REF) = negb (has_pri p sp).
Proof.
  intros H Hp. pose proof (rw_ch _ _ _ _ _ H p Hp) as Hl. pose proof (rw_tl _ _ _ _ _ H) as Ht.
  destruct (chain p tl sp) as [|a rest] eqn:Ec; cbn [linked] in Hl.
  - apply chain_nil_iff in Ec. rewrite Ec. cbn [negb]. apply Z.eqb_eq. apply Hl.
  - destruct Hl as [Hl _]. assert (Ha: 0 <= a < sz) by (apply (chain_lt p tl sp); [exact Ht|rewrite Ec; left; reflexivity]).
    destruct (has_pri p sp) eqn:Eh.
    + cbn [negb]. apply Z.eqb_neq. unfold INVALID_REF. lia.
    + apply chain_nil_iff with (t:=tl) in Eh. congruence.
Qed.

Lemma first_nonempty_lowest sp l : forall i,
  (forall j, (j < length l)%nat -> (pnext (nth j l dref) =? INVALID_REF) = negb (has_pri (i + Z.of_nat j) sp)) ->
  first_nonempty l i = lowest (length l) i sp.
Proof.
  induction l as [|pr rest IH]; intros i H; cbn [first_nonempty lowest length]; [reflexivity|].
  pose proof (H O ltac:(cbn [length]; lia)) as H0. cbn [nth] in H0. rewrite Nat2Z.inj_0, Z.add_0_r in H0.
  rewrite H0. destruct (has_pri i sp); cbn [negb]; [reflexivity|].
  apply IH. intros j Hj. specialize (H (S j) ltac:(cbn [length]; lia)). cbn [nth] in H. rewrite H.
  do 2 f_equal. lia.
Qed.

Lemma lowest_some sp n : forall i p, lowest n i sp = Some p -> i <= p < i + Z.of_nat n /\ has_pri p sp = true.
Proof.
  induction n as [|k IH]; intros i p H; cbn [lowest] in H; [discriminate|].
  destruct (has_pri i sp) eqn:Eh.
  - injection H as <-. split; [lia|exact Eh].
  - destruct (IH _ _ H) as [H1 H2]. split; [lia|exact H2].
Qed.

Lemma Rw_first_nonempty sl prf hd tl sp : Rw sl prf hd tl sp ->
  first_nonempty prf 0 = lowest (Z.to_nat mx) 0 sp.
Proof.
  intros H. rewrite <- (rw_pr _ _ _ _ _ H). apply first_nonempty_lowest. intros j Hj.
  rewrite (rw_pr _ _ _ _ _ H) in Hj. rewrite Z.add_0_l.
  rewrite <- (Rw_pnext _ _ _ _ _ (Z.of_nat j) H) by lia. unfold znth. now rewrite Nat2Z.id.
Qed.

(* ---------- empty state ---------- *)
Lemma Rw_empty sl : length sl = Z.to_nat sz -> Rw sl (repeat dref (Z.to_nat mx)) 0 0 [].
Proof.
  intros Hl. constructor; cbn [length adv slots_ok chain]; try lia; try exact I.
  - apply repeat_length.
  - intros p Hp. unfold znth. rewrite nth_repeat. cbn. split; reflexivity.
Qed.

(* ---------- strip = tail advance ---------- *)
Fixpoint strip_pos (t:Z) (sp:span) : Z := match sp with None :: r => strip_pos (nxt t) r | _ => t end.

Lemma Rw_strip sl prf hd sp : forall tl, Rw sl prf hd tl sp -> Rw sl prf hd (strip_pos tl sp) (strip sp).
Proof.
  induction sp as [|[x|] r IH]; intros tl H; cbn [strip_pos strip]; try exact H.
  apply IH. destruct H as [Ht Hl Hh Hs Hp Hok Hch]. cbn [length] in Hl.
  constructor; try assumption.
  - apply nxt_range.
  - lia.
  - apply Hok.
Qed.

Lemma advance_strip sl hd sp : forall fuel t, 0 <= t < sz -> Z.of_nat (length sp) < sz -> hd = adv t (length sp) ->
  slots_ok sl t sp -> (length sp <= fuel)%nat -> advance fuel sz hd sl t = strip_pos t sp.
Proof.
  induction sp as [|[[p v]|] r IH]; intros fuel t Ht Hl Hh Hok Hf; cbn [strip_pos length] in *.
  - cbn [adv] in Hh. subst hd. destruct fuel; cbn [advance]; [reflexivity|]. rewrite Z.eqb_refl. reflexivity.
  - destruct fuel; cbn [advance]; [reflexivity|]. destruct Hok as [(Hp & _ & Hr) _]. rewrite Hp.
    rewrite (proj2 (Z.eqb_neq p INVALID_PRI)) by (unfold INVALID_PRI; lia). rewrite andb_false_r. reflexivity.
  - destruct fuel as [|k]; [lia|]. cbn [advance]. destruct Hok as [Hp Hok]. cbn [cell_ok] in Hp. rewrite Hp, Z.eqb_refl.
    assert (Hne: t <> hd). { subst hd. intros E. symmetry in E. revert E. apply adv_neq; [exact Ht|lia|lia]. }
    rewrite (proj2 (Z.eqb_neq t hd) Hne). cbn [negb andb].
    apply IH; [apply nxt_range|lia|exact Hh|exact Hok|lia].
Qed.


(* ---------- add ---------- *)
Lemma is_chain_snoc sl sl2 h rest : forall a last,
  is_chain sl a rest last -> NoDup (a :: rest) ->
  snext (znth sl2 last dslot) = h -> snext (znth sl2 h dslot) = INVALID_REF ->
  (forall b, In b (a :: rest) -> b <> last -> znth sl2 b dslot = znth sl b dslot) ->
  is_chain sl2 a (rest ++ [h]) h.
Proof.
  induction rest as [|b r IH]; intros a last H Hnd Hl Hh He; cbn [is_chain app] in *.
  - destruct H as [_ ->]. auto.
  - destruct H as [H1 H2]. pose proof (is_chain_last_in _ _ _ _ H2) as Hin.
    apply NoDup_cons_iff in Hnd as [Hna Hnd'].
    split.
    + rewrite He; [exact H1|left; reflexivity|]. intros ->. apply Hna, Hin.
    + apply (IH b last H2 Hnd' Hl Hh). intros c Hc Hcl. apply He; [right; exact Hc|exact Hcl].
Qed.

Lemma Rw_hd_range sl prf hd tl sp : Rw sl prf hd tl sp -> 0 <= hd < sz.
Proof. intros H. rewrite (rw_hd _ _ _ _ _ H). apply adv_range, (rw_tl _ _ _ _ _ H). Qed.

Lemma Rw_hd_notin sl prf hd tl sp : Rw sl prf hd tl sp -> ~ In hd (posl tl (length sp)).
Proof.
  intros H. pose proof (posl_NoDup (length sp + 1) tl (rw_tl _ _ _ _ _ H)) as Hnd.
  rewrite posl_app in Hnd. cbn [posl] in Hnd. rewrite <- (rw_hd _ _ _ _ _ H) in Hnd.
  pose proof (rw_len _ _ _ _ _ H). apply NoDup_remove_2 in Hnd; [|lia]. rewrite app_nil_r in Hnd. exact Hnd.
Qed.

Lemma Rw_add_gen sl sl2 prf hd tl sp p v pr' :
  Rw sl prf hd tl sp -> 0 <= p < mx -> Z.of_nat (length sp) < sz - 1 ->
  length sl2 = length sl ->
  (forall b, In b (posl tl (length sp)) ->
     spri (znth sl2 b dslot) = spri (znth sl b dslot) /\ sval (znth sl2 b dslot) = sval (znth sl b dslot)) ->
  spri (znth sl2 hd dslot) = p -> sval (znth sl2 hd dslot) = v ->
  (forall q, q <> p -> forall b, In b (chain q tl sp) -> snext (znth sl2 b dslot) = snext (znth sl b dslot)) ->
  linked sl2 (chain p tl sp ++ [hd]) pr' ->
  Rw sl2 (zset prf p pr') (nxt hd) tl (sp ++ [Some (p, v)]).
Proof.
  intros H Hp Hlen Hl2 Hsame Hpri Hval Hoth Hlk.
  pose proof H as [Ht Hl Hh Hs Hpr Hok Hch].
  constructor.
  - exact Ht.
  - rewrite app_length. cbn [length]. lia.
  - rewrite app_length. cbn [length]. rewrite Nat.add_1_r, adv_S. now rewrite <- Hh.
  - now rewrite Hl2.
  - now rewrite zset_length.
  - apply slots_ok_app. split.
    + apply (slots_ok_ext sl sl2 sp tl Hsame Hok).
    + rewrite <- Hh. cbn [slots_ok cell_ok]. auto.
  - intros q Hq. rewrite chain_app. rewrite <- Hh. cbn [chain is_pri].
    destruct (Z.eqb_spec p q) as [<-|Hne].
    + rewrite znth_zset_eq by (rewrite Hpr; lia). exact Hlk.
    + rewrite znth_zset_neq by lia. rewrite app_nil_r.
      apply (linked_ext sl sl2); [|apply (Hch q Hq)]. apply Hoth. congruence.
Qed.

Lemma Rw_add sl prf hd tl sp p v : Rw sl prf hd tl sp -> 0 <= p < mx -> Z.of_nat (length sp) < sz - 1 ->
  let pr := znth prf p dref in
  let slots1 := zset sl hd {| sval := v; snext := INVALID_REF; spri := p |} in
  let slots2 := if pnext pr =? INVALID_REF then slots1
                else let l := plast pr in let s := znth slots1 l dslot in zset slots1 l {| sval := sval s; snext := hd; spri := spri s |} in
  let pr' := {| pnext := (if pnext pr =? INVALID_REF then hd else pnext pr); plast := hd |} in
  Rw slots2 (zset prf p pr') (nxt hd) tl (sp ++ [Some (p, v)]).
Proof.
  intros H Hp Hlen pr slots1 slots2 pr'.
  pose proof H as [Ht Hl Hh Hs Hpr Hok Hch].
  pose proof (Rw_hd_range _ _ _ _ _ H) as Hhr. pose proof (Rw_hd_notin _ _ _ _ _ H) as Hhn.
  assert (Hhl: 0 <= hd < Z.of_nat (length sl)) by (rewrite Hs; lia).
  assert (H1eq: znth slots1 hd dslot = {| sval := v; snext := INVALID_REF; spri := p |}) by (apply znth_zset_eq; exact Hhl).
  assert (H1ne: forall b, 0 <= b -> b <> hd -> znth slots1 b dslot = znth sl b dslot).
  { intros b Hb Hne. apply znth_zset_neq; lia. }
  pose proof (Hch p Hp) as Hlp. fold pr in Hlp.
  destruct (chain p tl sp) as [|a rest] eqn:Ec; cbn [linked] in Hlp.
  - (* first of its priority *)
    destruct Hlp as [Hn _]. subst slots2 pr'. rewrite Hn, Z.eqb_refl.
    apply (Rw_add_gen sl slots1 prf hd tl sp p v _ H Hp Hlen).
    + apply zset_length.
    + intros b Hb. rewrite H1ne; [auto|apply (posl_range tl (length sp) b Ht Hb)|]. intros ->. exact (Hhn Hb).
    + now rewrite H1eq.
    + now rewrite H1eq.
    + intros q Hq b Hb. apply chain_posl in Hb. rewrite H1ne; [auto|apply (posl_range tl (length sp) b Ht Hb)|]. intros ->. exact (Hhn Hb).
    + rewrite Ec. cbn [app linked is_chain pnext plast]. rewrite H1eq. cbn [snext]. auto.
  - (* appended to an existing chain *)
    destruct Hlp as [Hn Hic].
    assert (Hain: forall b, In b (a :: rest) -> In b (posl tl (length sp))).
    { intros b Hb. rewrite <- Ec in Hb. apply (chain_posl _ _ _ _ Hb). }
    assert (Ha: 0 <= a < sz) by (apply (posl_range tl (length sp) a Ht), Hain; left; reflexivity).
    pose proof (is_chain_last_in _ _ _ _ Hic) as Hlin.
    set (last := plast pr) in *.
    assert (Hlr: 0 <= last < sz) by (apply (posl_range tl (length sp) last Ht), Hain, Hlin).
    assert (Hlh: last <> hd) by (intros E; apply Hhn; rewrite <- E; apply Hain, Hlin).
    assert (Hnz: (pnext pr =? INVALID_REF) = false) by (apply Z.eqb_neq; rewrite Hn; unfold INVALID_REF; lia).
    subst slots2 pr'. rewrite Hnz. cbv zeta. fold last.
    set (s := znth slots1 last dslot).
    set (sl2 := zset slots1 last {| sval := sval s; snext := hd; spri := spri s |}).
    assert (Hs1: length slots1 = length sl) by apply zset_length.
    assert (H2eq: znth sl2 last dslot = {| sval := sval s; snext := hd; spri := spri s |}).
    { apply znth_zset_eq. rewrite Hs1, Hs. lia. }
    assert (H2ne: forall b, 0 <= b -> b <> last -> znth sl2 b dslot = znth slots1 b dslot).
    { intros b Hb Hne. apply znth_zset_neq; lia. }
    assert (Hse: s = znth sl last dslot) by (apply H1ne; lia).
    apply (Rw_add_gen sl sl2 prf hd tl sp p v _ H Hp Hlen).
    + unfold sl2. rewrite zset_length. exact Hs1.
    + intros b Hb. assert (Hbr: 0 <= b < sz) by apply (posl_range tl (length sp) b Ht Hb).
      assert (Hbh: b <> hd) by (intros ->; exact (Hhn Hb)).
      destruct (Z.eq_dec b last) as [->|Hbl].
      * rewrite H2eq. cbn [spri sval]. rewrite Hse. auto.
      * rewrite H2ne, H1ne by lia. auto.
    + rewrite H2ne, H1eq by lia. reflexivity.
    + rewrite H2ne, H1eq by lia. reflexivity.
    + intros q Hq b Hb. pose proof (chain_spri sl q sp tl b Hok Hb) as Hbq.
      assert (Hlp: spri (znth sl last dslot) = p).
      { apply (chain_spri sl p sp tl last Hok). rewrite Ec. exact Hlin. }
      apply chain_posl in Hb. assert (Hbr: 0 <= b < sz) by apply (posl_range tl (length sp) b Ht Hb).
      assert (Hbh: b <> hd) by (intros ->; exact (Hhn Hb)).
      assert (Hbl: b <> last) by (intros ->; congruence).
      rewrite H2ne, H1ne by lia. reflexivity.
    + rewrite Ec. cbn [app linked pnext plast]. split; [exact Hn|].
      apply (is_chain_snoc sl sl2 hd rest a last Hic).
      * rewrite <- Ec. apply chain_NoDup; [exact Ht|lia].
      * rewrite H2eq. reflexivity.
      * rewrite H2ne, H1eq by lia. reflexivity.
      * intros b Hb Hbl. pose proof (Hain b Hb) as Hbp.
        assert (Hbr: 0 <= b < sz) by apply (posl_range tl (length sp) b Ht Hbp).
        assert (Hbh: b <> hd) by (intros ->; exact (Hhn Hbp)).
        rewrite H2ne, H1ne by lia. reflexivity.
Qed.


(* ---------- read ---------- *)
Lemma take_first_decomp p sp : forall v sp', take_first p sp = Some (v, sp') ->
  exists pre post, sp = pre ++ Some (p, v) :: post /\ sp' = pre ++ None :: post /\ has_pri p pre = false.
Proof.
  induction sp as [|[[q w]|] r IH]; intros v sp' H; cbn [take_first] in H.
  - discriminate.
  - destruct (Z.eqb_spec q p) as [->|Hne].
    + injection H as <- <-. exists [], r. cbn. auto.
    + destruct (take_first p r) as [[x r']|]; [|discriminate]. injection H as <- <-.
      destruct (IH x r' eq_refl) as (pre & post & -> & -> & Hh).
      exists (Some (q, w) :: pre), post. cbn [app has_pri existsb]. rewrite (proj2 (Z.eqb_neq q p) Hne). cbn [orb]. auto.
  - destruct (take_first p r) as [[x r']|]; [|discriminate]. injection H as <- <-.
    destruct (IH x r' eq_refl) as (pre & post & -> & -> & Hh).
    exists (None :: pre), post. cbn [app has_pri existsb orb]. auto.
Qed.

Lemma take_first_none p sp : take_first p sp = None -> has_pri p sp = false.
Proof.
  induction sp as [|[[q w]|] r IH]; intros H; cbn [take_first has_pri existsb] in *.
  - reflexivity.
  - destruct (q =? p); [discriminate|]. destruct (take_first p r) as [[x r']|]; [discriminate|]. cbn [orb]. apply IH, eq_refl.
  - destruct (take_first p r) as [[x r']|]; [discriminate|]. cbn [orb]. apply IH, eq_refl.
Qed.

Lemma Rw_read_gen sl prf hd tl pre post p v :
  Rw sl prf hd tl (pre ++ Some (p, v) :: post) -> has_pri p pre = false -> 0 <= p < mx ->
  let a := adv tl (length pre) in
  let pr := znth prf p dref in
  let s := znth sl a dslot in
  pnext pr = a /\ sval s = v /\ 0 <= a < sz /\ (a = tl <-> pre = []) /\
  Rw (zset sl a {| sval := sval s; snext := INVALID_REF; spri := INVALID_PRI |})
     (zset prf p {| pnext := snext s; plast := (if snext s =? INVALID_REF then INVALID_REF else plast pr) |})
     hd tl (pre ++ None :: post).
Proof.
  intros H Hpre Hp a pr s.
  pose proof H as [Ht Hl Hh Hs Hpr Hok Hch].
  assert (Ha: 0 <= a < sz) by apply (adv_range _ _ Ht).
  rewrite app_length in Hl. cbn [length] in Hl.
  assert (Hnd: ~ In a (posl tl (length pre) ++ posl (nxt a) (length post))).
  { pose proof (posl_NoDup (length pre + S (length post)) tl Ht ltac:(lia)) as Hnd.
    rewrite posl_app in Hnd. cbn [posl] in Hnd. apply NoDup_remove_2 in Hnd. exact Hnd. }
  assert (Hrng: forall b, In b (posl tl (length pre) ++ posl (nxt a) (length post)) -> 0 <= b < sz).
  { intros b Hb. apply in_app_iff in Hb as [Hb|Hb].
    - apply (posl_range tl (length pre) b Ht Hb).
    - apply (posl_range (nxt a) (length post) b (nxt_range a) Hb). }
  set (sl' := zset sl a {| sval := sval s; snext := INVALID_REF; spri := INVALID_PRI |}).
  assert (Hsame: forall b, In b (posl tl (length pre) ++ posl (nxt a) (length post)) -> znth sl' b dslot = znth sl b dslot).
  { intros b Hb. pose proof (Hrng b Hb). apply znth_zset_neq; [lia|lia|]. intros <-. exact (Hnd Hb). }
  assert (Hnew: znth sl' a dslot = {| sval := sval s; snext := INVALID_REF; spri := INVALID_PRI |}).
  { apply znth_zset_eq. rewrite Hs. lia. }
  apply slots_ok_app in Hok. destruct Hok as [Hok1 [Hc Hok2]]. fold a in Hc, Hok2.
  destruct Hc as (Hcp & Hcv & _).
  pose proof (Hch p Hp) as Hlp. rewrite chain_app in Hlp. fold a in Hlp.
  rewrite (proj2 (chain_nil_iff p pre tl) Hpre) in Hlp. cbn [app chain is_pri] in Hlp. rewrite Z.eqb_refl in Hlp.
  cbn [linked] in Hlp. fold pr in Hlp. destruct Hlp as [Hpn Hic].
  split; [exact Hpn|]. split; [exact Hcv|]. split; [exact Ha|]. split.
  { split.
    - intros E. destruct pre as [|y pre']; [reflexivity|]. exfalso. revert E. unfold a.
      apply adv_neq; [exact Ht|cbn [length]; lia|cbn [length] in Hl |- *; lia].
    - intros ->. reflexivity. }
  constructor.
  - exact Ht.
  - rewrite app_length. cbn [length]. exact Hl.
  - rewrite Hh, !app_length. reflexivity.
  - unfold sl'. now rewrite zset_length.
  - now rewrite zset_length.
  - apply slots_ok_app. fold a. split; [|split].
    + apply (slots_ok_ext sl sl' pre tl); [|exact Hok1]. intros b Hb.
      rewrite Hsame by (apply in_app_iff; left; exact Hb). auto.
    + cbn [cell_ok]. rewrite Hnew. reflexivity.
    + apply (slots_ok_ext sl sl' post (nxt a)); [|exact Hok2]. intros b Hb.
      rewrite Hsame by (apply in_app_iff; right; exact Hb). auto.
  - intros q Hq. rewrite chain_app. fold a. cbn [chain is_pri].
    destruct (Z.eqb_spec p q) as [<-|Hne].
    + rewrite znth_zset_eq by (rewrite Hpr; lia).
      rewrite (proj2 (chain_nil_iff p pre tl) Hpre). cbn [app].
      assert (Hin: forall b, In b (chain p (nxt a) post) -> In b (posl tl (length pre) ++ posl (nxt a) (length post))).
      { intros b Hb. apply in_app_iff. right. apply (chain_posl _ _ _ _ Hb). }
      destruct (chain p (nxt a) post) as [|b r] eqn:Ec; cbn [is_chain linked pnext plast] in *.
      * destruct Hic as [Hsn _]. fold s in Hsn. rewrite Hsn, Z.eqb_refl. auto.
      * destruct Hic as [Hsn Hic]. fold s in Hsn. rewrite Hsn.
        assert (Hb: 0 <= b < sz) by (apply Hrng, Hin; left; reflexivity).
        rewrite (proj2 (Z.eqb_neq b INVALID_REF)) by (unfold INVALID_REF; lia).
        split; [reflexivity|]. apply (is_chain_ext sl sl'); [|exact Hic].
        intros c Hcin. now rewrite (Hsame c (Hin c Hcin)).
    + rewrite znth_zset_neq by lia.
      pose proof (Hch q Hq) as Hlq. rewrite chain_app in Hlq. fold a in Hlq. cbn [chain is_pri] in Hlq.
      rewrite (proj2 (Z.eqb_neq p q) Hne) in Hlq.
      apply (linked_ext sl sl'); [|exact Hlq]. intros b Hb. rewrite Hsame; [reflexivity|].
      apply in_app_iff in Hb. apply in_app_iff. destruct Hb as [Hb|Hb]; [left|right]; apply (chain_posl _ _ _ _ Hb).
Qed.


(* ---------- operations on the record ---------- *)
Lemma read_ok r sp p0 p : R r sp -> eff_pri r p0 = p -> 0 <= p < mx ->
  match take_first p sp with
  | Some (v, sp') => exists r', pring_read_pri r p0 = (r', Some v) /\ R r' (strip sp')
  | None => pring_read_pri r p0 = (r, None)
  end.
Proof.
  intros (Hps & Hpm & H & Hlive) He Hp. unfold pring_read_pri. cbv zeta. rewrite He.
  destruct r as [ps pm hd tl sl prf]. cbn [psize pmax phead ptail pslots prefs] in *. subst ps pm.
  destruct (take_first p sp) as [[v sp']|] eqn:Et.
  - destruct (take_first_decomp _ _ _ _ Et) as (pre & post & -> & -> & Hpre).
    destruct (Rw_read_gen sl prf hd tl pre post p v H Hpre Hp) as (Hpn & Hv & Ha & Htl & Hnew).
    rewrite Hpn. rewrite (proj2 (Z.eqb_neq _ INVALID_REF)) by (unfold INVALID_REF; lia).
    eexists. split; [rewrite <- Hv; reflexivity|].
    split; [reflexivity|]. split; [reflexivity|]. cbn [psize pmax phead ptail pslots prefs].
    split; [|apply strip_head_live].
    match goal with |- Rw _ _ _ ?t _ => assert (Ht': t = strip_pos tl (pre ++ None :: post)) end.
    { destruct (Z.eqb_spec (adv tl (length pre)) tl) as [E|E].
      - apply Htl in E. subst pre. cbn [app strip_pos length adv] in *.
        change ((tl + 1) mod sz) with (nxt tl).
        destruct H as [Ht Hl Hh Hs Hpr Hok Hch]. cbn [length adv slots_ok] in *.
        apply advance_strip; [apply nxt_range|lia|exact Hh|apply Hok|lia].
      - destruct pre as [|[y|] pre']; cbn [app strip_pos].
        + exfalso. apply E, Htl. reflexivity.
        + reflexivity.
        + destruct Hlive. }
    rewrite Ht'. apply Rw_strip. exact Hnew.
  - apply take_first_none in Et. rewrite (Rw_pnext _ _ _ _ _ p H Hp), Et. reflexivity.
Qed.

Lemma eff_range p0 : 0 <= p0 <= 255 -> 0 <= eff mx p0 < mx.
Proof. intros H. unfold eff. destruct (Z.geb_spec p0 mx); lia. Qed.

Lemma step_ok r sp o : R r sp -> pop_ok o ->
  snd (pring_step r o) = snd (pspec_step sz mx sp o) /\ R (fst (pring_step r o)) (fst (pspec_step sz mx sp o)).
Proof.
  intros HR Ho. pose proof HR as (Hps & Hpm & H & Hlive).
  destruct o as [p0 v|p0| | | |p0]; cbn [pring_step pspec_step pop_ok] in *.
  - (* add *)
    pose proof (eff_range p0 Ho) as Hp.
    assert (He: eff_pri r p0 = eff mx p0) by (unfold eff_pri, eff; now rewrite Hpm).
    unfold pring_add. cbv zeta. rewrite He.
    destruct r as [ps pm hd tl sl prf]. cbn [psize pmax phead ptail pslots prefs] in *. subst ps pm.
    assert (Hfull: ((hd + 1) mod sz =? tl) = negb (Z.of_nat (length sp) <? sz - 1)).
    { destruct H as [Ht Hl Hh _ _ _ _]. subst hd. rewrite adv_mod by exact Ht.
      rewrite Zplus_mod_idemp_l. rewrite <- Z.add_assoc. rewrite mod_add_small by lia.
      destruct (Z.ltb_spec (Z.of_nat (length sp)) (sz - 1)); cbn [negb];
        [apply Z.eqb_neq|apply Z.eqb_eq]; destruct (Z.ltb_spec (tl + (Z.of_nat (length sp) + 1)) sz); lia. }
    rewrite Hfull. destruct (Z.ltb_spec (Z.of_nat (length sp)) (sz - 1)) as [Hlt|Hge]; cbn [negb fst snd].
    + split; [reflexivity|]. split; [reflexivity|]. split; [reflexivity|]. cbn [psize pmax phead ptail pslots prefs].
      split; [|apply head_live_snoc, Hlive].
      apply (Rw_add sl prf hd tl sp (eff mx p0) v H Hp Hlt).
    + split; [reflexivity|]. exact HR.
  - (* read with priority *)
    pose proof (eff_range p0 Ho) as Hp.
    assert (He: eff_pri r p0 = eff mx p0) by (unfold eff_pri, eff; now rewrite Hpm).
    pose proof (read_ok r sp p0 _ HR He Hp) as Hrd.
    destruct (take_first (eff mx p0) sp) as [[v sp']|].
    + destruct Hrd as (r' & -> & HR'). cbn [fst snd]. auto.
    + rewrite Hrd. cbn [fst snd]. auto.
  - (* read lowest *)
    unfold pring_read_any. rewrite (Rw_first_nonempty _ _ _ _ _ H).
    destruct (lowest (Z.to_nat mx) 0 sp) as [p|] eqn:El; cbn [fst snd]; [|auto].
    destruct (lowest_some _ _ _ _ El) as [Hp _].
    assert (He: eff_pri r p = p).
    { unfold eff_pri. rewrite Hpm. destruct (Z.geb_spec p mx); lia. }
    pose proof (read_ok r sp p p HR He ltac:(lia)) as Hrd.
    destruct (take_first p sp) as [[v sp']|].
    + destruct Hrd as (r' & -> & HR'). cbn [fst snd]. auto.
    + rewrite Hrd. cbn [fst snd]. auto.
  - (* clear *)
    cbn [fst snd]. split; [reflexivity|]. unfold pring_clear.
    split; [exact Hps|]. split; [exact Hpm|]. cbn [psize pmax phead ptail pslots prefs].
    split; [|exact I]. rewrite Hpm. apply Rw_empty. apply (rw_sl _ _ _ _ _ H).
  - (* count *)
    cbn [fst snd]. split; [|exact HR]. unfold pring_count. cbv zeta. rewrite Hps.
    now rewrite (Rw_count _ _ _ _ _ H).
  - (* is_empty *)
    cbn [fst snd]. split; [|exact HR]. unfold pring_is_empty. rewrite Hpm. f_equal.
    destruct (Z.geb_spec p0 mx) as [Hge|Hlt].
    + apply (Rw_head_eq _ _ _ _ _ H).
    + apply (Rw_pnext _ _ _ _ _ p0 H). lia.
Qed.

Lemma run_ok ops : forall r sp, R r sp -> Forall pop_ok ops ->
  snd (pring_run r ops) = snd (pspec_run sz mx sp ops).
Proof.
  induction ops as [|o ops IH]; intros r sp HR Hok; cbn [pring_run pspec_run].
  - reflexivity.
  - apply Forall_cons_iff in Hok as [Ho Hok].
    destruct (step_ok r sp o HR Ho) as (Hout & HR').
    destruct (pring_step r o) as [r1 x]. destruct (pspec_step sz mx sp o) as [s1 y].
    cbn [fst snd] in *. subst y. specialize (IH r1 s1 HR' Hok).
    destruct (pring_run r1 ops) as [r2 xs]. destruct (pspec_run sz mx s1 ops) as [s2 ys].
    cbn [snd] in *. now rewrite IH.
Qed.

End PR.

Lemma clamp_pri_range m : 0 <= m <= 255 -> 1 <= clamp_pri m <= 254.
Proof. intros H. unfold clamp_pri. destruct (Z.ltb_spec m 1); [lia|]. destruct (Z.eqb_spec m 255); lia. Qed.

Lemma clamp_size_range s : s <= 65535 -> 3 <= clamp_size s <= 65535.
Proof. intros H. unfold clamp_size. destruct (Z.ltb_spec s 3); lia. Qed.

Theorem pring_refines : pring_refines_stmt.
Proof.
  intros s m ops Hs Hm Hok.
  pose proof (clamp_size_range s Hs) as Hsz. pose proof (clamp_pri_range m Hm) as Hmx.
  apply (run_ok (clamp_size s) (clamp_pri m) Hsz Hmx ops (pring_new s m) [] ); [|exact Hok].
  unfold pring_new. split; [reflexivity|]. split; [reflexivity|]. cbn [psize pmax phead ptail pslots prefs].
  split; [|exact I]. apply Rw_empty; try assumption. apply repeat_length.
Qed.
Print Assumptions pring_refines.
