(* C16 proofs, part D: UTF-8 text through a UCS-2 variable-length field and back. *)
From Coq Require Import ZArith List Bool Lia.
From N2kV Require Import Base.Res Base.ListAux Model.TextDefs Spec.TextSpec Proofs.TextProofsA Proofs.TextProofsB Proofs.TextProofsC.
Import ListNotations ResNotations.
Local Open Scope Z_scope.

Local Ltac Zify.zify_post_hook ::= Z.div_mod_to_equations.

(* ---------- cursor into a string ---------- *)
Definition at_ (s:list Z) (p:Z) (r:list Z) : Prop := exists pre, s = pre ++ r /\ Z.of_nat (length pre) = p.

Lemma at_0 s : at_ s 0 s.
Proof. exists []. split; reflexivity. Qed.

Lemma at_app s p a r q : at_ s p (a ++ r) -> q = p + Z.of_nat (length a) -> at_ s q r.
Proof.
  intros (pre & Hs & Hp) Hq. exists (pre ++ a). split; [rewrite <- app_assoc; exact Hs|rewrite app_length; lia].
Qed.

Lemma at_len s p r : at_ s p r -> Z.of_nat (length s) = p + Z.of_nat (length r) /\ 0 <= p.
Proof. intros (pre & -> & <-). rewrite app_length. lia. Qed.

Lemma at_rd s p r : at_ s p r -> rd s p = Ok (match r with [] => 0 | c :: _ => c end).
Proof.
  intros (pre & -> & <-). unfold rd.
  destruct (Z.ltb_spec (Z.of_nat (length pre)) 0) as [Hlt|_]; [lia|].
  rewrite Nat2Z.id. rewrite nth_error_app2 by lia. rewrite Nat.sub_diag.
  destruct r as [|c r']; cbn [nth_error].
  - rewrite app_nil_r, Z.eqb_refl. reflexivity.
  - reflexivity.
Qed.

(* ---------- shape of an encoded code point ---------- *)
Definition cont (b:Z) : Prop := 128 <= b < 192.

Lemma scalar_range c : scalar c -> 1 <= c < 1114112.
Proof. unfold scalar. lia. Qed.

(* lead byte with its announced length, continuation bytes behind it *)
Lemma enc_cp_shape c : scalar c ->
  exists b0 tl, enc_cp c = b0 :: tl /\ lead_len b0 = Z.of_nat (length (enc_cp c)) /\ 1 <= b0 <= 255 /\ Forall cont tl /\
                (length tl <= 3)%nat /\ (c < 128 <-> tl = []).
Proof.
  intros Hc. apply scalar_range in Hc. unfold enc_cp.
  destruct (Z.ltb_spec c 128).
  { exists c, []. unfold lead_len. destruct (Z.ltb_spec c 128); [|lia]. cbn [length]. repeat split; try lia; try constructor. }
  destruct (Z.ltb_spec c 2048).
  { eexists _, _. split; [reflexivity|]. unfold lead_len, cont.
    repeat match goal with |- context [if ?x <? ?y then _ else _] => destruct (Z.ltb_spec x y); try lia end.
    cbn [length]. repeat split; try lia; try discriminate. repeat constructor; lia. }
  destruct (Z.ltb_spec c 65536).
  { eexists _, _. split; [reflexivity|]. unfold lead_len, cont.
    repeat match goal with |- context [if ?x <? ?y then _ else _] => destruct (Z.ltb_spec x y); try lia end.
    cbn [length]. repeat split; try lia; try discriminate. repeat constructor; lia. }
  eexists _, _. split; [reflexivity|]. unfold lead_len, cont.
  repeat match goal with |- context [if ?x <? ?y then _ else _] => destruct (Z.ltb_spec x y); try lia end.
  cbn [length]. repeat split; try lia; try discriminate. repeat constructor; lia.
Qed.

Lemma cont_is_cont b : cont b -> is_cont b = true.
Proof. unfold cont, is_cont. intros H. destruct (Z.leb_spec 128 b); [|lia]. destruct (Z.ltb_spec b 192); [|lia]. reflexivity. Qed.

Lemma cont_cstring tl : Forall cont tl -> cstring tl.
Proof. intros H. eapply Forall_impl; [|exact H]. unfold cont. cbn beta. intros b Hb. lia. Qed.

Lemma enc_cp_cstring c : scalar c -> cstring (enc_cp c).
Proof.
  intros Hc. destruct (enc_cp_shape c Hc) as (b0 & tl & E & _ & Hb & Hcont & _). rewrite E.
  constructor; [lia|]. apply cont_cstring. exact Hcont.
Qed.

Lemma utf8_cstring cps : Forall scalar cps -> cstring (utf8 cps).
Proof.
  induction cps as [|c cps IH]; intros H; [constructor|].
  unfold utf8. cbn [flat_map]. apply Forall_app. split.
  - apply enc_cp_cstring. exact (Forall_inv H).
  - apply IH. exact (Forall_inv_tail H).
Qed.

Lemma utf8_cons c cps : utf8 (c :: cps) = enc_cp c ++ utf8 cps.
Proof. reflexivity. Qed.

(* ---------- N2kUTF8CharBytes on a complete character ---------- *)
Lemma char_bytes_go_full s p tl : Forall cont tl -> forall rest bytes n,
  at_ s (p + bytes) (tl ++ rest) -> n = length tl ->
  char_bytes_go s p n bytes = Ok (bytes + Z.of_nat (length tl)).
Proof.
  intros Hc. induction tl as [|b tl IH]; intros rest bytes n Hat Hn; subst n; cbn [length char_bytes_go].
  - f_equal. lia.
  - rewrite (at_rd _ _ _ Hat). cbn [app bind]. rewrite (cont_is_cont b (Forall_inv Hc)).
    rewrite (IH (Forall_inv_tail Hc) rest (bytes + 1) (length tl)); [f_equal; lia| |reflexivity].
    apply (at_app s (p + bytes) [b] (tl ++ rest)); [exact Hat|cbn [length]; lia].
Qed.

Lemma char_bytes_full s p c rest : scalar c -> at_ s p (enc_cp c ++ rest) ->
  char_bytes s p (Z.of_nat (length (enc_cp c))) = Ok (Z.of_nat (length (enc_cp c))).
Proof.
  intros Hc Hat. destruct (enc_cp_shape c Hc) as (b0 & tl & E & _ & _ & Hcont & _). rewrite E in *.
  unfold char_bytes. cbn [length]. rewrite Nat2Z.inj_succ.
  replace (Z.to_nat (Z.succ (Z.of_nat (length tl)) - 1)) with (length tl) by lia.
  rewrite (char_bytes_go_full s p tl Hcont rest 1 (length tl)); [f_equal; lia| |reflexivity].
  apply (at_app s p [b0] (tl ++ rest)); [exact Hat|cbn [length]; lia].
Qed.

(* ---------- one character of N2kUTF8ToUCS2 on well-formed UTF-8 ---------- *)
Lemma ucs2_char_utf8 s p c rest : scalar c -> at_ s p (enc_cp c ++ rest) ->
  exists b0, rd s p = Ok b0 /\ b0 <> 0 /\ ucs2_char s p b0 = Ok (bmp_repl c, Z.of_nat (length (enc_cp c))).
Proof.
  intros Hc Hat. pose proof (char_bytes_full s p c rest Hc Hat) as Hcb.
  pose proof (scalar_range c Hc) as Hr.
  destruct (enc_cp_shape c Hc) as (b0 & tl & E & Hll & Hb0 & _). exists b0.
  pose proof (at_rd _ _ _ Hat) as Hrd. rewrite E in Hrd. cbn [app] in Hrd.
  split; [exact Hrd|]. split; [lia|].
  unfold ucs2_char. rewrite Hll.
  unfold enc_cp in *. unfold bmp_repl.
  destruct (Z.ltb_spec c 128).
  { injection E as <- <-. cbn [length Z.of_nat Pos.of_succ_nat Z.eqb Pos.eqb]. Show.
