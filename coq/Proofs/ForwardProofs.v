(* Proofs of the forwarding statements of C17 (Spec/ForwardSpec.v): corollaries of the encoder/reader theorems of
   Proofs/ActisenseProofs.v plus a case analysis of the decision model. *)
From Coq Require Import ZArith List Bool Lia.
From N2kV Require Import Base.Res Model.ActisenseDefs Model.ForwardDefs Spec.ActisenseSpec Spec.ForwardSpec Proofs.ActisenseProofs.
Import ListNotations ResNotations.
Local Open Scope Z_scope.

(* ---------- F1. the decision table ---------- *)
Theorem forward_decision_table : forward_decision_table_stmt.
Proof.
  intros en own_f sys_f known_f mode own_src system known received Hm.
  unfold is_mode in Hm. cbn [In] in Hm.
  destruct Hm as [<-|[<-|[<-|[<-|[<-|[]]]]]];
    destruct en, own_f, sys_f, known_f, own_src, system, known, received; reflexivity.
Qed.

(* ---------- runs of the reader over a concatenation, at the level of the checked model ---------- *)
Lemma run_app now a : forall s b,
  run now s (a ++ b) = (r1 <- run now s a ;; r2 <- run now (fst r1) b ;; Ok (fst r2, snd r1 ++ snd r2)).
Proof.
  induction a as [|x a IH]; intros s b.
  - cbn [app run bind fst snd]. destruct (run now s b) as [[s2 m2]| |]; reflexivity.
  - cbn [app run]. destruct (step now s x) as [[s1 o]| |]; cbn [bind fst snd]; [|reflexivity|reflexivity].
    rewrite IH. destruct (run now s1 a) as [[s2 m2]| |]; cbn [bind fst snd]; [|reflexivity|reflexivity].
    destruct (run now s2 b) as [[s3 m3]| |]; cbn [bind fst snd]; [|reflexivity|reflexivity].
    destruct o; reflexivity.
Qed.

Lemma bytes_frame m : wf_msg m -> bytes (frame m).
Proof.
  intros Hwf. destruct (wf_consistent 0 0 m Hwf) as (Hc & _).
  unfold frame, framed. apply bytes_app. split; [repeat constructor; unfold ESC, STX; lia|].
  apply bytes_app. split; [apply esc_bytes; exact Hc|repeat constructor; unfold ESC, ETX; lia].
Qed.

Lemma idle_mid_escape s : idle s -> mid_escape s = false.
Proof. intros (Hc & _). unfold mid_escape. rewrite Hc. reflexivity. Qed.

(* the existing round-trip theorem, restated from an arbitrary reachable state *)
Lemma frame_from_reachable now s m : reachable now s -> mid_escape s = false -> wf_msg m ->
  exists s', encode m = Ok (frame m) /\ run now s (frame m) = Ok (s', [m]) /\ idle s' /\ reachable now s'.
Proof.
  intros Hr Hmid Hwf.
  pose proof Hwf as (Hpgn & _ & _ & _ & _ & _ & Hlen).
  destruct (encode_frame m ltac:(lia) Hlen) as [Henc _].
  destruct Hr as (mem & d & l0 & ms0 & Hg & Hl0 & Hrun0).
  destruct (decode_encode now mem d l0 s ms0 m Hg Hl0 Hrun0 Hmid Hwf) as (out & s' & Henc' & Hrun1 & Hidle).
  rewrite Henc in Henc'. injection Henc' as <-.
  exists s'. split; [exact Henc|].
  pose proof Hrun1 as Hrun2. rewrite run_app, Hrun0 in Hrun2. cbn [bind fst snd] in Hrun2.
  destruct (run now s (frame m)) as [[s2 m2]| |] eqn:E; cbn [bind fst snd] in Hrun2; try discriminate.
  injection Hrun2 as E1 E2. apply app_inv_head in E2. subst s2 m2.
  split; [reflexivity|]. split; [exact Hidle|].
  exists mem, d, (l0 ++ frame m), (ms0 ++ [m]). split; [exact Hg|]. split; [|exact Hrun1].
  apply bytes_app. split; [exact Hl0|apply bytes_frame; exact Hwf].
Qed.

(* ---------- F2. one forwarded message ---------- *)
Theorem forward_roundtrip : forward_roundtrip_stmt.
Proof.
  intros now s c is_own known system received m. split.
  - intros Hd Hr Hmid Hwf.
    destruct (frame_from_reachable now s m Hr Hmid Hwf) as (s' & Henc & Hrun & Hidle & Hr').
    exists s'. unfold forwarded_bytes. rewrite Hd. split; [exact Henc|]. split; [exact Hrun|]. split; [exact Hidle|exact Hr'].
  - intros Hd. unfold forwarded_bytes. rewrite Hd. reflexivity.
Qed.

(* ---------- F3. the whole stream ---------- *)
Theorem forward_stream : forward_stream_stmt.
Proof.
  intros now s c l. revert s.
  induction l as [|i l IH]; intros s Hr Hmid Hall.
  - exists [], s. cbn [stream_bytes run]. unfold forwarded_msgs. cbn [filter map]. split; [reflexivity|]. split; [reflexivity|]. split; assumption.
  - pose proof (Forall_inv Hall) as Hi. pose proof (Forall_inv_tail Hall) as Hl. cbv beta in Hi.
    unfold forwarded_msgs. cbn [stream_bytes filter]. unfold item_bytes, forwarded_bytes.
    unfold item_forwarded in Hi. unfold item_forwarded at 1.
    destruct (forward_decision c (i_own i) (i_known i) (i_system i) (i_received i)) eqn:Hd.
    + destruct (frame_from_reachable now s (i_msg i) Hr Hmid (Hi eq_refl)) as (s1 & Henc & Hrun & Hidle & Hr1).
      destruct (IH s1 Hr1 (idle_mid_escape s1 Hidle) Hl) as (out & s' & Hsb & Hrun' & Hmid' & Hr').
      exists (frame (i_msg i) ++ out), s'. rewrite Henc, Hsb. cbn [bind map].
      split; [reflexivity|]. split; [|split; assumption].
      rewrite run_app, Hrun. cbn [bind fst snd]. rewrite Hrun'. cbn [bind fst snd app]. reflexivity.
    + destruct (IH s Hr Hmid Hl) as (out & s' & Hsb & Hrun' & Hmid' & Hr').
      exists out, s'. rewrite Hsb. cbn [bind app]. split; [reflexivity|]. split; [exact Hrun'|]. split; assumption.
Qed.

Print Assumptions forward_decision_table.
Print Assumptions forward_roundtrip.
Print Assumptions forward_stream.
