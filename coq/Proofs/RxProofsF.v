(* C02, part F: the former counter-example to capacity-counting completeness (now a regression witness), and the relation between runs and sent messages. *)
From Coq Require Import ZArith List Bool Lia Permutation.
From N2kV Require Import Base.ListAux Model.CanId Model.Sched Model.PgnClass Model.NodeDefs Model.NodeRxDefs Gen.GenTables Gen.GenConsts
  Spec.SendSpec Spec.RxSpec Proofs.SendProofs Proofs.RxProofsA Proofs.RxProofsB Proofs.RxProofsC Proofs.RxProofsD Proofs.RxProofsE.
Import ListNotations.
Local Open Scope Z_scope.

(* ---------------- the former counter-example to completeness by counting keys (stale duplicate slot) ---------------- *)
Definition wit_cfg : rcfg :=
  {| c_only_known := false; c_iso_handler := None; c_prodinfo := []; c_confinfo := []; c_hb_on := false;
     c_inst1 := []; c_inst2 := []; c_manuf := []; c_inst_changed := false |}.
Definition wit_x : Z := 234358026.   (* priority 3, PGN 129029, source 10 *)
Definition wit_k : Z := 234488843.   (* priority 3, PGN 129540, source 11 *)
Definition wit_q : list rxframe :=
  [ mkf wit_x [0; 10; 0; 1; 2; 3; 4; 5];           (* sender 10, message 1, frame 0 *)
    mkf wit_k [0; 10; 20; 21; 22; 23; 24; 25];     (* sender 11, message 1, frame 0 - its second frame is lost *)
    mkf wit_x [1; 6; 7; 8; 9; 255; 255; 255];      (* sender 10, message 1 complete: its slot (0) is freed *)
    mkf wit_k [32; 10; 40; 41; 42; 43; 44; 45];    (* sender 11, message 2, frame 0: formerly stored in slot 0, below the stale slot 1; now it takes slot 1 over *)
    mkf wit_x [32; 10; 60; 61; 62; 63; 64; 65];    (* sender 10, message 2, frame 0: formerly refused (both slots taken) *)
    mkf wit_k [33; 46; 47; 48; 49; 255; 255; 255]; (* sender 11, message 2 complete *)
    mkf wit_x [33; 66; 67; 68; 69; 255; 255; 255]  (* sender 10, message 2, last frame *) ].
Definition wit_node : rnode :=
  with_rxq (with_open (cold_node true 0 5000 40 2 no_lists [mk_dev true 22 1 []] [[]] wit_cfg) 3 0) wit_q.

(* since the repair of FindFreeCANMsgIndex both messages of sender 10 are handed over (regression witness of finding 'complete-stale') *)
Lemma wit_delivered :
  fp_dlv (snd (rx_loop gf_none 20 wit_node)) =
    [ {| m_pri := 3; m_pgn := 129029; m_src := 10; m_dst := 255; m_data := [0; 1; 2; 3; 4; 5; 6; 7; 8; 9]; m_tp := false |};
      {| m_pri := 3; m_pgn := 129540; m_src := 11; m_dst := 255; m_data := [40; 41; 42; 43; 44; 45; 46; 47; 48; 49]; m_tp := false |};
      {| m_pri := 3; m_pgn := 129029; m_src := 10; m_dst := 255; m_data := [60; 61; 62; 63; 64; 65; 66; 67; 68; 69]; m_tp := false |} ].
Proof. vm_compute. reflexivity. Qed.

(* ---------------- runs and sent messages ---------------- *)
Lemma mkf_fields prio pgn src dst b : id_args_ok prio pgn src dst -> (pdu1 pgn = true -> pgn mod 256 = 0) ->
  let f := mkf (to_can_id prio pgn src dst) b in
  fpri f = prio /\ fpgn f = pgn /\ fsrc f = src /\ fdst f = (if pdu1 pgn then dst else 255).
Proof.
  intros Ha Hp. cbv zeta. unfold fpri, fpgn, fsrc, fdst, mkf. cbn [r_id]. rewrite (id_decode prio pgn src dst Ha Hp). auto.
Qed.
Lemma chunk_mkf id b k : length b = 8%nat -> chunk k (mkf id b) = skipn k b.
Proof.
  intros L. unfold chunk, mkf. cbn [r_len r_buf]. apply firstn_all2. rewrite skipn_length. lia.
Qed.
Lemma skipn_1_tl {A} (l:list A) : skipn 1 l = tl l.
Proof. destruct l; reflexivity. Qed.

(* the continuation data of a run whose frame number q+k is the frame number q+k of G *)
Lemma cdata_frames fs id (F:list (list Z)) : Forall (fun f => length f = 8%nat) F -> forall rest q,
  (forall k, (k < length rest)%nat -> nth_error fs (nth k rest 0%nat) = nth_error (map (mkf id) F) (q + k)%nat) ->
  (q + length rest <= length F)%nat ->
  cdata fs rest = concat (map (@tl Z) (firstn (length rest) (skipn q F))).
Proof.
  intros H8. induction rest as [|i rest IH]; intros q Hk Hl; [reflexivity|]. cbn [cdata length] in *.
  pose proof (Hk 0%nat ltac:(lia)) as H0. cbn [nth] in H0. rewrite Nat.add_0_r in H0. rewrite H0.
  destruct (nth_error F q) as [b|] eqn:Eb; [|apply nth_error_None in Eb; lia].
  rewrite (map_nth_error (mkf id) _ _ Eb).
  assert (Hs : skipn q F = b :: skipn (S q) F).
  { clear -Eb. revert q Eb. induction F as [|x F IH]; intros [|q] E; cbn in *; try discriminate; [injection E as ->; reflexivity|]. apply IH. exact E. }
  rewrite Hs. cbn [firstn map concat]. rewrite chunk_mkf, skipn_1_tl by (rewrite Forall_forall in H8; apply H8; eapply nth_error_In; eauto).
  f_equal. apply IH; [|lia]. intros k Hk'. specialize (Hk (S k) ltac:(lia)). cbn [nth] in Hk. rewrite Hk. f_equal. lia.
Qed.

Lemma concat_map_firstn_prefix {A} (T:list (list A)) n : exists Y, concat (map (@tl A) T) = concat (map (@tl A) (firstn n T)) ++ Y.
Proof.
  exists (concat (map (@tl A) (skipn n T))). rewrite <- concat_app, <- map_app, firstn_skipn. reflexivity.
Qed.

Theorem runs_are_sent_partial : runs_are_sent_partial_stmt.
Proof.
  intros prio pgn src dst sid payload fs m idx Ha Hp Hsid Hlen Hbytes (i0 & rest & f0 & -> & B & C & D & E & F & G & H & I & J) Hfr.
  cbv zeta in J. destruct J as (J1 & J2 & _).
  pose proof (fp_frames_ok sid payload Hsid Hlen Hbytes) as FO. cbv zeta in FO. destruct FO as [_ [Fl [F8 [_ [Fn [pad [Fp _]]]]]]].
  set (FR := fp_frames (Z.shiftl sid 5) payload) in *. set (id := to_can_id prio pgn src dst) in *.
  assert (Hne : exists b T, FR = b :: T) by (unfold FR, fp_frames; eauto). destruct Hne as (b0 & T & EF).
  rewrite EF in *. cbn [hd tl] in *.
  assert (L0 : length b0 = 8%nat) by (inversion F8; auto).
  assert (F8T : Forall (fun f => length f = 8%nat) T) by (inversion F8; auto).
  (* the first frame *)
  pose proof (Hfr 0%nat ltac:(cbn; lia)) as H0. cbn [nth map nth_error] in H0. rewrite B in H0. injection H0 as ->.
  destruct (mkf_fields prio pgn src dst b0 Ha Hp) as (P1 & P2 & P3 & P4). fold id in P1, P2, P3, P4.
  split; [|repeat split; congruence].
  (* the data *)
  assert (Hrest : forall k, (k < length rest)%nat -> nth_error fs (nth k rest 0%nat) = nth_error (map (mkf id) T) (0 + k)%nat).
  { intros k Hk. specialize (Hfr (S k) ltac:(cbn [length]; lia)). cbn [nth map nth_error] in Hfr. exact Hfr. }
  assert (HlT : (0 + length rest <= length T)%nat).
  { destruct rest as [|x rest'] eqn:Er; [cbn; lia|]. rewrite <- Er in *. destruct (Nat.le_gt_cases (length rest) (length T)); [lia|]. exfalso.
    specialize (Hrest (length T) ltac:(lia)).
    assert (In (nth (length T) rest 0%nat) rest) by (apply nth_In; lia).
    pose proof (conts_bound _ _ _ _ _ _ _ I _ H1) as Hb. apply nth_error_Some in Hb. rewrite Hrest in Hb. apply Hb. apply nth_error_None. rewrite map_length. lia. }
  rewrite (cdata_frames fs id T F8T rest 0 Hrest HlT) in *. cbn [skipn] in *.
  rewrite chunk_mkf in * by exact L0.
  unfold fbyte, mkf in J1, J2. cbn [r_buf] in J1, J2. rewrite Fn in J1, J2. rewrite J2.
  destruct (concat_map_firstn_prefix T (length rest)) as (Y & EY).
  set (X := skipn 2 b0 ++ concat (map (@tl Z) (firstn (length rest) T))) in *.
  assert (EX : payload ++ pad = X ++ Y).
  { unfold X. rewrite <- app_assoc, <- EY. destruct b0 as [|x0 [|x1 b0']]; cbn in L0; try lia. cbn [skipn]. cbn [app] in Fp. cbn [hd] in Fp. inversion Fp. auto. }
  rewrite firstn_length in J1. rewrite firstn_firstn. unfold MAXLEN in *.
  rewrite Nat.min_l by lia. rewrite Nat2Z.id.
  replace (firstn (length payload) X) with (firstn (length payload) (X ++ Y)) by (apply firstn_app_short; lia).
  rewrite <- EX. rewrite firstn_app, Nat.sub_diag, firstn_all. cbn. apply app_nil_r.
Qed.

Lemma conts_nth fs pgn src dst b0 : forall rest q, conts fs pgn src dst b0 q rest ->
  forall k, (k < length rest)%nat -> exists f, nth_error fs (nth k rest 0%nat) = Some f /\ fbyte f 0 = b0 + q + Z.of_nat k /\ Z.land (fbyte f 0) 31 <> 0.
Proof.
  induction rest as [|i rest IH]; intros q H k Hk; cbn [length] in Hk; [lia|]. cbn [conts] in H. destruct H as [(f & A & _ & _ & _ & B & C) H].
  destruct k as [|k]; cbn [nth].
  - exists f. repeat split; auto. lia.
  - destruct (IH (q + 1) H k ltac:(lia)) as (f' & A' & B' & C'). exists f'. repeat split; auto. lia.
Qed.
Lemma mod8_close x y : x mod 8 = y mod 8 -> y <= x < y + 8 -> x = y.
Proof. intros H R. pose proof (Z.div_mod x 8 ltac:(lia)). pose proof (Z.div_mod y 8 ltac:(lia)). lia. Qed.
Lemma hd_nth0 (l:list Z) : nth 0 l 0 = hd 0 l.
Proof. destruct l; reflexivity. Qed.

Lemma nth_error_map_inv {A B} (f:A -> B) l k y : nth_error (map f l) k = Some y -> exists x, nth_error l k = Some x /\ y = f x.
Proof. revert k. induction l as [|a l IH]; intros [|k] H; cbn in *; try discriminate. - injection H as <-. eauto. - apply IH. exact H. Qed.

Theorem runs_are_sent : runs_are_sent_stmt.
Proof.
  intros prio pgn src dst s0 payloads fs m idx js ns Ha Hp Hs0 Hpay id FJ Ljs Lns Hfr Hord Hal j.
  pose proof FJ as (i0 & rest & f0 & Eidx & B & C & D & E & F & G & H & I & J).
  (* what every frame of the run says in its first byte *)
  assert (Hbyte : forall k, (k < length idx)%nat -> exists g, nth_error fs (nth k idx 0%nat) = Some g /\ fbyte g 0 = fbyte f0 0 + Z.of_nat k /\
                    (k <> 0%nat -> Z.land (fbyte g 0) 31 <> 0)).
  { intros k Hk. subst idx. destruct k as [|k]; cbn [nth].
    - exists f0. repeat split; auto; try lia; try congruence.
    - cbn [length] in Hk. destruct (conts_nth _ _ _ _ _ _ _ I k ltac:(lia)) as (g & A1 & A2 & A3). exists g. repeat split; auto; try lia. }
  (* ... and what the sender put there *)
  assert (Hsent : forall k, (k < length idx)%nat -> exists g, nth_error fs (nth k idx 0%nat) = Some g /\
                    fbyte g 0 = 32 * ((s0 + Z.of_nat (nth k js 0%nat)) mod 8) + Z.of_nat (nth k ns 0%nat) /\ (nth k ns 0 < 32)%nat).
  { intros k Hk. destruct (Hbyte k Hk) as (g & Hg & _). exists g. split; auto. destruct (Hfr k Hk) as [Hj Hn]. rewrite Hg in Hn. symmetry in Hn.
    unfold msg_frames in Hn. apply nth_error_map_inv in Hn. destruct Hn as (b & Hb & ->).
    rewrite Forall_forall in Hpay. destruct (Hpay (nth (nth k js 0%nat) payloads []) (nth_In _ _ Hj)) as [Pl Pb].
    pose proof (fp_frames_ok ((s0 + Z.of_nat (nth k js 0%nat)) mod 8) _ ltac:(apply Z.mod_pos_bound; lia) Pl Pb) as FO. cbv zeta in FO.
    destruct FO as [_ [_ [_ [Fc _]]]]. destruct (Fc _ _ Hb) as [Fc1 Fc2]. unfold frame_counter, frame_seqid in *.
    unfold fbyte, mkf. cbn [r_buf]. rewrite hd_nth0. pose proof (Z.div_mod (hd 0 b) 32 ltac:(lia)). pose proof (Z.mod_pos_bound (hd 0 b) 32 ltac:(lia)). split; lia. }
  (* counters and sequence ids agree with the first frame's *)
  destruct (Hsent 0%nat ltac:(subst idx; cbn; lia)) as (g0 & Hg0 & S0 & N0). subst idx. cbn [nth] in Hg0. rewrite B in Hg0. injection Hg0 as <-.
  assert (Hb0 : fbyte f0 0 mod 32 = 0) by (change 31 with (Z.ones 5) in H; rewrite Z.land_ones in H by lia; exact H).
  assert (Hk32 : (length rest <= 31)%nat).
  { destruct (Nat.le_gt_cases (length rest) 31); auto. exfalso. destruct (Hbyte 32%nat ltac:(cbn [length]; lia)) as (g & _ & A2 & A3).
    apply A3; [lia|]. change 31 with (Z.ones 5). rewrite Z.land_ones by lia. rewrite A2. change (2 ^ 5) with 32.
    rewrite Z.add_mod, Hb0 by lia. reflexivity. }
  assert (Hn0 : nth 0 ns 0%nat = 0%nat) by (rewrite S0 in Hb0; rewrite Z.add_mod, Z.mul_comm, Z.mod_mul in Hb0 by lia; rewrite Z.add_0_l, Z.mod_mod, Z.mod_small in Hb0 by lia; lia).
  assert (Hmono : forall a b, (a <= b)%nat -> (b < length (i0 :: rest))%nat -> (nth a js 0 <= nth b js 0)%nat).
  { intros a b Hab. induction Hab as [|b Hab IH]; intros Hb; [lia|]. specialize (IH ltac:(lia)). destruct (Hord b Hb) as [X|[X _]]; lia. }
  assert (Hall : forall k, (k < length (i0 :: rest))%nat -> nth k js 0%nat = j /\ nth k ns 0%nat = k).
  { intros k Hk. destruct (Hbyte k Hk) as (g & Hg & A2 & _). destruct (Hsent k Hk) as (g' & Hg' & A3 & A4). rewrite Hg in Hg'. injection Hg' as <-.
    cbn [length] in Hk. rewrite A2, S0, Hn0 in A3.
    pose proof (Z.mod_pos_bound (s0 + Z.of_nat (nth 0 js 0%nat)) 8 ltac:(lia)). pose proof (Z.mod_pos_bound (s0 + Z.of_nat (nth k js 0%nat)) 8 ltac:(lia)).
    assert (Es : (s0 + Z.of_nat (nth k js 0%nat)) mod 8 = (s0 + Z.of_nat (nth 0 js 0%nat)) mod 8) by lia.
    assert (En : nth k ns 0%nat = k) by lia. split; auto.
    pose proof (Hmono 0%nat k ltac:(lia) ltac:(cbn [length]; lia)). pose proof (Hmono k (length rest) ltac:(lia) ltac:(cbn [length]; lia)).
    cbn [length] in Hal. replace (S (length rest) - 1)%nat with (length rest) in Hal by lia.
    apply mod8_close in Es; [|unfold j in *; lia]. unfold j. lia. }
  split; [exact Hall|].
  (* now the run consists of the frames 0..n of sent message j *)
  assert (Hj : (j < length payloads)%nat) by (destruct (Hfr 0%nat ltac:(cbn; lia)) as [X _]; exact X).
  rewrite Forall_forall in Hpay. destruct (Hpay (nth j payloads []) (nth_In _ _ Hj)) as [Pl Pb].
  apply (runs_are_sent_partial prio pgn src dst ((s0 + Z.of_nat j) mod 8) (nth j payloads []) fs m (i0 :: rest) Ha Hp ltac:(apply Z.mod_pos_bound; lia) Pl Pb FJ).
  intros k Hk. destruct (Hall k Hk) as [E1 E2]. destruct (Hfr k Hk) as [_ X]. rewrite X, E1, E2. reflexivity.
Qed.

