(* C02, part F: the refutation witness for capacity-counting completeness, and the relation between runs and sent messages. *)
From Coq Require Import ZArith List Bool Lia Permutation.
From N2kV Require Import Base.ListAux Model.CanId Model.Sched Model.PgnClass Model.NodeDefs Model.NodeRxDefs Gen.GenTables Gen.GenConsts
  Spec.SendSpec Spec.RxSpec Proofs.SendProofs Proofs.RxProofsA Proofs.RxProofsB Proofs.RxProofsC Proofs.RxProofsD Proofs.RxProofsE.
Import ListNotations.
Local Open Scope Z_scope.

(* ---------------- completeness by counting keys is false: the stale duplicate slot ---------------- *)
Definition wit_cfg : rcfg :=
  {| c_only_known := false; c_iso_handler := None; c_prodinfo := []; c_confinfo := []; c_hb_on := false;
     c_inst1 := []; c_inst2 := []; c_manuf := []; c_inst_changed := false |}.
Definition wit_x : Z := 234358026.   (* priority 3, PGN 129029, source 10 *)
Definition wit_k : Z := 234488843.   (* priority 3, PGN 129540, source 11 *)
Definition wit_q : list rxframe :=
  [ mkf wit_x [0; 10; 0; 1; 2; 3; 4; 5];           (* sender 10, message 1, frame 0 *)
    mkf wit_k [0; 10; 20; 21; 22; 23; 24; 25];     (* sender 11, message 1, frame 0 - its second frame is lost *)
    mkf wit_x [1; 6; 7; 8; 9; 255; 255; 255];      (* sender 10, message 1 complete: its slot (0) is freed *)
    mkf wit_k [32; 10; 40; 41; 42; 43; 44; 45];    (* sender 11, message 2, frame 0: stored in slot 0, BELOW the stale slot 1 *)
    mkf wit_x [32; 10; 60; 61; 62; 63; 64; 65];    (* sender 10, message 2, frame 0: both slots taken - refused *)
    mkf wit_k [33; 46; 47; 48; 49; 255; 255; 255]; (* sender 11, message 2 complete *)
    mkf wit_x [33; 66; 67; 68; 69; 255; 255; 255]  (* sender 10, message 2, last frame: orphan *) ].
Definition wit_node : rnode :=
  with_rxq (with_open (cold_node true 0 5000 40 2 no_lists [mk_dev true 22 1 []] [[]] wit_cfg) 3 0) wit_q.

Theorem rx_complete_refuted : rx_complete_refuted_stmt.
Proof.
  exists wit_node, wit_q, {| m_pri := 3; m_pgn := 129029; m_src := 10; m_dst := 255; m_data := [60; 61; 62; 63; 64; 65; 66; 67; 68; 69]; m_tp := false |}.
  split; [split; [reflexivity|repeat constructor]|]. split; [reflexivity|]. split; [reflexivity|]. split.
  - intros f Hin. unfold wit_q in Hin. repeat (destruct Hin as [<-|Hin]; [vm_compute; auto|]). destruct Hin.
  - split.
    + exists (mkf wit_x [32; 10; 60; 61; 62; 63; 64; 65]), (mkf wit_x [33; 66; 67; 68; 69; 255; 255; 255]),
        [mkf wit_x [0; 10; 0; 1; 2; 3; 4; 5]; mkf wit_k [0; 10; 20; 21; 22; 23; 24; 25]; mkf wit_x [1; 6; 7; 8; 9; 255; 255; 255]; mkf wit_k [32; 10; 40; 41; 42; 43; 44; 45]],
        [mkf wit_k [33; 46; 47; 48; 49; 255; 255; 255]], [].
      split; [reflexivity|]. split; [repeat split; vm_compute; reflexivity|]. split; [repeat split; vm_compute; congruence|].
      split; [vm_compute; reflexivity|]. split; [vm_compute; reflexivity|].
      intros g [<-|[]] (_ & A & _). vm_compute in A. discriminate.
    + vm_compute. intros [H|[H|[]]]; discriminate.
Qed.
