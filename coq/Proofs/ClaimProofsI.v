(* C03, frame lemmas: on the ParseMessages / SendMsg path nothing but HandleISOAddressClaim, HandleCommandedAddress and
   StartAddressClaim writes N2kSource, the NAME or the indication, or arms a claim timer (relation addr_kept of Spec/ClaimSpec.v). *)
From Coq Require Import ZArith List Lia Bool Arith.
From N2kV Require Import Base.ListAux Model.CanId Model.Sched Model.PgnClass Model.NodeDefs Model.NodeRxDefs Gen.GenTables Gen.GenConsts
  Spec.SendSpec Spec.ClaimSpec Proofs.QueueProofs Proofs.SendProofs Proofs.HbProofsFrame Proofs.ClaimProofsC.
Import ListNotations.
Local Open Scope Z_scope.

(* ---------- the relation is a preorder ---------- *)
Lemma dev_kept_refl w now d : dev_kept w now d d.
Proof. split; [reflexivity|split; [reflexivity|left; split; reflexivity]]. Qed.
Lemma dev_kept_trans w now a b c : dev_kept w now a b -> dev_kept w now b c -> dev_kept w now a c.
Proof.
  intros (S1 & N1 & C1) (S2 & N2 & C2). split; [congruence|split; [congruence|]].
  destruct C1 as [[E1 T1]|(En & Ti & T1 & E1)]; destruct C2 as [[E2 T2]|(En2 & Ti2 & T2 & E2)].
  - left. split; congruence.
  - right. rewrite T1 in En2, Ti2. rewrite S1 in E2. tauto.
  - right. split; [exact En|split; [exact Ti|split; congruence]].
  - exfalso. rewrite T1 in En2. unfold sched_is_enabled in En2. rewrite Z.eqb_refl in En2. discriminate.
Qed.
Lemma ak_refl n : addr_kept n n.
Proof. unfold addr_kept. do 7 (split; [reflexivity|]). intros a. apply dev_kept_refl. Qed.
Lemma ak_trans a b c : addr_kept a b -> addr_kept b c -> addr_kept a c.
Proof.
  intros (A1&A2&A3&A4&A5&A6&A7&A8) (B1&B2&B3&B4&B5&B6&B7&B8). unfold addr_kept.
  do 7 (split; [congruence|]). intros k. eapply dev_kept_trans; [apply A8|]. rewrite <- A1, <- A2. apply B8.
Qed.
Lemma ak_upd_q n q d : addr_kept n (upd_q n q d).
Proof. unfold addr_kept, upd_q. cbn. do 7 (split; [reflexivity|]). intros a. apply dev_kept_refl. Qed.
Lemma ak_upd_dev n i d' : dev_kept (n_w64 n) (n_now n) (get_dev n i) d' -> addr_kept n (upd_dev n i d').
Proof.
  intros K. unfold addr_kept, upd_dev, zset, get_dev, znth in *. cbn [n_w64 n_now n_open n_mode n_pgn n_addr_changed n_devs].
  do 6 (split; [reflexivity|]). split; [apply set_nth_length'|]. intros a. rewrite nth_set_nth_cases.
  destruct (Nat.eqb_spec a (Z.to_nat i)) as [->|N]; cbn [andb]; [|apply dev_kept_refl].
  destruct (Nat.ltb (Z.to_nat i) (length (n_devs n))); [exact K|apply dev_kept_refl].
Qed.
Ltac dk := split; [reflexivity|split; [reflexivity|left; split; reflexivity]].
Ltac akd := first [apply ak_refl | apply ak_upd_q | (apply ak_upd_dev; dk)].

(* ---------- part 1 of the model: the send path ---------- *)
Lemma claim_started_ak n i : addr_kept n (fst (claim_started n i)).
Proof.
  unfold claim_started. destruct (sched_is_enabled _ _) eqn:En; [destruct (sched_is_time _ _ _) eqn:Ti|]; cbn [fst]; try apply ak_refl.
  apply ak_upd_dev. split; [reflexivity|split; [reflexivity|right]]. cbn [d_claim_timer d_claim_end]. tauto.
Qed.
Lemma gsc_ak n i p : addr_kept n (fst (get_sequence_counter n i p)).
Proof. unfold get_sequence_counter. brk; akd. Qed.
Lemma send_gate_ak n m i : addr_kept n (fst (send_gate n m i)).
Proof.
  unfold send_gate. cbv zeta. repeat match goal with |- context [if ?c then _ else _] => destruct c; cbn [fst]; try apply ak_refl end.
  all: match goal with |- context [claim_started ?nn ?j] =>
         let K := fresh "K" in pose proof (claim_started_ak nn j) as K; destruct (claim_started nn j) as [n1 cl]; cbn [fst] in K; cbv beta iota;
         match goal with |- context [if ?c then _ else _] => destruct c end; cbn [fst]; exact K end.
Qed.
Lemma send_msg0_ak n m i : addr_kept n (fst (fst (send_msg0 n m i))).
Proof.
  unfold send_msg0. pose proof (send_gate_ak n m i) as K. destruct (send_gate n m i) as [n1 [[[m' i'] id]|]]; cbn [fst] in *; [|exact K].
  destruct ((m_len m' <=? 8) && negb (is_fast_packet n1 m')).
  - destruct (send_frame _ _ _ _ _ _) as [[[q d] ev] ok]. cbn [fst]. eapply ak_trans; [exact K|apply ak_upd_q].
  - pose proof (gsc_ak n1 i' (m_pgn m')) as K2. destruct (get_sequence_counter n1 i' (m_pgn m')) as [n2 sc]. cbn [fst] in *.
    destruct (send_all _ _ _ _) as [[[q d] ev] ok]. cbn [fst]. eapply ak_trans; [exact K|]. eapply ak_trans; [exact K2|apply ak_upd_q].
Qed.
Lemma end_send_tp_ak n i : addr_kept n (end_send_tp n i).
Proof. unfold end_send_tp. apply ak_upd_dev. dk. Qed.
Lemma start_send_tp_ak n m i : addr_kept n (fst (fst (start_send_tp n m i))).
Proof.
  unfold start_send_tp. destruct (negb _); [apply ak_refl|]. destruct (d_tp_msg (get_dev n i)); [apply ak_refl|].
  set (n1 := upd_dev n i _). assert (K1: addr_kept n n1) by (unfold n1; apply ak_upd_dev; dk).
  destruct (negb (is_active_node n1)); cbn [fst]; [eapply ak_trans; [exact K1|apply end_send_tp_ak]|].
  pose proof (send_msg0_ak n1 (tpcm_start (if m_dst m =? 255 then c_TP_CM_BAM else c_TP_CM_RTS) (d_src (get_dev n i)) (m_dst m) m) i) as K2.
  destruct (send_msg0 n1 _ i) as [[n2 ev] ok]. cbn [fst] in *. destruct ok; cbn [fst].
  - eapply ak_trans; eassumption.
  - eapply ak_trans; [exact K1|]. eapply ak_trans; [exact K2|apply end_send_tp_ak].
Qed.
Lemma send_msg_ak n m i : addr_kept n (fst (fst (send_msg n m i))).
Proof.
  unfold send_msg. pose proof (send_gate_ak n m i) as K. destruct (send_gate n m i) as [n1 [[[m' i'] id]|]]; cbn [fst] in *; [|exact K].
  destruct (negb _ && m_tp m').
  - eapply ak_trans; [exact K|apply start_send_tp_ak].
  - apply send_msg0_ak.
Qed.
Lemma send_iso_address_claim_ak n dst i : addr_kept n (fst (send_iso_address_claim n dst i)).
Proof.
  unfold send_iso_address_claim. destruct (_ || _); [apply ak_refl|].
  set (i' := if (dst =? 255) && (i =? -1) then 0 else i).
  pose proof (send_msg_ak n (claim_msg (get_dev n i') dst) i') as K. destruct (send_msg n _ i') as [[n1 ev] ok]. exact K.
Qed.

(* ---------- part 2 of the model ---------- *)
Definition rk (r r':rnode) : Prop := addr_kept (rn r) (rn r').
Lemma rk_refl r : rk r r.  Proof. apply ak_refl. Qed.
Lemma rk_trans a b c : rk a b -> rk b c -> rk a c.  Proof. apply ak_trans. Qed.
Lemma rk_rn r r' : rn r' = rn r -> rk r r'.  Proof. unfold rk. intros ->. apply ak_refl. Qed.

(* chains of facts  addr_kept a b  in the context *)
Ltac kchain :=
  first [ apply ak_refl | eassumption |
          match goal with H : addr_kept ?a ?b |- addr_kept ?a ?c =>
            lazymatch b with a => fail | _ => apply (ak_trans a b c H); kchain end end ].
Ltac kfin := unfold rk in *; prj; kchain.

Lemma chk_dev_rk r i : rk r (chk_dev r i).  Proof. apply rk_rn. apply chk_dev_rn. Qed.
Lemma chk_slot_rn r i : rn (chk_slot r i) = rn r.  Proof. unfold chk_slot. destruct (_ && _); reflexivity. Qed.
Lemma chk_slot_rk r i : rk r (chk_slot r i).  Proof. apply rk_rn. apply chk_slot_rn. Qed.
Lemma rsend_rk r m i : rk r (fst (fst (rsend r m i))).
Proof. unfold rsend. pose proof (send_msg_ak (rn r) m i) as K. destruct (send_msg (rn r) m i) as [[n' ev] ok]. exact K. Qed.
Lemma rsend_rk' r m i r' ev ok : rsend r m i = (r', ev, ok) -> rk r r'.  Proof. eqf (rsend_rk r m i). Qed.
Lemma set_dev_tp_rk r i tp t sq : rk r (set_dev_tp r i tp t sq).
Proof. unfold set_dev_tp, rk. cbn [rn with_rn]. eapply ak_trans; [apply chk_dev_rk|]. apply ak_upd_dev. dk. Qed.
Lemma end_send_tp_r_rk r i : rk r (end_send_tp_r r i).
Proof. unfold end_send_tp_r, rk. cbn [rn with_rn]. eapply ak_trans; [apply chk_dev_rk|apply end_send_tp_ak]. Qed.
Lemma set_slot_rk r i s : rk r (set_slot r i s).
Proof. apply rk_rn. unfold set_slot. cbn [rn with_slots]. apply chk_slot_rn. Qed.

Ltac addk1 := repeat match goal with
  | |- context [chk_dev ?r ?i] => note (chk_dev_rk r i)
  | H : context [chk_dev ?r ?i] |- _ => note (chk_dev_rk r i)
  | |- context [chk_slot ?r ?i] => note (chk_slot_rk r i)
  | H : context [chk_slot ?r ?i] |- _ => note (chk_slot_rk r i)
  | |- context [set_dev_tp ?r ?i ?a ?b ?c] => note (set_dev_tp_rk r i a b c)
  | H : context [set_dev_tp ?r ?i ?a ?b ?c] |- _ => note (set_dev_tp_rk r i a b c)
  | |- context [end_send_tp_r ?r ?i] => note (end_send_tp_r_rk r i)
  | H : context [end_send_tp_r ?r ?i] |- _ => note (end_send_tp_r_rk r i)
  | |- context [set_slot ?r ?i ?s] => note (set_slot_rk r i s)
  | H : context [set_slot ?r ?i ?s] |- _ => note (set_slot_rk r i s)
  end.
Ltac fk1 H := apply rsend_rk' in H.
Ltac fkall1 := repeat match goal with H : _ = (_, _) |- _ => fk1 H end.

Lemma send_tpcm_cts_rk r pgn dst idev np nx : rk r (fst (send_tpcm_cts r pgn dst idev np nx)).
Proof. unfold send_tpcm_cts. brk; fkall1; addk1; kfin. Qed.
Lemma send_tpcm_cts_rk' r pgn dst idev np nx r' ev : send_tpcm_cts r pgn dst idev np nx = (r', ev) -> rk r r'.
Proof. eqf (send_tpcm_cts_rk r pgn dst idev np nx). Qed.
Lemma send_tpcm_endack_rk r pgn dst idev nb np : rk r (fst (send_tpcm_endack r pgn dst idev nb np)).
Proof. unfold send_tpcm_endack. brk; fkall1; addk1; kfin. Qed.
Lemma send_tpcm_endack_rk' r pgn dst idev nb np r' ev : send_tpcm_endack r pgn dst idev nb np = (r', ev) -> rk r r'.
Proof. eqf (send_tpcm_endack_rk r pgn dst idev nb np). Qed.
Lemma send_tpcm_abort_rk r pgn dst idev code : rk r (fst (send_tpcm_abort r pgn dst idev code)).
Proof. unfold send_tpcm_abort. brk; fkall1; addk1; kfin. Qed.
Lemma send_tpcm_abort_rk' r pgn dst idev code r' ev : send_tpcm_abort r pgn dst idev code = (r', ev) -> rk r r'.
Proof. eqf (send_tpcm_abort_rk r pgn dst idev code). Qed.
Lemma send_tpdt_rk r i : rk r (fst (fst (send_tpdt r i))).
Proof.
  unfold send_tpdt. match goal with |- context [rsend ?a ?b ?c] => pose proof (rsend_rk a b c) end. addk1. kfin.
Qed.
Lemma send_tpdt_rk' r i r' ev ok : send_tpdt r i = (r', ev, ok) -> rk r r'.  Proof. eqf (send_tpdt_rk r i). Qed.

Lemma send_tpdt_burst_rk k : forall r i, rk r (fst (fst (send_tpdt_burst k r i))).
Proof.
  induction k as [|k IH]; intros r i; cbn [send_tpdt_burst]; [apply rk_refl|].
  brk; try apply rk_refl.
  - match goal with H : send_tpdt _ _ = _ |- _ => apply send_tpdt_rk' in H end.
    match goal with H : send_tpdt_burst k ?a ?b = _ |- _ => pose proof (IH a b) as K; rewrite H in K end. kfin.
  - match goal with H : send_tpdt _ _ = _ |- _ => apply send_tpdt_rk' in H end. kfin.
Qed.
Lemma send_tpdt_burst_rk' k r i r' ev ok : send_tpdt_burst k r i = (r', ev, ok) -> rk r r'.
Proof. eqf (send_tpdt_burst_rk k r i). Qed.
Ltac fk2 H := first [ fk1 H | apply send_tpcm_cts_rk' in H | apply send_tpcm_endack_rk' in H | apply send_tpcm_abort_rk' in H
                    | apply send_tpdt_rk' in H | apply send_tpdt_burst_rk' in H ].
Ltac fkall2 := repeat match goal with H : _ = (_, _) |- _ => fk2 H end.

Lemma send_pending_tp_rk r i : rk r (fst (send_pending_tp r i)).
Proof. unfold send_pending_tp. brk; fkall2; addk1; kfin. Qed.
Lemma send_pending_tp_rk' r i r' ev : send_pending_tp r i = (r', ev) -> rk r r'.  Proof. eqf (send_pending_tp_rk r i). Qed.

Ltac htp_k := cbv zeta; brk; cbn [fst snd]; fkall2; addk1; kfin.
Lemma htp_rts_rk r src dst buf : rk r (snd (fst (fst (htp_rts r src dst buf)))).
Proof. unfold htp_rts. htp_k. Qed.
Lemma htp_cts_rk r src dst buf : rk r (snd (fst (fst (htp_cts r src dst buf)))).
Proof. unfold htp_cts. htp_k. Qed.
Lemma htp_ack_rk r src dst : rk r (snd (fst (fst (htp_ack r src dst)))).
Proof. unfold htp_ack. htp_k. Qed.
Lemma htp_dt_rk r src dst len buf : rk r (snd (fst (fst (htp_dt r src dst len buf)))).
Proof. unfold htp_dt. htp_k. Qed.
Lemma handle_tp_rk r pgn src dst len buf : rk r (snd (fst (fst (handle_tp r pgn src dst len buf)))).
Proof.
  rewrite handle_tp_split. cbv zeta.
  destruct (pgn =? c_TP_CM).
  - destruct (_ || _); [apply htp_rts_rk|]. destruct (_ =? c_TP_CM_CTS); [apply htp_cts_rk|]. destruct (_ || _); [apply htp_ack_rk|apply rk_refl].
  - destruct (pgn =? c_TP_DT); [apply htp_dt_rk|apply rk_refl].
Qed.
Lemma handle_tp_rk' r pgn src dst len buf h r' ev idx : handle_tp r pgn src dst len buf = (h, r', ev, idx) -> rk r r'.
Proof. intros E. pose proof (handle_tp_rk r pgn src dst len buf) as H. rewrite E in H. exact H. Qed.
Lemma mark_ready_rk r idx : rk r (fst (mark_ready r idx)).
Proof. unfold mark_ready. cbn [fst]. addk1. kfin. Qed.
Lemma mark_ready_rk' r idx r' j : mark_ready r idx = (r', j) -> rk r r'.  Proof. eqf (mark_ready_rk r idx). Qed.
Ltac fk3 H := first [ fk2 H | apply handle_tp_rk' in H | apply mark_ready_rk' in H | apply send_pending_tp_rk' in H ].
Ltac fkall3 := repeat match goal with H : _ = (_, _) |- _ => fk3 H end.
Lemma rx_frame_rk r f : rk r (fst (fst (rx_frame r f))).
Proof. unfold rx_frame. cbv zeta. brk; cbn [fst snd]; fkall3; addk1; kfin. Qed.
Lemma rx_frame_rk' r f r' ev idx : rx_frame r f = (r', ev, idx) -> rk r r'.  Proof. eqf (rx_frame_rk r f). Qed.

Lemma rsend_claim_rk r d i : rk r (fst (rsend_claim r d i)).
Proof. unfold rsend_claim. pose proof (send_iso_address_claim_ak (rn r) d i) as K. destruct (send_iso_address_claim (rn r) d i) as [n' ev]. exact K. Qed.
Lemma rsend_claim_rk' r d i r' ev : rsend_claim r d i = (r', ev) -> rk r r'.  Proof. eqf (rsend_claim_rk r d i). Qed.
Lemma set_pending_rk r i a b c : rk r (set_pending r i a b c).
Proof. apply rk_rn. unfold set_pending. cbn [rn with_devx]. apply chk_dev_rn. Qed.
Lemma claim_started_rk' n i n1 b : claim_started n i = (n1, b) -> addr_kept n n1.
Proof. intros E. pose proof (claim_started_ak n i) as K. rewrite E in K. exact K. Qed.
Ltac addk2 := addk1; repeat match goal with
  | |- context [set_pending ?r ?i ?a ?b ?c] => note (set_pending_rk r i a b c)
  | H : context [set_pending ?r ?i ?a ?b ?c] |- _ => note (set_pending_rk r i a b c)
  end.
Ltac fk4 H := first [ fk3 H | apply rsend_claim_rk' in H | apply claim_started_rk' in H ].
Ltac fkall4 := repeat match goal with H : _ = (_, _) |- _ => fk4 H end.
Lemma send_product_info_rk r i : rk r (fst (send_product_info r i)).
Proof. unfold send_product_info. brk; fkall4; addk2; kfin. Qed.
Lemma send_product_info_rk' r i r' ev : send_product_info r i = (r', ev) -> rk r r'.  Proof. eqf (send_product_info_rk r i). Qed.
Lemma send_config_info_rk r i : rk r (fst (send_config_info r i)).
Proof. unfold send_config_info. brk; fkall4; addk2; kfin. Qed.
Lemma send_config_info_rk' r i r' ev : send_config_info r i = (r', ev) -> rk r r'.  Proof. eqf (send_config_info_rk r i). Qed.
Ltac fk5 H := first [ fk4 H | apply send_product_info_rk' in H | apply send_config_info_rk' in H ].
Ltac fkall5 := repeat match goal with H : _ = (_, _) |- _ => fk5 H end.
Ltac addk3 := addk2; repeat match goal with
  | |- context [send_product_info ?r ?i] => note (send_product_info_rk r i)
  | |- context [send_config_info ?r ?i] => note (send_config_info_rk r i)
  | |- context [rsend_claim ?r ?d ?i] => note (rsend_claim_rk r d i)
  end.
Lemma respond_iso_request_rk r rq ad p i : rk r (fst (respond_iso_request r rq ad p i)).
Proof. unfold respond_iso_request. cbv zeta. brk; cbn [fst snd]; fkall5; addk3; kfin. Qed.
Lemma respond_iso_request_rk' r rq ad p i r' ev : respond_iso_request r rq ad p i = (r', ev) -> rk r r'.
Proof. eqf (respond_iso_request_rk r rq ad p i). Qed.
Lemma respond_all_rk k : forall r rq p i, rk r (fst (respond_all k r rq p i)).
Proof.
  induction k as [|k IH]; intros r rq p i; cbn [respond_all fst]; [apply rk_refl|].
  pose proof (respond_iso_request_rk r rq false p i) as K1. destruct (respond_iso_request r rq false p i) as [r1 ev1]. cbn [fst] in K1.
  pose proof (IH r1 rq p (i + 1)) as K2. destruct (respond_all k r1 rq p (i + 1)) as [r2 ev2]. cbn [fst] in *. eapply rk_trans; eassumption.
Qed.
Lemma handle_iso_request_rk r s : rk r (fst (handle_iso_request r s)).
Proof.
  unfold handle_iso_request. cbv zeta. destruct (_ && _); [apply rk_refl|]. destruct (_ =? 255); [apply respond_all_rk|apply respond_iso_request_rk].
Qed.

(* HandleReceivedSystemMessage: address claim, commanded address, or address data kept *)
Lemma handle_system_cases gf r s : gf_keeps_addr gf ->
  handle_system gf r s = handle_claim r (s_src s) (firstn (Z.to_nat (s_len s)) (s_data s)) \/
  handle_system gf r s = handle_commanded r s \/ rk r (fst (handle_system gf r s)).
Proof.
  intros Hgf. unfold handle_system. cbv zeta. destruct (_ || _); [right; right; apply rk_refl|].
  destruct (_ && _); [|right; right; apply rk_refl].
  destruct (_ =? 59904); [right; right; apply handle_iso_request_rk|].
  destruct (_ =? 60928); [left; reflexivity|]. destruct (_ =? 65240); [right; left; reflexivity|].
  destruct (_ =? 126208); [right; right; apply Hgf|right; right; apply rk_refl].
Qed.

(* pending information, heartbeat, queued frames *)
Lemma send_pending_info_dev_rk r i : rk r (fst (send_pending_info_dev r i)).
Proof. unfold send_pending_info_dev. cbv zeta. brk; cbn [fst snd]; brkh; fkall5; addk3; kfin. Qed.
Lemma send_pending_info_rk k : forall r i, rk r (fst (send_pending_info k r i)).
Proof.
  induction k as [|k IH]; intros r i; cbn [send_pending_info fst]; [apply rk_refl|].
  destruct (has_pending r i).
  - pose proof (send_pending_info_dev_rk r i) as K1. destruct (send_pending_info_dev r i) as [r1 ev1]. cbn [fst] in K1.
    pose proof (IH r1 (i + 1)) as K2. destruct (send_pending_info k r1 (i + 1)) as [r2 ev2]. cbn [fst] in *. eapply rk_trans; eassumption.
  - pose proof (IH r (i + 1)) as K2. destruct (send_pending_info k r (i + 1)) as [r2 ev2]. exact K2.
Qed.
Lemma millis64_rn r : rn (fst (millis64 r)) = rn r.
Proof. unfold millis64. destruct (w64 r); reflexivity. Qed.
Lemma millis64_rk' r r' t : millis64 r = (r', t) -> rk r r'.
Proof. intros E. apply rk_rn. pose proof (millis64_rn r) as K. rewrite E in K. exact K. Qed.
Ltac fk6 H := first [ fk5 H | apply millis64_rk' in H ].
Ltac fkall6 := repeat match goal with H : _ = (_, _) |- _ => fk6 H end.
Lemma send_heartbeat_dev_rk r i : rk r (fst (send_heartbeat_dev r i)).
Proof. unfold send_heartbeat_dev. cbv zeta. brk; cbn [fst snd]; fkall6; addk3; kfin. Qed.
Lemma send_heartbeat_rk k : forall r i, rk r (fst (send_heartbeat k r i)).
Proof.
  induction k as [|k IH]; intros r i; cbn [send_heartbeat fst]; [apply rk_refl|].
  pose proof (send_heartbeat_dev_rk r i) as K1. destruct (send_heartbeat_dev r i) as [r1 ev1]. cbn [fst] in K1.
  pose proof (IH r1 (i + 1)) as K2. destruct (send_heartbeat k r1 (i + 1)) as [r2 ev2]. cbn [fst] in *. eapply rk_trans; eassumption.
Qed.
Lemma rflush_rk r : rk r (fst (rflush r)).
Proof. unfold rflush. destruct (flush _ _) as [[[q d] ev] ok]. cbn [fst]. unfold rk. cbn [rn with_rn]. apply ak_upd_q. Qed.

(* ---------- paths ---------- *)
Lemma ap_rk r r' : rk r r' -> addr_path r r'.
Proof. intros K. eapply ap_keep; [exact K|apply ap_refl]. Qed.
Lemma ap_trans a b c : addr_path a b -> addr_path b c -> addr_path a c.
Proof.
  intros P Q. induction P as [r|r r' r'' K _ IH|r x d r'' _ IH|r s r'' _ IH]; [exact Q|eapply ap_keep; [exact K|apply IH; exact Q]|apply (ap_claim r x d); apply IH; exact Q|apply (ap_cmd r s); apply IH; exact Q].
Qed.
Lemma ap_rk_then a b c : rk a b -> addr_path b c -> addr_path a c.
Proof. intros K P. eapply ap_keep; eassumption. Qed.

Section WithGf.
Variable gf : rnode -> slot -> rnode * list event.
Hypothesis Hgf : gf_keeps_addr gf.

Lemma handle_system_path r s : addr_path r (fst (handle_system gf r s)).
Proof.
  destruct (handle_system_cases gf r s Hgf) as [E|[E|K]]; [rewrite E; eapply ap_claim; apply ap_refl|rewrite E; eapply ap_cmd; apply ap_refl|apply ap_rk; exact K].
Qed.
Lemma rx_loop_path : forall k r, addr_path r (fst (rx_loop gf k r)).
Proof.
  induction k as [|k IH]; intros r; cbn [rx_loop]; [apply ap_refl|].
  destruct (r_q r) as [|f rest]; [apply ap_refl|].
  pose proof (rx_frame_rk (with_rxq r rest) f) as K1. destruct (rx_frame (with_rxq r rest) f) as [[r1 ev1] idx]. cbn [fst] in K1.
  assert (K0: rk r r1) by (unfold rk in *; exact K1).
  destruct (idx <? nslots r1).
  - pose proof (handle_system_path (chk_slot r1 idx) (get_slot (chk_slot r1 idx) idx)) as P2.
    destruct (handle_system gf (chk_slot r1 idx) (get_slot (chk_slot r1 idx) idx)) as [r2 ev2]. cbn [fst] in P2.
    pose proof (IH (set_slot r2 idx (free_slot (get_slot r2 idx)))) as P3.
    destruct (rx_loop gf k (set_slot r2 idx (free_slot (get_slot r2 idx)))) as [r4 ev4]. cbn [fst] in *.
    eapply ap_rk_then; [exact K0|]. eapply ap_rk_then; [apply chk_slot_rk|]. eapply ap_trans; [exact P2|].
    eapply ap_rk_then; [apply set_slot_rk|exact P3].
  - pose proof (IH r1) as P3. destruct (rx_loop gf k r1) as [r4 ev4]. cbn [fst] in *. eapply ap_rk_then; eassumption.
Qed.
Lemma poll_path r : n_open (rn r) = 3 -> addr_path r (fst (poll gf r)).
Proof.
  intros O. unfold poll. apply Z.eqb_eq in O as Ob. rewrite Ob. cbn [andb negb]. rewrite Ob. cbn [negb].
  pose proof (rflush_rk r) as K1. destruct (rflush r) as [r2 ev1]. cbn [fst] in K1.
  pose proof (send_pending_info_rk (length (n_devs (rn r2))) r2 0) as K2. destruct (send_pending_info _ r2 0) as [r3 ev2]. cbn [fst] in K2.
  pose proof (rx_loop_path (Z.to_nat c_MaxReadFramesOnParse) r3) as P3. destruct (rx_loop gf _ r3) as [r4 ev3]. cbn [fst] in P3.
  eapply ap_rk_then; [exact K1|]. eapply ap_rk_then; [exact K2|]. eapply ap_trans; [exact P3|].
  destruct (is_active_node (rn r4)); cbn [fst]; [|apply ap_refl].
  pose proof (send_heartbeat_rk (length (n_devs (rn r4))) r4 0) as K4. destruct (send_heartbeat _ r4 0) as [r5 ev4]. cbn [fst] in *. apply ap_rk; exact K4.
Qed.
Lemma set_heartbeat_all_rn : forall k r i iv off, rn (set_heartbeat_all k r i iv off) = rn r.
Proof.
  induction k as [|k IH]; intros r i iv off; cbn [set_heartbeat_all]; [reflexivity|]. cbv zeta.
  pose proof (millis64_rn r) as M. destruct (millis64 r) as [rc t]. cbn [fst] in M.
  repeat match goal with |- context [if ?c then _ else _] => destruct c end; rewrite IH; cbn [rn with_devx with_devinfo_changed]; first [reflexivity|exact M].
Qed.
Lemma rstep_kept r o : n_open (rn r) = 3 ->
  match o with
  | RBase (OTick _) | RBase (OStartClaim _) | RPoll => True
  | _ => addr_kept (rn r) (rn (fst (rstep gf r o)))
  end.
Proof.
  intros O. apply Z.eqb_eq in O as Ob. destruct o as [[dt|p|i m| |i]| |f|iv off idev]; try exact I; cbn [rstep].
  - cbn [NodeDefs.step fst rn with_rn]. apply ak_upd_q.
  - rewrite Ob. cbn [NodeDefs.step]. pose proof (send_msg_ak (rn r) m i) as K. destruct (send_msg (rn r) m i) as [[n1 ev] ok]. cbn [fst rn with_rn] in *. exact K.
  - cbn [NodeDefs.step]. destruct (flush _ _) as [[[q d] ev] ok]. cbn [fst rn with_rn]. apply ak_upd_q.
  - cbn [fst rn with_rxq]. apply ak_refl.
  - destruct (_ && _); cbn [fst]; [apply ak_refl|]. destruct (idev <? 0); cbn [fst]; [rewrite set_heartbeat_all_rn; apply ak_refl|].
    destruct (idev <? dev_count (rn r)); cbn [fst]; [rewrite set_heartbeat_all_rn; apply ak_refl|apply ak_refl].
Qed.
End WithGf.

Theorem gf_none_keeps_addr : gf_none_keeps_addr_stmt.
Proof. intros r s. apply ak_refl. Qed.
Theorem d_src_frame : d_src_frame_stmt.
Proof. intros gf Hgf. split; [intros r O; apply poll_path; assumption|intros r o O; apply rstep_kept; assumption]. Qed.
Print Assumptions d_src_frame.
