(* C09 proofs, part B: the selection-field loop against the reference tables *)
From Coq Require Import ZArith List Bool Lia.
From N2kV Require Import Base.ListAux Model.Sched Model.NodeDefs Model.NodeRxDefs Model.GroupFnDefs Spec.GroupFnSpec Gen.GenTables Gen.GenConsts
  Proofs.GroupFnProofsA.
Import ListNotations.
Local Open Scope Z_scope.

(* ---------- small facts ---------- *)
Lemma cstr_ref_text l : cstr l = ref_text l.
Proof.
  unfold cstr. induction l as [|b r IH]; [reflexivity|]. cbn [takewhile ref_text].
  destruct (b =? 0); [reflexivity|]. destruct (b =? 255); [reflexivity|]. cbn [negb andb orb]. f_equal. exact IH.
Qed.
Lemma leqb_list_beq a b : leqb a b = list_beq a b.
Proof. reflexivity. Qed.
Lemma land_ones_w v w m : 0 <= w -> m = 2^w - 1 -> Z.land v m = v mod 2^w.
Proof. intros Hw ->. rewrite <- Z.land_ones by exact Hw. f_equal. rewrite Z.ones_equiv. lia. Qed.

Lemma tp_code_ref iv ov : tp_code iv ov None = if ref_interval_ok None iv ov then 0 else 1.
Proof. unfold tp_code, ref_interval_ok. rewrite !orb_false_r. reflexivity. Qed.
Lemma tp_code_ref_hb iv ov : tp_code iv ov (Some (60000, 1000, 6000)) = if ref_interval_ok heartbeat_limits iv ov then 0 else 1.
Proof. unfold tp_code, ref_interval_ok, heartbeat_limits. reflexivity. Qed.

Lemma get_byte_at1 d k v : bytes_at d k 1 = Some v -> get_byte d k = (le_val v, k + 1).
Proof.
  intros H. apply bytes_at_Some in H as (A & _ & C & ->). rewrite slice1 by lia. cbn [le_val fold_right].
  rewrite get_byte_in by lia. f_equal. lia.
Qed.

(* ---------- the loop ---------- *)
Definition fstep_ok (fs:fstep) (tab:Z -> option fkind) (d:list Z) : Prop :=
  forall idx mt f, byte_at d idx = Some f ->
    (tab f = None -> fs d idx mt = (1, idx + 1, false, true)) /\
    (forall k sz v, tab f = Some k -> value_size k d (idx + 1) = Some sz -> bytes_at d (idx + 1) sz = Some v ->
        fs d idx mt = (pair_code k v, idx + 1 + sz, mt && pair_match k v, false)).

Lemma code_ok_lit c : (c = 0 \/ c = 1 \/ c = 2 \/ c = 3 \/ c = 5) -> code_ok c.
Proof. unfold code_ok. lia. Qed.
Lemma pair_code_ok k v : code_ok (pair_code k v).
Proof. unfold pair_code, pec_ok, pec_out_of_range, code_ok. destruct (pair_match k v); lia. Qed.
Lemma pair_code_zero k v : (pair_code k v =? 0) = pair_match k v.
Proof. unfold pair_code, pec_ok, pec_out_of_range. destruct (pair_match k v); reflexivity. Qed.

Lemma Forall_snoc {A} (P:A -> Prop) l a : Forall P l -> P a -> Forall P (l ++ [a]).
Proof. intros F H. apply Forall_app. split; [exact F|constructor; [exact H|constructor]]. Qed.
Lemma snoc_length {A} (l:list A) a : Z.of_nat (length (l ++ [a])) = Z.of_nat (length l) + 1.
Proof. rewrite app_length. cbn [length]. lia. Qed.

Lemma req_loop_inv fs st d : st <> [] -> forall k i idx mt cs0 sel, Forall code_ok cs0 -> i = Z.of_nat (length cs0) ->
  req_loop fs k d false i idx mt true (st ++ pack cs0) sel = (st ++ pack (cs0 ++ repeat 2 k), mt, sel).
Proof.
  intros Hst. induction k as [|k IH]; intros i idx mt cs0 sel F ->; cbn [req_loop repeat]; [rewrite app_nil_r; reflexivity|].
  rewrite orb_true_r. cbn [negb andb]. rewrite ack_add_pack by assumption.
  rewrite (IH _ idx mt (cs0 ++ [2]) sel); [|apply Forall_snoc; [exact F|apply code_ok_lit; lia]|symmetry; apply snoc_length].
  rewrite <- app_assoc. reflexivity.
Qed.
Lemma req_loop_inv_mt fs d bc : forall k i idx mt ack sel, snd (fst (req_loop fs k d bc i idx mt true ack sel)) = mt.
Proof.
  induction k as [|k IH]; intros; cbn [req_loop]; [reflexivity|].
  destruct (mt || negb bc); [|reflexivity]. cbn [negb andb]. apply IH.
Qed.

Lemma req_loop_ref fs tab d st : fstep_ok fs tab d -> st <> [] ->
  forall n pos i mt cs0 sel cs, ref_codes tab d pos n = Some cs -> Forall code_ok cs0 -> i = Z.of_nat (length cs0) ->
    Forall code_ok cs /\ length cs = n /\
    exists sel', req_loop fs n d false i pos mt false (st ++ pack cs0) sel = (st ++ pack (cs0 ++ cs), mt && all_ok cs, sel').
Proof.
  intros OK Hst. induction n as [|n IH]; intros pos i mt cs0 sel cs R F ->.
  - cbn [ref_codes] in R. injection R as <-. split; [constructor|]. split; [reflexivity|]. exists sel. cbn [req_loop all_ok forallb].
    rewrite app_nil_r, andb_true_r. reflexivity.
  - cbn [ref_codes] in R. destruct (byte_at d pos) as [f|] eqn:Bf; [|discriminate].
    destruct (OK pos mt f Bf) as [OK1 OK2]. cbn [req_loop]. rewrite orb_true_r.
    destruct (tab f) as [k|] eqn:T.
    + destruct (value_size k d (pos + 1)) as [sz|] eqn:VS; [|discriminate].
      destruct (bytes_at d (pos + 1) sz) as [v|] eqn:BV; [|discriminate].
      destruct (ref_codes tab d (pos + 1 + sz) n) as [cs'|] eqn:R'; [|discriminate]. cbn [option_map] in R. injection R as <-.
      rewrite (OK2 k sz v eq_refl VS BV). rewrite ack_add_pack by assumption.
      destruct (IH (pos + 1 + sz) (Z.of_nat (length cs0) + 1) (mt && pair_match k v) (cs0 ++ [pair_code k v])
                   (if negb false && (fst (get_byte d pos) =? 1) then fst (get_byte d (snd (get_byte d pos))) else sel) cs' R')
        as (F' & L' & sel' & E); [apply Forall_snoc; [exact F|apply pair_code_ok]|symmetry; apply snoc_length|].
      split; [constructor; [apply pair_code_ok|exact F']|]. split; [cbn [length]; lia|]. exists sel'. rewrite E.
      rewrite <- app_assoc. cbn [app all_ok forallb]. rewrite pair_code_zero, andb_assoc. reflexivity.
    + injection R as <-. rewrite (OK1 eq_refl). rewrite ack_add_pack by assumption.
      rewrite (req_loop_inv fs st d Hst n _ (pos + 1) false (cs0 ++ [1]));
        [|apply Forall_snoc; [exact F|apply code_ok_lit; lia]|symmetry; apply snoc_length].
      split; [constructor; [apply code_ok_lit; unfold pec_invalid_field; lia|apply Forall_repeat, code_ok_lit; unfold pec_unable; lia]|].
      split; [cbn [length]; rewrite repeat_length; reflexivity|]. eexists. rewrite <- app_assoc.
      cbn [app all_ok forallb]. unfold pec_invalid_field, pec_unable. cbn [Z.eqb Pos.eqb andb]. rewrite andb_false_r. reflexivity.
Qed.

Lemma req_loop_ref_mt fs tab d bc : fstep_ok fs tab d ->
  forall n pos i mt ack sel cs, ref_codes tab d pos n = Some cs ->
    snd (fst (req_loop fs n d bc i pos mt false ack sel)) = mt && all_ok cs.
Proof.
  intros OK. induction n as [|n IH]; intros pos i mt ack sel cs R.
  - cbn [ref_codes] in R. injection R as <-. cbn [req_loop all_ok forallb fst snd]. rewrite andb_true_r. reflexivity.
  - cbn [ref_codes] in R. destruct (byte_at d pos) as [f|] eqn:Bf; [|discriminate].
    destruct (OK pos mt f Bf) as [OK1 OK2]. cbn [req_loop].
    destruct (mt || negb bc) eqn:Go.
    2:{ cbn [fst snd]. apply orb_false_iff in Go as [-> _]. reflexivity. }
    destruct (tab f) as [k|] eqn:T.
    + destruct (value_size k d (pos + 1)) as [sz|] eqn:VS; [|discriminate].
      destruct (bytes_at d (pos + 1) sz) as [v|] eqn:BV; [|discriminate].
      destruct (ref_codes tab d (pos + 1 + sz) n) as [cs'|] eqn:R'; [|discriminate]. cbn [option_map] in R. injection R as <-.
      rewrite (OK2 k sz v eq_refl VS BV). rewrite (IH _ _ _ _ _ cs' R'). cbn [all_ok forallb]. rewrite pair_code_zero, andb_assoc. reflexivity.
    + injection R as <-. rewrite (OK1 eq_refl). rewrite req_loop_inv_mt. cbn [all_ok forallb]. unfold pec_invalid_field. cbn [Z.eqb Pos.eqb andb].
      rewrite andb_false_r. reflexivity.
Qed.

(* ---------- the four tables ---------- *)
Ltac no_none := let H := fresh in intros H; discriminate H.

Lemma num_step (g:list Z -> Z -> Z * Z) size width mask cur cur' d i1 mt :
  (forall v, bytes_at d i1 size = Some v -> g d i1 = (le_val v, i1 + size)) -> 0 <= width -> mask = 2^width - 1 -> cur = cur' ->
  forall k sz v, Some (KNum size width cur') = Some k -> value_size k d i1 = Some sz -> bytes_at d i1 sz = Some v ->
    (let '(x, i2) := g d i1 in let '(c, m) := mnum x mask cur mt in (c, i2, m, false)) = (pair_code k v, i1 + sz, mt && pair_match k v, false).
Proof.
  intros G Hw Hm Hc k sz v Hk Hs Hv. injection Hk as <-. cbn [value_size] in Hs. injection Hs as <-.
  rewrite (G v Hv). unfold mnum, pair_code, pair_match. rewrite (land_ones_w _ width mask Hw Hm), Hc.
  destruct (le_val v mod 2 ^ width =? cur'); [rewrite andb_true_r|rewrite andb_false_r]; reflexivity.
Qed.
Lemma any_step d i1 mt : forall k sz v, Some KAny = Some k -> value_size k d i1 = Some sz -> bytes_at d i1 sz = Some v ->
  (0, snd (get_byte d i1), mt, false) = (pair_code k v, i1 + sz, mt && pair_match k v, false).
Proof.
  intros k sz v Hk Hs Hv. injection Hk as <-. cbn [value_size] in Hs. injection Hs as <-.
  rewrite (get_byte_at1 _ _ _ Hv). cbn [snd pair_code pair_match]. unfold pair_code. cbn [pair_match]. rewrite andb_true_r. reflexivity.
Qed.

(* NAME fields: the model's byte arithmetic against the bit positions of the standard *)
Lemma nm_unique_bits nm : nm_unique nm = name_bits nm 0 21.
Proof. unfold nm_unique, name_bits. rewrite Z.pow_0_r, Z.div_1_r. reflexivity. Qed.
Lemma nm_manuf_bits nm : nm_manuf nm = name_bits nm 21 11.
Proof. reflexivity. Qed.
Lemma nm_lower_bits nm : nm_devinst nm mod 8 = name_bits nm 32 3.
Proof. unfold nm_devinst, name_bits. change (2^3) with 8. generalize (nm / 2^32). intros y. Z.div_mod_to_equations. lia. Qed.
Lemma nm_upper_bits nm : (nm_devinst nm / 8) mod 32 = name_bits nm 35 5.
Proof.
  unfold nm_devinst, name_bits. change (2^35) with (2^32 * 8). rewrite <- Z.div_div by lia. change (2^5) with 32.
  generalize (nm / 2^32). intros y. Z.div_mod_to_equations. lia.
Qed.
Lemma nm_function_bits nm : nm_function nm = name_bits nm 40 8.
Proof. reflexivity. Qed.
Lemma nm_class_bits nm : nm_class nm = name_bits nm 49 7.
Proof.
  unfold nm_class, name_bits. change (2^49) with (2^48 * 2). rewrite <- Z.div_div by lia. change (2^7) with 128.
  generalize (nm / 2^48). intros y. Z.div_mod_to_equations. lia.
Qed.
Lemma nm_sys_bits nm : nm_sysinst nm = name_bits nm 56 4.
Proof. unfold nm_sysinst, nm_b7, name_bits. change (2^4) with 16. generalize (nm / 2^56). intros y. Z.div_mod_to_equations. lia. Qed.
Lemma nm_industry_bits nm : nm_industry nm = name_bits nm 60 3.
Proof.
  unfold nm_industry, nm_b7, name_bits. change (2^60) with (2^56 * 16). rewrite <- Z.div_div by lia. change (2^3) with 8.
  generalize (nm / 2^56). intros y. Z.div_mod_to_equations. lia.
Qed.

Lemma fstep_ok_60928 e d : fstep_ok (fstep_60928 (e_name e)) (req_table e 60928) d.
Proof.
  intros idx mt f Hf. unfold fstep_60928. rewrite (get_byte_at _ _ _ Hf). unfold req_table. cbn [Z.eqb Pos.eqb]. cbv zeta.
  destruct (f =? 1); [split; [no_none|apply num_step; [apply get_u24_at|lia|reflexivity|apply nm_unique_bits]]|].
  destruct (f =? 2); [split; [no_none|apply num_step; [apply get_u16_at|lia|reflexivity|apply nm_manuf_bits]]|].
  destruct (f =? 3); [split; [no_none|apply num_step; [apply get_byte_at1|lia|reflexivity|apply nm_lower_bits]]|].
  destruct (f =? 4); [split; [no_none|apply num_step; [apply get_byte_at1|lia|reflexivity|apply nm_upper_bits]]|].
  destruct (f =? 5); [split; [no_none|apply num_step; [apply get_byte_at1|lia|reflexivity|apply nm_function_bits]]|].
  destruct (f =? 6); [split; [no_none|apply any_step]|].
  destruct (f =? 7); [split; [no_none|apply num_step; [apply get_byte_at1|lia|reflexivity|apply nm_class_bits]]|].
  destruct (f =? 8); [split; [no_none|apply num_step; [apply get_byte_at1|lia|reflexivity|apply nm_sys_bits]]|].
  destruct (f =? 9); [split; [no_none|apply num_step; [apply get_byte_at1|lia|reflexivity|apply nm_industry_bits]]|].
  destruct (f =? 10); [split; [no_none|apply any_step]|].
  split; [intros _; reflexivity|intros k sz v H; discriminate H].
Qed.

Lemma fstep_ok_126464 e d : fstep_ok fstep_126464 (req_table e 126464) d.
Proof.
  intros idx mt f Hf. unfold fstep_126464. rewrite (get_byte_at _ _ _ Hf). unfold req_table. cbn [Z.eqb Pos.eqb].
  destruct (f =? 1).
  - split; [no_none|]. intros k sz v Hk Hs Hv. injection Hk as <-. cbn [value_size] in Hs. injection Hs as <-.
    rewrite (get_byte_at1 _ _ _ Hv). unfold pair_code. cbn [pair_match].
    destruct ((le_val v =? 0) || (le_val v =? 1)); [rewrite andb_true_r|rewrite andb_false_r]; reflexivity.
  - split; [intros _; reflexivity|intros k sz v H; discriminate H].
Qed.

(* product information *)
Lemma le_val_slice2 p k : 0 <= k -> le_val (slice p k 2) = znth p k 0 + 256 * znth p (k + 1) 0.
Proof.
  intros Hk. replace (znth p k 0) with (znth (skipn (Z.to_nat k) p) 0 0) by (rewrite znth_skipn by lia; f_equal; lia).
  rewrite <- (znth_skipn p k 1 0) by lia. unfold slice. destruct (skipn (Z.to_nat k) p) as [|a [|b r]].
  all: unfold le_val, znth; change (Z.to_nat 2) with 2%nat; change (Z.to_nat 1) with 1%nat; change (Z.to_nat 0) with 0%nat; cbn [firstn nth fold_right]; lia.
Qed.
Lemma le_val_slice1 p k : 0 <= k -> le_val (slice p k 1) = znth p k 0.
Proof.
  intros Hk. replace (znth p k 0) with (znth (skipn (Z.to_nat k) p) 0 0) by (rewrite znth_skipn by lia; f_equal; lia).
  unfold slice. destruct (skipn (Z.to_nat k) p) as [|a r].
  all: unfold le_val, znth; change (Z.to_nat 1) with 1%nat; change (Z.to_nat 0) with 0%nat; cbn [firstn nth fold_right]; lia.
Qed.
Lemma str_step cur cur' d i1 mt : cur = cur' ->
  forall k sz v, Some (KFix cur') = Some k -> value_size k d i1 = Some sz -> bytes_at d i1 sz = Some v ->
    (let '(q, i2) := get_fixstr d i1 in let '(c, m) := mstr q cur mt in (c, i2, m, false)) = (pair_code k v, i1 + sz, mt && pair_match k v, false).
Proof.
  intros Hc k sz v Hk Hs Hv. injection Hk as <-. cbn [value_size] in Hs. injection Hs as <-.
  apply bytes_at_Some in Hv as (A & _ & C & ->). unfold get_fixstr. rewrite <- len_dlen.
  replace (i1 + 32 <=? len d) with true by (symmetry; apply Z.leb_le; lia).
  unfold mstr, pair_code. cbn [pair_match]. rewrite leqb_list_beq, cstr_ref_text, <- slice_sub, Hc.
  destruct (list_beq (ref_text (slice d i1 32)) cur'); [rewrite andb_true_r|rewrite andb_false_r]; reflexivity.
Qed.
Lemma fstep_ok_126996 e d : fstep_ok (fstep_126996 (e_prod e)) (req_table e 126996) d.
Proof.
  intros idx mt f Hf. unfold fstep_126996. rewrite (get_byte_at _ _ _ Hf). unfold req_table. cbn [Z.eqb Pos.eqb]. cbv zeta.
  destruct (f =? 1); [split; [no_none|apply num_step; [apply get_u16_at|lia|reflexivity|symmetry; apply (le_val_slice2 _ 0); lia]]|].
  destruct (f =? 2); [split; [no_none|apply num_step; [apply get_u16_at|lia|reflexivity|symmetry; apply (le_val_slice2 _ 2); lia]]|].
  destruct (f =? 3); [split; [no_none|apply str_step; apply cstr_ref_text]|].
  destruct (f =? 4); [split; [no_none|apply str_step; apply cstr_ref_text]|].
  destruct (f =? 5); [split; [no_none|apply str_step; apply cstr_ref_text]|].
  destruct (f =? 6); [split; [no_none|apply str_step; apply cstr_ref_text]|].
  destruct (f =? 7); [split; [no_none|apply num_step; [apply get_byte_at1|lia|reflexivity|symmetry; apply le_val_slice1; lia]]|].
  destruct (f =? 8); [split; [no_none|apply num_step; [apply get_byte_at1|lia|reflexivity|symmetry; apply le_val_slice1; lia]]|].
  split; [intros _; reflexivity|intros k sz v H; discriminate H].
Qed.

(* configuration information: type 1 strings *)
Lemma skipn_add {A} (l:list A) a b : skipn a (skipn b l) = skipn (b + a) l.
Proof. revert l. induction b as [|b IH]; intros l; [reflexivity|]. destruct l; [destruct a; reflexivity|]. cbn [skipn Nat.add]. apply IH. Qed.
Lemma skipn_slice d k n j : 0 <= k -> 0 <= j <= n -> skipn (Z.to_nat j) (slice d k n) = slice d (k + j) (n - j).
Proof.
  intros Hk Hj. unfold slice. rewrite skipn_firstn_comm. rewrite skipn_add. f_equal; [lia|]. f_equal. lia.
Qed.
Lemma get_varstr_ref d pos l : value_size (KVar []) d pos = Some l -> 0 <= pos ->
  get_varstr d pos = (ref_text (firstn 70 (skipn 2 (slice d pos l))), pos + l).
Proof.
  intros VS Hpos. cbn [value_size] in VS.
  destruct (byte_at d pos) as [l0|] eqn:B0; [|discriminate]. destruct (byte_at d (pos + 1)) as [ty|] eqn:B1; [|discriminate].
  destruct (ty =? 1) eqn:Ty; [|discriminate]. cbn [andb] in VS. apply Z.eqb_eq in Ty. subst ty.
  unfold get_varstr. rewrite (get_byte_at _ _ _ B0), (get_byte_at _ _ _ B1).
  destruct (l0 =? 2) eqn:L2.
  - cbn [orb] in VS. injection VS as <-. apply Z.eqb_eq in L2. subst l0. cbn [Z.leb Z.compare Pos.compare Pos.compare_cont orb Z.eqb Pos.eqb andb].
    f_equal; [|lia]. unfold slice. destruct (skipn (Z.to_nat pos) d) as [|a [|b r]]; reflexivity.
  - cbn [orb] in VS. destruct ((3 <=? l0) && (l0 <? 255) && (pos + l0 <=? len d)) eqn:C; [|discriminate]. injection VS as <-.
    apply andb_true_iff in C as [C C3]. apply andb_true_iff in C as [C1 C2]. apply Z.leb_le in C1, C3. apply Z.ltb_lt in C2.
    replace (l0 <=? 2) with false by (symmetry; apply Z.leb_gt; lia). replace (l0 =? 255) with false by (symmetry; apply Z.eqb_neq; lia).
    cbn [Z.gtb Z.compare Pos.compare Pos.compare_cont orb]. rewrite <- len_dlen.
    replace (pos + 1 + 1 >=? len d) with false by (symmetry; rewrite Z.geb_leb; apply Z.leb_gt; lia).
    replace (l0 - 2 + (pos + 1 + 1) >? len d) with false by (symmetry; rewrite Z.gtb_ltb; apply Z.ltb_ge; lia).
    cbn [Z.eqb Pos.eqb]. rewrite cstr_ref_text, <- slice_sub. f_equal; [|lia]. f_equal. f_equal.
    change 2%nat with (Z.to_nat 2). rewrite skipn_slice by lia. f_equal. lia.
Qed.
Lemma value_size_var cur d pos : value_size (KVar cur) d pos = value_size (KVar []) d pos.
Proof. reflexivity. Qed.
Lemma var_step cur d i1 mt : 0 <= i1 ->
  forall k sz v, Some (KVar cur) = Some k -> value_size k d i1 = Some sz -> bytes_at d i1 sz = Some v ->
    (let '(q, i2) := get_varstr d i1 in let '(c, m) := mstr q cur mt in (c, i2, m, false)) = (pair_code k v, i1 + sz, mt && pair_match k v, false).
Proof.
  intros Hi k sz v Hk Hs Hv. injection Hk as <-. rewrite value_size_var in Hs. rewrite (get_varstr_ref _ _ _ Hs Hi).
  apply bytes_at_Some in Hv as (_ & _ & _ & ->). unfold mstr, pair_code. cbn [pair_match]. rewrite leqb_list_beq.
  destruct (list_beq (ref_text (firstn 70 (skipn 2 (slice d i1 sz)))) cur); [rewrite andb_true_r|rewrite andb_false_r]; reflexivity.
Qed.
Lemma fstep_ok_126998 e d : fstep_ok (fstep_126998 (e_s1 e) (e_s2 e) (e_s3 e)) (req_table e 126998) d.
Proof.
  intros idx mt f Hf. pose proof (byte_at_Some _ _ _ Hf) as [Hidx _].
  unfold fstep_126998. rewrite (get_byte_at _ _ _ Hf). unfold req_table. cbn [Z.eqb Pos.eqb]. cbv zeta.
  destruct (f =? 1); [split; [no_none|apply var_step; lia]|].
  destruct (f =? 2); [split; [no_none|apply var_step; lia]|].
  destruct (f =? 3); [split; [no_none|apply var_step; lia]|].
  split; [intros _; reflexivity|intros k sz v H; discriminate H].
Qed.

(* ---------- the frame of the four filtering handlers ---------- *)
Lemma req_filtered_ref e g pgn iv ov np fs deliver cs :
  fstep_ok fs (req_table e pgn) (g_d g) -> 0 <= np ->
  ref_codes (req_table e pgn) (g_d g) 11 (Z.to_nat np) = Some cs ->
  let ok := ref_interval_ok None iv ov in
  Forall code_ok cs /\ length cs = Z.to_nat np /\
  exists sel, req_filtered g pgn iv ov np fs deliver =
    if all_ok cs && ok then deliver sel
    else if g_bcast g then GaNone else GaAck (g_src g) (ack_start pgn 0 (if ok then 0 else 1) np ++ pack cs).
Proof.
  intros OK Hnp R ok. unfold req_filtered. rewrite tp_code_ref. fold ok.
  pose proof (req_loop_ref fs _ _ (ack_start pgn 0 (if ok then 0 else 1) np) OK (ack_start_nonnil _ _ _ _) (Z.to_nat np) 11 0 true [] 255 cs R
                           (Forall_nil _) eq_refl) as (F & L & sel' & E).
  split; [exact F|]. split; [exact L|].
  destruct (g_bcast g) eqn:BC.
  - pose proof (req_loop_ref_mt fs _ _ true OK (Z.to_nat np) 11 0 true (ack_start pgn 0 (if ok then 0 else 1) np) 255 cs R) as M.
    destruct (req_loop fs (Z.to_nat np) (g_d g) true 0 11 true false (ack_start pgn 0 (if ok then 0 else 1) np) 255) as [[ack mt] sel].
    cbn [fst snd] in M. subst mt. exists sel. cbn [andb].
    destruct ok; cbn [Z.eqb]; [rewrite andb_true_r|rewrite !andb_false_r]; reflexivity.
  - cbn [pack app] in E. rewrite app_nil_r in E. rewrite E. exists sel'. cbn [andb app].
    destruct ok; cbn [Z.eqb]; [rewrite andb_true_r|rewrite !andb_false_r]; reflexivity.
Qed.
