(* Frame lemmas over the whole node model: no function except the clock tick, Open() and SetSyncOffset changes the scheduler
   build flag, the mode, the open state, the clock, the PGN configuration or the sizes of the device / slot tables.
   Used by C12 (statement 6: the heartbeat step is not reached in inactive modes) and C13 (clock-origin independence). *)
From Coq Require Import ZArith List Bool Lia.
From N2kV Require Import Base.ListAux Model.CanId Model.Sched Model.PgnClass Model.NodeDefs Model.NodeRxDefs Gen.GenTables Gen.GenConsts
  Proofs.SendProofs.
Import ListNotations.
Local Open Scope Z_scope.

Definition nstatic (n n':node) : Prop :=
  n_w64 n' = n_w64 n /\ n_mode n' = n_mode n /\ n_open n' = n_open n /\ n_now n' = n_now n /\ n_pgn n' = n_pgn n /\
  length (n_devs n') = length (n_devs n).
Definition rstatic (r r':rnode) : Prop :=
  nstatic (rn r) (rn r') /\ length (rx_dev r') = length (rx_dev r) /\ length (r_slots r') = length (r_slots r) /\ r_sync r' = r_sync r.

Lemma nstatic_refl n : nstatic n n.  Proof. unfold nstatic. repeat split. Qed.
Lemma rstatic_refl r : rstatic r r.  Proof. unfold rstatic. split; [apply nstatic_refl|repeat split]. Qed.
Lemma nstatic_trans a b c : nstatic a b -> nstatic b c -> nstatic a c.
Proof. unfold nstatic. intuition congruence. Qed.
Lemma rstatic_trans a b c : rstatic a b -> rstatic b c -> rstatic a c.
Proof. unfold rstatic, nstatic. intuition congruence. Qed.

(* ---------- tactics ---------- *)
Ltac prj :=
  cbn [n_w64 n_mode n_open n_now n_pgn n_devs n_q n_drv n_addr_changed upd_dev upd_q set_now
       rn rx_dev r_slots r_q r_cfg r_open_sched r_sync r_devinfo_changed r_oob r_clk
       with_rn with_slots with_devx with_rxq with_open with_sync with_devinfo_changed with_clk set_oob fst snd] in *.

Ltac dsmart e :=
  lazymatch e with
  | (if ?c then _ else _) => destruct c eqn:?
  | _ => let T := type of e in
         lazymatch T with
         | prod (prod (prod _ _) _) _ => destruct e as [[[? ?] ?] ?] eqn:?
         | prod (prod _ _) _ => destruct e as [[? ?] ?] eqn:?
         | prod _ _ => destruct e as [? ?] eqn:?
         | _ => destruct e eqn:?
         end
  end.
Ltac brk1 := match goal with |- context [match ?e with _ => _ end] => dsmart e end.
Ltac brk := repeat (brk1; cbn [fst snd]).
Ltac brkh := repeat (match goal with H : context [match ?e with _ => _ end] |- _ => dsmart e end; cbn [fst snd] in *);
             repeat match goal with H : (_, _) = (_, _) |- _ => injection H as <- <- end.

Ltac fin := unfold rstatic, nstatic in *; prj; rewrite ?zset_length, ?map_length in *; intuition congruence.

(* ---------- part 1 (NodeDefs) ---------- *)
Lemma claim_started_st n i : nstatic n (fst (claim_started n i)).
Proof. unfold claim_started. brk; fin. Qed.
Lemma claim_started_st' n i n' b : claim_started n i = (n', b) -> nstatic n n'.
Proof. intros E. pose proof (claim_started_st n i) as H. rewrite E in H. exact H. Qed.

Lemma gsc_st n i p : nstatic n (fst (get_sequence_counter n i p)).
Proof. unfold get_sequence_counter. brk; fin. Qed.
Lemma gsc_st' n i p n' sc : get_sequence_counter n i p = (n', sc) -> nstatic n n'.
Proof. intros E. pose proof (gsc_st n i p) as H. rewrite E in H. exact H. Qed.

Lemma send_gate_st n m i : nstatic n (fst (send_gate n m i)).
Proof.
  unfold send_gate. brk; try fin.
  all: match goal with H : claim_started _ _ = _ |- _ => apply claim_started_st' in H end; fin.
Qed.
Lemma send_gate_st' n m i n' o : send_gate n m i = (n', o) -> nstatic n n'.
Proof. intros E. pose proof (send_gate_st n m i) as H. rewrite E in H. exact H. Qed.

Ltac fw0 H := first [ apply claim_started_st' in H | apply gsc_st' in H | apply send_gate_st' in H ].
Ltac fwall0 := repeat match goal with H : _ = (_, _) |- _ => fw0 H end.

Lemma send_msg0_st n m i : nstatic n (fst (fst (send_msg0 n m i))).
Proof. unfold send_msg0. brk; fwall0; fin. Qed.
Lemma send_msg0_st' n m i n' ev ok : send_msg0 n m i = (n', ev, ok) -> nstatic n n'.
Proof. intros E. pose proof (send_msg0_st n m i) as H. rewrite E in H. exact H. Qed.

Lemma end_send_tp_st n i : nstatic n (end_send_tp n i).
Proof. unfold end_send_tp. fin. Qed.

Ltac fw1 H := first [ fw0 H | apply send_msg0_st' in H ].
Ltac fwall1 := repeat match goal with H : _ = (_, _) |- _ => fw1 H end.
Ltac addf1 := repeat match goal with
  | |- context [end_send_tp ?n ?i] => lazymatch goal with H : nstatic n (end_send_tp n i) |- _ => fail | _ => pose proof (end_send_tp_st n i) end
  end.

Lemma start_send_tp_st n m i : nstatic n (fst (fst (start_send_tp n m i))).
Proof. unfold start_send_tp. brk; fwall1; addf1; fin. Qed.
Lemma start_send_tp_st' n m i n' ev ok : start_send_tp n m i = (n', ev, ok) -> nstatic n n'.
Proof. intros E. pose proof (start_send_tp_st n m i) as H. rewrite E in H. exact H. Qed.

Lemma send_msg_st n m i : nstatic n (fst (fst (send_msg n m i))).
Proof.
  unfold send_msg. brk; fwall1.
  - match goal with |- context [start_send_tp ?a ?b ?c] => pose proof (start_send_tp_st a b c) end. fin.
  - apply send_msg0_st.
  - fin.
Qed.
Lemma send_msg_st' n m i n' ev ok : send_msg n m i = (n', ev, ok) -> nstatic n n'.
Proof. intros E. pose proof (send_msg_st n m i) as H. rewrite E in H. exact H. Qed.

Lemma send_iso_address_claim_st n dst i : nstatic n (fst (send_iso_address_claim n dst i)).
Proof.
  unfold send_iso_address_claim. brk; try fin.
  match goal with H : send_msg _ _ _ = _ |- _ => apply send_msg_st' in H end. fin.
Qed.
Lemma set_claim_timer_st n i t : nstatic n (set_claim_timer n i t).
Proof. unfold set_claim_timer. fin. Qed.
Lemma start_address_claim_st n i : nstatic n (fst (start_address_claim n i)).
Proof.
  unfold start_address_claim. brk; try fin.
  match goal with H : send_iso_address_claim ?a ?b ?c = _ |- _ => pose proof (send_iso_address_claim_st a b c) as K; rewrite H in K end.
  pose proof (set_claim_timer_st n i (sched_disabled (n_w64 n))).
  match goal with |- context [set_claim_timer ?a ?b ?c] => pose proof (set_claim_timer_st a b c) end. fin.
Qed.

(* ---------- part 2 (NodeRxDefs) ---------- *)
Ltac eqf L := let E := fresh "E" in let H := fresh "H" in intros E; pose proof L as H; rewrite E in H; exact H.

Lemma chk_dev_st r i : rstatic r (chk_dev r i).  Proof. unfold chk_dev. brk; fin. Qed.
Lemma chk_slot_st r i : rstatic r (chk_slot r i).  Proof. unfold chk_slot. brk; fin. Qed.

Lemma rsend_st r m i : rstatic r (fst (fst (rsend r m i))).
Proof. unfold rsend. brk. match goal with H : send_msg _ _ _ = _ |- _ => apply send_msg_st' in H end. fin. Qed.
Lemma rsend_st' r m i r' ev ok : rsend r m i = (r', ev, ok) -> rstatic r r'.  Proof. eqf (rsend_st r m i). Qed.

Ltac note L := let T := type of L in lazymatch goal with _ : T |- _ => fail | _ => pose proof L end.
Ltac addf2 := repeat match goal with
  | |- context [chk_dev ?r ?i] => note (chk_dev_st r i)
  | H : context [chk_dev ?r ?i] |- _ => note (chk_dev_st r i)
  | |- context [chk_slot ?r ?i] => note (chk_slot_st r i)
  | H : context [chk_slot ?r ?i] |- _ => note (chk_slot_st r i)
  | |- context [end_send_tp ?n ?i] => note (end_send_tp_st n i)
  | H : context [end_send_tp ?n ?i] |- _ => note (end_send_tp_st n i)
  end.
Ltac fw2 H := first [ fw1 H | apply rsend_st' in H ].
Ltac fwall2 := repeat match goal with H : _ = (_, _) |- _ => fw2 H end.

Lemma send_tpcm_cts_st r pgn dst idev np nx : rstatic r (fst (send_tpcm_cts r pgn dst idev np nx)).
Proof. unfold send_tpcm_cts. brk; fwall2; addf2; fin. Qed.
Lemma send_tpcm_cts_st' r pgn dst idev np nx r' ev : send_tpcm_cts r pgn dst idev np nx = (r', ev) -> rstatic r r'.
Proof. eqf (send_tpcm_cts_st r pgn dst idev np nx). Qed.
Lemma send_tpcm_endack_st r pgn dst idev nb np : rstatic r (fst (send_tpcm_endack r pgn dst idev nb np)).
Proof. unfold send_tpcm_endack. brk; fwall2; addf2; fin. Qed.
Lemma send_tpcm_endack_st' r pgn dst idev nb np r' ev : send_tpcm_endack r pgn dst idev nb np = (r', ev) -> rstatic r r'.
Proof. eqf (send_tpcm_endack_st r pgn dst idev nb np). Qed.
Lemma send_tpcm_abort_st r pgn dst idev code : rstatic r (fst (send_tpcm_abort r pgn dst idev code)).
Proof. unfold send_tpcm_abort. brk; fwall2; addf2; fin. Qed.
Lemma send_tpcm_abort_st' r pgn dst idev code r' ev : send_tpcm_abort r pgn dst idev code = (r', ev) -> rstatic r r'.
Proof. eqf (send_tpcm_abort_st r pgn dst idev code). Qed.

Lemma set_dev_tp_st r i tp t sq : rstatic r (set_dev_tp r i tp t sq).
Proof. unfold set_dev_tp. addf2. fin. Qed.
Lemma end_send_tp_r_st r i : rstatic r (end_send_tp_r r i).
Proof. unfold end_send_tp_r. addf2. fin. Qed.

Ltac addf3 := addf2; repeat match goal with
  | |- context [set_dev_tp ?r ?i ?a ?b ?c] => note (set_dev_tp_st r i a b c)
  | H : context [set_dev_tp ?r ?i ?a ?b ?c] |- _ => note (set_dev_tp_st r i a b c)
  | |- context [end_send_tp_r ?r ?i] => note (end_send_tp_r_st r i)
  | H : context [end_send_tp_r ?r ?i] |- _ => note (end_send_tp_r_st r i)
  end.
Ltac fw3 H := first [ fw2 H | apply send_tpcm_cts_st' in H | apply send_tpcm_endack_st' in H | apply send_tpcm_abort_st' in H ].
Ltac fwall3 := repeat match goal with H : _ = (_, _) |- _ => fw3 H end.

Lemma send_tpdt_st r i : rstatic r (fst (fst (send_tpdt r i))).
Proof.
  unfold send_tpdt.
  match goal with |- context [rsend ?a ?b ?c] => pose proof (rsend_st a b c) end. addf3. fin.
Qed.
Lemma send_tpdt_st' r i r' ev ok : send_tpdt r i = (r', ev, ok) -> rstatic r r'.  Proof. eqf (send_tpdt_st r i). Qed.

Lemma send_tpdt_burst_st k : forall r i, rstatic r (fst (fst (send_tpdt_burst k r i))).
Proof.
  induction k as [|k IH]; intros r i; cbn [send_tpdt_burst]; [apply rstatic_refl|].
  brk; try apply rstatic_refl.
  - match goal with H : send_tpdt _ _ = _ |- _ => apply send_tpdt_st' in H end.
    match goal with H : send_tpdt_burst k ?a ?b = _ |- _ => pose proof (IH a b) as K; rewrite H in K end. fin.
  - match goal with H : send_tpdt _ _ = _ |- _ => apply send_tpdt_st' in H end. fin.
Qed.
Lemma send_tpdt_burst_st' k r i r' ev ok : send_tpdt_burst k r i = (r', ev, ok) -> rstatic r r'.
Proof. eqf (send_tpdt_burst_st k r i). Qed.

Ltac fw4 H := first [ fw3 H | apply send_tpdt_st' in H | apply send_tpdt_burst_st' in H ].
Ltac fwall4 := repeat match goal with H : _ = (_, _) |- _ => fw4 H end.

Lemma send_pending_tp_st r i : rstatic r (fst (send_pending_tp r i)).
Proof. unfold send_pending_tp. brk; fwall4; addf3; fin. Qed.
Lemma send_pending_tp_st' r i r' ev : send_pending_tp r i = (r', ev) -> rstatic r r'.  Proof. eqf (send_pending_tp_st r i). Qed.

Lemma set_slot_st r i s : rstatic r (set_slot r i s).
Proof. unfold set_slot. addf3. fin. Qed.

Lemma find_free_slot_len r pgn src dst tp : length (fst (find_free_slot r pgn src dst tp)) = length (r_slots r).
Proof. unfold find_free_slot. brk; cbn [fst]; rewrite ?zset_length; reflexivity. Qed.

Ltac addf4 := addf3; repeat match goal with
  | |- context [set_slot ?r ?i ?s] => note (set_slot_st r i s)
  | H : context [set_slot ?r ?i ?s] |- _ => note (set_slot_st r i s)
  end.

Definition htp_rts (r:rnode) (src dst:Z) (buf:list Z) : bool * rnode * list event * Z :=
  let mx := nslots r in
  let idev := find_source_device r dst in
    let ctrl := byte buf 0 in
    let tpgn := le3 buf 5 in
      let nbytes := byte buf 1 + 256 * byte buf 2 in
      let maxp := byte buf 3 in
      let r := with_slots r (map (fun s => if negb (s_free s) && s_tp s && (s_src s =? src) && (s_dst s =? dst) && negb (s_pgn s =? tpgn)
                                           then free_slot s else s) (r_slots r)) in
      let '(slots1, idx) := find_free_slot r tpgn src dst true in
      let r1 := with_slots r slots1 in
      if idx =? mx then
        if (ctrl =? c_TP_CM_RTS) && (idev >=? 0) then let '(r2, ev) := send_tpcm_abort r1 tpgn src idev c_TP_CM_AbortBusy in (true, r2, ev, mx)
        else (true, r1, [], mx)
      else
        let '(known, sys, _) := check_known (n_pgn (rn r1)) tpgn in
        let r1 := chk_slot r1 idx in
        let s0 := get_slot r1 idx in
        let s1 := {| s_free := s_free s0; s_ready := s_ready s0; s_known := known; s_system := sys; s_pri := s_pri s0; s_pgn := s_pgn s0; s_src := s_src s0;
                     s_dst := s_dst s0; s_tp := s_tp s0; s_len := s_len s0; s_data := s_data s0; s_last := s_last s0; s_time := s_time s0;
                     s_tpmax := s_tpmax s0; s_tpreq := s_tpreq s0 |} in
        if (nbytes <=? c_MaxDataLen) && (known || negb (c_only_known (r_cfg r1))) then
          let answer := (ctrl =? c_TP_CM_RTS) && (idev >=? 0) in
          let s2 := {| s_free := false; s_ready := s_ready s1; s_known := known; s_system := sys; s_pri := 7; s_pgn := tpgn; s_src := src; s_dst := dst;
                       s_tp := true; s_len := nbytes; s_data := []; s_last := 0; s_time := now32 r1;
                       s_tpmax := (if answer then maxp else 255); s_tpreq := (if answer then tp_cts_packets maxp else s_tpreq s1) |} in
          let r2 := set_slot r1 idx s2 in
          if answer then let '(r3, ev) := send_tpcm_cts r2 tpgn src idev maxp 1 in (true, r3, ev, mx) else (true, r2, [], mx)
        else
          let r2 := set_slot r1 idx s1 in
          if (ctrl =? c_TP_CM_RTS) && (idev >=? 0) then let '(r3, ev) := send_tpcm_abort r2 tpgn src idev c_TP_CM_AbortBusy in (true, r3, ev, mx)
          else (true, r2, [], mx).

Definition htp_cts (r:rnode) (src dst:Z) (buf:list Z) : bool * rnode * list event * Z :=
  let mx := nslots r in
  let idev := find_source_device r dst in
    let tpgn := le3 buf 5 in
      if negb ((0 <=? idev) && (idev <? dev_count (rn r))) then (true, r, [], mx) else
      let d := get_dev (rn r) idev in
      match d_tp_msg d with
      | None => (true, r, [], mx)
      | Some pm =>
        if m_dst pm =? 255 then (true, r, [], mx) else
        if negb (m_dst pm =? src) then (true, r, [], mx) else
        if negb (m_pgn pm =? tpgn) then (true, end_send_tp_r r idev, [], mx) else
        if byte buf 1 >? 0 then
          if negb (byte buf 2 - 1 =? d_next_dt_seq d) then (true, end_send_tp_r r idev, [], mx) else
          let '(r1, ev, ok) := send_tpdt_burst (Z.to_nat (byte buf 1)) r idev in
          let r2 := if ok then r1 else end_send_tp_r r1 idev in
          let d2 := get_dev (rn r2) idev in
          (true, set_dev_tp r2 idev (d_tp_msg d2) (sched_from_now (w64 r2) (now r2) 100) (d_next_dt_seq d2), ev, mx)
        else
          (true, set_dev_tp r idev (d_tp_msg d) (sched_from_now (w64 r) (now r) 100) (d_next_dt_seq d), [], mx)
      end.

Definition htp_ack (r:rnode) (src dst:Z) : bool * rnode * list event * Z :=
  let mx := nslots r in
  let idev := find_source_device r dst in
      if negb ((0 <=? idev) && (idev <? dev_count (rn r))) then (true, r, [], mx) else
      let d := get_dev (rn r) idev in
      match d_tp_msg d with
      | Some pm => if (m_dst pm =? 255) || negb (m_dst pm =? src) then (true, r, [], mx) else (true, end_send_tp_r r idev, [], mx)
      | None => (true, r, [], mx)
      end.

Definition htp_dt (r:rnode) (src dst len:Z) (buf:list Z) : bool * rnode * list event * Z :=
  let mx := nslots r in
  let idev := find_source_device r dst in
    let idx := find_tp_slot (r_slots r) src dst 0 in
    if idx <? mx then
      let r := chk_slot r idx in
      let s := get_slot r idx in
      if s_last s + 1 =? byte buf 0 then
        let data' := copy_buf (s_data s) 1 len buf in
        let s1 := {| s_free := false; s_ready := s_ready s; s_known := s_known s; s_system := s_system s; s_pri := s_pri s; s_pgn := s_pgn s; s_src := s_src s;
                     s_dst := s_dst s; s_tp := true; s_len := s_len s; s_data := data'; s_last := byte buf 0; s_time := now32 r;
                     s_tpmax := s_tpmax s; s_tpreq := s_tpreq s |} in
        if Z.of_nat (length data') >=? s_len s then
          let s2 := {| s_free := false; s_ready := true; s_known := s_known s1; s_system := s_system s1; s_pri := s_pri s1; s_pgn := s_pgn s1; s_src := s_src s1;
                       s_dst := s_dst s1; s_tp := true; s_len := s_len s1; s_data := data'; s_last := s_last s1; s_time := s_time s1;
                       s_tpmax := s_tpmax s1; s_tpreq := s_tpreq s1 |} in
          let r1 := set_slot r idx s2 in
          if (s_tpreq s2 >? 0) && (idev >=? 0) then
            let '(r2, ev) := send_tpcm_endack r1 (s_pgn s2) src idev (s_len s2) (s_last s2) in (true, r2, ev, idx)
          else (true, r1, [], idx)
        else
          let r1 := set_slot r idx s1 in
          if (s_tpreq s1 >? 0) && (idev >=? 0) && ((s_last s1) mod (s_tpreq s1) =? 0) then
            let '(r2, ev) := send_tpcm_cts r1 (s_pgn s1) src idev (s_tpmax s1) (s_last s1 + 1) in (true, r2, ev, if s_ready s1 then idx else mx)
          else (true, r1, [], if s_ready s1 then idx else mx)
      else
        let '(r1, ev) := if (s_tpreq s >? 0) && (idev >=? 0) then send_tpcm_abort r (s_pgn s) src idev c_TP_CM_AbortTimeout else (r, []) in
        (true, set_slot r1 idx (free_slot (get_slot r1 idx)), ev, mx)
    else (true, r, [], mx).

Lemma handle_tp_split r pgn src dst len buf :
  handle_tp r pgn src dst len buf =
  if pgn =? c_TP_CM then
    let ctrl := byte buf 0 in
    if (ctrl =? c_TP_CM_BAM) || (ctrl =? c_TP_CM_RTS) then htp_rts r src dst buf
    else if ctrl =? c_TP_CM_CTS then htp_cts r src dst buf
    else if (ctrl =? c_TP_CM_ACK) || (ctrl =? c_TP_CM_Abort) then htp_ack r src dst
    else (true, r, [], nslots r)
  else if pgn =? c_TP_DT then htp_dt r src dst len buf
  else (false, r, [], nslots r).
Proof. reflexivity. Qed.


Ltac htp_fin := cbv zeta; brk; cbn [fst snd]; fwall4; addf4;
    try (match goal with H : find_free_slot ?a ?b ?c ?d ?e = _ |- _ => pose proof (find_free_slot_len a b c d e) as K; rewrite H in K; cbn [fst] in K end);
    fin.
Lemma htp_rts_st r src dst buf : rstatic r (snd (fst (fst (htp_rts r src dst buf)))).
Proof. unfold htp_rts. htp_fin. Qed.
Lemma htp_cts_st r src dst buf : rstatic r (snd (fst (fst (htp_cts r src dst buf)))).
Proof. unfold htp_cts. htp_fin. Qed.
Lemma htp_ack_st r src dst : rstatic r (snd (fst (fst (htp_ack r src dst)))).
Proof. unfold htp_ack. htp_fin. Qed.
Lemma htp_dt_st r src dst len buf : rstatic r (snd (fst (fst (htp_dt r src dst len buf)))).
Proof.
  unfold htp_dt. cbv zeta.
  destruct (_ <? nslots r); [|apply rstatic_refl].
  set (idx := find_tp_slot (r_slots r) src dst 0).
  pose proof (chk_slot_st r idx) as S0. set (r2 := chk_slot r idx) in *.
  destruct (_ =? byte buf 0).
  - destruct (_ >=? _).
    + match goal with |- context [set_slot r2 idx ?x] => pose proof (set_slot_st r2 idx x) as S1; set (r3 := set_slot r2 idx x) in * end.
      destruct (_ && _); cbn [fst snd]; [|eapply rstatic_trans; eassumption].
      match goal with |- context [send_tpcm_endack ?a ?b ?c ?d ?e ?g] => pose proof (send_tpcm_endack_st a b c d e g) as S2; destruct (send_tpcm_endack a b c d e g) end.
      cbn [fst snd] in *. eapply rstatic_trans; [eassumption|]. eapply rstatic_trans; eassumption.
    + match goal with |- context [set_slot r2 idx ?x] => pose proof (set_slot_st r2 idx x) as S1; set (r3 := set_slot r2 idx x) in * end.
      destruct (_ && _ && _); cbn [fst snd]; [|eapply rstatic_trans; eassumption].
      match goal with |- context [send_tpcm_cts ?a ?b ?c ?d ?e ?g] => pose proof (send_tpcm_cts_st a b c d e g) as S2; destruct (send_tpcm_cts a b c d e g) end.
      cbn [fst snd] in *. eapply rstatic_trans; [eassumption|]. eapply rstatic_trans; eassumption.
  - destruct (_ && _).
    + match goal with |- context [send_tpcm_abort ?a ?b ?c ?d ?e] => pose proof (send_tpcm_abort_st a b c d e) as S2; destruct (send_tpcm_abort a b c d e) as [r3 ev] end.
      cbn [fst snd] in *. eapply rstatic_trans; [eassumption|]. eapply rstatic_trans; [eassumption|apply set_slot_st].
    + cbn [fst snd]. eapply rstatic_trans; [eassumption|apply set_slot_st].
Qed.
Lemma handle_tp_st r pgn src dst len buf : rstatic r (snd (fst (fst (handle_tp r pgn src dst len buf)))).
Proof.
  rewrite handle_tp_split. cbv zeta.
  destruct (pgn =? c_TP_CM).
  - destruct (_ || _); [apply htp_rts_st|]. destruct (_ =? c_TP_CM_CTS); [apply htp_cts_st|]. destruct (_ || _); [apply htp_ack_st|apply rstatic_refl].
  - destruct (pgn =? c_TP_DT); [apply htp_dt_st|apply rstatic_refl].
Qed.
Lemma handle_tp_st' r pgn src dst len buf h r' ev idx : handle_tp r pgn src dst len buf = (h, r', ev, idx) -> rstatic r r'.
Proof. intros E. pose proof (handle_tp_st r pgn src dst len buf) as H. rewrite E in H. exact H. Qed.

Lemma mark_ready_st r idx : rstatic r (fst (mark_ready r idx)).
Proof. unfold mark_ready. cbn [fst]. addf4. fin. Qed.
Lemma mark_ready_st' r idx r' j : mark_ready r idx = (r', j) -> rstatic r r'.  Proof. eqf (mark_ready_st r idx). Qed.

Ltac fw5 H := first [ fw4 H | apply handle_tp_st' in H | apply mark_ready_st' in H | apply send_pending_tp_st' in H ].
Ltac fwall5 := repeat match goal with H : _ = (_, _) |- _ => fw5 H end.
Ltac ffs := repeat match goal with H : find_free_slot ?a ?b ?c ?d ?e = _ |- _ =>
  let K := fresh "K" in pose proof (find_free_slot_len a b c d e) as K; rewrite H in K; cbn [fst] in K; clear H end.

Lemma rx_frame_st r f : rstatic r (fst (fst (rx_frame r f))).
Proof. unfold rx_frame. cbv zeta. brk; cbn [fst snd]; fwall5; ffs; addf4; fin. Qed.
Lemma rx_frame_st' r f r' ev idx : rx_frame r f = (r', ev, idx) -> rstatic r r'.  Proof. eqf (rx_frame_st r f). Qed.

Lemma set_src_st r i s u : rstatic r (set_src r i s u).  Proof. unfold set_src. addf4. fin. Qed.
Lemma set_addr_changed_st r : rstatic r (set_addr_changed r).  Proof. unfold set_addr_changed. fin. Qed.
Lemma set_name_st r i nm : rstatic r (set_name r i nm).  Proof. unfold set_name. addf4. fin. Qed.
Lemma set_pending_st r i a b c : rstatic r (set_pending r i a b c).  Proof. unfold set_pending. addf4. fin. Qed.

Ltac addf5 := addf4; repeat match goal with
  | |- context [set_src ?r ?i ?s ?u] => note (set_src_st r i s u)
  | H : context [set_src ?r ?i ?s ?u] |- _ => note (set_src_st r i s u)
  | |- context [set_addr_changed ?r] => note (set_addr_changed_st r)
  | H : context [set_addr_changed ?r] |- _ => note (set_addr_changed_st r)
  | |- context [set_name ?r ?i ?s] => note (set_name_st r i s)
  | H : context [set_name ?r ?i ?s] |- _ => note (set_name_st r i s)
  | |- context [set_pending ?r ?i ?a ?b ?c] => note (set_pending_st r i a b c)
  | H : context [set_pending ?r ?i ?a ?b ?c] |- _ => note (set_pending_st r i a b c)
  end.

Lemma next_address_st k : forall r i b, rstatic r (next_address k r i b).
Proof.
  induction k as [|k IH]; intros r i b; cbn [next_address]; [apply rstatic_refl|].
  brk; try apply rstatic_refl;
    repeat match goal with |- context [next_address k ?a ?b ?c] => note (IH a b c) end; addf5; fin.
Qed.

Lemma rstart_claim_st r i : rstatic r (fst (rstart_claim r i)).
Proof.
  unfold rstart_claim. brk.
  match goal with H : start_address_claim ?a ?b = _ |- _ => pose proof (start_address_claim_st a b) as K; rewrite H in K end.
  addf5. fin.
Qed.
Lemma rstart_claim_st' r i r' ev : rstart_claim r i = (r', ev) -> rstatic r r'.  Proof. eqf (rstart_claim_st r i). Qed.
Lemma rsend_claim_st r dst i : rstatic r (fst (rsend_claim r dst i)).
Proof.
  unfold rsend_claim. brk.
  match goal with H : send_iso_address_claim ?a ?b ?c = _ |- _ => pose proof (send_iso_address_claim_st a b c) as K; rewrite H in K end.
  fin.
Qed.
Lemma rsend_claim_st' r dst i r' ev : rsend_claim r dst i = (r', ev) -> rstatic r r'.  Proof. eqf (rsend_claim_st r dst i). Qed.

Ltac addf6 := addf5; repeat match goal with
  | |- context [next_address ?k ?r ?i ?b] => note (next_address_st k r i b)
  | H : context [next_address ?k ?r ?i ?b] |- _ => note (next_address_st k r i b)
  | |- context [fst (rstart_claim ?r ?i)] => note (rstart_claim_st r i)
  | |- context [fst (rsend_claim ?r ?d ?i)] => note (rsend_claim_st r d i)
  end.
Ltac fw6 H := first [ fw5 H | apply rx_frame_st' in H | apply rstart_claim_st' in H | apply rsend_claim_st' in H ].
Ltac fwall6 := repeat match goal with H : _ = (_, _) |- _ => fw6 H end.

Lemma handle_claim_st r src data : rstatic r (fst (handle_claim r src data)).
Proof. unfold handle_claim. cbv zeta. brk; cbn [fst snd]; fwall6; addf6; fin. Qed.
Lemma handle_claim_st' r src data r' ev : handle_claim r src data = (r', ev) -> rstatic r r'.  Proof. eqf (handle_claim_st r src data). Qed.

Lemma commanded_one_st r nm na i : rstatic r (fst (commanded_one r nm na i)).
Proof. unfold commanded_one. cbv zeta. brk; cbn [fst snd]; fwall6; addf6; fin. Qed.
Lemma commanded_one_st' r nm na i r' ev : commanded_one r nm na i = (r', ev) -> rstatic r r'.  Proof. eqf (commanded_one_st r nm na i). Qed.
Lemma commanded_all_st k : forall r nm na i, rstatic r (fst (commanded_all k r nm na i)).
Proof.
  induction k as [|k IH]; intros r nm na i; cbn [commanded_all]; [apply rstatic_refl|].
  brk; cbn [fst].
  match goal with H : commanded_one _ _ _ _ = _ |- _ => apply commanded_one_st' in H end.
  match goal with H : commanded_all k ?a ?b ?c ?d = _ |- _ => pose proof (IH a b c d) as K; rewrite H in K end. fin.
Qed.
Lemma handle_commanded_st r s : rstatic r (fst (handle_commanded r s)).
Proof.
  unfold handle_commanded. cbv zeta. brk; cbn [fst snd]; try apply rstatic_refl;
    first [apply commanded_all_st | apply commanded_one_st].
Qed.
Lemma handle_commanded_st' r s r' ev : handle_commanded r s = (r', ev) -> rstatic r r'.  Proof. eqf (handle_commanded_st r s). Qed.

Lemma send_product_info_st r i : rstatic r (fst (send_product_info r i)).
Proof. unfold send_product_info. cbv zeta. brk; cbn [fst snd]; fwall6; addf6; fin. Qed.
Lemma send_product_info_st' r i r' ev : send_product_info r i = (r', ev) -> rstatic r r'.  Proof. eqf (send_product_info_st r i). Qed.
Lemma send_config_info_st r i : rstatic r (fst (send_config_info r i)).
Proof. unfold send_config_info. cbv zeta. brk; cbn [fst snd]; fwall6; addf6; fin. Qed.
Lemma send_config_info_st' r i r' ev : send_config_info r i = (r', ev) -> rstatic r r'.  Proof. eqf (send_config_info_st r i). Qed.

Ltac fw7 H := first [ fw6 H | apply handle_claim_st' in H | apply handle_commanded_st' in H | apply send_product_info_st' in H | apply send_config_info_st' in H ].
Ltac fwall7 := repeat match goal with H : _ = (_, _) |- _ => fw7 H end.

Ltac addf7 := addf6; repeat match goal with
  | |- context [fst (send_product_info ?r ?i)] => note (send_product_info_st r i)
  | |- context [fst (send_config_info ?r ?i)] => note (send_config_info_st r i)
  end.
Lemma respond_iso_request_st r rq ad p i : rstatic r (fst (respond_iso_request r rq ad p i)).
Proof. unfold respond_iso_request. cbv zeta. brk; cbn [fst snd]; fwall7; addf7; fin. Qed.
Lemma respond_iso_request_st' r rq ad p i r' ev : respond_iso_request r rq ad p i = (r', ev) -> rstatic r r'.
Proof. eqf (respond_iso_request_st r rq ad p i). Qed.
Lemma respond_all_st k : forall r rq p i, rstatic r (fst (respond_all k r rq p i)).
Proof.
  induction k as [|k IH]; intros r rq p i; cbn [respond_all]; [apply rstatic_refl|].
  brk; cbn [fst].
  match goal with H : respond_iso_request _ _ _ _ _ = _ |- _ => apply respond_iso_request_st' in H end.
  match goal with H : respond_all k ?a ?b ?c ?d = _ |- _ => pose proof (IH a b c d) as K; rewrite H in K end. fin.
Qed.
Lemma handle_iso_request_st r s : rstatic r (fst (handle_iso_request r s)).
Proof.
  unfold handle_iso_request. cbv zeta. brk; cbn [fst snd]; try apply rstatic_refl;
    first [apply respond_all_st | apply respond_iso_request_st].
Qed.
Lemma handle_iso_request_st' r s r' ev : handle_iso_request r s = (r', ev) -> rstatic r r'.  Proof. eqf (handle_iso_request_st r s). Qed.

Definition gf_static (gf : rnode -> slot -> rnode * list event) : Prop := forall r s, rstatic r (fst (gf r s)).

Section WithGf.
Variable gf : rnode -> slot -> rnode * list event.
Hypothesis Hgf : gf_static gf.

Lemma handle_system_st r s : rstatic r (fst (handle_system gf r s)).
Proof.
  unfold handle_system. cbv zeta. brk; cbn [fst snd]; try apply rstatic_refl;
    first [apply handle_iso_request_st | apply handle_claim_st | apply handle_commanded_st | apply Hgf].
Qed.
Lemma handle_system_st' r s r' ev : handle_system gf r s = (r', ev) -> rstatic r r'.  Proof. eqf (handle_system_st r s). Qed.

Lemma rx_loop_st k : forall r, rstatic r (fst (rx_loop gf k r)).
Proof.
  induction k as [|k IH]; intros r; cbn [rx_loop]; [apply rstatic_refl|].
  brk; cbn [fst snd]; try apply rstatic_refl.
  - match goal with H : rx_frame _ _ = _ |- _ => apply rx_frame_st' in H end.
    match goal with H : handle_system _ _ _ = _ |- _ => apply handle_system_st' in H end.
    match goal with H : rx_loop gf k ?a = _ |- _ => pose proof (IH a) as K; rewrite H in K end.
    addf6. fin.
  - match goal with H : rx_frame _ _ = _ |- _ => apply rx_frame_st' in H end.
    match goal with H : rx_loop gf k ?a = _ |- _ => pose proof (IH a) as K; rewrite H in K end.
    fin.
Qed.
End WithGf.

Lemma send_pending_info_dev_st r i : rstatic r (fst (send_pending_info_dev r i)).
Proof. unfold send_pending_info_dev. cbv zeta. brk; cbn [fst snd] in *; brkh; fwall7; addf6; fin. Qed.
Lemma send_pending_info_dev_st' r i r' ev : send_pending_info_dev r i = (r', ev) -> rstatic r r'.  Proof. eqf (send_pending_info_dev_st r i). Qed.
Lemma send_pending_info_st k : forall r i, rstatic r (fst (send_pending_info k r i)).
Proof.
  induction k as [|k IH]; intros r i; cbn [send_pending_info]; [apply rstatic_refl|].
  brk; cbn [fst snd] in *; brkh.
  - match goal with H : send_pending_info_dev _ _ = _ |- _ => apply send_pending_info_dev_st' in H end.
    match goal with H : send_pending_info k ?a ?b = _ |- _ => pose proof (IH a b) as K; rewrite H in K end. fin.
  - match goal with H : send_pending_info k ?a ?b = _ |- _ => pose proof (IH a b) as K; rewrite H in K end. fin.
Qed.

Lemma millis64_st r : rstatic r (fst (millis64 r)).
Proof. unfold millis64. brk; fin. Qed.
Lemma millis64_st' r r' t : millis64 r = (r', t) -> rstatic r r'.  Proof. eqf (millis64_st r). Qed.

Lemma send_heartbeat_dev_st r i : rstatic r (fst (send_heartbeat_dev r i)).
Proof.
  unfold send_heartbeat_dev. brk; cbn [fst snd];
    repeat match goal with H : millis64 _ = _ |- _ => apply millis64_st' in H end; fwall7; addf6; fin.
Qed.
Lemma send_heartbeat_dev_st' r i r' ev : send_heartbeat_dev r i = (r', ev) -> rstatic r r'.  Proof. eqf (send_heartbeat_dev_st r i). Qed.
Lemma send_heartbeat_st k : forall r i, rstatic r (fst (send_heartbeat k r i)).
Proof.
  induction k as [|k IH]; intros r i; cbn [send_heartbeat]; [apply rstatic_refl|].
  brk; cbn [fst].
  match goal with H : send_heartbeat_dev _ _ = _ |- _ => apply send_heartbeat_dev_st' in H end.
  match goal with H : send_heartbeat k ?a ?b = _ |- _ => pose proof (IH a b) as K; rewrite H in K end. fin.
Qed.

Lemma set_heartbeat_all_st k : forall r i iv off, rstatic r (set_heartbeat_all k r i iv off).
Proof.
  induction k as [|k IH]; intros r i iv off; cbn [set_heartbeat_all]; [apply rstatic_refl|].
  cbv zeta. brk; repeat match goal with H : millis64 _ = _ |- _ => apply millis64_st' in H end;
    match goal with |- context [set_heartbeat_all k ?a ?b ?c ?d] => pose proof (IH a b c d) end; fin.
Qed.

Lemma resync_heartbeats_st k : forall r i, rstatic r (resync_heartbeats k r i).
Proof.
  induction k as [|k IH]; intros r i; cbn [resync_heartbeats]; [apply rstatic_refl|].
  cbv zeta. brk; repeat match goal with H : millis64 _ = _ |- _ => apply millis64_st' in H end;
    match goal with |- context [resync_heartbeats k ?a ?b] => pose proof (IH a b) end; fin.
Qed.

Lemma start_claim_all_st k : forall r i, rstatic r (fst (start_claim_all k r i)).
Proof.
  induction k as [|k IH]; intros r i; cbn [start_claim_all]; [apply rstatic_refl|].
  brk; cbn [fst];
    match goal with H : rstart_claim _ _ = _ |- _ => apply rstart_claim_st' in H end;
    match goal with H : start_claim_all k ?a ?b = _ |- _ => pose proof (IH a b) as K; rewrite H in K end; addf6; brkh; fin.
Qed.

Lemma rflush_st r : rstatic r (fst (rflush r)).
Proof. unfold rflush. brk. fin. Qed.
Lemma rflush_st' r r' ev : rflush r = (r', ev) -> rstatic r r'.  Proof. eqf (rflush_st r). Qed.
