(* Frame lemmas over the whole node model: no function except the clock tick, Open() and SetSyncOffset changes the scheduler
   build flag, the mode, the open state, the clock, the PGN configuration or the sizes of the device / slot tables.
   Used by C12 (statement 6: the heartbeat step is not reached in inactive modes) and C13 (clock-origin independence). *)
From Coq Require Import ZArith List Bool Lia.
From N2kV Require Import Base.ListAux Model.CanId Model.Sched Model.PgnClass Model.NodeDefs Model.NodeRxDefs Gen.GenTables Gen.GenConsts
  Proofs.SendProofs.
Import ListNotations.
Local Open Scope Z_scope.

Definition nstatic (n n':node) : Prop :=
  n_w64 n' = n_w64 n /\ n_mode n' = n_mode n /\ n_open n' = n_open n /\ n_now n' = n_now n /\ n_pgn n' = n_pgn n /\
  length (n_devs n') = length (n_devs n).
Definition rstatic (r r':rnode) : Prop :=
  nstatic (rn r) (rn r') /\ length (rx_dev r') = length (rx_dev r) /\ length (r_slots r') = length (r_slots r) /\ r_sync r' = r_sync r.

Lemma nstatic_refl n : nstatic n n.  Proof. unfold nstatic. repeat split. Qed.
Lemma rstatic_refl r : rstatic r r.  Proof. unfold rstatic. split; [apply nstatic_refl|repeat split]. Qed.
Lemma nstatic_trans a b c : nstatic a b -> nstatic b c -> nstatic a c.
Proof. unfold nstatic. intuition congruence. Qed.
Lemma rstatic_trans a b c : rstatic a b -> rstatic b c -> rstatic a c.
Proof. unfold rstatic, nstatic. intuition congruence. Qed.

(* ---------- tactics ---------- *)
Ltac prj :=
  cbn [n_w64 n_mode n_open n_now n_pgn n_devs n_q n_drv n_addr_changed upd_dev upd_q set_now
       rn rx_dev r_slots r_q r_cfg r_open_sched r_sync r_devinfo_changed r_oob r_clk
       with_rn with_slots with_devx with_rxq with_open with_sync with_devinfo_changed with_clk set_oob fst snd] in *.

Ltac dsmart e :=
  lazymatch e with
  | (if ?c then _ else _) => destruct c eqn:?
  | _ => let T := type of e in
         lazymatch T with
         | prod (prod (prod _ _) _) _ => destruct e as [[[? ?] ?] ?] eqn:?
         | prod (prod _ _) _ => destruct e as [[? ?] ?] eqn:?
         | prod _ _ => destruct e as [? ?] eqn:?
         | _ => destruct e eqn:?
         end
  end.
Ltac brk1 := match goal with |- context [match ?e with _ => _ end] => dsmart e end.
Ltac brk := repeat (brk1; cbn [fst snd]).
Ltac brkh := repeat (match goal with H : context [match ?e with _ => _ end] |- _ => dsmart e end; cbn [fst snd] in *);
             repeat match goal with H : (_, _) = (_, _) |- _ => injection H as <- <- end.

Ltac fin := unfold rstatic, nstatic in *; prj; rewrite ?zset_length in *; intuition congruence.

(* ---------- part 1 (NodeDefs) ---------- *)
Lemma claim_started_st n i : nstatic n (fst (claim_started n i)).
Proof. unfold claim_started. brk; fin. Qed.
Lemma claim_started_st' n i n' b : claim_started n i = (n', b) -> nstatic n n'.
Proof. intros E. pose proof (claim_started_st n i) as H. rewrite E in H. exact H. Qed.

Lemma gsc_st n i p : nstatic n (fst (get_sequence_counter n i p)).
Proof. unfold get_sequence_counter. brk; fin. Qed.
Lemma gsc_st' n i p n' sc : get_sequence_counter n i p = (n', sc) -> nstatic n n'.
Proof. intros E. pose proof (gsc_st n i p) as H. rewrite E in H. exact H. Qed.

Lemma send_gate_st n m i : nstatic n (fst (send_gate n m i)).
Proof.
  unfold send_gate. brk; try fin.
  all: match goal with H : claim_started _ _ = _ |- _ => apply claim_started_st' in H end; fin.
Qed.
Lemma send_gate_st' n m i n' o : send_gate n m i = (n', o) -> nstatic n n'.
Proof. intros E. pose proof (send_gate_st n m i) as H. rewrite E in H. exact H. Qed.

Ltac fw0 H := first [ apply claim_started_st' in H | apply gsc_st' in H | apply send_gate_st' in H ].
Ltac fwall0 := repeat match goal with H : _ = (_, _) |- _ => fw0 H end.

Lemma send_msg0_st n m i : nstatic n (fst (fst (send_msg0 n m i))).
Proof. unfold send_msg0. brk; fwall0; fin. Qed.
Lemma send_msg0_st' n m i n' ev ok : send_msg0 n m i = (n', ev, ok) -> nstatic n n'.
Proof. intros E. pose proof (send_msg0_st n m i) as H. rewrite E in H. exact H. Qed.

Lemma end_send_tp_st n i : nstatic n (end_send_tp n i).
Proof. unfold end_send_tp. fin. Qed.

Ltac fw1 H := first [ fw0 H | apply send_msg0_st' in H ].
Ltac fwall1 := repeat match goal with H : _ = (_, _) |- _ => fw1 H end.
Ltac addf1 := repeat match goal with
  | |- context [end_send_tp ?n ?i] => lazymatch goal with H : nstatic n (end_send_tp n i) |- _ => fail | _ => pose proof (end_send_tp_st n i) end
  end.

Lemma start_send_tp_st n m i : nstatic n (fst (fst (start_send_tp n m i))).
Proof. unfold start_send_tp. brk; fwall1; addf1; fin. Qed.
Lemma start_send_tp_st' n m i n' ev ok : start_send_tp n m i = (n', ev, ok) -> nstatic n n'.
Proof. intros E. pose proof (start_send_tp_st n m i) as H. rewrite E in H. exact H. Qed.

Lemma send_msg_st n m i : nstatic n (fst (fst (send_msg n m i))).
Proof.
  unfold send_msg. brk; fwall1.
  - match goal with |- context [start_send_tp ?a ?b ?c] => pose proof (start_send_tp_st a b c) end. fin.
  - apply send_msg0_st.
  - fin.
Qed.
Lemma send_msg_st' n m i n' ev ok : send_msg n m i = (n', ev, ok) -> nstatic n n'.
Proof. intros E. pose proof (send_msg_st n m i) as H. rewrite E in H. exact H. Qed.

Lemma send_iso_address_claim_st n dst i : nstatic n (fst (send_iso_address_claim n dst i)).
Proof.
  unfold send_iso_address_claim. brk; try fin.
  match goal with H : send_msg _ _ _ = _ |- _ => apply send_msg_st' in H end. fin.
Qed.
Lemma set_claim_timer_st n i t : nstatic n (set_claim_timer n i t).
Proof. unfold set_claim_timer. fin. Qed.
Lemma start_address_claim_st n i : nstatic n (fst (start_address_claim n i)).
Proof.
  unfold start_address_claim. brk; try fin.
  match goal with H : send_iso_address_claim ?a ?b ?c = _ |- _ => pose proof (send_iso_address_claim_st a b c) as K; rewrite H in K end.
  pose proof (set_claim_timer_st n i (sched_disabled (n_w64 n))).
  match goal with |- context [set_claim_timer ?a ?b ?c] => pose proof (set_claim_timer_st a b c) end. fin.
Qed.

(* ---------- part 2 (NodeRxDefs) ---------- *)
Ltac eqf L := let E := fresh "E" in let H := fresh "H" in intros E; pose proof L as H; rewrite E in H; exact H.

Lemma chk_dev_st r i : rstatic r (chk_dev r i).  Proof. unfold chk_dev. brk; fin. Qed.
Lemma chk_slot_st r i : rstatic r (chk_slot r i).  Proof. unfold chk_slot. brk; fin. Qed.

Lemma rsend_st r m i : rstatic r (fst (fst (rsend r m i))).
Proof. unfold rsend. brk. match goal with H : send_msg _ _ _ = _ |- _ => apply send_msg_st' in H end. fin. Qed.
Lemma rsend_st' r m i r' ev ok : rsend r m i = (r', ev, ok) -> rstatic r r'.  Proof. eqf (rsend_st r m i). Qed.

Ltac note L := let T := type of L in lazymatch goal with _ : T |- _ => fail | _ => pose proof L end.
Ltac addf2 := repeat match goal with
  | |- context [chk_dev ?r ?i] => note (chk_dev_st r i)
  | H : context [chk_dev ?r ?i] |- _ => note (chk_dev_st r i)
  | |- context [chk_slot ?r ?i] => note (chk_slot_st r i)
  | H : context [chk_slot ?r ?i] |- _ => note (chk_slot_st r i)
  | |- context [end_send_tp ?n ?i] => note (end_send_tp_st n i)
  | H : context [end_send_tp ?n ?i] |- _ => note (end_send_tp_st n i)
  end.
Ltac fw2 H := first [ fw1 H | apply rsend_st' in H ].
Ltac fwall2 := repeat match goal with H : _ = (_, _) |- _ => fw2 H end.

Lemma send_tpcm_cts_st r pgn dst idev np nx : rstatic r (fst (send_tpcm_cts r pgn dst idev np nx)).
Proof. unfold send_tpcm_cts. brk; fwall2; addf2; fin. Qed.
Lemma send_tpcm_cts_st' r pgn dst idev np nx r' ev : send_tpcm_cts r pgn dst idev np nx = (r', ev) -> rstatic r r'.
Proof. eqf (send_tpcm_cts_st r pgn dst idev np nx). Qed.
Lemma send_tpcm_endack_st r pgn dst idev nb np : rstatic r (fst (send_tpcm_endack r pgn dst idev nb np)).
Proof. unfold send_tpcm_endack. brk; fwall2; addf2; fin. Qed.
Lemma send_tpcm_endack_st' r pgn dst idev nb np r' ev : send_tpcm_endack r pgn dst idev nb np = (r', ev) -> rstatic r r'.
Proof. eqf (send_tpcm_endack_st r pgn dst idev nb np). Qed.
Lemma send_tpcm_abort_st r pgn dst idev code : rstatic r (fst (send_tpcm_abort r pgn dst idev code)).
Proof. unfold send_tpcm_abort. brk; fwall2; addf2; fin. Qed.
Lemma send_tpcm_abort_st' r pgn dst idev code r' ev : send_tpcm_abort r pgn dst idev code = (r', ev) -> rstatic r r'.
Proof. eqf (send_tpcm_abort_st r pgn dst idev code). Qed.

Lemma set_dev_tp_st r i tp t sq : rstatic r (set_dev_tp r i tp t sq).
Proof. unfold set_dev_tp. addf2. fin. Qed.
Lemma end_send_tp_r_st r i : rstatic r (end_send_tp_r r i).
Proof. unfold end_send_tp_r. addf2. fin. Qed.

Ltac addf3 := addf2; repeat match goal with
  | |- context [set_dev_tp ?r ?i ?a ?b ?c] => note (set_dev_tp_st r i a b c)
  | H : context [set_dev_tp ?r ?i ?a ?b ?c] |- _ => note (set_dev_tp_st r i a b c)
  | |- context [end_send_tp_r ?r ?i] => note (end_send_tp_r_st r i)
  | H : context [end_send_tp_r ?r ?i] |- _ => note (end_send_tp_r_st r i)
  end.
Ltac fw3 H := first [ fw2 H | apply send_tpcm_cts_st' in H | apply send_tpcm_endack_st' in H | apply send_tpcm_abort_st' in H ].
Ltac fwall3 := repeat match goal with H : _ = (_, _) |- _ => fw3 H end.

Lemma send_tpdt_st r i : rstatic r (fst (fst (send_tpdt r i))).
Proof.
  unfold send_tpdt.
  match goal with |- context [rsend ?a ?b ?c] => pose proof (rsend_st a b c) end. addf3. fin.
Qed.
Lemma send_tpdt_st' r i r' ev ok : send_tpdt r i = (r', ev, ok) -> rstatic r r'.  Proof. eqf (send_tpdt_st r i). Qed.

Lemma send_tpdt_burst_st k : forall r i, rstatic r (fst (fst (send_tpdt_burst k r i))).
Proof.
  induction k as [|k IH]; intros r i; cbn [send_tpdt_burst]; [apply rstatic_refl|].
  brk; try apply rstatic_refl.
  - match goal with H : send_tpdt _ _ = _ |- _ => apply send_tpdt_st' in H end.
    match goal with H : send_tpdt_burst k ?a ?b = _ |- _ => pose proof (IH a b) as K; rewrite H in K end. fin.
  - match goal with H : send_tpdt _ _ = _ |- _ => apply send_tpdt_st' in H end. fin.
Qed.
Lemma send_tpdt_burst_st' k r i r' ev ok : send_tpdt_burst k r i = (r', ev, ok) -> rstatic r r'.
Proof. eqf (send_tpdt_burst_st k r i). Qed.

Ltac fw4 H := first [ fw3 H | apply send_tpdt_st' in H | apply send_tpdt_burst_st' in H ].
Ltac fwall4 := repeat match goal with H : _ = (_, _) |- _ => fw4 H end.

Lemma send_pending_tp_st r i : rstatic r (fst (send_pending_tp r i)).
Proof. unfold send_pending_tp. brk; fwall4; addf3; fin. Qed.
Lemma send_pending_tp_st' r i r' ev : send_pending_tp r i = (r', ev) -> rstatic r r'.  Proof. eqf (send_pending_tp_st r i). Qed.

Lemma set_slot_st r i s : rstatic r (set_slot r i s).
Proof. unfold set_slot. addf3. fin. Qed.

Lemma find_free_slot_len r pgn src dst tp : length (fst (find_free_slot r pgn src dst tp)) = length (r_slots r).
Proof. unfold find_free_slot. brk; cbn [fst]; rewrite ?zset_length; reflexivity. Qed.

Ltac addf4 := addf3; repeat match goal with
  | |- context [set_slot ?r ?i ?s] => note (set_slot_st r i s)
  | H : context [set_slot ?r ?i ?s] |- _ => note (set_slot_st r i s)
  end.

Lemma handle_tp_st r pgn src dst len buf : rstatic r (snd (fst (fst (handle_tp r pgn src dst len buf)))).
Proof.
  unfold handle_tp. cbv zeta.
  brk; cbn [fst snd]; fwall4; addf4;
    try (match goal with H : find_free_slot ?a ?b ?c ?d ?e = _ |- _ => pose proof (find_free_slot_len a b c d e) as K; rewrite H in K; cbn [fst] in K end);
    fin.
Qed.
Lemma handle_tp_st' r pgn src dst len buf h r' ev idx : handle_tp r pgn src dst len buf = (h, r', ev, idx) -> rstatic r r'.
Proof. intros E. pose proof (handle_tp_st r pgn src dst len buf) as H. rewrite E in H. exact H. Qed.

Lemma mark_ready_st r idx : rstatic r (fst (mark_ready r idx)).
Proof. unfold mark_ready. cbn [fst]. addf4. fin. Qed.
Lemma mark_ready_st' r idx r' j : mark_ready r idx = (r', j) -> rstatic r r'.  Proof. eqf (mark_ready_st r idx). Qed.

Ltac fw5 H := first [ fw4 H | apply handle_tp_st' in H | apply mark_ready_st' in H | apply send_pending_tp_st' in H ].
Ltac fwall5 := repeat match goal with H : _ = (_, _) |- _ => fw5 H end.
Ltac ffs := repeat match goal with H : find_free_slot ?a ?b ?c ?d ?e = _ |- _ =>
  let K := fresh "K" in pose proof (find_free_slot_len a b c d e) as K; rewrite H in K; cbn [fst] in K; clear H end.

Lemma rx_frame_st r f : rstatic r (fst (fst (rx_frame r f))).
Proof. unfold rx_frame. cbv zeta. brk; cbn [fst snd]; fwall5; ffs; addf4; fin. Qed.
Lemma rx_frame_st' r f r' ev idx : rx_frame r f = (r', ev, idx) -> rstatic r r'.  Proof. eqf (rx_frame_st r f). Qed.

Lemma set_src_st r i s u : rstatic r (set_src r i s u).  Proof. unfold set_src. addf4. fin. Qed.
Lemma set_addr_changed_st r : rstatic r (set_addr_changed r).  Proof. unfold set_addr_changed. fin. Qed.
Lemma set_name_st r i nm : rstatic r (set_name r i nm).  Proof. unfold set_name. addf4. fin. Qed.
Lemma set_pending_st r i a b c : rstatic r (set_pending r i a b c).  Proof. unfold set_pending. addf4. fin. Qed.

Ltac addf5 := addf4; repeat match goal with
  | |- context [set_src ?r ?i ?s ?u] => note (set_src_st r i s u)
  | H : context [set_src ?r ?i ?s ?u] |- _ => note (set_src_st r i s u)
  | |- context [set_addr_changed ?r] => note (set_addr_changed_st r)
  | H : context [set_addr_changed ?r] |- _ => note (set_addr_changed_st r)
  | |- context [set_name ?r ?i ?s] => note (set_name_st r i s)
  | H : context [set_name ?r ?i ?s] |- _ => note (set_name_st r i s)
  | |- context [set_pending ?r ?i ?a ?b ?c] => note (set_pending_st r i a b c)
  | H : context [set_pending ?r ?i ?a ?b ?c] |- _ => note (set_pending_st r i a b c)
  end.

Lemma next_address_st k : forall r i b, rstatic r (next_address k r i b).
Proof.
  induction k as [|k IH]; intros r i b; cbn [next_address]; [apply rstatic_refl|].
  brk; try apply rstatic_refl;
    repeat match goal with |- context [next_address k ?a ?b ?c] => note (IH a b c) end; addf5; fin.
Qed.

Lemma rstart_claim_st r i : rstatic r (fst (rstart_claim r i)).
Proof.
  unfold rstart_claim. brk.
  match goal with H : start_address_claim ?a ?b = _ |- _ => pose proof (start_address_claim_st a b) as K; rewrite H in K end.
  addf5. fin.
Qed.
Lemma rstart_claim_st' r i r' ev : rstart_claim r i = (r', ev) -> rstatic r r'.  Proof. eqf (rstart_claim_st r i). Qed.
Lemma rsend_claim_st r dst i : rstatic r (fst (rsend_claim r dst i)).
Proof.
  unfold rsend_claim. brk.
  match goal with H : send_iso_address_claim ?a ?b ?c = _ |- _ => pose proof (send_iso_address_claim_st a b c) as K; rewrite H in K end.
  fin.
Qed.
Lemma rsend_claim_st' r dst i r' ev : rsend_claim r dst i = (r', ev) -> rstatic r r'.  Proof. eqf (rsend_claim_st r dst i). Qed.

Ltac addf6 := addf5; repeat match goal with
  | |- context [next_address ?k ?r ?i ?b] => note (next_address_st k r i b)
  | H : context [next_address ?k ?r ?i ?b] |- _ => note (next_address_st k r i b)
  | |- context [fst (rstart_claim ?r ?i)] => note (rstart_claim_st r i)
  | |- context [fst (rsend_claim ?r ?d ?i)] => note (rsend_claim_st r d i)
  end.
Ltac fw6 H := first [ fw5 H | apply rx_frame_st' in H | apply rstart_claim_st' in H | apply rsend_claim_st' in H ].
Ltac fwall6 := repeat match goal with H : _ = (_, _) |- _ => fw6 H end.

Lemma handle_claim_st r src data : rstatic r (fst (handle_claim r src data)).
Proof. unfold handle_claim. cbv zeta. brk; cbn [fst snd]; fwall6; addf6; fin. Qed.
Lemma handle_claim_st' r src data r' ev : handle_claim r src data = (r', ev) -> rstatic r r'.  Proof. eqf (handle_claim_st r src data). Qed.

Lemma commanded_one_st r nm na i : rstatic r (fst (commanded_one r nm na i)).
Proof. unfold commanded_one. cbv zeta. brk; cbn [fst snd]; fwall6; addf6; fin. Qed.
Lemma commanded_one_st' r nm na i r' ev : commanded_one r nm na i = (r', ev) -> rstatic r r'.  Proof. eqf (commanded_one_st r nm na i). Qed.
Lemma commanded_all_st k : forall r nm na i, rstatic r (fst (commanded_all k r nm na i)).
Proof.
  induction k as [|k IH]; intros r nm na i; cbn [commanded_all]; [apply rstatic_refl|].
  brk; cbn [fst].
  match goal with H : commanded_one _ _ _ _ = _ |- _ => apply commanded_one_st' in H end.
  match goal with H : commanded_all k ?a ?b ?c ?d = _ |- _ => pose proof (IH a b c d) as K; rewrite H in K end. fin.
Qed.
Lemma handle_commanded_st r s : rstatic r (fst (handle_commanded r s)).
Proof.
  unfold handle_commanded. cbv zeta. brk; cbn [fst snd]; try apply rstatic_refl;
    first [apply commanded_all_st | apply commanded_one_st].
Qed.
Lemma handle_commanded_st' r s r' ev : handle_commanded r s = (r', ev) -> rstatic r r'.  Proof. eqf (handle_commanded_st r s). Qed.

Lemma send_product_info_st r i : rstatic r (fst (send_product_info r i)).
Proof. unfold send_product_info. cbv zeta. brk; cbn [fst snd]; fwall6; addf6; fin. Qed.
Lemma send_product_info_st' r i r' ev : send_product_info r i = (r', ev) -> rstatic r r'.  Proof. eqf (send_product_info_st r i). Qed.
Lemma send_config_info_st r i : rstatic r (fst (send_config_info r i)).
Proof. unfold send_config_info. cbv zeta. brk; cbn [fst snd]; fwall6; addf6; fin. Qed.
Lemma send_config_info_st' r i r' ev : send_config_info r i = (r', ev) -> rstatic r r'.  Proof. eqf (send_config_info_st r i). Qed.

Ltac fw7 H := first [ fw6 H | apply handle_claim_st' in H | apply handle_commanded_st' in H | apply send_product_info_st' in H | apply send_config_info_st' in H ].
Ltac fwall7 := repeat match goal with H : _ = (_, _) |- _ => fw7 H end.

Ltac addf7 := addf6; repeat match goal with
  | |- context [fst (send_product_info ?r ?i)] => note (send_product_info_st r i)
  | |- context [fst (send_config_info ?r ?i)] => note (send_config_info_st r i)
  end.
Lemma respond_iso_request_st r rq ad p i : rstatic r (fst (respond_iso_request r rq ad p i)).
Proof. unfold respond_iso_request. cbv zeta. brk; cbn [fst snd]; fwall7; addf7; fin. Qed.
Lemma respond_iso_request_st' r rq ad p i r' ev : respond_iso_request r rq ad p i = (r', ev) -> rstatic r r'.
Proof. eqf (respond_iso_request_st r rq ad p i). Qed.
Lemma respond_all_st k : forall r rq p i, rstatic r (fst (respond_all k r rq p i)).
Proof.
  induction k as [|k IH]; intros r rq p i; cbn [respond_all]; [apply rstatic_refl|].
  brk; cbn [fst].
  match goal with H : respond_iso_request _ _ _ _ _ = _ |- _ => apply respond_iso_request_st' in H end.
  match goal with H : respond_all k ?a ?b ?c ?d = _ |- _ => pose proof (IH a b c d) as K; rewrite H in K end. fin.
Qed.
Lemma handle_iso_request_st r s : rstatic r (fst (handle_iso_request r s)).
Proof.
  unfold handle_iso_request. cbv zeta. brk; cbn [fst snd]; try apply rstatic_refl;
    first [apply respond_all_st | apply respond_iso_request_st].
Qed.
Lemma handle_iso_request_st' r s r' ev : handle_iso_request r s = (r', ev) -> rstatic r r'.  Proof. eqf (handle_iso_request_st r s). Qed.

Definition gf_static (gf : rnode -> slot -> rnode * list event) : Prop := forall r s, rstatic r (fst (gf r s)).

Section WithGf.
Variable gf : rnode -> slot -> rnode * list event.
Hypothesis Hgf : gf_static gf.

Lemma handle_system_st r s : rstatic r (fst (handle_system gf r s)).
Proof.
  unfold handle_system. cbv zeta. brk; cbn [fst snd]; try apply rstatic_refl;
    first [apply handle_iso_request_st | apply handle_claim_st | apply handle_commanded_st | apply Hgf].
Qed.
Lemma handle_system_st' r s r' ev : handle_system gf r s = (r', ev) -> rstatic r r'.  Proof. eqf (handle_system_st r s). Qed.

Lemma rx_loop_st k : forall r, rstatic r (fst (rx_loop gf k r)).
Proof.
  induction k as [|k IH]; intros r; cbn [rx_loop]; [apply rstatic_refl|].
  brk; cbn [fst snd]; try apply rstatic_refl.
  - match goal with H : rx_frame _ _ = _ |- _ => apply rx_frame_st' in H end.
    match goal with H : handle_system _ _ _ = _ |- _ => apply handle_system_st' in H end.
    match goal with H : rx_loop gf k ?a = _ |- _ => pose proof (IH a) as K; rewrite H in K end.
    addf6. fin.
  - match goal with H : rx_frame _ _ = _ |- _ => apply rx_frame_st' in H end.
    match goal with H : rx_loop gf k ?a = _ |- _ => pose proof (IH a) as K; rewrite H in K end.
    fin.
Qed.
End WithGf.

Lemma send_pending_info_dev_st r i : rstatic r (fst (send_pending_info_dev r i)).
Proof. unfold send_pending_info_dev. cbv zeta. brk; cbn [fst snd] in *; brkh; fwall7; addf6; fin. Qed.
Lemma send_pending_info_dev_st' r i r' ev : send_pending_info_dev r i = (r', ev) -> rstatic r r'.  Proof. eqf (send_pending_info_dev_st r i). Qed.
Lemma send_pending_info_st k : forall r i, rstatic r (fst (send_pending_info k r i)).
Proof.
  induction k as [|k IH]; intros r i; cbn [send_pending_info]; [apply rstatic_refl|].
  brk; cbn [fst snd] in *; brkh.
  - match goal with H : send_pending_info_dev _ _ = _ |- _ => apply send_pending_info_dev_st' in H end.
    match goal with H : send_pending_info k ?a ?b = _ |- _ => pose proof (IH a b) as K; rewrite H in K end. fin.
  - match goal with H : send_pending_info k ?a ?b = _ |- _ => pose proof (IH a b) as K; rewrite H in K end. fin.
Qed.

Lemma millis64_st r : rstatic r (fst (millis64 r)).
Proof. unfold millis64. brk; fin. Qed.
Lemma millis64_st' r r' t : millis64 r = (r', t) -> rstatic r r'.  Proof. eqf (millis64_st r). Qed.

Lemma send_heartbeat_dev_st r i : rstatic r (fst (send_heartbeat_dev r i)).
Proof.
  unfold send_heartbeat_dev. brk; cbn [fst snd];
    repeat match goal with H : millis64 _ = _ |- _ => apply millis64_st' in H end; fwall7; addf6; fin.
Qed.
Lemma send_heartbeat_dev_st' r i r' ev : send_heartbeat_dev r i = (r', ev) -> rstatic r r'.  Proof. eqf (send_heartbeat_dev_st r i). Qed.
Lemma send_heartbeat_st k : forall r i, rstatic r (fst (send_heartbeat k r i)).
Proof.
  induction k as [|k IH]; intros r i; cbn [send_heartbeat]; [apply rstatic_refl|].
  brk; cbn [fst].
  match goal with H : send_heartbeat_dev _ _ = _ |- _ => apply send_heartbeat_dev_st' in H end.
  match goal with H : send_heartbeat k ?a ?b = _ |- _ => pose proof (IH a b) as K; rewrite H in K end. fin.
Qed.

Lemma set_heartbeat_all_st k : forall r i iv off, rstatic r (set_heartbeat_all k r i iv off).
Proof.
  induction k as [|k IH]; intros r i iv off; cbn [set_heartbeat_all]; [apply rstatic_refl|].
  cbv zeta. brk; repeat match goal with H : millis64 _ = _ |- _ => apply millis64_st' in H end;
    match goal with |- context [set_heartbeat_all k ?a ?b ?c ?d] => pose proof (IH a b c d) end; fin.
Qed.

Lemma start_claim_all_st k : forall r i, rstatic r (fst (start_claim_all k r i)).
Proof.
  induction k as [|k IH]; intros r i; cbn [start_claim_all]; [apply rstatic_refl|].
  brk; cbn [fst];
    match goal with H : rstart_claim _ _ = _ |- _ => apply rstart_claim_st' in H end;
    match goal with H : start_claim_all k ?a ?b = _ |- _ => pose proof (IH a b) as K; rewrite H in K end; addf6; brkh; fin.
Qed.

Lemma rflush_st r : rstatic r (fst (rflush r)).
Proof. unfold rflush. brk. fin. Qed.
Lemma rflush_st' r r' ev : rflush r = (r', ev) -> rstatic r r'.  Proof. eqf (rflush_st r). Qed.
