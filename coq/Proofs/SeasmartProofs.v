From Coq Require Import ZArith List Bool Lia.
From N2kV Require Import Base.Res Model.SeasmartDefs Spec.SeasmartSpec.
Import ListNotations ResNotations.
Local Open Scope Z_scope.

(* Proofs of the four C19 (Seasmart) statements of Spec/SeasmartSpec.v.

   Plan: a cursor predicate [at_ s p r] ("r is the suffix of s at index p") turns every index-based reader of the
   model into a statement about list shapes.  Each reader gets a forward lemma ([x_fwd]: on a well-shaped suffix it
   returns the expected value) and a total/inversion lemma ([x_spec]: it always returns Ok, and a positive answer
   forces the shape of the suffix).  From these:
     import_complete : on a well-shaped sentence import returns the decoded message,
     import_cases    : on any string import returns Ok None or the string is well-shaped,
   and the four theorems are corollaries. *)

Local Ltac Zify.zify_post_hook ::= Z.div_mod_to_equations.

(* ---------- the cursor predicate: r is the suffix of s starting at index p ---------- *)
Definition at_ (s:list Z) (p:Z) (r:list Z) : Prop :=
  exists pre, s = pre ++ r /\ Z.of_nat (length pre) = p.

Lemma at_0 s : at_ s 0 s.
Proof. exists []. split; reflexivity. Qed.

Lemma at_app s p a r q : at_ s p (a ++ r) -> q = p + Z.of_nat (length a) -> at_ s q r.
Proof.
  intros (pre & Hs & Hp) Hq. exists (pre ++ a). split.
  - rewrite <- app_assoc. exact Hs.
  - rewrite app_length. lia.
Qed.

Lemma at_cons s p c r q : at_ s p (c :: r) -> q = p + 1 -> at_ s q r.
Proof. intros H Hq. apply (at_app s p [c] r q H). cbn. lia. Qed.

Lemma at_eq s p q r : at_ s p r -> p = q -> at_ s q r.
Proof. intros H <-. exact H. Qed.

Lemma at_len s p r : at_ s p r -> Z.of_nat (length s) = p + Z.of_nat (length r) /\ 0 <= p.
Proof. intros (pre & -> & <-). rewrite app_length. lia. Qed.

Lemma at_rd s p r : at_ s p r -> rd s p = Ok (match r with [] => 0 | c :: _ => c end).
Proof.
  intros (pre & -> & <-). unfold rd.
  destruct (Z.ltb_spec (Z.of_nat (length pre)) 0) as [Hlt|_]; [lia|].
  rewrite Nat2Z.id. rewrite nth_error_app2 by lia. rewrite Nat.sub_diag.
  destruct r as [|c r']; cbn [nth_error].
  - rewrite app_nil_r, Z.eqb_refl. reflexivity.
  - reflexivity.
Qed.

Lemma bind_ok {A B} (r:res A) (f:A -> res B) a : r = Ok a -> bind r f = f a.
Proof. intros ->. reflexivity. Qed.

(* ---------- hex digits ---------- *)
Lemma is_xdigit_iff c : is_xdigit c = true <-> (48 <= c <= 57 \/ 65 <= c <= 70 \/ 97 <= c <= 102).
Proof.
  unfold is_xdigit. rewrite !orb_true_iff, !andb_true_iff, !Z.leb_le. tauto.
Qed.

Lemma is_xdigit_0 : is_xdigit 0 = false.
Proof. reflexivity. Qed.

Lemma xdigit_nz c : is_xdigit c = true -> c <> 0 /\ c <> 42 /\ c <> 44.
Proof. rewrite is_xdigit_iff. lia. Qed.

Lemma hexvalue_app a b acc : hexvalue (a ++ b) acc = hexvalue b (hexvalue a acc).
Proof. revert acc. induction a as [|c a IH]; intros acc; cbn [app hexvalue]; [reflexivity|apply IH]. Qed.

Lemma hexvalue_acc l acc : hexvalue l acc = acc * 16 ^ Z.of_nat (length l) + hexvalue l 0.
Proof.
  revert acc. induction l as [|c l IH]; intros acc.
  - cbn. lia.
  - cbn [hexvalue length]. rewrite IH. rewrite (IH (0 * 16 + hexval c)).
    rewrite Nat2Z.inj_succ, Z.pow_succ_r by lia. ring.
Qed.

(* ---------- all_xdigit / hexnum / read_n_hex ---------- *)
Lemma all_xdigit_fwd ds : forall s p rest, xdigits ds -> at_ s p (ds ++ rest) ->
  all_xdigit s p (length ds) = Ok true.
Proof.
  induction ds as [|c ds IH]; intros s p rest Hx Hat; cbn [length all_xdigit]; [reflexivity|].
  rewrite (at_rd _ _ _ Hat). cbn [app bind].
  inversion Hx as [|? ? Hc Hx']; subst. rewrite Hc.
  apply (IH s (p+1) rest Hx'). eapply at_cons; [exact Hat|reflexivity].
Qed.

Lemma hexnum_fwd ds : forall s p rest acc, at_ s p (ds ++ rest) ->
  hexnum s p (length ds) acc = Ok (hexvalue ds acc).
Proof.
  induction ds as [|c ds IH]; intros s p rest acc Hat; cbn [length hexnum hexvalue]; [reflexivity|].
  rewrite (at_rd _ _ _ Hat). cbn [app bind].
  apply (IH s (p+1) rest). eapply at_cons; [exact Hat|reflexivity].
Qed.

Lemma all_xdigit_spec n : forall s p r, at_ s p r ->
  exists b, all_xdigit s p n = Ok b /\
    (b = true -> exists ds rest, r = ds ++ rest /\ length ds = n /\ xdigits ds).
Proof.
  induction n as [|n IH]; intros s p r Hat; cbn [all_xdigit].
  - exists true. split; [reflexivity|]. intros _. exists [], r. repeat split. constructor.
  - rewrite (at_rd _ _ _ Hat). cbn [bind].
    destruct r as [|c r'].
    + rewrite is_xdigit_0. exists false. split; [reflexivity|discriminate].
    + destruct (is_xdigit c) eqn:Hc.
      * destruct (IH s (p+1) r') as (b & Eb & Hb); [eapply at_cons; [exact Hat|reflexivity]|].
        exists b. split; [exact Eb|]. intros ->.
        destruct (Hb eq_refl) as (ds & rest & -> & Hl & Hx).
        exists (c :: ds), rest. repeat split; [cbn; lia|constructor; assumption].
      * exists false. split; [reflexivity|discriminate].
Qed.

Lemma strlen_at s p r : at_ s p r -> strlen_from s p = Ok (Z.of_nat (length r)).
Proof.
  intros Hat. destruct (at_len _ _ _ Hat) as [Hl Hp]. unfold strlen_from.
  destruct (Z.leb_spec 0 p); [|lia]. destruct (Z.leb_spec p (Z.of_nat (length s))); [|lia].
  cbn [andb]. f_equal. lia.
Qed.

Lemma read_n_hex_fwd s p n ds rest : xdigits ds -> length ds = (2*n)%nat -> at_ s p (ds ++ rest) ->
  read_n_hex s p n = Ok (Some (hexvalue ds 0)).
Proof.
  intros Hx Hl Hat. unfold read_n_hex. rewrite (strlen_at _ _ _ Hat). cbn [bind].
  rewrite app_length.
  destruct (Z.ltb_spec (Z.of_nat (length ds + length rest)) (2 * Z.of_nat n)) as [Hlt|_]; [lia|].
  rewrite <- Hl. rewrite (all_xdigit_fwd ds s p rest Hx Hat). cbn [bind].
  rewrite (hexnum_fwd ds s p rest 0 Hat). reflexivity.
Qed.

Lemma read_n_hex_spec s p n r : at_ s p r ->
  exists o, read_n_hex s p n = Ok o /\
    (forall v, o = Some v -> exists ds rest, r = ds ++ rest /\ length ds = (2*n)%nat /\ xdigits ds /\ v = hexvalue ds 0).
Proof.
  intros Hat. unfold read_n_hex. rewrite (strlen_at _ _ _ Hat). cbn [bind].
  destruct (Z.ltb_spec (Z.of_nat (length r)) (2 * Z.of_nat n)) as [Hlt|Hge].
  { exists None. split; [reflexivity|discriminate]. }
  destruct (all_xdigit_spec (2*n) s p r Hat) as (b & Eb & Hb). rewrite Eb. cbn [bind].
  destruct b.
  - destruct (Hb eq_refl) as (ds & rest & -> & Hl & Hx).
    rewrite <- Hl. rewrite (hexnum_fwd ds s p rest 0 Hat). cbn [bind].
    exists (Some (hexvalue ds 0)). split; [reflexivity|].
    intros v [= <-]. exists ds, rest. repeat split; assumption.
  - exists None. split; [reflexivity|discriminate].
Qed.
(* ---------- expect / prefix ---------- *)
Lemma expect_fwd s p c r : at_ s p (c :: r) -> expect s p c = Ok true.
Proof. intros Hat. unfold expect. rewrite (at_rd _ _ _ Hat). cbn [bind]. rewrite Z.eqb_refl. reflexivity. Qed.

Lemma expect_spec s p c r : at_ s p r -> c <> 0 ->
  exists b, expect s p c = Ok b /\ (b = true -> exists r', r = c :: r').
Proof.
  intros Hat Hc. unfold expect. rewrite (at_rd _ _ _ Hat). cbn [bind].
  eexists. split; [reflexivity|]. intros Hb. apply Z.eqb_eq in Hb.
  destruct r as [|x r']; [congruence|]. subst x. exists r'. reflexivity.
Qed.

Lemma prefix_go_spec pat : forall s i r, at_ s i r -> Forall (fun c => c <> 0) pat ->
  exists b, prefix_go s pat i = Ok b /\ (b = true -> exists r', r = pat ++ r').
Proof.
  induction pat as [|c pat IH]; intros s i r Hat Hnz; cbn [prefix_go].
  - exists true. split; [reflexivity|]. intros _. exists r. reflexivity.
  - inversion Hnz as [|? ? Hc Hnz']; subst. rewrite (at_rd _ _ _ Hat). cbn [bind].
    destruct r as [|x r'].
    + destruct (Z.eqb_spec 0 c) as [E|_]; [congruence|].
      exists false. split; [reflexivity|discriminate].
    + destruct (Z.eqb_spec x c) as [E|_].
      * subst x. destruct (Z.eqb_spec c 0) as [E|_]; [congruence|].
        destruct (IH s (i+1) r') as (b & Eb & Hb); [eapply at_cons; [exact Hat|reflexivity]|assumption|].
        exists b. split; [exact Eb|]. intros Hbt. destruct (Hb Hbt) as (r'' & ->).
        exists r''. reflexivity.
      * exists false. split; [reflexivity|discriminate].
Qed.

Lemma pcdin_nz : Forall (fun c => c <> 0) pcdin.
Proof. unfold pcdin. repeat constructor; discriminate. Qed.

Lemma prefix7_spec s : exists b, prefix7 s = Ok b /\ (b = true -> exists r, s = pcdin ++ r).
Proof. unfold prefix7. apply prefix_go_spec; [apply at_0|apply pcdin_nz]. Qed.

Lemma prefix7_fwd r : prefix7 (pcdin ++ r) = Ok true.
Proof. reflexivity. Qed.

(* ---------- scan_data ---------- *)
Lemma scan_data_total r : forall s p fuel n, at_ s (p+n) r -> (length r < fuel)%nat ->
  exists n', scan_data s p fuel n = Ok n' /\ n <= n'.
Proof.
  induction r as [|c r IH]; intros s p fuel n Hat Hf; (destruct fuel as [|k]; [cbn in Hf; lia|]);
    cbn [scan_data]; rewrite (at_rd _ _ _ Hat); cbn [bind].
  - cbn. exists n. split; [reflexivity|lia].
  - destruct ((c =? 0) || (c =? 42)).
    + exists n. split; [reflexivity|lia].
    + destruct (IH s p k (n+1)) as (n' & En & Hn).
      * eapply at_cons; [exact Hat|lia].
      * cbn in Hf. lia.
      * exists n'. split; [exact En|lia].
Qed.

Lemma scan_data_fwd dd : forall s p fuel n rest, at_ s (p+n) (dd ++ 42 :: rest) ->
  Forall (fun x => x <> 0 /\ x <> 42) dd -> (length dd < fuel)%nat ->
  scan_data s p fuel n = Ok (n + Z.of_nat (length dd)).
Proof.
  induction dd as [|c dd IH]; intros s p fuel n rest Hat Hnz Hf; (destruct fuel as [|k]; [cbn in Hf; lia|]);
    cbn [scan_data]; rewrite (at_rd _ _ _ Hat); cbn [bind app].
  - cbn. f_equal. lia.
  - inversion Hnz as [|? ? [Hc0 Hc42] Hnz']; subst.
    destruct (Z.eqb_spec c 0) as [E|_]; [congruence|].
    destruct (Z.eqb_spec c 42) as [E|_]; [congruence|]. cbn [orb].
    rewrite (IH s p k (n+1) rest).
    + f_equal. cbn [length]. lia.
    + eapply at_cons; [exact Hat|lia].
    + assumption.
    + cbn in Hf. lia.
Qed.

(* ---------- read_bytes ---------- *)
Lemma read_bytes_fwd k : forall dd s p rest, xdigits dd -> length dd = (2*k)%nat -> at_ s p (dd ++ rest) ->
  read_bytes s p k = Ok (Some (bytes_of dd)).
Proof.
  induction k as [|k IH]; intros dd s p rest Hx Hl Hat; cbn [read_bytes].
  - destruct dd; [reflexivity|cbn in Hl; lia].
  - destruct dd as [|a [|b dd]]; [cbn in Hl; lia|cbn in Hl; lia|].
    inversion Hx as [|? ? Ha Hx1]; subst. inversion Hx1 as [|? ? Hb Hx2]; subst.
    rewrite (read_n_hex_fwd s p 1 [a;b] (dd ++ rest)); [|repeat constructor; assumption|reflexivity|exact Hat].
    cbn [bind]. rewrite (IH dd s (p+2) rest); [|assumption|cbn in Hl; lia|].
    + cbn [bind bytes_of hexvalue].
      replace ((0 * 16 + hexval a) * 16 + hexval b) with (hexval a * 16 + hexval b) by lia. reflexivity.
    + apply (at_app s p [a;b] (dd ++ rest)); [exact Hat|cbn; lia].
Qed.

Lemma read_bytes_spec k : forall s p r, at_ s p r ->
  exists o, read_bytes s p k = Ok o /\
    (forall bs, o = Some bs -> exists dd rest, r = dd ++ rest /\ length dd = (2*k)%nat /\ xdigits dd /\ bs = bytes_of dd).
Proof.
  induction k as [|k IH]; intros s p r Hat; cbn [read_bytes].
  - exists (Some []). split; [reflexivity|]. intros bs [= <-]. exists [], r. repeat split. constructor.
  - destruct (read_n_hex_spec s p 1 r Hat) as (o & Eo & Ho). rewrite Eo. cbn [bind].
    destruct o as [v|]; [|exists None; split; [reflexivity|discriminate]].
    destruct (Ho v eq_refl) as (ds & r1 & -> & Hl & Hx & Hv).
    destruct (IH s (p+2) r1) as (o2 & Eo2 & Ho2); [apply (at_app s p ds r1); [exact Hat|lia]|].
    rewrite Eo2. cbn [bind].
    destruct o2 as [l|]; [|exists None; split; [reflexivity|discriminate]].
    destruct (Ho2 l eq_refl) as (dd & rest & -> & Hl2 & Hx2 & Hbs).
    exists (Some (v :: l)). split; [reflexivity|]. intros bs [= <-].
    exists (ds ++ dd), rest. split; [rewrite app_assoc; reflexivity|].
    split; [rewrite app_length; lia|]. split; [apply Forall_app; split; assumption|].
    destruct ds as [|a [|b [|? ?]]]; cbn in Hl; try lia.
    cbn [app bytes_of]. subst v l. cbn [hexvalue].
    replace ((0 * 16 + hexval a) * 16 + hexval b) with (hexval a * 16 + hexval b) by lia. reflexivity.
Qed.

Lemma bytes_of_length k : forall dd, length dd = (2*k)%nat -> length (bytes_of dd) = k.
Proof.
  induction k as [|k IH]; intros dd Hl.
  - destruct dd; [reflexivity|cbn in Hl; lia].
  - destruct dd as [|a [|b dd]]; [cbn in Hl; lia|cbn in Hl; lia|].
    cbn [bytes_of length]. f_equal. apply IH. cbn in Hl. lia.
Qed.

(* ---------- checksum ---------- *)
Lemma checksum_fwd b : forall s i fuel acc rest, at_ s i (b ++ 42 :: rest) ->
  Forall (fun x => x <> 42) b -> (length b < fuel)%nat ->
  checksum s i fuel acc = Ok (fold_left Z.lxor b acc).
Proof.
  induction b as [|c b IH]; intros s i fuel acc rest Hat Hnz Hf; (destruct fuel as [|k]; [cbn in Hf; lia|]);
    cbn [checksum]; rewrite (at_rd _ _ _ Hat); cbn [bind app].
  - reflexivity.
  - inversion Hnz as [|? ? Hc Hnz']; subst.
    destruct (Z.eqb_spec c 42) as [E|_]; [congruence|].
    cbn [fold_left]. apply (IH s (i+1) k _ rest).
    + eapply at_cons; [exact Hat|reflexivity].
    + assumption.
    + cbn in Hf. lia.
Qed.
(* ---------- completeness of import on well-shaped sentences ---------- *)
Lemma xdigits_not42 l : xdigits l -> Forall (fun x => x <> 0 /\ x <> 42) l.
Proof. intros H. eapply Forall_impl; [|exact H]. cbn beta. intros c Hc. apply xdigit_nz in Hc. tauto. Qed.

Lemma xdigits_ne42 l : xdigits l -> Forall (fun x => x <> 42) l.
Proof. intros H. eapply Forall_impl; [|exact H]. cbn beta. intros c Hc. apply xdigit_nz in Hc. tauto. Qed.

Lemma body_ne42 dp dt ds dd : xdigits dp -> xdigits dt -> xdigits ds -> xdigits dd ->
  Forall (fun x => x <> 42) (tl (pcdin ++ dp ++ [44] ++ dt ++ [44] ++ ds ++ [44] ++ dd)).
Proof.
  intros Hp Ht Hs Hd. cbn [pcdin app tl].
  repeat (apply Forall_cons; [discriminate|]).
  repeat (apply Forall_app; split; [apply xdigits_ne42; assumption|]; apply Forall_cons; [discriminate|]).
  apply xdigits_ne42; assumption.
Qed.

Lemma hexvalue_split a b : hexvalue (a ++ b) 0 = hexvalue a 0 * 16 ^ Z.of_nat (length b) + hexvalue b 0.
Proof. rewrite hexvalue_app. apply hexvalue_acc. Qed.

Theorem import_complete dp dt ds dd dc rest k :
  xdigits dp -> length dp = 6%nat -> xdigits dt -> length dt = 8%nat -> xdigits ds -> length ds = 2%nat ->
  xdigits dd -> length dd = (2*k)%nat -> (k <= 223)%nat -> xdigits dc -> length dc = 2%nat ->
  hexvalue dc 0 = xor_all (tl (pcdin ++ dp ++ [44] ++ dt ++ [44] ++ ds ++ [44] ++ dd)) mod 256 ->
  import (pcdin ++ dp ++ [44] ++ dt ++ [44] ++ ds ++ [44] ++ dd ++ [42] ++ dc ++ rest)
  = Ok (Some {| pgn := hexvalue dp 0; ts := hexvalue dt 0; src := hexvalue ds 0; data := bytes_of dd |}).
Proof.
  intros Hxp Hlp Hxt Hlt Hxs Hls Hxd Hld Hk Hxc Hlc Hcs.
  pose proof (body_ne42 dp dt ds dd Hxp Hxt Hxs Hxd) as Hb42.
  remember (tl (pcdin ++ dp ++ [44] ++ dt ++ [44] ++ ds ++ [44] ++ dd)) as body eqn:Hbody.
  remember (pcdin ++ dp ++ [44] ++ dt ++ [44] ++ ds ++ [44] ++ dd ++ [42] ++ dc ++ rest) as s eqn:Hs.
  assert (H1 : at_ s 1 (body ++ 42 :: dc ++ rest)).
  { exists [36]. split; [|reflexivity]. subst s body. cbn [pcdin app tl].
    repeat (rewrite <- app_assoc; cbn [app]). reflexivity. }
  assert (H7 : at_ s 7 (dp ++ [44] ++ dt ++ [44] ++ ds ++ [44] ++ dd ++ [42] ++ dc ++ rest)).
  { exists pcdin. split; [exact Hs|reflexivity]. }
  destruct dp as [|a [|b dp2]]; [cbn in Hlp; lia|cbn in Hlp; lia|].
  assert (Hlp2 : length dp2 = 4%nat) by (cbn in Hlp; lia).
  pose proof (Forall_inv Hxp) as Hxa. pose proof (Forall_inv_tail Hxp) as Hxp1.
  pose proof (Forall_inv Hxp1) as Hxb. pose proof (Forall_inv_tail Hxp1) as Hxp2.
  change ((a :: b :: dp2) ++ ?x) with ([a;b] ++ dp2 ++ x) in H7.
  pose proof (at_app _ _ _ _ 9 H7 eq_refl) as H9.
  pose proof (at_app _ _ _ _ 13 H9 ltac:(lia)) as H13.
  pose proof (at_app _ _ _ _ 14 H13 eq_refl) as H14.
  pose proof (at_app _ _ _ _ 22 H14 ltac:(lia)) as H22.
  pose proof (at_app _ _ _ _ 23 H22 eq_refl) as H23.
  pose proof (at_app _ _ _ _ 25 H23 ltac:(lia)) as H25.
  pose proof (at_app _ _ _ _ 26 H25 eq_refl) as H26.
  pose proof (at_app _ _ _ _ (26 + 2 * Z.of_nat k) H26 ltac:(lia)) as H26e.
  pose proof (at_app _ _ _ _ (26 + 2 * Z.of_nat k + 1) H26e eq_refl) as H27.
  pose proof (at_len _ _ _ H26) as [Hlen _]. rewrite app_length in Hlen.
  pose proof (at_len _ _ _ H1) as [Hlen1 _].
  unfold import.
  replace (prefix7 s) with (Ok (A:=bool) true) by (subst s; reflexivity). cbn [bind negb].
  rewrite (read_n_hex_fwd s 7 1 [a;b] _ ltac:(repeat constructor; assumption) eq_refl H7). cbn [bind].
  rewrite (read_n_hex_fwd s 9 2 dp2 _ Hxp2 Hlp2 H9). cbn [bind].
  rewrite (expect_fwd s 13 44 _ H13). cbn [bind negb].
  rewrite (read_n_hex_fwd s 14 4 dt _ Hxt Hlt H14). cbn [bind].
  rewrite (expect_fwd s 22 44 _ H22). cbn [bind negb].
  rewrite (read_n_hex_fwd s 23 1 ds _ Hxs Hls H23). cbn [bind].
  rewrite (expect_fwd s 25 44 _ H25). cbn [bind negb].
  rewrite (scan_data_fwd dd s 26 _ 0 (dc ++ rest)); [|eapply at_eq; [exact H26|lia]|apply xdigits_not42; assumption|lia].
  cbn [bind].
  replace (0 + Z.of_nat (length dd)) with (2 * Z.of_nat k) by lia.
  replace (2 * Z.of_nat k mod 2) with 0 by lia.
  replace (2 * Z.of_nat k / 2) with (Z.of_nat k) by lia.
  cbn [Z.eqb negb].
  destruct (Z.gtb_spec (Z.of_nat k) 223) as [Hgt|_]; [lia|].
  rewrite Nat2Z.id.
  rewrite (read_bytes_fwd k dd s 26 _ Hxd Hld H26). cbn [bind].
  rewrite (expect_fwd s _ 42 _ H26e). cbn [bind negb].
  rewrite (read_n_hex_fwd s _ 1 dc _ Hxc Hlc H27). cbn [bind].
  rewrite (checksum_fwd body s 1 _ 0 (dc ++ rest) H1 Hb42); [|rewrite app_length in Hlen1; lia]. cbn [bind].
  fold (xor_all body). rewrite Hcs, Z.eqb_refl.
  do 3 f_equal.
  change (a :: b :: dp2) with ([a;b] ++ dp2). rewrite hexvalue_split, Hlp2. reflexivity.
Qed.
(* ---------- import either rejects or the string has the sentence shape ---------- *)
Definition shaped (s:list Z) dp dt ds dd dc rest (k:nat) : Prop :=
  s = pcdin ++ dp ++ [44] ++ dt ++ [44] ++ ds ++ [44] ++ dd ++ [42] ++ dc ++ rest /\
  xdigits dp /\ length dp = 6%nat /\ xdigits dt /\ length dt = 8%nat /\ xdigits ds /\ length ds = 2%nat /\
  xdigits dd /\ length dd = (2*k)%nat /\ (k <= 223)%nat /\ xdigits dc /\ length dc = 2%nat /\
  hexvalue dc 0 = xor_all (tl (pcdin ++ dp ++ [44] ++ dt ++ [44] ++ ds ++ [44] ++ dd)) mod 256.

Theorem import_cases s :
  import s = Ok None \/ exists dp dt ds dd dc rest k, shaped s dp dt ds dd dc rest k.
Proof.
  unfold import.
  destruct (prefix7_spec s) as (b & E0 & Hb). rewrite E0. cbn [bind]. clear E0.
  destruct b; cbn [negb]; [|left; reflexivity].
  destruct (Hb eq_refl) as (r0 & Hs). clear Hb.
  assert (H7 : at_ s 7 r0) by (exists pcdin; split; [exact Hs|reflexivity]).
  (* pgn high byte *)
  destruct (read_n_hex_spec s 7 1 r0 H7) as (o & E & Ho). rewrite E. cbn [bind]. clear E.
  destruct o as [ph|]; [|left; reflexivity].
  destruct (Ho ph eq_refl) as (dp1 & r1 & -> & Hl1 & Hx1 & Hph). clear Ho.
  pose proof (at_app _ _ _ _ 9 H7 ltac:(lia)) as H9.
  (* pgn low word *)
  destruct (read_n_hex_spec s 9 2 r1 H9) as (o & E & Ho). rewrite E. cbn [bind]. clear E.
  destruct o as [pl|]; [|left; reflexivity].
  destruct (Ho pl eq_refl) as (dp2 & r2 & -> & Hl2 & Hx2 & Hpl). clear Ho.
  pose proof (at_app _ _ _ _ 13 H9 ltac:(lia)) as H13.
  (* ',' *)
  destruct (expect_spec s 13 44 r2 H13 ltac:(discriminate)) as (b & E & Hb). rewrite E. cbn [bind]. clear E.
  destruct b; cbn [negb]; [|left; reflexivity].
  destruct (Hb eq_refl) as (r3 & ->). clear Hb.
  pose proof (at_cons _ _ _ _ 14 H13 eq_refl) as H14.
  (* timestamp *)
  destruct (read_n_hex_spec s 14 4 r3 H14) as (o & E & Ho). rewrite E. cbn [bind]. clear E.
  destruct o as [tsv|]; [|left; reflexivity].
  destruct (Ho tsv eq_refl) as (dt & r4 & -> & Hlt & Hxt & Hts). clear Ho.
  pose proof (at_app _ _ _ _ 22 H14 ltac:(lia)) as H22.
  (* ',' *)
  destruct (expect_spec s 22 44 r4 H22 ltac:(discriminate)) as (b & E & Hb). rewrite E. cbn [bind]. clear E.
  destruct b; cbn [negb]; [|left; reflexivity].
  destruct (Hb eq_refl) as (r5 & ->). clear Hb.
  pose proof (at_cons _ _ _ _ 23 H22 eq_refl) as H23.
  (* source *)
  destruct (read_n_hex_spec s 23 1 r5 H23) as (o & E & Ho). rewrite E. cbn [bind]. clear E.
  destruct o as [sv|]; [|left; reflexivity].
  destruct (Ho sv eq_refl) as (ds & r6 & -> & Hls & Hxs & Hsv). clear Ho.
  pose proof (at_app _ _ _ _ 25 H23 ltac:(lia)) as H25.
  (* ',' *)
  destruct (expect_spec s 25 44 r6 H25 ltac:(discriminate)) as (b & E & Hb). rewrite E. cbn [bind]. clear E.
  destruct b; cbn [negb]; [|left; reflexivity].
  destruct (Hb eq_refl) as (r7 & ->). clear Hb.
  pose proof (at_cons _ _ _ _ 26 H25 eq_refl) as H26.
  (* data length scan *)
  pose proof (at_len _ _ _ H26) as [Hlen _].
  destruct (scan_data_total r7 s 26 (S (S (length s))) 0) as (n & E & Hn);
    [eapply at_eq; [exact H26|lia]|lia|].
  rewrite E. cbn [bind]. clear E.
  destruct (n mod 2 =? 0) eqn:Emod; cbn [negb]; [|left; reflexivity].
  apply Z.eqb_eq in Emod.
  destruct (Z.gtb_spec (n / 2) 223) as [Hgt|Hle]; [left; reflexivity|].
  (* data bytes *)
  destruct (read_bytes_spec (Z.to_nat (n / 2)) s 26 r7 H26) as (o & E & Ho). rewrite E. cbn [bind]. clear E.
  destruct o as [bytes|]; [|left; reflexivity].
  destruct (Ho bytes eq_refl) as (dd & r8 & -> & Hld & Hxd & Hbytes). clear Ho.
  pose proof (at_app _ _ _ _ (26 + 2 * (n / 2)) H26 ltac:(lia)) as H26e.
  (* '*' *)
  destruct (expect_spec s _ 42 r8 H26e ltac:(discriminate)) as (b & E & Hb). rewrite E. cbn [bind]. clear E.
  destruct b; cbn [negb]; [|left; reflexivity].
  destruct (Hb eq_refl) as (r9 & ->). clear Hb.
  pose proof (at_cons _ _ _ _ (26 + 2 * (n / 2) + 1) H26e eq_refl) as H27.
  (* checksum field *)
  destruct (read_n_hex_spec s _ 1 r9 H27) as (o & E & Ho). rewrite E. cbn [bind]. clear E.
  destruct o as [cs|]; [|left; reflexivity].
  destruct (Ho cs eq_refl) as (dc & rest & -> & Hlc & Hxc & Hcs). clear Ho.
  (* computed checksum *)
  assert (Hxp : xdigits (dp1 ++ dp2)) by (apply Forall_app; split; assumption).
  pose proof (body_ne42 (dp1 ++ dp2) dt ds dd Hxp Hxt Hxs Hxd) as Hb42.
  remember (tl (pcdin ++ (dp1 ++ dp2) ++ [44] ++ dt ++ [44] ++ ds ++ [44] ++ dd)) as body eqn:Hbody.
  assert (H1 : at_ s 1 (body ++ 42 :: dc ++ rest)).
  { exists [36]. split; [|reflexivity]. rewrite Hs, Hbody. cbn [pcdin app tl].
    repeat (rewrite <- app_assoc; cbn [app]). reflexivity. }
  pose proof (at_len _ _ _ H1) as [Hlen1 _]. rewrite app_length in Hlen1.
  rewrite (checksum_fwd body s 1 _ 0 (dc ++ rest) H1 Hb42); [|lia]. cbn [bind].
  fold (xor_all body).
  destruct (Z.eqb_spec cs (xor_all body mod 256)) as [Ecs|_]; [|left; reflexivity].
  right. exists (dp1 ++ dp2), dt, ds, dd, dc, rest, (Z.to_nat (n / 2)).
  unfold shaped. rewrite <- Hbody.
  split. { rewrite Hs. rewrite <- app_assoc. reflexivity. }
  split; [exact Hxp|]. split; [rewrite app_length; lia|].
  split; [exact Hxt|]. split; [lia|]. split; [exact Hxs|]. split; [lia|].
  split; [exact Hxd|]. split; [exact Hld|]. split; [lia|].
  split; [exact Hxc|]. split; [lia|]. congruence.
Qed.
(* ---------- 1. safety ---------- *)
Theorem import_safe : import_safe_stmt.
Proof.
  intros s _.
  destruct (import_cases s) as [E|(dp & dt & ds & dd & dc & rest & k & Hsh)].
  - rewrite E. split; discriminate.
  - destruct Hsh as (-> & Hxp & Hlp & Hxt & Hlt & Hxs & Hls & Hxd & Hld & Hk & Hxc & Hlc & Hcs).
    rewrite (import_complete dp dt ds dd dc rest k) by assumption. split; discriminate.
Qed.

(* ---------- 4. soundness ---------- *)
Theorem import_sound : import_sound_stmt.
Proof.
  intros s m _ Him.
  destruct (import_cases s) as [E|(dp & dt & ds & dd & dc & rest & k & Hsh)]; [congruence|].
  destruct Hsh as (-> & Hxp & Hlp & Hxt & Hlt & Hxs & Hls & Hxd & Hld & Hk & Hxc & Hlc & Hcs).
  rewrite (import_complete dp dt ds dd dc rest k) in Him by assumption.
  injection Him as <-. cbn [pgn ts src data].
  exists dp, dt, ds, dd, dc, rest. rewrite (bytes_of_length k dd Hld).
  repeat (split; [first [assumption|reflexivity]|]). assumption.
Qed.

(* ---------- export ---------- *)
Lemma hex_be_length n : forall v, length (hex_be n v) = (2*n)%nat.
Proof.
  induction n as [|n IH]; intros v; cbn [hex_be]; [reflexivity|].
  rewrite app_length, IH. cbn [hex_byte length]. lia.
Qed.

Lemma flat_hex_length l : length (flat_map hex_byte l) = (2 * length l)%nat.
Proof.
  induction l as [|b l IH]; [reflexivity|].
  cbn [flat_map]. rewrite app_length, IH. cbn [hex_byte length]. lia.
Qed.

Lemma sentence_length m : Z.of_nat (length (sentence m)) = 29 + 2 * Z.of_nat (length (data m)).
Proof.
  unfold sentence, sentence_body. rewrite !app_length, !hex_be_length, flat_hex_length.
  cbn [pcdin hex_byte length]. lia.
Qed.

Theorem export_size : export_size_stmt.
Proof.
  intros m size n. subst n. split; [apply sentence_length|].
  unfold export.
  destruct (Z.ltb_spec size (30 + 2 * Z.of_nat (length (data m)))) as [Hlt|Hge]; [reflexivity|].
  rewrite app_length, Nat2Z.inj_add, sentence_length. cbn [length].
  destruct (Z.leb_spec (29 + 2 * Z.of_nat (length (data m)) + Z.of_nat 1) size) as [_|Hgt]; [|lia].
  do 2 f_equal. lia.
Qed.

(* ---------- 3. round trip ---------- *)
Lemma hexdigit_x v : 0 <= v < 16 -> is_xdigit (hexdigit v) = true.
Proof.
  intros Hv. apply is_xdigit_iff. unfold hexdigit. destruct (Z.ltb_spec v 10); lia.
Qed.

Lemma hexval_hexdigit v : 0 <= v < 16 -> hexval (hexdigit v) = v.
Proof.
  intros Hv. unfold hexval, hexdigit. destruct (Z.ltb_spec v 10).
  - destruct (Z.leb_spec (48 + v) 57); lia.
  - destruct (Z.leb_spec (55 + v) 57); [lia|]. destruct (Z.leb_spec (55 + v) 70); lia.
Qed.

Lemma hex_byte_x b : xdigits (hex_byte b).
Proof. unfold hex_byte. repeat constructor; apply hexdigit_x; lia. Qed.

Lemma hex_byte_value b acc : hexvalue (hex_byte b) acc = acc * 256 + b mod 256.
Proof.
  unfold hex_byte. cbn [hexvalue]. rewrite !hexval_hexdigit by lia. lia.
Qed.

Lemma hex_be_x n : forall v, xdigits (hex_be n v).
Proof.
  induction n as [|n IH]; intros v; cbn [hex_be]; [constructor|].
  apply Forall_app. split; [apply IH|apply hex_byte_x].
Qed.

Lemma hex_be_value n : forall v acc,
  hexvalue (hex_be n v) acc = acc * 256 ^ Z.of_nat n + v mod 256 ^ Z.of_nat n.
Proof.
  induction n as [|n IH]; intros v acc; cbn [hex_be].
  - cbn [hexvalue]. change (256 ^ Z.of_nat 0) with 1. rewrite Z.mod_1_r. lia.
  - rewrite hexvalue_app, IH, hex_byte_value.
    rewrite Nat2Z.inj_succ, Z.pow_succ_r by lia.
    assert (Hpos : 0 < 256 ^ Z.of_nat n) by (apply Z.pow_pos_nonneg; lia).
    rewrite (Z.rem_mul_r v 256 (256 ^ Z.of_nat n)) by lia.
    rewrite Z.mod_mod by lia. ring.
Qed.

Lemma flat_hex_x l : xdigits (flat_map hex_byte l).
Proof.
  induction l as [|b l IH]; cbn [flat_map]; [constructor|].
  apply Forall_app. split; [apply hex_byte_x|exact IH].
Qed.

Lemma bytes_of_flat l : Forall (fun b => 0 <= b < 256) l -> bytes_of (flat_map hex_byte l) = l.
Proof.
  induction l as [|b l IH]; intros Hl; [reflexivity|].
  pose proof (Forall_inv Hl) as Hb. pose proof (Forall_inv_tail Hl) as Hl'. cbn beta in Hb.
  cbn [flat_map hex_byte app bytes_of]. rewrite (IH Hl'), !hexval_hexdigit by lia.
  f_equal. lia.
Qed.

Lemma xdigits_cstring l : xdigits l -> cstring l.
Proof. intros H. eapply Forall_impl; [|exact H]. cbn beta. intros c Hc. apply xdigit_nz in Hc. tauto. Qed.

Lemma sentence_shape m :
  sentence m = pcdin ++ hex_be 3 (pgn m) ++ [44] ++ hex_be 4 (ts m) ++ [44] ++ hex_be 1 (src m) ++ [44] ++
               flat_map hex_byte (data m) ++ [42] ++ hex_byte (xor_all (tl (sentence_body m)) mod 256) ++ [].
Proof.
  unfold sentence. rewrite app_nil_r. generalize (hex_byte (xor_all (tl (sentence_body m)) mod 256)). intros c.
  unfold sentence_body. repeat (rewrite <- app_assoc; cbn [app]). reflexivity.
Qed.

Theorem import_export : import_export_stmt.
Proof.
  intros m (Hpgn & Hts & Hsrc & Hdata & Hlen).
  split.
  - rewrite sentence_shape. unfold cstring.
    repeat (apply Forall_app; split);
      try (apply xdigits_cstring; first [apply hex_be_x|apply flat_hex_x|apply hex_byte_x]);
      try (repeat constructor; discriminate).
  - rewrite sentence_shape.
    rewrite (import_complete _ _ _ _ _ _ (length (data m))).
    + rewrite !hex_be_value, bytes_of_flat by exact Hdata.
      change (256 ^ Z.of_nat 3) with 16777216. change (256 ^ Z.of_nat 4) with 4294967296.
      change (256 ^ Z.of_nat 1) with 256.
      change (2 ^ 24) with 16777216 in Hpgn. change (2 ^ 32) with 4294967296 in Hts.
      rewrite !Z.mod_small by lia. destruct m; reflexivity.
    + apply hex_be_x.
    + apply hex_be_length.
    + apply hex_be_x.
    + apply hex_be_length.
    + apply hex_be_x.
    + apply hex_be_length.
    + apply flat_hex_x.
    + apply flat_hex_length.
    + exact Hlen.
    + apply hex_byte_x.
    + reflexivity.
    + rewrite hex_byte_value. rewrite Z.mod_mod by lia. reflexivity.
Qed.

Print Assumptions import_safe.
Print Assumptions export_size.
Print Assumptions import_export.
Print Assumptions import_sound.
